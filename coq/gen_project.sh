#!/bin/sh
# Regenerates _CoqProject from project.d/*.txt (one list of .v files per property group).
cd "$(dirname "$0")"
{ echo "-Q theories JR"; cat project.d/*.txt | grep -v '^#' | grep -v '^$' | awk '!seen[$0]++'; } > _CoqProject.new
if ! cmp -s _CoqProject.new _CoqProject; then mv _CoqProject.new _CoqProject; else rm _CoqProject.new; fi
