(** Property C17 — wire framing is exact and body reassembly is independent of chunking.
    Statements only; each is closed by [exact] and followed by [Print Assumptions]. *)
From JR Require Import Wire WireProofs.
Local Open Scope N_scope.

(** the concrete UTF-8 codec round-trips every string of Unicode scalar values *)
Theorem C17_utf8_roundtrip : forall s : text,
  forallb is_scalar s = true -> utf8_dec (utf8_enc s) = Ok s.
Proof. exact utf8_roundtrip. Qed.
Print Assumptions C17_utf8_roundtrip.

Theorem C17_to_from_bytes : forall (s : text) (b : bytes),
  to_bytes (PStr s) = Ok b -> from_bytes (PBytes b) = Ok s.
Proof. exact to_from_bytes. Qed.
Print Assumptions C17_to_from_bytes.

(** client request: whatever custom headers are pushed, the header block carries exactly one
    Content-Length, the decimal byte length of the bytes sent ([to_bytes body]), and exactly one
    Content-Type, the configured one *)
Theorem C17_content_length_client : forall ct ua custom body hs b,
  send_content ct ua custom body = Ok (hs, b) ->
  to_bytes body = Ok b
  /\ hdr_values "content-length" hs = [str_of_N (blen b)]
  /\ N_of_str (str_of_N (blen b)) = Some (blen b)
  /\ hdr_values "content-type" hs = [ct].
Proof. exact send_content_framing. Qed.
Print Assumptions C17_content_length_client.

(** server reply (the framing step shared by the 200 and the 500 path) *)
Theorem C17_content_length_server : forall status ct response r,
  reply_of status ct response = Ok r ->
  to_bytes (PStr response) = Ok (rp_body r)
  /\ hdr_values "content-length" (rp_headers r) = [str_of_N (blen (rp_body r))]
  /\ N_of_str (str_of_N (blen (rp_body r))) = Some (blen (rp_body r))
  /\ hdr_values "content-type" (rp_headers r) = [ct].
Proof. exact reply_framing. Qed.
Print Assumptions C17_content_length_server.

(** every reply do_POST emits, whatever was read and whatever the dispatcher did *)
Theorem C17_content_length_do_post : forall M ct clen f dispatch fault seen r,
  do_post M ct clen f dispatch fault = (seen, Ok r) ->
  hdr_values "content-length" (rp_headers r) = [str_of_N (blen (rp_body r))]
  /\ hdr_values "content-type" (rp_headers r) = [ct].
Proof. exact do_post_framing. Qed.
Print Assumptions C17_content_length_do_post.

(** CGI reply *)
Theorem C17_content_length_cgi : forall ct response hs b,
  cgi_reply ct response = Ok (hs, b) ->
  to_bytes (PStr response) = Ok b
  /\ hdr_values "content-length" hs = [str_of_N (blen b)]
  /\ N_of_str (str_of_N (blen b)) = Some (blen b)
  /\ hdr_values "content-type" hs = [ct].
Proof. exact cgi_framing. Qed.
Print Assumptions C17_content_length_cgi.

(** request target: path plus query unchanged; "/" for an empty path; "/" plus the query for unix+ URLs *)
Theorem C17_request_target : forall scheme path query tr p,
  proxy_init scheme path query tr = Ok p ->
  request_target p =
  ((if prefixb "unix+" scheme then "/" else if String.eqb path "" then "/" else path)
     ++ (if String.eqb query "" then "" else "?" ++ query))%string.
Proof. exact request_target_spec. Qed.
Print Assumptions C17_request_target.

(** schemes: the accepted ones build a proxy, every other one raises IOError (OSError) at construction *)
Theorem C17_scheme_rejected : forall scheme path query tr,
  (accepted scheme tr = true -> exists p, proxy_init scheme path query tr = Ok p)
  /\ (accepted scheme tr = false -> proxy_init scheme path query tr = Raise EOS).
Proof. exact scheme_acceptance. Qed.
Print Assumptions C17_scheme_rejected.

Theorem C17_accepted_schemes : forall scheme tr,
  accepted scheme tr = true <->
  (scheme = "http" \/ scheme = "https" \/ scheme = "unix+http" \/ (scheme = "unix+https" /\ tr = true))%string.
Proof. exact accepted_iff. Qed.
Print Assumptions C17_accepted_schemes.

(** client reassembly: for every list of chunks fed to the target, close() is the conversion of the whole *)
Theorem C17_client_reassembly : forall chunks : list bytes,
  target_close (fold_left target_feed chunks target_init) = decode_whole (concat chunks).
Proof. exact client_reassembly. Qed.
Print Assumptions C17_client_reassembly.

Theorem C17_client_reassembly_valid : forall (chunks : list bytes) (s : text),
  utf8_dec (concat chunks) = Ok s ->
  target_close (fold_left target_feed chunks target_init) = PStr s.
Proof. exact client_reassembly_valid. Qed.
Print Assumptions C17_client_reassembly_valid.

(** parse_response: the result does not depend on how the body is split into reads *)
Theorem C17_parse_response_chunking : forall sizes sizes' b,
  parse_stream sizes (Ok b) = parse_stream sizes' (Ok b).
Proof. exact parse_stream_independent. Qed.
Print Assumptions C17_parse_response_chunking.

Theorem C17_parse_response_identity : forall gunz sizes b s,
  utf8_dec b = Ok s -> parse_response gunz false sizes b = Ok (PStr s).
Proof. exact identity_decodes. Qed.
Print Assumptions C17_parse_response_identity.

(** gzip responses: for every gzip pair with [gunz (gz b) = Ok b], parsing the encoded response is
    parsing the identity response, for every pair of read scripts *)
Theorem C17_gzip : forall (gz : bytes -> bytes) (gunz : bytes -> res bytes),
  (forall b, gunz (gz b) = Ok b) ->
  forall sizes sizes' b,
    parse_response gunz true sizes (gz b) = parse_response gunz false sizes' b.
Proof. exact gzip_same. Qed.
Print Assumptions C17_gzip.

(** server reassembly (repaired code): for every chunk size M > 0, every body and every script of
    (positive) short-read sizes, the text handed to the dispatcher is the decoding of the whole body *)
Theorem C17_server_reassembly : forall M (s : bytes) caps,
  0 < M -> forallb (fun c => 0 <? c) caps = true ->
  server_body M (blen s) (s, caps) = utf8_dec s.
Proof. exact server_reassembly. Qed.
Print Assumptions C17_server_reassembly.

Theorem C17_server_reassembly_text : forall M (t : text) caps,
  0 < M -> forallb (fun c => 0 <? c) caps = true -> forallb is_scalar t = true ->
  server_body M (blen (utf8_enc t)) (utf8_enc t, caps) = Ok t.
Proof. exact server_reassembly_text. Qed.
Print Assumptions C17_server_reassembly_text.

(** a declared length shorter than the stream (pipelined data follows): exactly the declared bytes *)
Theorem C17_server_reassembly_prefix : forall M clen (s : bytes) caps,
  0 < M -> forallb (fun c => 0 <? c) caps = true -> clen <= blen s ->
  server_body M clen (s, caps) = utf8_dec (takeN clen s).
Proof. exact server_reassembly_prefix. Qed.
Print Assumptions C17_server_reassembly_prefix.

(** any script at all (empty reads, early end of file, M = 0): the loop ends within its fuel and decodes
    a prefix of the stream no longer than the declared length *)
Theorem C17_server_body_total : forall M clen (s : bytes) caps,
  exists n, n <= clen /\ server_body M clen (s, caps) = utf8_dec (takeN n s).
Proof. exact server_body_total. Qed.
Print Assumptions C17_server_body_total.

Theorem C17_do_post_sees_whole : forall M ct (s : bytes) caps dispatch fault,
  0 < M -> forallb (fun c => 0 <? c) caps = true ->
  fst (do_post M ct (blen s) (s, caps) dispatch fault) =
  match utf8_dec s with Ok t => Some t | Raise _ => None end.
Proof. exact do_post_sees. Qed.
Print Assumptions C17_do_post_sees_whole.
