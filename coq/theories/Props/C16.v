(** Property C16 — Future completion protocol (EventData / FutureResult, jsonrpclib/threadpool.py).
    Statements only.  Quantification: EVERY program [c : cfg] (how the task ends; for every
    registrar whether its callback returns, raises or has the wrong arity; for every observer which
    of done() / result(timeout) / result() it calls), any number of registrar and observer threads,
    EVERY schedule [sched : list move] at source-line / synchronisation-operation granularity
    (a timed wait may expire at any moment).  [run_future c sched] is the state after the schedule.

    Reading (DESIGN.md 4/C16): set_callback has set semantics.  A registration is OWED one call iff
    it is the last one that took effect before completion or it took effect after completion, where
    "took effect" is the order in which the registrations and execute() acquire the future's lock
    (ghost fields hpre / hpost / hdone of the model). *)
From Coq Require Import List.
From JR Require Import Sched Future FutureInv FutureTheorems.

(** while the task has not finished: done() is False; nothing but "not done"/"timed out" has been
    observed; a done() made now returns False, a result(timeout) made now raises OSError when its
    timeout expires, a result() made now blocks *)
Theorem C16_not_done_before_finish : forall c sched,
  let s := run_future c sched in
  body_finished s = false ->
  done s = false /\
  (forall j o, oobs s j = Some o -> o = ObsDone false \/ o = ObsTimeout) /\
  (forall j, op s j = O_start ->
     match obsk c j with
     | ODone => exists s1, step c s (Go (TO j)) = Some s1 /\ oobs s1 j = Some (ObsDone false)
     | OResultT => step c s (Go (TO j)) = None /\
                   exists s1 s2, step c s (Fire (TO j)) = Some s1 /\ step c s1 (Go (TO j)) = Some s2 /\
                                 oobs s2 j = Some ObsTimeout
     | OResult => step c s (Go (TO j)) = None /\ step c s (Fire (TO j)) = None
     end).
Proof. exact not_done_before_finish. Qed.
Print Assumptions C16_not_done_before_finish.

(** data before event: once done() can return True the outcome is stored *)
Theorem C16_outcome_visible_when_done : forall c sched,
  let s := run_future c sched in
  done s = true -> data s = out_data (body c) /\ exc s = out_exc (body c).
Proof. exact outcome_visible_when_done. Qed.
Print Assumptions C16_outcome_visible_when_done.

(** every call started once the future is done returns the task's value / raises the task's
    exception object, whatever runs concurrently or later *)
Theorem C16_result_consistent : forall c p q j,
  let s := run_future c p in
  done s = true -> op s j = O_start ->
  forall o, oobs (run (step c) q s) j = Some o -> o = expected_obs c (obsk c j).
Proof. exact result_consistent. Qed.
Print Assumptions C16_result_consistent.

(** and no call ever observes anything else than the final outcome, "not done" or "timed out" *)
Theorem C16_observations_classified : forall c sched j o,
  oobs (run_future c sched) j = Some o ->
  o = expected_obs c (obsk c j) \/ (o = ObsDone false /\ obsk c j = ODone) \/ (o = ObsTimeout /\ obsk c j = OResultT).
Proof. exact observations_classified. Qed.
Print Assumptions C16_observations_classified.

(** when every started execute() / set_callback() has returned: a registration was called exactly
    once if it is owed a call and never otherwise, each call with (result, exception, its own extra) *)
Theorem C16_callback_exactly_once : forall c sched,
  let s := run_future c sched in
  settled s ->
  forall i,
    ncalls s i = (if owed s i then 1 else 0) /\
    (rp s i = R_lock -> owed s i = false) /\
    (forall k, In k (calls s) -> c_cb k = i ->
       c_res k = out_data (body c) /\ c_exc k = out_exc (body c) /\ c_extra k = Some i).
Proof. exact callback_exactly_once. Qed.
Print Assumptions C16_callback_exactly_once.

(** in every intermediate state as well: never twice, never before the outcome is visible *)
Theorem C16_callback_at_most_once : forall c sched i, ncalls (run_future c sched) i <= 1.
Proof. exact callback_at_most_once. Qed.
Print Assumptions C16_callback_at_most_once.

Theorem C16_callback_only_after_done : forall c sched i,
  let s := run_future c sched in
  0 < ncalls s i -> done s = true /\ data s = out_data (body c) /\ exc s = out_exc (body c).
Proof. exact callback_only_after_done. Qed.
Print Assumptions C16_callback_only_after_done.

(** a raising or ill-typed callback is contained: each failure is logged, the stored outcome and
    the way execute() ends are those of the task alone *)
Theorem C16_callback_exception_contained : forall c sched,
  let s := run_future c sched in
  logged s = length (filter (fun k => raises (rkind c (c_cb k))) (calls s)) /\
  (xp s = X_end -> xout s = Some (xcont (body c)) /\ data s = out_data (body c) /\ exc s = out_exc (body c)) /\
  (forall i, rp s i = R_notify \/ rp s i = R_end -> done s = true \/ rcomp s i = false).
Proof. exact callback_exception_contained. Qed.
Print Assumptions C16_callback_exception_contained.
