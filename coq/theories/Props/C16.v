(** placeholder while the proofs are being written *)
From JR Require Import Sched Future.
