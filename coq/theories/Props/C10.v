(** Property C10 — pool concurrency is bounded by max_threads, at least min_threads workers
    serve the queue between start() and stop(), constructor arguments are validated / clamped.
    Statements only.  Same quantification as Props/C09.v.

    Not proved here (see level_note): the growth clause ("a waiting task is started without
    waiting for a running one while fewer than max_threads workers exist"); it is decided on the
    implementation by the oracle (dependent, gate-blocked workloads must not stall) over the
    explored schedules only. *)
From JR Require Import Pool PoolBase PoolInvDefs PoolSafety PoolLifecycle.

Theorem C10_ctor : forall mx mn,
  (pool_ctor mx mn = None <-> mx < 1) /\
  (forall a b, pool_ctor mx mn = Some (a, b) -> a = mx /\ valid_cfg a b /\
               b = (if mn <? 0 then 0 else if mx <? mn then mx else mn)).
Proof. exact ctor_spec. Qed.
Print Assumptions C10_ctor.

(** at every instant: task bodies running <= workers still serving the queue = the thread counter <= max_threads *)
Theorem C10_max_bound : forall mx mn progs sched,
  valid_cfg mx mn ->
  let s := run sched (init mx mn progs) in
  (count in_body (ws s) (next_w s) <= count serving (ws s) (next_w s))%nat /\
  Z.of_nat (count serving (ws s) (next_w s)) = nb_threads s /\ nb_threads s <= mx.
Proof. exact max_bound. Qed.
Print Assumptions C10_max_bound.

(** from the return of start() until stop() is called: at least min_threads workers serve the queue *)
Theorem C10_min_bound : forall mx mn progs sched,
  valid_cfg mx mn ->
  let s := run sched (init mx mn progs) in
  start_done s = true -> mn <= nb_threads s /\ nb_threads s = Z.of_nat (count serving (ws s) (next_w s)).
Proof. exact min_bound. Qed.
Print Assumptions C10_min_bound.
