(** Property C10 — pool concurrency is bounded by max_threads, at least min_threads workers
    serve the queue between start() and stop(), constructor arguments are validated / clamped.
    Statements only.  Same quantification as Props/C09.v.

    The growth clause ("a waiting task is started without waiting for a running one while an idle
    worker exists or fewer than max_threads workers exist") is proved in its safety form
    (C10_growth, C10_growth_at_rest): in every reachable state of a running pool every unfinished
    item has its own worker that will still take an item — up to the threads start() is still
    committed to create and the one thread an enqueue() in flight is about to create — unless
    max_threads workers exist.  That an idle worker blocked in Queue.get is woken by a put is the
    queue's contract (trusted); that the scheduler eventually runs a runnable thread is fairness:
    both are outside the model and are exercised on the implementation by the oracle
    (dependent, gate-blocked workloads must not stall). *)
From JR Require Import Pool PoolBase PoolInvDefs PoolInvE PoolInvG PoolInvH PoolSafety PoolLifecycle PoolGrowth.

Theorem C10_ctor : forall mx mn,
  (pool_ctor mx mn = None <-> mx < 1) /\
  (forall a b, pool_ctor mx mn = Some (a, b) -> a = mx /\ valid_cfg a b /\
               b = (if mn <? 0 then 0 else if mx <? mn then mx else mn)).
Proof. exact ctor_spec. Qed.
Print Assumptions C10_ctor.

(** at every instant: task bodies running <= workers still serving the queue = the thread counter <= max_threads *)
Theorem C10_max_bound : forall mx mn progs sched,
  valid_cfg mx mn ->
  let s := run sched (init mx mn progs) in
  (count in_body (ws s) (next_w s) <= count serving (ws s) (next_w s))%nat /\
  Z.of_nat (count serving (ws s) (next_w s)) = nb_threads s /\ nb_threads s <= mx.
Proof. exact max_bound. Qed.
Print Assumptions C10_max_bound.

(** from the return of start() until stop() is called: at least min_threads workers serve the queue *)
Theorem C10_min_bound : forall mx mn progs sched,
  valid_cfg mx mn ->
  let s := run sched (init mx mn progs) in
  start_done s = true -> mn <= nb_threads s /\ nb_threads s = Z.of_nat (count serving (ws s) (next_w s)).
Proof. exact min_bound. Qed.
Print Assumptions C10_min_bound.

(** growth, every instant of a running pool (outside the two lines of start() between reading the
    backlog and using it): items not finished <= workers that will still take one + threads the
    controller is still committed to create, or max_threads is reached; one less while an
    enqueue() is between its put() and its thread start *)
Theorem C10_growth : forall mx mn progs sched,
  valid_cfg mx mn ->
  let s := run sched (init mx mn progs) in
  stopped s = false -> ctl s <> CSTQsize ->
  let backlog := Z.of_nat (length (q s)) + Z.of_nat (count holding (ws s) (next_w s)) in
  let takers := Z.of_nat (count serving (ws s) (next_w s)) - Z.of_nat (count retiring (ws s) (next_w s)) in
  ((forall c, ewin (cpc (cs s c)) = false) ->
     backlog <= takers + need 0 (ctl s) \/ mx <= nb_threads s + need 0 (ctl s)) /\
  (forall c, ewin (cpc (cs s c)) = true ->
     backlog - 1 <= takers + need 0 (ctl s) \/ mx <= nb_threads s + need 0 (ctl s)).
Proof. exact growth_general. Qed.
Print Assumptions C10_growth.

(** growth at rest (start() has returned, stop() not called, no enqueue() in flight): every queued
    item has its own idle worker, or max_threads workers exist *)
Theorem C10_growth_at_rest : forall mx mn progs sched,
  valid_cfg mx mn ->
  let s := run sched (init mx mn progs) in
  start_done s = true -> (forall c, ewin (cpc (cs s c)) = false) ->
  let idle := Z.of_nat (count serving (ws s) (next_w s)) - Z.of_nat (count retiring (ws s) (next_w s))
              - Z.of_nat (count holding (ws s) (next_w s)) in
  (Z.of_nat (length (q s)) <= idle \/ nb_threads s = mx) /\
  (q s <> [] -> 1 <= nb_threads s).
Proof. exact growth_at_rest. Qed.
Print Assumptions C10_growth_at_rest.

(** the growth clause in the form of DESIGN 4/C10: at rest, a waiting task implies a serving worker outside
    every task body, or max_threads task bodies running *)
Theorem C10_growth_progress : forall mx mn progs sched,
  valid_cfg mx mn ->
  let s := run sched (init mx mn progs) in
  start_done s = true -> (forall c, ewin (cpc (cs s c)) = false) -> q s <> [] ->
  (exists w, (w < next_w s)%nat /\ serving (ws s w) = true /\ in_body (ws s w) = false) \/
  Z.of_nat (count in_body (ws s) (next_w s)) = mx.
Proof. exact growth_progress. Qed.
Print Assumptions C10_growth_progress.
