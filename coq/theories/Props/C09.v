(** Property C09 — the thread pool runs every accepted task at most once, reports it faithfully,
    and runs nothing after stop() has returned.  Statements only.

    Quantification: every pool size accepted by the constructor, every assignment of client
    programs over {start, stop, enqueue, join, join(timeout)} to any number of threads, every
    schedule (a list of (thread, fire-its-timeout?) choices; disabled choices are skipped, so
    every list is a schedule and time-outs may expire at ANY moment, a superset of "at
    quiescent moments").  Model: Model/Pool.v (line granularity, repaired code).

    The liveness half of the statement ("is executed once the pool is running") is proved in its
    safety form only (C09_never_stranded: a queued task of a running pool at rest always has a
    live worker serving the queue); that this worker is eventually scheduled and that Queue.get
    returns a queued item are fairness / the queue's contract, outside the model; it is decided
    on the implementation by the oracle over the explored schedules.  The FIFO clause for a single
    worker is C09_single_worker_fifo (max_threads = 1: the bodies begin in the order of the puts). *)
From JR Require Import Pool PoolBase PoolInvDefs PoolInvE PoolInvG PoolInvH PoolSafety PoolLifecycle PoolGrowth PoolFifo PoolHist.

Theorem C09_at_most_once : forall mx mn progs sched t,
  valid_cfg mx mn -> (tstarts (run sched (init mx mn progs)) t <= 1)%nat.
Proof. exact at_most_once. Qed.
Print Assumptions C09_at_most_once.

Theorem C09_future_done_means_ran_once : forall mx mn progs sched t,
  valid_cfg mx mn ->
  tdone (run sched (init mx mn progs)) t = true -> tstarts (run sched (init mx mn progs)) t = 1%nat.
Proof. exact future_done_means_ran_once. Qed.
Print Assumptions C09_future_done_means_ran_once.

(** no task body begins while stop() has returned and start() has not been called again
    (monitor [late_start]), and in such a state every worker thread has terminated *)
Theorem C09_no_run_after_stop : forall mx mn progs sched,
  valid_cfg mx mn ->
  let s := run sched (init mx mn progs) in
  late_start s = false /\ (stop_done s = true -> forall w, alive (ws s w) = false).
Proof. exact no_run_after_stop. Qed.
Print Assumptions C09_no_run_after_stop.

(** every accepted task is in the queue, held by a worker, done, or was dropped by stop()'s clear():
    nothing is lost silently *)
Theorem C09_every_task_accounted_for : forall mx mn progs sched,
  valid_cfg mx mn ->
  let s := run sched (init mx mn progs) in
  forall t, (t < next_task s)%nat ->
  (1 <= qocc t (q s) + count (holds_any t) (ws s) (next_w s) + b2n (settled s t))%nat.
Proof. intros mx mn progs sched Hv s. exact (i_place _ (reachable_inv1 mx mn progs sched Hv)). Qed.
Print Assumptions C09_every_task_accounted_for.

(** between the return of start() and the call of stop(), with no enqueue() in flight, a non-empty
    queue always has at least one worker thread serving it (counted in nb_threads = workers that may
    still take an item): an accepted task is never left in a running pool without a worker *)
Theorem C09_never_stranded : forall mx mn progs sched,
  valid_cfg mx mn ->
  let s := run sched (init mx mn progs) in
  start_done s = true -> (forall c, ewin (cpc (cs s c)) = false) -> q s <> [] ->
  1 <= nb_threads s /\ nb_threads s = Z.of_nat (count serving (ws s) (next_w s)).
Proof.
  intros mx mn progs sched Hv s Hsd Hall Hq. split.
  - exact (proj2 (growth_at_rest mx mn progs sched Hv Hsd Hall) Hq).
  - exact (i_nb _ (reachable_inv1 mx mn progs sched Hv)).
Qed.
Print Assumptions C09_never_stranded.

(** with a single worker allowed (max_threads = 1) task bodies begin in submission order: tasks are numbered
    in the order of their put, [start_log] lists the tasks whose body began, most recent first ([desc]:
    every element is greater than all that follow it), and it records every begin (second theorem) *)
Theorem C09_single_worker_fifo : forall mn progs sched,
  valid_cfg 1 mn -> desc (start_log (run sched (init 1 mn progs))).
Proof. exact single_worker_fifo. Qed.
Print Assumptions C09_single_worker_fifo.

Theorem C09_start_log_records_every_begin : forall mx mn progs sched t,
  count_occ Nat.eq_dec (start_log (run sched (init mx mn progs))) t = tstarts (run sched (init mx mn progs)) t.
Proof. exact start_log_counts. Qed.
Print Assumptions C09_start_log_records_every_begin.
