(** Property C09 — the thread pool runs every accepted task at most once, reports it faithfully,
    and runs nothing after stop() has returned.  Statements only.

    Quantification: every pool size accepted by the constructor, every assignment of client
    programs over {start, stop, enqueue, join, join(timeout)} to any number of threads, every
    schedule (a list of (thread, fire-its-timeout?) choices; disabled choices are skipped, so
    every list is a schedule and time-outs may expire at ANY moment, a superset of "at
    quiescent moments").  Model: Model/Pool.v (line granularity, repaired code).

    Not proved here (see level_note): the liveness half of the statement ("is executed once
    the pool is running") and the FIFO clause for a single worker; both are decided on the
    implementation by the oracle over the explored schedules only. *)
From JR Require Import Pool PoolBase PoolInvDefs PoolSafety PoolLifecycle PoolHist.

Theorem C09_at_most_once : forall mx mn progs sched t,
  valid_cfg mx mn -> (tstarts (run sched (init mx mn progs)) t <= 1)%nat.
Proof. exact at_most_once. Qed.
Print Assumptions C09_at_most_once.

Theorem C09_future_done_means_ran_once : forall mx mn progs sched t,
  valid_cfg mx mn ->
  tdone (run sched (init mx mn progs)) t = true -> tstarts (run sched (init mx mn progs)) t = 1%nat.
Proof. exact future_done_means_ran_once. Qed.
Print Assumptions C09_future_done_means_ran_once.

(** no task body begins while stop() has returned and start() has not been called again
    (monitor [late_start]), and in such a state every worker thread has terminated *)
Theorem C09_no_run_after_stop : forall mx mn progs sched,
  valid_cfg mx mn ->
  let s := run sched (init mx mn progs) in
  late_start s = false /\ (stop_done s = true -> forall w, alive (ws s w) = false).
Proof. exact no_run_after_stop. Qed.
Print Assumptions C09_no_run_after_stop.

(** every accepted task is in the queue, held by a worker, done, or was dropped by stop()'s clear():
    nothing is lost silently *)
Theorem C09_every_task_accounted_for : forall mx mn progs sched,
  valid_cfg mx mn ->
  let s := run sched (init mx mn progs) in
  forall t, (t < next_task s)%nat ->
  (1 <= qocc t (q s) + count (holds_any t) (ws s) (next_w s) + b2n (settled s t))%nat.
Proof. intros mx mn progs sched Hv s. exact (i_place _ (reachable_inv1 mx mn progs sched Hv)). Qed.
Print Assumptions C09_every_task_accounted_for.
