(** Property C18 — custom headers compose by recency and are restored after a block.
    Statements only; each is closed by [exact] and followed by [Print Assumptions].

    Vocabulary (Model/Headers.v, Proofs/HeadersProofs.v):
      [layers extra st]      the base layer (Authorization from the URL's user-info, or nothing) followed by the
                             stack [st] of pushed dictionaries in push order (constructor headers first);
      [last_defining ls n]   the most recently pushed dictionary of [ls] with a name that lower-cases to [n];
      [variants_in h n]      the values [h] gives to the case variants of [n] (several only if [h] itself holds variants);
      [emit_pure ostr extra st]  the lines emit_additional_headers puts on the connection; [emit] = the same, refusing non-ASCII names;
      [pystr ostr v]         str(v) (ints, bools, None, strings concrete; [ostr] = str() of any other object, arbitrary);
      [key_is n] / [line_is n]   lines named exactly [n] / named [n] up to letter case;
      [run ops s]            the transport stack driven by enter / leave (normal or exceptional) / request events. *)
From JR Require Import Headers HeadersProofs.

(** every defined, non-protected name is carried exactly once, with the str() of a value of the MOST RECENT
    dictionary that defines it (any letter case) — for every stack, of any depth *)
Theorem C18_recency : forall (ostr : val -> str) extra st n h,
  is_readonly n = false -> last_defining (layers extra st) n = Some h ->
  exists v, In v (variants_in h n) /\ filter (key_is n) (emit_pure ostr extra st) = [(n, pystr ostr v)].
Proof. exact recency. Qed.
Print Assumptions C18_recency.

(** nothing else is emitted: every line is lower-case, not protected, and is the most recent definition of its name
    (so a superseded value never appears) *)
Theorem C18_nothing_else : forall (ostr : val -> str) extra st k v,
  In (k, v) (emit_pure ostr extra st) ->
  is_readonly k = false /\ ascii_lower k = k /\
  exists h, last_defining (layers extra st) k = Some h /\ exists v', In v' (variants_in h k) /\ v = pystr ostr v'.
Proof. exact nothing_else. Qed.
Print Assumptions C18_nothing_else.

Theorem C18_no_duplicate_names : forall (ostr : val -> str) extra st, NoDup (map fst (emit_pure ostr extra st)).
Proof. exact emit_NoDup. Qed.
Print Assumptions C18_no_duplicate_names.

Theorem C18_undefined_not_emitted : forall (ostr : val -> str) extra st n,
  last_defining (layers extra st) n = None -> filter (key_is n) (emit_pure ostr extra st) = [].
Proof. exact undefined_not_emitted. Qed.
Print Assumptions C18_undefined_not_emitted.

(** exactly one Content-Type (the configured one) and one Content-Length (the byte length of the body) whatever the
    stack contains; User-Agent is the configured one unless some case variant is pushed, then the most recent one *)
Theorem C18_fixed_headers : forall (ostr : val -> str) ct ua body extra st l,
  send_content_headers ostr ct ua body extra st = Ok l ->
  filter (line_is "content-type") l = [("Content-Type", ct)] /\
  filter (line_is "content-length") l = [("Content-Length", content_length body)] /\
  (last_defining (layers extra st) "user-agent" = None -> filter (line_is "user-agent") l = [("User-Agent", ua)]) /\
  (forall h, last_defining (layers extra st) "user-agent" = Some h ->
     exists v, In v (variants_in h "user-agent") /\ filter (line_is "user-agent") l = [("user-agent", pystr ostr v)]).
Proof. exact fixed_headers. Qed.
Print Assumptions C18_fixed_headers.

(** the complete list of header lines of a request (ASCII names) *)
Theorem C18_request_lines : forall (ostr : val -> str) ct ua body extra st,
  names_ascii (layers extra st) = true ->
  request_headers ostr ct ua body extra st =
  Ok ([("Accept-Encoding", "gzip"); ("Content-Type", ct); ("Content-Length", content_length body)]
      ++ emit_pure ostr extra st
      ++ (if has_key (emit_pure ostr extra st) "user-agent" then [] else [("User-Agent", ua)]))%list.
Proof. exact request_lines. Qed.
Print Assumptions C18_request_lines.

(** leaving a block, normally or through an exception, restores the stack; the body may be any balanced sequence
    of nested blocks and requests *)
Theorem C18_block_restores : forall st h body o,
  open_after body [] = [] ->
  run (OEnter h :: body ++ [OLeave o]) (mkH st []) = Ok (mkH st []).
Proof. exact block_restores. Qed.
Print Assumptions C18_block_restores.

(** after ANY sequence of enter / leave / request events the stack is the initial one followed by the dictionaries
    of the blocks still open, outermost first; pop's assertion never fails *)
Theorem C18_nested_blocks : forall ops st0,
  run ops (mkH st0 []) = Ok (mkH (st0 ++ rev (open_after ops [])) (open_after ops [])).
Proof. exact nested_blocks. Qed.
Print Assumptions C18_nested_blocks.

Theorem C18_balanced_restores : forall ops st0,
  open_after ops [] = [] -> run ops (mkH st0 []) = Ok (mkH st0 []).
Proof. exact balanced_restores. Qed.
Print Assumptions C18_balanced_restores.

(** push then pop of the same dictionary is the identity *)
Theorem C18_pop_push : forall st h, pop_headers (push_headers st h) h = Ok st.
Proof. exact pop_push. Qed.
Print Assumptions C18_pop_push.
