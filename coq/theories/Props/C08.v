(** Property C08 — class translation is inert when disabled and validates names before importing.
    Statements only; each is closed by [exact] and followed by [Print Assumptions].
    The event log of [jc_load_m] records every call of __import__ ([EvImport]) and every call of a
    resolved class ([EvConstruct]); [dec] is the JSON backend, [dispatch] the rest of the dispatcher
    (arbitrary). *)
From JR Require Import JsonClass JsonClassC08Proofs.

(** use_jsonclass off: jsonrpc.load returns its argument, writes nothing, imports and constructs nothing *)
Theorem C08_inert_load : forall V E cfg v,
  cf_use cfg = false -> rpc_load V E cfg v = (Ok v, v, []).
Proof. exact inert_load. Qed.
Print Assumptions C08_inert_load.

(** ... so jsonrpc.loads is plain JSON decoding ("__jsonclass__" members pass through verbatim) *)
Theorem C08_inert_loads : forall (dec : str -> res val) V E cfg data,
  cf_use cfg = false ->
  rpc_loads dec V E cfg data = (if String.eqb data "" then Ok VNone else dec data, []).
Proof. exact inert_loads. Qed.
Print Assumptions C08_inert_loads.

(** dump side: parameters / results are passed through unchanged *)
Theorem C08_inert_dump : forall hfun V E cfg params,
  cf_use cfg = false -> rpc_dump_params hfun V E cfg params = Ok params.
Proof. exact inert_dump. Qed.
Print Assumptions C08_inert_dump.

(** an otherwise well-formed descriptor whose class name is empty (or any other falsy value) or a
    string with a character outside [a-zA-Z0-9_.]: TranslationError, the dict untouched, no event *)
Theorem C08_invalid_name_rejected : forall V E cl m jc name params,
  dget m "__jsonclass__" = Some jc -> descriptor_shape jc = Some (name, params) ->
  name_ok name = false -> (is_string name = true \/ truthy name = false) ->
  jc_load_m V E cl (VDict m) = (Raise ETranslation, VDict m, []).
Proof. exact invalid_name_rejected. Qed.
Print Assumptions C08_invalid_name_rejected.

(** descriptors of any type and length: unless element 0 exists and is an acceptable name, load
    raises with the dict untouched and no event *)
Theorem C08_malformed_rejected : forall V E cl m jc,
  dget m "__jsonclass__" = Some jc ->
  (forall name, py_getitem jc (VInt 0) = Ok name -> name_ok name = false) ->
  exists e, jc_load_m V E cl (VDict m) = (Raise e, VDict m, []).
Proof. exact malformed_rejected. Qed.
Print Assumptions C08_malformed_rejected.

(** conversely: an import or a construction for a descriptor happens only after its name was accepted *)
Theorem C08_events_need_valid_name : forall E cl m jc name r ev,
  dget m "__jsonclass__" = Some jc -> py_getitem jc (VInt 0) = Ok name ->
  descriptor_head E cl m = (r, ev) -> ev <> [] -> name_ok name = true.
Proof. exact events_need_valid_name. Qed.
Print Assumptions C08_events_need_valid_name.

(** at any depth of lists / tuples / sets / dicts: when the members visited before it load, the
    rejection is the outcome of the whole load and the only events are those of the earlier members *)
Theorem C08_reject_at_depth : forall E cl fs x e,
  forallb (frame_ok fixed E cl) fs = true -> lres_val (jc_load_m fixed E cl x) = Raise e ->
  lres_val (jc_load_m fixed E cl (plugs fs x)) = Raise e /\
  lres_events (jc_load_m fixed E cl (plugs fs x)) =
    (flat_map (frame_events fixed E cl) fs ++ lres_events (jc_load_m fixed E cl x))%list.
Proof. exact reject_at_depth. Qed.
Print Assumptions C08_reject_at_depth.

(** any payload the translator (or the parser) rejects: the reply is the -32700 object, nothing is dispatched *)
Theorem C08_server_32700 : forall (dec : str -> res val) (call : Type) (dispatch : val -> val * list call)
                                  V E cfg v2 data e ev,
  rpc_loads dec V E cfg data = (Raise e, ev) ->
  marshaled_dispatch dec call dispatch V E cfg v2 data = (parse_error_reply v2, [], ev).
Proof. exact server_32700. Qed.
Print Assumptions C08_server_32700.

Theorem C08_server_reply_shape : forall v2,
  exists m em, parse_error_reply v2 = VDict m /\ dget m "error" = Some (VDict em) /\
               dget em "code" = Some (VInt (-32700)) /\ dget m "id" = Some VNone.
Proof. exact parse_error_reply_code. Qed.
Print Assumptions C08_server_reply_shape.

Theorem C08_translator_rejection_reaches_server : forall (dec : str -> res val) V E cfg data v e,
  String.eqb data "" = false -> dec data = Ok v -> cf_use cfg = true -> v <> VNone ->
  lres_val (jc_load_m V E (cf_classes cfg) v) = Raise e ->
  rpc_loads dec V E cfg data = (Raise e, lres_events (jc_load_m V E (cf_classes cfg) v)).
Proof. exact loads_raises. Qed.
Print Assumptions C08_translator_rejection_reaches_server.
