(** Property C14 — the message construction API emits exactly the members each version requires.
    Statements only; each is closed by [exact] and followed by [Print Assumptions].

    Vocabulary (Model/Payload.v, Proofs/PayloadProofs.v):
      [dump jc fresh dv cfg params method rpcid version is_response is_notify n] = Ok (message, n') | Raise e
         jc = jsonclass.dump, fresh = the id supply (k-th uuid), dv = DEFAULT.version, n / n' = ids generated before / after;
      [listed_version v]: v is None, 1.0, 2.0, "1.0" or "2.0";  [listed_config_version]: 1.0 or 2.0;
      [version_number cfg v]: 1 or 2, from the spelling or (for None) from the configuration;
      [default_params]: params None becomes [] for non-responses;  [translated jc cfg p]: p, through jsonclass.dump when enabled;
      [id_used fresh i n] = (i, n) unless i is a falsy non-number, then (fresh n, n+1). *)
From JR Require Import Payload PayloadProofs.

(** a 2.0 request: "id", "method", "params" only when non-empty, "jsonrpc":"2.0" — and nothing else *)
Theorem C14_request_v2 : forall (fresh : nat -> str) (jc : val -> res val) dv cfg version,
  listed_version version = true -> listed_config_version (pc_version cfg) = true ->
  forall pv m rpcid resp notify n p',
  version_number cfg version = 2 ->
  is_string m = true -> truthy resp = false -> truthy notify = false ->
  valid_params false (PVal (default_params resp pv)) = true ->
  translated jc cfg (default_params resp pv) = Ok p' ->
  dump jc fresh dv cfg (PVal pv) m rpcid version resp notify n =
  Ok (VDict ([(VStr "id", fst (id_used fresh rpcid n)); (VStr "method", m)]
             ++ (if truthy p' then [(VStr "params", p')] else [])
             ++ [(VStr "jsonrpc", VStr "2.0")])%list, snd (id_used fresh rpcid n)).
Proof. exact request_v2. Qed.
Print Assumptions C14_request_v2.

(** a 1.0 request: always "params" (an empty list when empty), no "jsonrpc" *)
Theorem C14_request_v1 : forall (fresh : nat -> str) (jc : val -> res val) dv cfg version,
  listed_version version = true -> listed_config_version (pc_version cfg) = true ->
  forall pv m rpcid resp notify n p',
  version_number cfg version = 1 ->
  is_string m = true -> truthy resp = false -> truthy notify = false ->
  valid_params false (PVal (default_params resp pv)) = true ->
  translated jc cfg (default_params resp pv) = Ok p' ->
  dump jc fresh dv cfg (PVal pv) m rpcid version resp notify n =
  Ok (VDict [(VStr "id", fst (id_used fresh rpcid n)); (VStr "method", m);
             (VStr "params", if truthy p' then p' else VList [])], snd (id_used fresh rpcid n)).
Proof. exact request_v1. Qed.
Print Assumptions C14_request_v1.

(** a 2.0 notification has no "id" *)
Theorem C14_notification_v2 : forall (fresh : nat -> str) (jc : val -> res val) dv cfg version,
  listed_version version = true -> listed_config_version (pc_version cfg) = true ->
  forall pv m rpcid resp notify n p',
  version_number cfg version = 2 ->
  is_string m = true -> truthy resp = false -> truthy notify = true ->
  valid_params false (PVal (default_params resp pv)) = true ->
  translated jc cfg (default_params resp pv) = Ok p' ->
  dump jc fresh dv cfg (PVal pv) m rpcid version resp notify n =
  Ok (VDict ([(VStr "method", m)] ++ (if truthy p' then [(VStr "params", p')] else [])
             ++ [(VStr "jsonrpc", VStr "2.0")])%list, snd (id_used fresh rpcid n))
  /\ dget ([(VStr "method", m)] ++ (if truthy p' then [(VStr "params", p')] else [])
           ++ [(VStr "jsonrpc", VStr "2.0")])%list "id" = None.
Proof. exact notification_v2. Qed.
Print Assumptions C14_notification_v2.

(** a 1.0 notification has "id": null *)
Theorem C14_notification_v1 : forall (fresh : nat -> str) (jc : val -> res val) dv cfg version,
  listed_version version = true -> listed_config_version (pc_version cfg) = true ->
  forall pv m rpcid resp notify n p',
  version_number cfg version = 1 ->
  is_string m = true -> truthy resp = false -> truthy notify = true ->
  valid_params false (PVal (default_params resp pv)) = true ->
  translated jc cfg (default_params resp pv) = Ok p' ->
  dump jc fresh dv cfg (PVal pv) m rpcid version resp notify n =
  Ok (VDict [(VStr "id", VNone); (VStr "method", m); (VStr "params", if truthy p' then p' else VList [])],
      snd (id_used fresh rpcid n)).
Proof. exact notification_v1. Qed.
Print Assumptions C14_notification_v1.

(** the same closed forms for EVERY usable version value r (not only the five spellings):
    params iff non-empty or r < 1.1; jsonrpc = str(r) iff r >= 2 *)
Theorem C14_request_any_version : forall (fresh : nat -> str) (jc : val -> res val) dv cfg pv m rpcid version resp notify n r s p',
  is_string m = true -> truthy resp = false -> truthy notify = false ->
  valid_params false (PVal (default_params resp pv)) = true ->
  resolved_version dv cfg version = Ok r -> (ge2 r = true -> float_str r = Ok s) ->
  translated jc cfg (default_params resp pv) = Ok p' ->
  dump jc fresh dv cfg (PVal pv) m rpcid version resp notify n =
  Ok (VDict ([(VStr "id", fst (id_used fresh rpcid n)); (VStr "method", m)]
             ++ (if truthy p' || lt11 r then [(VStr "params", if truthy p' then p' else VList [])] else [])
             ++ (if ge2 r then [(VStr "jsonrpc", VStr s)] else []))%list, snd (id_used fresh rpcid n)).
Proof. exact dump_request_spec. Qed.
Print Assumptions C14_request_any_version.

Theorem C14_notification_any_version : forall (fresh : nat -> str) (jc : val -> res val) dv cfg pv m rpcid version resp notify n r s p',
  is_string m = true -> truthy resp = false -> truthy notify = true ->
  valid_params false (PVal (default_params resp pv)) = true ->
  resolved_version dv cfg version = Ok r -> (ge2 r = true -> float_str r = Ok s) ->
  translated jc cfg (default_params resp pv) = Ok p' ->
  dump jc fresh dv cfg (PVal pv) m rpcid version resp notify n =
  Ok (VDict (notify_members r s m p'), snd (id_used fresh rpcid n)).
Proof. exact dump_notify_spec. Qed.
Print Assumptions C14_notification_any_version.

(** a caller-supplied id — any non-empty string, any int or float including 0, 0.0, -0.0 — is used verbatim *)
Theorem C14_id_verbatim : forall (fresh : nat -> str) (jc : val -> res val) dv cfg pv m rpcid version resp notify n d n',
  (is_number rpcid || (is_string rpcid && truthy rpcid)) = true ->
  truthy resp = false -> truthy notify = false ->
  dump jc fresh dv cfg (PVal pv) m rpcid version resp notify n = Ok (VDict d, n') ->
  dget d "id" = Some rpcid /\ n' = n.
Proof. exact id_verbatim. Qed.
Print Assumptions C14_id_verbatim.

(** otherwise (None, "", False, empty containers) the next fresh id is generated *)
Theorem C14_id_fresh : forall (fresh : nat -> str) (jc : val -> res val) dv cfg pv m rpcid version resp notify n d n',
  (negb (truthy rpcid) && negb (is_number rpcid)) = true ->
  truthy resp = false -> truthy notify = false ->
  dump jc fresh dv cfg (PVal pv) m rpcid version resp notify n = Ok (VDict d, n') ->
  dget d "id" = Some (VStr (fresh n)) /\ n' = S n.
Proof. exact id_fresh. Qed.
Print Assumptions C14_id_fresh.

(** the two classes above and "truthy, neither string nor number" (left unconstrained) cover every id value *)
Theorem C14_id_classes : forall i,
  (is_number i || (is_string i && truthy i)) = true \/ (negb (truthy i) && negb (is_number i)) = true \/
  (truthy i = true /\ is_number i = false /\ is_string i = false).
Proof. exact id_classes. Qed.
Print Assumptions C14_id_classes.

(** generated ids are unique per call: over ANY sequence of dump calls the generated string ids are pairwise distinct *)
Theorem C14_generated_ids_distinct : forall (fresh : nat -> str) (jc : val -> res val),
  (forall a b, fresh a = fresh b -> a = b) ->
  forall dv (cs : list call) n, NoDup (filter is_string (fst (run_calls fresh jc dv cs n))).
Proof. exact generated_ids_distinct. Qed.
Print Assumptions C14_generated_ids_distinct.

Theorem C14_generated_ids_nonempty : forall (fresh : nat -> str) (jc : val -> res val),
  (forall a b, fresh a = fresh b -> a = b) -> (forall n, fresh n <> "") ->
  forall dv (cs : list call) n i, In i (fst (run_calls fresh jc dv cs n)) -> i <> VStr "".
Proof. exact generated_ids_nonempty. Qed.
Print Assumptions C14_generated_ids_nonempty.

(** a result response carries exactly result, id and the version marker (2.0) / error: null (1.0) *)
Theorem C14_response_members : forall (fresh : nat -> str) (jc : val -> res val) dv cfg version,
  listed_version version = true -> listed_config_version (pc_version cfg) = true ->
  forall pv m rpcid resp notify n p',
  truthy resp = true -> rpcid <> VNone ->
  (is_string m = true -> valid_params true (PVal pv) = true) ->
  translated jc cfg pv = Ok p' ->
  dump jc fresh dv cfg (PVal pv) m rpcid version resp notify n =
  Ok (VDict (if version_number cfg version =? 2
             then [(VStr "result", p'); (VStr "id", rpcid); (VStr "jsonrpc", VStr "2.0")]
             else [(VStr "result", p'); (VStr "id", rpcid); (VStr "error", VNone)]), n).
Proof. exact response_listed. Qed.
Print Assumptions C14_response_members.

(** a result response requires an id: ValueError, no message *)
Theorem C14_response_requires_id : forall (fresh : nat -> str) (jc : val -> res val) dv cfg pv m version resp notify n r p',
  truthy resp = true ->
  (is_string m = true -> valid_params true (PVal pv) = true) ->
  resolved_version dv cfg version = Ok r -> translated jc cfg pv = Ok p' ->
  dump jc fresh dv cfg (PVal pv) m VNone version resp notify n = Raise EValue.
Proof. exact reject_response_without_id. Qed.
Print Assumptions C14_response_requires_id.

(** an error response carries the Fault's code, message and (when not None) data; whatever the flags and the method are *)
Theorem C14_error_members : forall (fresh : nat -> str) (jc : val -> res val) dv cfg version,
  listed_version version = true -> listed_config_version (pc_version cfg) = true ->
  forall c ms d m rpcid resp notify n,
  dump jc fresh dv cfg (PFault c ms d) m rpcid version resp notify n =
  Ok (VDict (if version_number cfg version =? 2
             then [(VStr "id", rpcid); (VStr "jsonrpc", VStr "2.0"); (VStr "error", error_object c ms d)]
             else [(VStr "result", VNone); (VStr "id", rpcid); (VStr "error", error_object c ms d)]), n).
Proof. exact error_listed. Qed.
Print Assumptions C14_error_members.

Theorem C14_error_object : forall c m d,
  exists e, error_object c m d = VDict e /\
    dget e "code" = Some c /\ dget e "message" = Some m /\
    (d <> VNone -> dget e "data" = Some d /\ map fst e = [VStr "code"; VStr "message"; VStr "data"]) /\
    (d = VNone -> dget e "data" = None /\ map fst e = [VStr "code"; VStr "message"]).
Proof. exact error_object_members. Qed.
Print Assumptions C14_error_object.

(** Fault.dump: the forced id replaces the Fault's own only when truthy (the [if rpcid:] of the code), and is stored *)
Theorem C14_fault_dump : forall dv f rpcid version r s,
  resolved_version dv (f_cfg f) (if truthy version then version else pc_version (f_cfg f)) = Ok r ->
  (ge2 r = true -> float_str r = Ok s) ->
  fault_dump dv f rpcid version =
  (Ok (VDict (error_members r s (if truthy rpcid then rpcid else f_rpcid f) (f_code f) (f_msg f) (f_data f))),
   fault_set_rpcid f rpcid).
Proof. exact fault_dump_spec. Qed.
Print Assumptions C14_fault_dump.

(** invalid argument combinations *)
Theorem C14_reject_non_container_params : forall (fresh : nat -> str) (jc : val -> res val) dv cfg pv m rpcid version resp notify n,
  is_string m = true -> valid_params (truthy resp) (PVal (default_params resp pv)) = false ->
  dump jc fresh dv cfg (PVal pv) m rpcid version resp notify n = Raise EType.
Proof. exact reject_params. Qed.
Print Assumptions C14_reject_non_container_params.

Theorem C14_reject_non_string_method : forall (fresh : nat -> str) (jc : val -> res val) dv cfg pv m rpcid version resp notify n r,
  is_string m = false -> truthy resp = false ->
  resolved_version dv cfg version = Ok r ->
  dump jc fresh dv cfg (PVal pv) m rpcid version resp notify n = Raise EValue.
Proof. exact reject_method. Qed.
Print Assumptions C14_reject_non_string_method.

(** ... never emit a message, for every value of the remaining arguments *)
Theorem C14_rejections_never_emit : forall (fresh : nat -> str) (jc : val -> res val) dv cfg pv m rpcid version resp notify n,
  ((negb (is_string m) && negb (truthy resp))
   || (is_string m && negb (valid_params (truthy resp) (PVal (default_params resp pv))))
   || (truthy resp && match rpcid with VNone => true | _ => false end)) = true ->
  exists e, dump jc fresh dv cfg (PVal pv) m rpcid version resp notify n = Raise e.
Proof. exact invalid_never_emits. Qed.
Print Assumptions C14_rejections_never_emit.

(** ... and raise TypeError or ValueError (when the version is usable and the class translation does not fail first) *)
Theorem C14_rejections : forall (fresh : nat -> str) (jc : val -> res val) dv cfg pv m rpcid version resp notify n r p',
  invalid_combination pv m rpcid resp = true ->
  resolved_version dv cfg version = Ok r -> translated jc cfg (default_params resp pv) = Ok p' ->
  dump jc fresh dv cfg (PVal pv) m rpcid version resp notify n = Raise EType \/
  dump jc fresh dv cfg (PVal pv) m rpcid version resp notify n = Raise EValue.
Proof. exact invalid_raises_type_or_value. Qed.
Print Assumptions C14_rejections.

(** dumps is the encoded dump; loads inverts it up to JSON normalisation; loads("") is None *)
Theorem C14_dumps_is_encoded_dump : forall (fresh : nat -> str) (jc : val -> res val) (text : Type) (enc : val -> res text)
    dv cfg p m resp rpcid version notify n,
  dumps jc fresh enc dv cfg p m resp rpcid version notify n =
  (do dn <- dump jc fresh dv cfg p m rpcid version resp notify n; do t <- enc (fst dn); Ok (t, snd dn)).
Proof. exact dumps_is_encoded_dump. Qed.
Print Assumptions C14_dumps_is_encoded_dump.

Theorem C14_loads_dumps : forall (fresh : nat -> str) (jc : val -> res val) (text : Type) (is_empty : text -> bool)
    (enc : val -> res text) (dec : text -> res val) (jl : val -> res val),
  (forall v, json_ok v = true -> exists t, enc v = Ok t /\ is_empty t = false /\ dec t = Ok (norm v)) ->
  forall dv cfg cfg' p m resp rpcid version notify n d n',
  dump jc fresh dv cfg p m rpcid version resp notify n = Ok (d, n') ->
  json_ok d = true ->
  (pc_jsonclass cfg' = false \/ jl (norm d) = Ok (norm d)) ->
  exists t, dumps jc fresh enc dv cfg p m resp rpcid version notify n = Ok (t, n')
            /\ loads is_empty dec jl cfg' t = Ok (norm d).
Proof. exact loads_dumps. Qed.
Print Assumptions C14_loads_dumps.

Theorem C14_loads_empty : forall (text : Type) (is_empty : text -> bool) (dec : text -> res val) (jl : val -> res val) cfg' t,
  is_empty t = true -> loads is_empty dec jl cfg' t = Ok VNone.
Proof. exact (@loads_empty). Qed.
Print Assumptions C14_loads_empty.
