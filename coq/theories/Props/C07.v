(** Property C07 — objects survive dump/load wherever they occur, for every supported class shape.
    Statements only; each is closed by [exact] and followed by [Print Assumptions].

    [E] is an arbitrary class table (attribute-dict, slotted, inherited, serialisation-method classes,
    enums, Decimal; module-qualified or local), [cf_classes cfg] the configuration's local class table,
    [supported] the computable domain predicate of Model/JsonClass.v (see its comment), [normi] the
    normalisation "tuples and sets become lists" applied also inside instances.  [fixed] is the
    repaired code (F4: `classes` forwarded into lists and dicts; F15: private slot names); the pinned
    variants are refuted in Examples/C07_examples.v. *)
From JR Require Import JsonClass JsonClassC07Proofs JsonClassFieldsProofs.

(** load(dump(v)) is v (same classes, same field names, equal values) up to tuples/sets becoming
    lists — for every supported object graph: beans at the top, in lists / tuples / dict values, at any
    depth, and inside the containers held by fields of other beans (nested induction over [val]) *)
Theorem C07_roundtrip : forall hfun E cfg sm ia v,
  no_handlers cfg = true -> supported E (cf_classes cfg) sm ia v = true ->
  exists d, jc_dump hfun fixed E cfg sm ia [] v = Ok d /\
            lres_val (jc_load_m fixed E (cf_classes cfg) d) = Ok (normi v).
Proof. exact c07_roundtrip. Qed.
Print Assumptions C07_roundtrip.

(** an instance comes back as an instance of the same class with the same field names *)
Theorem C07_same_class : forall hfun E cfg sm ia c fs,
  no_handlers cfg = true -> supported E (cf_classes cfg) sm ia (VInst c fs) = true ->
  exists d fs', jc_dump hfun fixed E cfg sm ia [] (VInst c fs) = Ok d /\
                lres_val (jc_load_m fixed E (cf_classes cfg) d) = Ok (VInst c fs') /\
                map fst fs' = map fst fs.
Proof. exact c07_same_class. Qed.
Print Assumptions C07_same_class.

(** identically when the object travels as a parameter or as a result of a remote call: through the
    use_jsonclass gates of jsonrpc.dump and jsonrpc.load with the configured names (the JSON text in
    between is the codec hypothesis of C01: the identity on the JSON values dump produces) *)
Theorem C07_rpc : forall hfun E cfg v,
  cf_use cfg = true -> no_handlers cfg = true ->
  supported E (cf_classes cfg) (norm_name None (cf_ser cfg)) (norm_name None (cf_ign cfg)) v = true ->
  exists d, rpc_dump_params hfun fixed E cfg v = Ok d /\
            lres_val (rpc_load fixed E cfg d) = Ok (normi v).
Proof. exact c07_rpc. Qed.
Print Assumptions C07_rpc.

(** the "reload" conjunct of [supported] holds for every instance that carries the attributes of its
    constructor first (whatever their values) and no attribute name twice: constructing the class anew
    and assigning all attributes gives the attribute map back *)
Theorem C07_wf_instance_reloads : forall init head tail,
  map fst init = map fst head -> nodup_str (map fst (head ++ tail)) = true ->
  fset_all init (head ++ tail) = (head ++ tail)%list.
Proof. exact reload_of_wf_instance. Qed.
Print Assumptions C07_wf_instance_reloads.

(** on plain data [normi] is the [norm] of C15 *)
Theorem C07_normi_plain : forall v, plain v = true -> normi v = norm v.
Proof. exact normi_plain. Qed.
Print Assumptions C07_normi_plain.
