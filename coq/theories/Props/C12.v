(** Property C12 — servers isolate concurrent clients and always shut down cleanly.
    Statements only; each is closed by [exact] and followed by [Print Assumptions].

    Part 1 (isolation) is about the handler-level model of Model/Server.v: one do_POST handler per
    accepted connection, interleaved under EVERY schedule (list of connection numbers), for EVERY number
    of connections, EVERY pool size and EVERY dispatcher that is a function of the request text.
    Part 2 (lifecycle) is about the lifecycle machine with socketserver's shutdown protocol as a
    modelled component, for EVERY API-legal history and EVERY schedule of the four kinds of threads. *)
From JR Require Import Server ServerProofs.
From Coq Require Import Arith.
Local Open Scope nat_scope.

(** a step of the handler of connection c changes only the state owned by connection c
    (and never what the client sent) *)
Theorem C12_handler_footprint :
  forall (eff : Type) (dispatch : string -> dres * list eff) (fault500 page404 : string)
         (pool : nat) (s : hstate eff) (c : nat) (s' : hstate eff),
  step dispatch fault500 page404 pool s c = Some s' ->
  length s' = length s
  /\ (forall c', c' <> c -> nth_error s' c' = nth_error s c')
  /\ (forall cn cn', nth_error s c = Some cn -> nth_error s' c = Some cn' -> c_req cn' = c_req cn).
Proof. exact handler_footprint. Qed.
Print Assumptions C12_handler_footprint.

(** for every schedule: what was written back on connection c is the reply to the request of c;
    the dispatcher ran for it exactly once (not at all when the request never reaches it: bad path,
    unusable Content-Length), with exactly the invocations that request causes *)
Theorem C12_no_crosstalk :
  forall (eff : Type) (dispatch : string -> dres * list eff) (fault500 page404 : string)
         (reqs : list request) (pool : nat) (sched : list nat) (c : nat) (cn : conn eff),
  nth_error (run dispatch fault500 page404 pool sched (init reqs)) c = Some cn -> c_pc cn = HDone ->
  exists r, nth_error reqs c = Some r
            /\ c_wfile cn = Some (reply_of dispatch fault500 page404 r)
            /\ c_calls cn = (if dispatched r then 1 else 0)
            /\ c_effects cn = effects_of dispatch r.
Proof. exact no_crosstalk. Qed.
Print Assumptions C12_no_crosstalk.

(** at every moment of every schedule the dispatcher has been entered at most once per connection
    (pool abstracted as "each enqueued handler is run by one worker, once": the hypothesis C09 discharges
    for ThreadPool) *)
Theorem C12_exactly_once_per_request :
  forall (eff : Type) (dispatch : string -> dres * list eff) (fault500 page404 : string)
         (reqs : list request) (pool : nat) (sched : list nat) (c : nat) (cn : conn eff),
  nth_error (run dispatch fault500 page404 pool sched (init reqs)) c = Some cn -> c_calls cn <= 1.
Proof. exact at_most_once. Qed.
Print Assumptions C12_exactly_once_per_request.

(** the outcome on connection c does not depend on what the other connections sent (malformed, failing,
    slow), on how many they are, on the pool size, or on the schedule *)
Theorem C12_fault_isolation :
  forall (eff : Type) (dispatch : string -> dres * list eff) (fault500 page404 : string)
         (reqs reqs' : list request) (pool pool' : nat) (sched sched' : list nat) (c : nat) (cn cn' : conn eff),
  nth_error reqs c = nth_error reqs' c ->
  nth_error (run dispatch fault500 page404 pool sched (init reqs)) c = Some cn -> c_pc cn = HDone ->
  nth_error (run dispatch fault500 page404 pool' sched' (init reqs')) c = Some cn' -> c_pc cn' = HDone ->
  c_wfile cn = c_wfile cn' /\ c_calls cn = c_calls cn' /\ c_effects cn = c_effects cn'.
Proof. exact fault_isolation. Qed.
Print Assumptions C12_fault_isolation.

(** service continues: with at least one worker, as long as a connection is unanswered some handler can
    move, and every move brings that handler strictly closer to its end (ranking form) *)
Theorem C12_handlers_progress :
  forall (eff : Type) (dispatch : string -> dres * list eff) (fault500 page404 : string) (pool : nat) (s : hstate eff),
  1 <= pool ->
  (exists c cn, nth_error s c = Some cn /\ c_pc cn <> HDone) ->
  exists c s', step dispatch fault500 page404 pool s c = Some s'.
Proof. exact handlers_progress. Qed.
Print Assumptions C12_handlers_progress.

Theorem C12_handler_step_ranks :
  forall (eff : Type) (dispatch : string -> dres * list eff) (fault500 page404 : string)
         (pool : nat) (s : hstate eff) (c : nat) (s' : hstate eff),
  step dispatch fault500 page404 pool s c = Some s' ->
  exists cn cn', nth_error s c = Some cn /\ nth_error s' c = Some cn' /\ rank (c_pc cn') < rank (c_pc cn).
Proof. exact step_rank. Qed.
Print Assumptions C12_handler_step_ranks.

(** no call of a legal history blocks forever, ranking form: in every reachable state in which a call has
    not returned, some thread — the caller, the serving loop, an in-flight handler, a pool worker — can
    move, and every move of every thread decreases [lmeasure].  Hence every maximal run is finite and ends
    with all calls returned, provided enabled threads are eventually scheduled (in-flight handlers finish). *)
Theorem C12_close_terminates :
  forall (k : kind) (h : list op) (sched : list actor),
  legal k h = true ->
  let s := lrun k sched (linit h) in
  (main_finished s = false -> exists a s', lstep k s a = Some s')
  /\ (forall a s', lstep k s a = Some s' -> lmeasure s' < lmeasure s).
Proof. exact close_terminates. Qed.
Print Assumptions C12_close_terminates.

(** executable corollary: the fair executor used by the correspondence stage returns from every call *)
Theorem C12_all_calls_return :
  forall (k : kind) (h : list op), legal k h = true ->
  main_finished (lexec serving_flag (S (lmeasure (linit h))) k (linit h)) = true.
Proof. exact all_calls_return. Qed.
Print Assumptions C12_all_calls_return.

(** after ServerClose has returned: the listening socket is closed, the serving thread has left its loop and,
    for the pooled server, the pool is stopped and none of its workers is alive *)
Theorem C12_closed_state :
  forall (k : kind) (h : list op) (sched : list actor),
  legal k h = true ->
  let s := lrun k sched (linit h) in
  close_returned s = true ->
  socket_open s = false /\ loop_running s = false
  /\ (is_pooled k = true -> pool_running s = false /\ idle s + in_flight s = 0).
Proof. exact closed_state. Qed.
Print Assumptions C12_closed_state.
