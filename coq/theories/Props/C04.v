(** Property C04 — notifications are executed exactly once and never answered (dispatcher side).
    Statements only.  A notification = a well-formed request whose id is absent, null or ""
    ([is_notification_entry]); "executed once" = the log of the entry is the log of ONE
    execution of the dispatch target ([run_target]); the theorems below say what that log is. *)
From JR Require Import Client Payload Dispatch DispatchProofs DispatchTheorems DispatchBridge.

(** inline: no response object — whether the target returns, returns a Fault or raises — and the
    entry's invocation log is exactly one execution of the target *)
Theorem C04_inline : forall body sigs srvf srv dm e m s,
  e = VDict m -> is_notification_entry e = true -> method_of e = Some s -> sv_pool srv = false ->
  answer_entry body sigs srvf srv dm e
  = (None, snd (run_target body sigs (sv_reg srv) dm s (params_of e))).
Proof. exact notification_inline. Qed.
Print Assumptions C04_inline.

(** pooled: no response object, nothing runs on the request thread, exactly one task is enqueued *)
Theorem C04_pooled_enqueued_once : forall body sigs srvf srv dm e m s,
  e = VDict m -> is_notification_entry e = true -> method_of e = Some s -> sv_pool srv = true ->
  answer_entry body sigs srvf srv dm e
  = (None, [EvEnqueue dm s (params_of e)
                      (match dm with Some _ => None | None => Some (request_form srvf m) end)]).
Proof. exact notification_pooled. Qed.
Print Assumptions C04_pooled_enqueued_once.

(** executing that task once is one execution of the dispatch target (that the pool executes every
    accepted task exactly once, under every schedule, is property C09) *)
Theorem C04_pooled_executed_once_partial : forall body sigs reg dm s p cfg,
  drain body sigs reg [EvEnqueue dm s p cfg] = snd (run_target body sigs reg dm s p).
Proof. exact drain_enqueued. Qed.
Print Assumptions C04_pooled_executed_once_partial.

(** one execution of the target: a custom dispatch function is entered exactly once … *)
Theorem C04_custom_once : forall body sigs reg d s p,
  snd (run_target body sigs reg (Some d) s p) = [EvCall d (dispatch_args s p)].
Proof. exact target_custom_once. Qed.
Print Assumptions C04_custom_once.

(** … a registered function exactly once when the arguments bind, not at all otherwise … *)
Theorem C04_function_once : forall body sigs reg s p c,
  lookup s (r_funcs reg) = Some c ->
  snd (run_target body sigs reg None s p) = if call_binds (sigs c) p then [EvCall c p] else [].
Proof. exact target_function_once. Qed.
Print Assumptions C04_function_once.

(** … and an unknown method runs nothing *)
Theorem C04_unknown_runs_nothing : forall body sigs reg s p,
  lookup s (r_funcs reg) = None -> r_instance reg = None ->
  run_target body sigs reg None s p = unknown_method s.
Proof. exact target_unknown_nothing. Qed.
Print Assumptions C04_unknown_runs_nothing.

(** at every batch position: the log of a batch is the concatenation of its entries' logs,
    and notifications contribute no response (C03_batch_one_to_one) *)
Theorem C04_batch_log : forall body sigs srvf srv dm entries,
  snd (batch body sigs srvf srv dm entries)
  = flat_map (fun e => snd (answer_entry body sigs srvf srv dm e)) entries.
Proof. exact batch_log. Qed.
Print Assumptions C04_batch_log.

(** whatever the registry and the dispatch function: one execution of the target enters nothing,
    one callable once, or a declining instance-level _dispatch once followed by the resolved
    function once — never a callable twice *)
Theorem C04_target_log_shape : forall body sigs reg dm s p,
  let log := snd (run_target body sigs reg dm s p) in
  log = [] \/ (exists c a, log = [EvCall c a])
  \/ (exists d c, log = [EvCall d (dispatch_args s p); EvCall c p]).
Proof. exact target_log_shape. Qed.
Print Assumptions C04_target_log_shape.

(** a notification arriving alone is answered by the empty body … *)
Theorem C04_alone_empty_body : forall body sigs srvf srv dm e,
  is_notification_entry e = true ->
  exists log, marshaled_dispatch body sigs srvf srv dm (PValue e) = Ok (REmpty, log).
Proof. exact notification_alone_empty_body. Qed.
Print Assumptions C04_alone_empty_body.

(** … which the client turns into None: _run_request returns None for an empty reply and
    check_for_errors(None) passes (C06 client model); _request_notify returns nothing *)
Theorem C04_client_notify_none : check_for_errors VNone = Ok VNone.
Proof. reflexivity. Qed.
Print Assumptions C04_client_notify_none.

(** what the client's Payload.notify builds (C14 message-construction model, versions 1.0 and
    2.0, any id the caller passed) IS a notification for the dispatcher, with the same method
    and parameters *)
Theorem C04_client_notify_is_notification : forall fresh f i method params n req p' n',
  String.eqb method "" = false -> is_param_container params = true ->
  payload_notify fresh (mkPayload i (rat_ver f)) (VStr method) params n = Ok (req, p', n') ->
  is_notification_entry req = true /\ method_of req = Some method
  /\ (truthy params = true -> params_of req = params).
Proof. exact client_notify_is_notification. Qed.
Print Assumptions C04_client_notify_is_notification.
