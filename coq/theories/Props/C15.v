(** Property C15 — jsonclass round-trips plain data and is side-effect free.
    Statements only; each is closed by [exact] and followed by [Print Assumptions].

    [fixed] is the repaired code (finding F9: the restore of "__jsonclass__" happens in a finally
    clause); the pinned variant is refuted in Examples/C15_examples.v.
    dump's purity needs no theorem: the model's dump has no argument state because the code contains
    no write to the argument; on the implementation it is decided by deep snapshot comparison. *)
From JR Require Import JsonClass JsonClassProofs.

(** dump of any nesting of lists, tuples, sets, frozensets, dicts and primitives succeeds and is made
    of dicts, lists and primitives only — for every config without serialize handlers, every spelling
    of the configured names and every ignore list *)
Theorem C15_dump_plain : forall hfun E cfg sm ia ign v,
  no_handlers cfg = true -> plain v = true ->
  exists d, jc_dump hfun fixed E cfg sm ia ign v = Ok d /\ json_shape d = true.
Proof. exact dump_plain. Qed.
Print Assumptions C15_dump_plain.

(** with string keys the result is JSON ... *)
Theorem C15_dump_serialisable : forall hfun E cfg sm ia ign v,
  no_handlers cfg = true -> plain v = true -> str_keys v = true ->
  exists d, jc_dump hfun fixed E cfg sm ia ign v = Ok d /\ is_json d = true.
Proof. exact dump_serialisable. Qed.
Print Assumptions C15_dump_serialisable.

(** ... hence accepted by every backend that serialises JSON values *)
Theorem C15_backend_accepts : forall (enc : val -> res str) hfun E cfg sm ia ign v,
  (forall w, is_json w = true -> exists t, enc w = Ok t) ->
  no_handlers cfg = true -> plain v = true -> str_keys v = true ->
  exists d t, jc_dump hfun fixed E cfg sm ia ign v = Ok d /\ enc d = Ok t.
Proof. exact backend_accepts. Qed.
Print Assumptions C15_backend_accepts.

(** load (dump v) is v up to container normalisation — whatever class table or local classes are
    around; load also leaves the dumped structure exactly as it was and imports / constructs nothing *)
Theorem C15_roundtrip : forall hfun E cfg sm ia ign v d cl,
  no_handlers cfg = true -> plain v = true -> no_descriptor v = true ->
  jc_dump hfun fixed E cfg sm ia ign v = Ok d ->
  jc_load_m fixed E cl d = (Ok (norm v), d, []).
Proof. exact roundtrip. Qed.
Print Assumptions C15_roundtrip.

(** every primitive comes back with its constructor and value (bool stays bool, int stays int,
    -0.0 stays -0.0 ...): the leaves of the reloaded value are literally the leaves of the original *)
Theorem C15_primitive_exact : forall hfun E cfg sm ia ign v cl,
  no_handlers cfg = true -> plain v = true -> no_descriptor v = true ->
  exists d l, jc_dump hfun fixed E cfg sm ia ign v = Ok d /\ lres_val (jc_load_m fixed E cl d) = Ok l /\
              leaves l = leaves v /\ forallb is_prim (leaves v) = true.
Proof. exact primitive_exact. Qed.
Print Assumptions C15_primitive_exact.

Theorem C15_norm_keeps_leaves : forall v, leaves (norm v) = leaves v.
Proof. exact norm_leaves. Qed.
Print Assumptions C15_norm_keeps_leaves.

(** load never modifies the object it is given — for EVERY value (descriptors well-formed or not),
    every class table and local table, whether load succeeds or fails: the argument as the caller
    finds it afterwards equals the original up to the position of the "__jsonclass__" entry inside
    its dicts, i.e. it is == to the original *)
Theorem C15_load_pure : forall E v cl,
  canon (lres_arg (jc_load_m fixed E cl v)) = canon v.
Proof. exact load_pure. Qed.
Print Assumptions C15_load_pure.
