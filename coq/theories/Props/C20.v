(** Property C20 — placeholder while the proofs are being written. *)
From JR Require Import JsonClass.
