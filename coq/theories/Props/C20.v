(** Property C20 — serialisation customisation is honoured at every depth.
    Statements only; each is closed by [exact] and followed by [Print Assumptions].

    [hfun h obj] is what the handler with id [h] returns — an arbitrary function; [cf_handlers cfg] is
    Config.serialize_handlers keyed by exact type; [reaches] (Model/JsonClass.v) lists the positions
    dump traverses; [occurs o out] says that [o] sits in [out] below list items / dict values. *)
From JR Require Import JsonClass JsonClassC20Proofs.

(** a handler registered for exactly type(v) is used before any built-in handling; its return value
    (or its exception) is dump's, verbatim — for primitives, containers and beans alike *)
Theorem C20_handler_verbatim : forall hfun V E cfg sm ia ign v h,
  handler_for cfg (type_of v) = Some h -> jc_dump hfun V E cfg sm ia ign v = hfun h v.
Proof. exact handler_verbatim. Qed.
Print Assumptions C20_handler_verbatim.

(** ... at any nesting depth: wherever dump reaches y, the handler for type(y) produces what is emitted there *)
Theorem C20_handler_every_depth : forall hfun V E cfg sm ia ign v y h out,
  reaches E cfg sm ia ign v y -> handler_for cfg (type_of y) = Some h ->
  jc_dump hfun V E cfg sm ia ign v = Ok out ->
  exists o, hfun h y = Ok o /\ occurs o out.
Proof. exact handler_every_depth. Qed.
Print Assumptions C20_handler_every_depth.

(** config, names and the ignore argument are forwarded on every recursive dump: whatever sits at a
    traversed position is dumped by the same function with the same arguments *)
Theorem C20_traversed_dumped : forall hfun V E cfg sm ia ign v y,
  reaches E cfg sm ia ign v y ->
  forall out, jc_dump hfun V E cfg sm ia ign v = Ok out ->
  exists o, jc_dump hfun V E cfg sm ia ign y = Ok o /\ occurs o out.
Proof. exact traversed_dumped. Qed.
Print Assumptions C20_traversed_dumped.

(** exact type only: the handler applied to an object of type t is an entry under t itself ... *)
Theorem C20_exact_type_only : forall cfg t h,
  handler_for cfg t = Some h -> In (t, Some h) (cf_handlers cfg).
Proof. exact handler_exact_type. Qed.
Print Assumptions C20_exact_type_only.

(** ... and without such an entry no handler is applied, whatever is registered for other types
    (base classes, int for a bool, ...) *)
Theorem C20_no_entry_no_handler : forall cfg t,
  (forall h, ~ In (t, Some h) (cf_handlers cfg)) -> handler_for cfg t = None.
Proof. exact no_entry_no_handler. Qed.
Print Assumptions C20_no_entry_no_handler.

(** attributes named in the object's ignore list or in the ignore argument never appear in its dumped form *)
Theorem C20_ignored_never_dumped : forall hfun V E cfg sm ia ign c fields d out n,
  handler_for cfg (TClass c) = None -> find_class (e_ctab E) c = Some d ->
  flookup sm fields = None -> mro_find (e_ctab E) c (ser_pred sm) = None ->
  jc_dump hfun V E cfg sm ia ign (VInst c fields) = Ok out ->
  n <> "__jsonclass__" ->
  (forall ignl, ignore_list E ia ign c fields = Ok ignl -> name_ignored n ignl = true) ->
  exists m, out = VDict m /\ dhas m n = false.
Proof. exact ignored_never_dumped. Qed.
Print Assumptions C20_ignored_never_dumped.

Theorem C20_ignore_argument_never_dumped : forall hfun V E cfg sm ia ign c fields d out n,
  handler_for cfg (TClass c) = None -> find_class (e_ctab E) c = Some d ->
  flookup sm fields = None -> mro_find (e_ctab E) c (ser_pred sm) = None ->
  jc_dump hfun V E cfg sm ia ign (VInst c fields) = Ok out ->
  n <> "__jsonclass__" -> In (VStr n) ign ->
  exists m, out = VDict m /\ dhas m n = false.
Proof. exact ignore_argument_never_dumped. Qed.
Print Assumptions C20_ignore_argument_never_dumped.

(** fields of neither a supported nor a handled type are omitted, not a failure: every key of the
    dumped form (other than "__jsonclass__") is a field whose value passed the type test, and only
    those values are handed to dump *)
Theorem C20_unsupported_omitted : forall hfun V E cfg sm ia ign c fields d out n y,
  handler_for cfg (TClass c) = None -> find_class (e_ctab E) c = Some d ->
  flookup sm fields = None -> mro_find (e_ctab E) c (ser_pred sm) = None ->
  jc_dump hfun V E cfg sm ia ign (VInst c fields) = Ok out ->
  n <> "__jsonclass__" ->
  (exists m, out = VDict m /\ dget m n = Some y) ->
  exists x, In (n, x) fields /\ known_type E cfg x = true /\ jc_dump hfun V E cfg sm ia ign x = Ok y.
Proof. exact only_known_fields_dumped. Qed.
Print Assumptions C20_unsupported_omitted.

(** a field that passes the tests IS dumped, under its name *)
Theorem C20_kept_field_emitted : forall hfun V E cfg sm ia ign c fields d ignl n x out,
  handler_for cfg (TClass c) = None -> find_class (e_ctab E) c = Some d ->
  flookup sm fields = None -> mro_find (e_ctab E) c (ser_pred sm) = None ->
  ignore_list E ia ign c fields = Ok ignl ->
  nodup_str (map fst fields) = true -> n <> "__jsonclass__" ->
  In (n, x) fields -> field_kept E cfg ignl (n, x) = true ->
  jc_dump hfun V E cfg sm ia ign (VInst c fields) = Ok out ->
  exists o m, jc_dump hfun V E cfg sm ia ign x = Ok o /\ out = VDict m /\ dget m n = Some o.
Proof. exact field_emitted. Qed.
Print Assumptions C20_kept_field_emitted.

(** the names consulted: the explicit argument when given and non-empty, the Config's otherwise ... *)
Theorem C20_configured_names : forall cfg arg,
  norm_name arg (cf_ser cfg) = match arg with Some s => if String.eqb s "" then cf_ser cfg else s | None => cf_ser cfg end.
Proof. exact configured_names. Qed.
Print Assumptions C20_configured_names.

(** ... the method of exactly that name decides the form (its (params, attrs) verbatim) ... *)
Theorem C20_method_consulted : forall hfun V E cfg sm ia ign c fields d ds,
  handler_for cfg (TClass c) = None -> find_class (e_ctab E) c = Some d -> flookup sm fields = None ->
  mro_find (e_ctab E) c (ser_pred sm) = Some ds ->
  jc_dump hfun V E cfg sm ia ign (VInst c fields) =
  do pa <- serialize_call ds fields;
  Ok (descriptor_dict (VStr (dump_name d)) (fst pa) (map (fun kx => (VStr (fst kx), snd kx)) (snd pa))).
Proof. exact method_consulted. Qed.
Print Assumptions C20_method_consulted.

Theorem C20_method_has_configured_name : forall E c sm ds,
  mro_find (e_ctab E) c (ser_pred sm) = Some ds -> c_ser_name ds = sm /\ sm <> "".
Proof. exact method_has_configured_name. Qed.
Print Assumptions C20_method_has_configured_name.

(** ... and the ignore list read is the attribute of exactly the configured name, no other spelling *)
Theorem C20_ignore_attribute_has_configured_name : forall E c ia d,
  mro_find (e_ctab E) c (ign_pred ia) = Some d -> exists x, c_ign d = Some (ia, x).
Proof. exact ignore_class_has_configured_name. Qed.
Print Assumptions C20_ignore_attribute_has_configured_name.
