(** Property C06 — the client never swallows or mistypes a server-reported error.
    Statements only; each is closed by [exact] and followed by [Print Assumptions]. *)
From JR Require Import Client ClientProofs.

(** every reply with a non-empty error raises ProtocolError (or its subclass AppError):
    never a value, never another exception type *)
Theorem C06_error_raises_protocol : forall m e,
  envelope_ok m = true -> dget m "error" = Some e -> truthy e = true ->
  exists x, check_for_errors (VDict m) = Raise x /\ is_protocol_error x = true.
Proof. exact error_raises_protocol. Qed.
Print Assumptions C06_error_raises_protocol.

(** numeric codes within [-32700, -32000]: plain ProtocolError((code, message)) *)
Theorem C06_predefined_range : forall m em c,
  envelope_ok m = true -> dget m "error" = Some (VDict em) -> truthy (VDict em) = true ->
  dget em "code" = Some c -> is_numeric c = true -> in_reserved_range c = true ->
  check_for_errors (VDict m) = Raise (EProtocol (VTuple [c; error_message em])).
Proof. exact predefined_range. Qed.
Print Assumptions C06_predefined_range.

(** every other code, numeric or not: AppError((code, message, data)), data() exposes data *)
Theorem C06_application_code : forall m em c,
  envelope_ok m = true -> dget m "error" = Some (VDict em) -> truthy (VDict em) = true ->
  dget em "code" = Some c -> (is_numeric c && in_reserved_range c) = false ->
  check_for_errors (VDict m) = Raise (EApp (VTuple [c; error_message em; error_data em]))
  /\ app_error_data (EApp (VTuple [c; error_message em; error_data em])) = Some (error_data em).
Proof. exact application_code. Qed.
Print Assumptions C06_application_code.

(** the range test is the interval of the statement *)
Theorem C06_range_is_interval : forall z,
  in_reserved_range (VInt z) = true <-> (-32700 <= z <= -32000).
Proof. exact in_reserved_range_int. Qed.
Print Assumptions C06_range_is_interval.

Theorem C06_range_is_interval_float : forall n d,
  in_reserved_range (VFlt (F n d)) = true <-> (-32700 * Zpos d <= n <= -32000 * Zpos d).
Proof. exact in_reserved_range_flt. Qed.
Print Assumptions C06_range_is_interval_float.

(** foreign error shapes *)
Theorem C06_codeless_single_entry : forall m k v,
  envelope_ok m = true -> dget m "error" = Some (VDict [(k, v)]) ->
  dget [(k, v)] "code" = None ->
  check_for_errors (VDict m) = Raise (EProtocol v).
Proof. exact codeless_single_entry. Qed.
Print Assumptions C06_codeless_single_entry.

Theorem C06_codeless_object : forall m em,
  envelope_ok m = true -> dget m "error" = Some (VDict em) -> truthy (VDict em) = true ->
  dget em "code" = None -> length em <> 1%nat ->
  check_for_errors (VDict m) = Raise (EProtocol (VDict em)).
Proof. exact codeless_object. Qed.
Print Assumptions C06_codeless_object.

Theorem C06_non_object_error : forall m e,
  envelope_ok m = true -> dget m "error" = Some e -> truthy e = true -> is_dict e = false ->
  check_for_errors (VDict m) = Raise (EProtocol e).
Proof. exact non_object_error. Qed.
Print Assumptions C06_non_object_error.

(** null or absent error with a result member: the result is returned unchanged *)
Theorem C06_result_unchanged : forall m v,
  envelope_ok m = true ->
  (dget m "error" = None \/ dget m "error" = Some VNone) ->
  dget m "result" = Some v ->
  check_for_errors (VDict m) = Ok (VDict m) /\ proxy_result (VDict m) = Ok v.
Proof. exact result_unchanged. Qed.
Print Assumptions C06_result_unchanged.

(** every batch position behaves as the single reply *)
Theorem C06_same_at_every_batch_position : forall pre r post,
  multicall_get (pre ++ r :: post) (length pre) = proxy_result r.
Proof. exact multicall_position. Qed.
Print Assumptions C06_same_at_every_batch_position.

Theorem C06_iteration : forall pre r post vs,
  Forall2 (fun item v => proxy_result item = Ok v) pre vs ->
  multicall_iter (pre ++ r :: post) =
  (map Ok vs ++ match proxy_result r with Ok v => Ok v :: multicall_iter post | Raise e => [Raise e] end)%list.
Proof. exact multicall_iter_prefix. Qed.
Print Assumptions C06_iteration.

(** a notification call is not exempt: an error reported in the reply to it raises exactly as for a call *)
Theorem C06_notification_call : forall r,
  c06_run PNotify r = [match check_for_errors r with Ok _ => Ok VNone | Raise e => Raise e end].
Proof. exact notify_surfaces. Qed.
Print Assumptions C06_notification_call.
