(** Property C02 — every request body gets a well-formed reply and the dispatcher never raises.
    Statements only. "Every character sequence" = every outcome of jsonrpclib.loads on it
    ([parse_outcome]: empty text, parse / translation error, or a parsed value). *)
From JR Require Import Dispatch DispatchProofs DispatchTheorems.

(** for every body, every registry, every server version, pool and dispatch function: the marshaled
    entry point returns (does not raise) and the reply is empty, one well-formed object, or a
    non-empty array of well-formed objects — provided the callables' results stay
    JSON-representable after conversion ([results_dumpable]) *)
Theorem C02_total_wellformed : forall body sigs srvf srv dm (p : parse_outcome),
  results_dumpable body (sv_jsonclass srv) ->
  exists r log, marshaled_dispatch body sigs srvf srv dm p = Ok (r, log) /\ wf_reply r = true.
Proof. exact total_wellformed. Qed.
Print Assumptions C02_total_wellformed.

(** each single answer is a well-formed object for its protocol version, whatever the callables do *)
Theorem C02_answer_wellformed : forall body sigs srvf srv dm e o log,
  answer_entry body sigs srvf srv dm e = (Some o, log) -> wf_obj o = true.
Proof. exact answer_wf. Qed.
Print Assumptions C02_answer_wellformed.

(** and JSON-serialisable (so json.dumps cannot raise) *)
Theorem C02_answer_serialisable : forall body sigs srvf srv dm e o log,
  results_dumpable body (sv_jsonclass srv) ->
  answer_entry body sigs srvf srv dm e = (Some o, log) -> dumpable o = true.
Proof. exact answer_dumpable. Qed.
Print Assumptions C02_answer_serialisable.

(** the objects built by the dispatcher are well-formed by construction *)
Theorem C02_error_object_wellformed : forall f i c m, wf_obj (err_obj f i c m) = true.
Proof. exact wf_err_obj. Qed.
Print Assumptions C02_error_object_wellformed.

Theorem C02_response_object_wellformed : forall f i v, wf_obj (resp_obj f i v) = true.
Proof. exact wf_resp_obj. Qed.
Print Assumptions C02_response_object_wellformed.

(** do_POST answers 200 with that reply (the 500 path is unreachable under the hypothesis) *)
Theorem C02_http_status : forall body sigs srvf srv dm (p : parse_outcome),
  results_dumpable body (sv_jsonclass srv) ->
  exists r, do_post body sigs srvf srv dm p = (200, r) /\ wf_reply r = true.
Proof. exact http_status. Qed.
Print Assumptions C02_http_status.

(** whatever the callables return, the body do_POST sends is a well-formed reply (on the 500 path too) *)
Theorem C02_http_body_always_wellformed : forall body sigs srvf srv dm (p : parse_outcome),
  wf_reply (snd (do_post body sigs srvf srv dm p)) = true.
Proof. exact http_body_always_wellformed. Qed.
Print Assumptions C02_http_body_always_wellformed.
