(** Property C01 — end-to-end call transparency across versions, transports and call styles.
    Statements only (proofs: Proofs/EndToEndProofs.v; model: Model/EndToEnd.v, the value-level
    composition of the Payload (C14), Dispatch (C02-C05) and Client (C06) models).

    Quantification: EVERY callable table ([body], [sigs]), id generator [fresh] that never yields the
    empty string, server version [srvf], registry [reg] in which the method name [m] (any non-empty string:
    identifiers, dotted, Unicode, with spaces) is a registered function [f], notification pool or not,
    class translation on or off on either side, client Config.version and ServerProxy(version=...) in
    {absent, 1.0, 2.0}, EVERY positional list / keyword map of JSON values [a] that binds to [f], EVERY return
    value that is JSON up to tuples, EVERY id counter and prior History.

    Server class and transport do not appear: the model treats a byte-faithful transport as the identity on
    texts; that the loopback, TCP, Unix-socket and pooled paths are byte-faithful is what the correspondence
    stage checks on the real code (PARTIAL in that respect, see MANIFEST level_note).  MultiCall batches and
    dotted instance paths are in the executable model (EndToEnd.multicall) and in the correspondence, without
    a general theorem here. *)
From Coq Require Import List String.
From JR Require Import Val PyOps Payload Client Dispatch EndToEnd EndToEndProofs.
Import ListNotations.

(** a plain / dotted / Unicode-named call: the callable is entered exactly once with the arguments
    (as JSON parses them), the proxy returns exactly its return value up to JSON normalisation, and
    the History gains exactly the request and the response that were exchanged *)
Theorem C01_single_call : forall body sigs fresh dv, (forall n, fresh n <> ""%string) ->
  forall srvf reg pool sjc c m f a n h v,
    ver_ok (pc_version (cl_cfg c)) -> carg_ok (cl_version c) ->
    m <> ""%string -> lookup m (r_funcs reg) = Some f ->
    args_json a = true ->
    call_binds (sigs f) (entered a) = true ->
    body f (entered a) = Return v -> dumpable v = true ->
    proxy_call body sigs fresh dv srvf (mkSrv reg pool sjc) None c m a n h
    = (Ok (norm v), [EvCall f (entered a)],
       add_response (add_request h (request_value (req_v2 c) m a (fresh n)))
                    (Some (resp_obj (reply_form (req_v2 c) srvf) (VStr (fresh n)) (norm v))),
       S n).
Proof. exact single_call. Qed.
Print Assumptions C01_single_call.

(** a client-side notification call returns None; the callable runs once (or one task is handed to the
    notification pool), whatever it does; the response text is empty *)
Theorem C01_single_notify : forall body sigs fresh dv srvf reg pool sjc c m f a n h,
    ver_ok (pc_version (cl_cfg c)) -> carg_ok (cl_version c) ->
    m <> ""%string -> lookup m (r_funcs reg) = Some f ->
    args_json a = true ->
    call_binds (sigs f) (entered a) = true ->
    proxy_notify body sigs fresh dv srvf (mkSrv reg pool sjc) None c m a n h
    = (Ok VNone,
       (if pool then [EvEnqueue None m (entered a) (Some (reply_form (req_v2 c) srvf))] else [EvCall f (entered a)]),
       add_response (add_request h (notify_value (req_v2 c) m a)) None,
       S n).
Proof. exact single_notify. Qed.
Print Assumptions C01_single_notify.

(** any sequence of calls on one proxy: results, invocations and History are those of the calls, in order *)
Theorem C01_history_sequence : forall body sigs fresh dv, (forall n, fresh n <> ""%string) ->
  forall srvf srv c cs n h,
    ver_ok (pc_version (cl_cfg c)) -> carg_ok (cl_version c) ->
    Forall (good body sigs srv) cs ->
    run_calls body sigs fresh dv srvf srv c cs n h
    = (map (fun s => Ok (norm (cs_v s))) cs,
       map (fun s => EvCall (cs_f s) (entered (cs_a s))) cs,
       expected_history fresh srvf c cs n h,
       (n + length cs)%nat).
Proof. exact call_sequence. Qed.
Print Assumptions C01_history_sequence.

Theorem C01_history_lengths : forall body sigs fresh dv, (forall n, fresh n <> ""%string) ->
  forall srvf srv c cs n h,
    ver_ok (pc_version (cl_cfg c)) -> carg_ok (cl_version c) -> Forall (good body sigs srv) cs ->
    let h' := snd (fst (run_calls body sigs fresh dv srvf srv c cs n h)) in
    length (h_requests h') = (length (h_requests h) + length cs)%nat /\
    length (h_responses h') = (length (h_responses h) + length cs)%nat.
Proof. exact history_lengths. Qed.
Print Assumptions C01_history_lengths.

(** a MultiCall batch of registered functions (calls and notifications interleaved): every job enters its
    callable once, in job order (a notification on a pooled dispatcher is handed to the pool once); the
    results are those of the non-notification jobs, in job order; the History gains one request text (the
    array of the jobs' 2.0 requests) and one response text *)
Theorem C01_batch : forall body sigs fresh dv, (forall n, fresh n <> ""%string) ->
  forall srvf reg pool sjc c mcfg js n h,
    js <> [] -> Forall (good_job body sigs reg) js ->
    multicall body sigs fresh dv srvf (mkSrv reg pool sjc) None c mcfg (map js_job js) n h
    = (Some (Ok (job_results js)), map (job_event srvf pool) js,
       add_response (add_request h (VList (job_values fresh js n)))
                    (match job_responses fresh srvf sjc js n with [] => None | os => Some (VList (map norm os)) end),
       (n + length js)%nat).
Proof. exact batch_call. Qed.
Print Assumptions C01_batch.
