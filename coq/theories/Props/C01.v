(** Property C01 -- end-to-end call transparency.  Statements only (proofs: Proofs/EndToEndProofs.v). *)
From JR Require Import Val PyOps Payload Client Dispatch EndToEnd EndToEndProofs.
