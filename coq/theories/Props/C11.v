(** Property C11 — join() means finished; after stop() nothing runs and every worker exits;
    start()/stop() are idempotent.  Statements only.  Same quantification as Props/C09.v.

    "stop() always returns" is a termination claim.  Proved here is its safety half, for every
    reachable state of every schedule: the pool never deadlocks (C11_stop_never_blocked,
    C11_stop_no_deadlock, C11_thread_progress_worker, C11_thread_progress_client): inside stop() the controlling thread can always
    take a step, or the holder of the lock / queue mutex it waits for can; the only waits of stop()
    that are not bounded by the pool itself are thread.join(3) (which times out) on a worker that,
    by C11_thread_progress_worker, can itself always make progress, and clear()'s queue.join(),
    which finds nothing left to wait for.  What remains of the claim is fair scheduling and the
    termination of the task bodies (a body that never returns keeps its worker, and stop(), for
    ever: outside the statement).  The implementation-side oracle checks that stop() returns under
    every explored schedule (the scheduler detects deadlock exactly). *)
From JR Require Import Pool PoolBase PoolInvDefs PoolInvE PoolInvH PoolSafety PoolLifecycle PoolGrowth PoolProgress PoolRank.

(** the two join monitors never fire: join() never returned True while a task enqueued before
    the call was neither done nor dropped by stop(); it never returned False unless it was
    timed and work was outstanding when it returned *)
Theorem C11_join_sound : forall mx mn progs sched,
  valid_cfg mx mn ->
  join_bad (run sched (init mx mn progs)) = false /\ joinf_bad (run sched (init mx mn progs)) = false.
Proof. exact join_sound. Qed.
Print Assumptions C11_join_sound.

(** what join() tests: when unfinished_tasks is 0 every accepted task is done or was dropped by stop() *)
Theorem C11_drained_means_settled : forall mx mn progs sched,
  valid_cfg mx mn ->
  let s := run sched (init mx mn progs) in
  unfinished s <= 0 -> forall t, (t < next_task s)%nat -> settled s t = true.
Proof. exact drained_means_settled. Qed.
Print Assumptions C11_drained_means_settled.

(** after stop() has returned (until start() is called again) no task body begins and every worker is dead *)
Theorem C11_no_start_after_stop_workers_exit : forall mx mn progs sched,
  valid_cfg mx mn ->
  let s := run sched (init mx mn progs) in
  late_start s = false /\ (stop_done s = true -> forall w, alive (ws s w) = false).
Proof. exact no_run_after_stop. Qed.
Print Assumptions C11_no_start_after_stop_workers_exit.

(** a restarted pool obeys every invariant of a fresh one: all of them hold in every reachable state,
    in particular after any number of stop()/start() cycles *)
Theorem C11_restart_fresh : forall mx mn progs sched,
  valid_cfg mx mn -> Inv2 (run sched (init mx mn progs)).
Proof. exact reachable_inv2. Qed.
Print Assumptions C11_restart_fresh.

(** start() on a running pool / stop() on a stopped pool: one read of the flag, then return *)
Theorem C11_start_idempotent : forall s, cpc (cs s 0%nat) = CSTTest -> stopped s = false ->
  step s (TC 0%nat) false = Some (cret s 0%nat).
Proof. exact start_idempotent. Qed.
Print Assumptions C11_start_idempotent.
Theorem C11_stop_idempotent : forall s, cpc (cs s 0%nat) = CSPTest -> stopped s = true ->
  step s (TC 0%nat) false = Some (cret s 0%nat).
Proof. exact stop_idempotent. Qed.
Print Assumptions C11_stop_idempotent.
Theorem C11_return_changes_no_pool_state : forall s c,
  let s' := cret s c in
  stopped s' = stopped s /\ q s' = q s /\ unfinished s' = unfinished s /\ lock s' = lock s /\ threads s' = threads s /\
  nb_threads s' = nb_threads s /\ nb_active s' = nb_active s /\ nb_pending s' = nb_pending s /\ ws s' = ws s /\
  next_w s' = next_w s /\ next_task s' = next_task s.
Proof. exact cret_pool_unchanged. Qed.
Print Assumptions C11_return_changes_no_pool_state.

(** [progress s t]: thread t can take a step, or the holder of the pool lock can, or the holder of the queue
    mutex can ([can_step s u] = some [step s u fire] is defined; fire = the thread's own timeout expires) *)

(** stop() is never blocked by the pool *)
Theorem C11_stop_never_blocked : forall mx mn progs sched,
  valid_cfg mx mn ->
  let s := run sched (init mx mn progs) in
  stop_region (ctl s) = true -> progress s (TC 0%nat).
Proof. exact reachable_stop_never_blocked. Qed.
Print Assumptions C11_stop_never_blocked.

Theorem C11_stop_no_deadlock : forall mx mn progs sched,
  valid_cfg mx mn ->
  let s := run sched (init mx mn progs) in
  stop_region (ctl s) = true -> exists u f s', step s u f = Some s'.
Proof. exact stop_no_deadlock. Qed.
Print Assumptions C11_stop_no_deadlock.

(** every started worker that has not exited makes progress (towards the exit stop() waits for) *)
Theorem C11_thread_progress_worker : forall mx mn progs sched,
  valid_cfg mx mn ->
  let s := run sched (init mx mn progs) in
  forall w, alive (ws s w) = true -> wpc (ws s w) <> WNew -> progress s (TW w).
Proof. exact reachable_worker_progress. Qed.
Print Assumptions C11_thread_progress_worker.

(** every call of every client makes progress; the only exception is the client's own untimed join()
    while work is outstanding (it waits for the workers, see C11_join_on_running_pool_not_stuck) *)
Theorem C11_thread_progress_client : forall mx mn progs sched,
  valid_cfg mx mn ->
  let s := run sched (init mx mn progs) in
  forall c, cpc (cs s c) <> CDone -> (cpc (cs s c) = CJQJoin JOp /\ 0 < unfinished s) \/ progress s (TC c).
Proof. exact reachable_client_progress. Qed.
Print Assumptions C11_thread_progress_client.

(** join() on a running pool at rest with work outstanding: some thread (a worker, or the creator of a
    worker that is not started yet) can take a step *)
Theorem C11_join_on_running_pool_not_stuck : forall mx mn progs sched,
  valid_cfg mx mn ->
  let s := run sched (init mx mn progs) in
  start_done s = true -> (forall c, ewin (cpc (cs s c)) = false) -> 0 < unfinished s ->
  exists u f s', step s u f = Some s'.
Proof. exact join_on_running_pool_not_stuck. Qed.
Print Assumptions C11_join_on_running_pool_not_stuck.

(** "every worker thread terminates on its own": once stop() has set the flag, every step of a worker strictly
    decreases its rank (its distance to the exit, at most 22), so it takes at most 22 more steps of its own;
    and no step of any other thread increases the rank of a created worker.  With C11_thread_progress_worker
    (it can always step, or the holder of what it waits for can) only fair scheduling is left. *)
Theorem C11_worker_exits_in_bounded_steps : forall fs s w s',
  stopped s = true -> wsteps s w fs = Some s' ->
  (length fs + wrank (wpc (ws s' w)) <= wrank (wpc (ws s w)))%nat /\ (wrank (wpc (ws s w)) <= 22)%nat.
Proof. intros fs s w s' Hst H. split; [eapply worker_exits_within_rank; eassumption | apply wrank_le]. Qed.
Print Assumptions C11_worker_exits_in_bounded_steps.

Theorem C11_worker_rank_monotone : forall mx mn progs sched t f s' w,
  valid_cfg mx mn ->
  let s := run sched (init mx mn progs) in
  stopped s = true -> step s t f = Some s' -> wpc (ws s w) <> WNone ->
  (wrank (wpc (ws s' w)) <= wrank (wpc (ws s w)))%nat.
Proof.
  intros mx mn progs sched t f s' w Hv s Hst H Hn.
  eapply worker_rank_monotone; try eassumption. apply (i_created _ (reachable_inv1 mx mn progs sched Hv)).
Qed.
Print Assumptions C11_worker_rank_monotone.

(** stop() itself: every one of its own steps strictly decreases (phase, position in the phase) in the
    lexicographic order, except the edge that goes back to poll the same worker again after thread.join(3)
    returned; a worker that has exited is dropped from the list at the next poll *)
Theorem C11_stop_steps_decrease : forall s f s',
  stop_region (ctl s) = true \/ ctl s = CSPSet -> step s (TC 0%nat) f = Some s' ->
  lex_lt (crank s') (crank s) \/ (exists ths, ctl s = CSPAlive2 ths /\ ctl s' = CSPAlive ths).
Proof. exact stop_step_decreases. Qed.
Print Assumptions C11_stop_steps_decrease.
