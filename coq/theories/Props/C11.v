(** Property C11 — join() means finished; after stop() nothing runs and every worker exits;
    start()/stop() are idempotent.  Statements only.  Same quantification as Props/C09.v.

    Not proved here (see level_note): "stop() always returns" is a termination claim; the model
    proves what stop() has achieved when it returns, the implementation-side oracle checks that
    it returns under every explored schedule (the scheduler detects deadlock exactly). *)
From JR Require Import Pool PoolBase PoolInvDefs PoolSafety PoolLifecycle.

(** the two join monitors never fire: join() never returned True while a task enqueued before
    the call was neither done nor dropped by stop(); it never returned False unless it was
    timed and work was outstanding when it returned *)
Theorem C11_join_sound : forall mx mn progs sched,
  valid_cfg mx mn ->
  join_bad (run sched (init mx mn progs)) = false /\ joinf_bad (run sched (init mx mn progs)) = false.
Proof. exact join_sound. Qed.
Print Assumptions C11_join_sound.

(** what join() tests: when unfinished_tasks is 0 every accepted task is done or was dropped by stop() *)
Theorem C11_drained_means_settled : forall mx mn progs sched,
  valid_cfg mx mn ->
  let s := run sched (init mx mn progs) in
  unfinished s <= 0 -> forall t, (t < next_task s)%nat -> settled s t = true.
Proof. exact drained_means_settled. Qed.
Print Assumptions C11_drained_means_settled.

(** after stop() has returned (until start() is called again) no task body begins and every worker is dead *)
Theorem C11_no_start_after_stop_workers_exit : forall mx mn progs sched,
  valid_cfg mx mn ->
  let s := run sched (init mx mn progs) in
  late_start s = false /\ (stop_done s = true -> forall w, alive (ws s w) = false).
Proof. exact no_run_after_stop. Qed.
Print Assumptions C11_no_start_after_stop_workers_exit.

(** a restarted pool obeys every invariant of a fresh one: all of them hold in every reachable state,
    in particular after any number of stop()/start() cycles *)
Theorem C11_restart_fresh : forall mx mn progs sched,
  valid_cfg mx mn -> Inv2 (run sched (init mx mn progs)).
Proof. exact reachable_inv2. Qed.
Print Assumptions C11_restart_fresh.

(** start() on a running pool / stop() on a stopped pool: one read of the flag, then return *)
Theorem C11_start_idempotent : forall s, cpc (cs s 0%nat) = CSTTest -> stopped s = false ->
  step s (TC 0%nat) false = Some (cret s 0%nat).
Proof. exact start_idempotent. Qed.
Print Assumptions C11_start_idempotent.
Theorem C11_stop_idempotent : forall s, cpc (cs s 0%nat) = CSPTest -> stopped s = true ->
  step s (TC 0%nat) false = Some (cret s 0%nat).
Proof. exact stop_idempotent. Qed.
Print Assumptions C11_stop_idempotent.
Theorem C11_return_changes_no_pool_state : forall s c,
  let s' := cret s c in
  stopped s' = stopped s /\ q s' = q s /\ unfinished s' = unfinished s /\ lock s' = lock s /\ threads s' = threads s /\
  nb_threads s' = nb_threads s /\ nb_active s' = nb_active s /\ nb_pending s' = nb_pending s /\ ws s' = ws s /\
  next_w s' = next_w s /\ next_task s' = next_task s.
Proof. exact cret_pool_unchanged. Qed.
Print Assumptions C11_return_changes_no_pool_state.
