(** Property C13 — replies depend only on the request and the server's version; serving never writes a
    configuration; Config.copy() yields an independent configuration.
    Statements only; each is closed by [exact] and followed by [Print Assumptions].

    [h]: a heap holding Config objects and (by reference) their two tables; every change of a heap is a
    [do_write], [writes ws h] performs the writes [ws] in order and [h_log] records them.
    [hs]: the server — the location of its json_config, its registry, whether a notification pool is set;
    [body]/[sigs]: arbitrary registered callables; [dm]: custom dispatch function.
    [cfg_ok h c]: the Config at [c] is complete (its two tables exist) and its objects lie below the
    allocation pointer — true of every Config of a well-formed heap ([heap_wf]).
    [read_form h c = Ok f]: the version stored at [c] is 1.0 ([V1]) or 2.0 ([V2]). *)
From JR Require Import Dispatch DispatchProofs DispatchTheorems Config ConfigProofs.

(** the hypothesis [cfg_ok] of the theorems below holds for every Config of a well-formed heap *)
Theorem C13_wf_heap_configs_ok : forall h c r,
  heap_wf h = true -> lookup_loc c (h_cfgs h) = Some r -> cfg_ok h c = true.
Proof. exact heap_wf_cfg_ok. Qed.
Print Assumptions C13_wf_heap_configs_ok.

(** (a) history-free: the reply to [p] after any history from any heap is the reply of the pure
    dispatcher for the version (and use_jsonclass flag) stored in the server's Config *)
Theorem C13_reply_is_pure : forall body sigs h hs dm hist p f jc,
  cfg_ok h (hs_cfg hs) = true -> read_form h (hs_cfg hs) = Ok f -> read_jsonclass h (hs_cfg hs) = Ok jc ->
  reply_after body sigs h hs dm hist p
  = Ok (marshaled_dispatch body sigs f (mkSrv (hs_reg hs) (hs_pool hs) jc) dm p).
Proof. exact reply_is_pure. Qed.
Print Assumptions C13_reply_is_pure.

(** … hence the same after any two histories [hist], [hist'] from any two heaps [h], [h'] in which the
    server's Config has the same version and use_jsonclass flag *)
Theorem C13_reply_function : forall body sigs h h' srv srv' reg pool dm hist hist' p f jc,
  cfg_ok h srv = true -> cfg_ok h' srv' = true ->
  read_form h srv = Ok f -> read_form h' srv' = Ok f ->
  read_jsonclass h srv = Ok jc -> read_jsonclass h' srv' = Ok jc ->
  reply_after body sigs h (mkHS srv reg pool) dm hist p
  = reply_after body sigs h' (mkHS srv' reg pool) dm hist' p.
Proof. exact reply_function. Qed.
Print Assumptions C13_reply_function.

(** (a) form: the answer to a well-formed entry has the server's own form when the entry carries
    "jsonrpc" and 1.0 form otherwise; the answer to an invalid entry has the server's own form *)
Theorem C13_form : forall body sigs h hs dm e f jc h1 o log,
  cfg_ok h (hs_cfg hs) = true -> read_form h (hs_cfg hs) = Ok f -> read_jsonclass h (hs_cfg hs) = Ok jc ->
  answer_entry_h body sigs h hs dm e = Ok (h1, (Some o, log)) ->
  (forall m, e = VDict m -> wellformed_entry e = true ->
             reply_form o = Some (if dhas m "jsonrpc" then f else V1))
  /\ (wellformed_entry e = false -> reply_form o = Some f).
Proof. exact form_on_heap. Qed.
Print Assumptions C13_form.

Theorem C13_form_valid : forall body sigs srvf srv dm e m o log,
  e = VDict m -> wellformed_entry e = true ->
  answer_entry body sigs srvf srv dm e = (Some o, log) ->
  reply_form o = Some (if dhas m "jsonrpc" then srvf else V1).
Proof. exact reply_form_valid. Qed.
Print Assumptions C13_form_valid.

Theorem C13_form_invalid : forall body sigs srvf srv dm e o log,
  wellformed_entry e = false ->
  answer_entry body sigs srvf srv dm e = (Some o, log) -> reply_form o = Some srvf.
Proof. exact reply_form_invalid. Qed.
Print Assumptions C13_form_invalid.

(** every object of a batch reply is the answer to one of the batch's entries (so the two theorems
    above speak about each of them) *)
Theorem C13_form_batch : forall body sigs srvf srv dm es o,
  In o (fst (batch body sigs srvf srv dm es)) ->
  exists e log, In e es /\ answer_entry body sigs srvf srv dm e = (Some o, log).
Proof. exact batch_objects. Qed.
Print Assumptions C13_form_batch.

(** an unparsable body is answered in the server's own form *)
Theorem C13_form_unparsable : forall body sigs h hs dm f jc,
  cfg_ok h (hs_cfg hs) = true -> read_form h (hs_cfg hs) = Ok f -> read_jsonclass h (hs_cfg hs) = Ok jc ->
  exists h1 o, serve body sigs h hs dm PError = Ok (h1, Ok (ROne o, [])) /\ reply_form o = Some f.
Proof. exact unparsable_on_heap. Qed.
Print Assumptions C13_form_unparsable.

(** (b) serving one body succeeds and changes the heap by a sequence of writes [ws] (which the heap's
    log records) that all go to locations allocated during this request; after EVERY prefix of these
    writes the server's Config and DEFAULT ([dflt]: any other complete Config) have the snapshot —
    six attributes, identity and contents of both tables — they had before *)
Theorem C13_config_unchanged : forall body sigs h hs dm p dflt f jc,
  cfg_ok h (hs_cfg hs) = true -> cfg_ok h dflt = true ->
  read_form h (hs_cfg hs) = Ok f -> read_jsonclass h (hs_cfg hs) = Ok jc ->
  exists h' x ws,
    serve body sigs h hs dm p = Ok (h', x)
    /\ h' = writes ws h /\ h_log h' = (rev ws ++ h_log h)%list
    /\ above (h_next h) ws
    /\ forall k, snapshot (writes (firstn k ws) h) (hs_cfg hs) = snapshot h (hs_cfg hs)
                 /\ snapshot (writes (firstn k ws) h) dflt = snapshot h dflt.
Proof. exact serve_config_unchanged. Qed.
Print Assumptions C13_config_unchanged.

(** … and the same for a whole history of bodies *)
Theorem C13_history_config_unchanged : forall body sigs h hs dm ps dflt f jc,
  cfg_ok h (hs_cfg hs) = true -> cfg_ok h dflt = true ->
  read_form h (hs_cfg hs) = Ok f -> read_jsonclass h (hs_cfg hs) = Ok jc ->
  exists h' xs ws,
    serve_all body sigs h hs dm ps = Ok (h', xs)
    /\ h' = writes ws h /\ h_log h' = (rev ws ++ h_log h)%list
    /\ above (h_next h) ws
    /\ forall k, snapshot (writes (firstn k ws) h) (hs_cfg hs) = snapshot h (hs_cfg hs)
                 /\ snapshot (writes (firstn k ws) h) dflt = snapshot h dflt.
Proof. exact history_config_unchanged. Qed.
Print Assumptions C13_history_config_unchanged.

(** a write at or above the allocation pointer is a write neither to a complete Config nor to its tables *)
Theorem C13_writes_miss_configs : forall h c r w,
  cfg_ok h c = true -> lookup_loc c (h_cfgs h) = Some r -> (h_next h <= wloc w)%nat ->
  wloc w <> c /\ wloc w <> c_classes r /\ wloc w <> c_handlers r.
Proof. exact above_not_config. Qed.
Print Assumptions C13_writes_miss_configs.

(** (c) Config.copy(): any sequence of operations (attribute assignments, table insertions and
    removals) applied to the copy succeeds and leaves the snapshot of the original as it was before
    copy(); applied to the original it leaves the snapshot of the copy as it was right after copy() *)
Theorem C13_copy_independent : forall h c h1 c' ops,
  cfg_ok h c = true -> config_copy h c = Ok (h1, c') ->
  (exists h2, apply_ops h1 c' ops = Ok h2 /\ snapshot h2 c = snapshot h c)
  /\ (exists h2, apply_ops h1 c ops = Ok h2 /\ snapshot h2 c' = snapshot h1 c').
Proof. exact copy_independent. Qed.
Print Assumptions C13_copy_independent.

(** copy() of a complete Config succeeds, writes only above the allocation pointer, and yields a
    complete Config *)
Theorem C13_copy_total : forall h c, cfg_ok h c = true ->
  exists h1 c', config_copy h c = Ok (h1, c') /\ ext (h_next h) h h1 /\ (h_next h <= c')%nat
    /\ cfg_ok h1 c' = true /\ cfg_ok h1 c = true.
Proof. exact copy_ok. Qed.
Print Assumptions C13_copy_total.

(** the copy has the attributes and table contents of the original, in tables of its own *)
Theorem C13_copy_contents : forall h c h1 c' s,
  cfg_ok h c = true -> config_copy h c = Ok (h1, c') -> snapshot h c = Ok s ->
  exists s', snapshot h1 c' = Ok s'
    /\ s_classes s' = s_classes s /\ s_handlers s' = s_handlers s
    /\ c_version (s_rec s') = c_version (s_rec s) /\ c_content_type (s_rec s') = c_content_type (s_rec s)
    /\ c_use_jsonclass (s_rec s') = c_use_jsonclass (s_rec s)
    /\ c_serialize_method (s_rec s') = c_serialize_method (s_rec s)
    /\ c_ignore_attribute (s_rec s') = c_ignore_attribute (s_rec s)
    /\ c_user_agent (s_rec s') = match c_user_agent (s_rec s) with VNone => default_user_agent | u => u end
    /\ c_classes (s_rec s') <> c_classes (s_rec s) /\ c_handlers (s_rec s') <> c_handlers (s_rec s)
    /\ c_classes (s_rec s') <> c_handlers (s_rec s) /\ c_handlers (s_rec s') <> c_classes (s_rec s).
Proof. exact copy_contents. Qed.
Print Assumptions C13_copy_contents.

(** (d) concurrent serving.  k handler threads execute _marshaled_single_dispatch line by line over the
    shared heap [h0], thread i serving [nth reqs i]; [sched] — any list of thread numbers — is the
    order in which they take their steps (a choice that is not enabled is skipped, so every list is a
    schedule).  In the state reached: all writes went to locations allocated after the threads
    started (the heap's log records them), so after every prefix of them the server's Config and
    DEFAULT have their initial snapshot; no thread has failed; a thread that has finished holds the
    answer the same request gets when it is served alone on the initial heap *)
Theorem C13_concurrent_independence : forall body sigs hs h0 f jc,
  cfg_ok h0 (hs_cfg hs) = true -> read_form h0 (hs_cfg hs) = Ok f -> read_jsonclass h0 (hs_cfg hs) = Ok jc ->
  forall reqs sched dflt, cfg_ok h0 dflt = true ->
  let s := run_sched body sigs hs sched (mkCS h0 (init_threads reqs)) in
  (exists ws, cs_heap s = writes ws h0 /\ h_log (cs_heap s) = (rev ws ++ h_log h0)%list
              /\ above (h_next h0) ws
              /\ forall k, snapshot (writes (firstn k ws) h0) (hs_cfg hs) = snapshot h0 (hs_cfg hs)
                           /\ snapshot (writes (firstn k ws) h0) dflt = snapshot h0 dflt)
  /\ map t_req (cs_threads s) = reqs
  /\ forall i t, nth_error (cs_threads s) i = Some t ->
       t_pc t <> PFailed
       /\ forall out, t_pc t = PDone out ->
            out = single_dispatch body sigs f (mkSrv (hs_reg hs) (hs_pool hs) jc)
                                  (tr_dm (t_req t)) (tr_m (t_req t)) (tr_method (t_req t)) (tr_params (t_req t))
            /\ exists h1, single_dispatch_h body sigs h0 hs (tr_dm (t_req t)) (tr_m (t_req t))
                                            (tr_method (t_req t)) (tr_params (t_req t)) = Ok (h1, out).
Proof. exact concurrent_independence. Qed.
Print Assumptions C13_concurrent_independence.
