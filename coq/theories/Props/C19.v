(** Property C19 — transport faults are contained: no foreign results, and the proxy recovers.
    Statements only; each is closed by [exact] and followed by [Print Assumptions].

    The model (Model/Transport.v) is the client's connection layer as a state machine:
    jsonrpclib's single_request / connection cache / _run_request / _request on top of an
    explicit transition table for http.client (a MODELLED component) and the scripted peer.
    Every theorem quantifies over all fault scripts, all token lists (any number of calls),
    all statuses and all host / handler strings. *)
From JR Require Import Transport TransportProofs.

(** the invariant on every reachable state: the cached connection (if any) has no unread input
    unless a response is still attached to it, and a closed connection has none attached *)
Theorem C19_inv : forall host handler script toks,
  inv (fst (run_calls host handler (init script) toks)) = true.
Proof. exact inv_reachable. Qed.
Print Assumptions C19_inv.

(** ... and a connection with a response still attached is cleared by its next use, which raises *)
Theorem C19_pending_cleared : forall host handler st tok,
  inv st = true -> idle st = false ->
  (exists e, snd (proxy_call host handler st tok) = Raise e) /\
  t_cached (fst (proxy_call host handler st tok)) = None.
Proof. exact pending_cleared. Qed.
Print Assumptions C19_pending_cleared.

(** every call returns the result of its own request or raises: never another call's result
    (Foreign), never a value that is not its result (a silent None) *)
Theorem C19_own_or_exception : forall host handler script toks i tok,
  nth_error toks i = Some tok ->
  exists o, nth_error (outcomes host handler script toks) i = Some o /\
            (o = Ok tok \/ exists e, o = Raise e).
Proof. exact own_or_exception. Qed.
Print Assumptions C19_own_or_exception.

(** the response an attempt reads is the peer's answer to the request of this very attempt *)
Theorem C19_reply_is_own : forall st tok r,
  inv st = true -> exchange st tok = Ok r ->
  exists f cl, peer_act f tok = PReply r cl.
Proof. exact reply_is_own. Qed.
Print Assumptions C19_reply_is_own.

(** a non-200 reply read by the (last attempt of the) call surfaces as
    TransportError(host + handler, status) *)
Theorem C19_transport_error_fields : forall host handler st tok r,
  exchange (last_attempt_state host handler st tok) tok = Ok r -> r_status r <> 200 ->
  snd (proxy_call host handler st tok) = Raise (ETransport (host ++ handler) (r_status r)).
Proof. exact transport_error_fields. Qed.
Print Assumptions C19_transport_error_fields.

(** ... and a TransportError is raised for nothing else *)
Theorem C19_transport_error_only_non200 : forall host handler st tok u s,
  snd (proxy_call host handler st tok) = Raise (ETransport u s) ->
  u = (host ++ handler)%string /\ s <> 200 /\
  exists r, exchange (last_attempt_state host handler st tok) tok = Ok r /\ r_status r = s.
Proof. exact transport_error_only_non200. Qed.
Print Assumptions C19_transport_error_only_non200.

(** recovery: at any point of any history at which the rest of the script is healthy
    (healthy keep-alive / healthy then close; an exhausted script is healthy),
    at most one of all further calls fails *)
Theorem C19_recovery_bound : forall host handler script toks1 toks2,
  let st := fst (run_calls host handler (init script) toks1) in
  forallb is_healthy (t_script st) = true ->
  (failures (snd (run_calls host handler st toks2)) <= 1)%nat.
Proof. exact recovery_bound. Qed.
Print Assumptions C19_recovery_bound.

(** ... and it can only be the first one: every later call returns its own result *)
Theorem C19_recovered_calls_succeed : forall host handler script toks1 tok toks2,
  let st := fst (run_calls host handler (init script) toks1) in
  forallb is_healthy (t_script st) = true ->
  exists o, snd (run_calls host handler st (tok :: toks2)) = o :: map Ok toks2.
Proof. exact recovered_calls_succeed. Qed.
Print Assumptions C19_recovered_calls_succeed.

(** the script is consumed in order: what is left is [skipn k script] for some k
    (so "the rest of the script is healthy" is "all_healthy (skipn k faults)") *)
Theorem C19_script_consumed_in_order : forall host handler script toks,
  exists k, t_script (fst (run_calls host handler (init script) toks)) = skipn k script.
Proof. exact script_suffix. Qed.
Print Assumptions C19_script_consumed_in_order.
