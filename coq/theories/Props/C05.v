(** Property C05 — failures get the standard error codes and rejected requests run nothing.
    Statements only.  "Nothing ran" = the invocation log of the model's result is []. *)
From JR Require Import Client Dispatch DispatchProofs DispatchTheorems.

(** malformed JSON, or a payload the class translator rejects: a single -32700 error, log [] *)
Theorem C05_parse_error : forall body sigs srvf srv dm,
  exists o, marshaled_dispatch body sigs srvf srv dm PError = Ok (ROne o, [])
            /\ reply_code o = Some (VInt (-32700)) /\ reply_id o = Some VNone.
Proof. exact parse_error. Qed.
Print Assumptions C05_parse_error.

(** a structurally invalid entry (alone or in a batch): -32600, log [] *)
Theorem C05_invalid_request : forall body sigs srvf srv dm e,
  wellformed_entry e = false ->
  exists o, answer_entry body sigs srvf srv dm e = (Some o, [])
            /\ reply_code o = Some (VInt (-32600)) /\ reply_id o = Some (usable_id e).
Proof. exact invalid_request. Qed.
Print Assumptions C05_invalid_request.

Theorem C05_falsy_request : forall body sigs srvf srv dm v,
  truthy v = false ->
  exists o, marshaled_dispatch body sigs srvf srv dm (PValue v) = Ok (ROne o, [])
            /\ reply_code o = Some (VInt (-32600)).
Proof. exact falsy_request. Qed.
Print Assumptions C05_falsy_request.

Theorem C05_empty_body : forall body sigs srvf srv dm,
  exists o, marshaled_dispatch body sigs srvf srv dm PEmpty = Ok (ROne o, [])
            /\ reply_code o = Some (VInt (-32600)).
Proof. exact empty_body. Qed.
Print Assumptions C05_empty_body.

(** the answer to a well-formed call is what the default dispatch yields: a Fault's code is the
    reply's code, with the log of the dispatch *)
Theorem C05_call_answer : forall body sigs srvf srv e m s,
  e = VDict m -> wellformed_entry e = true -> no_id e = false -> method_of e = Some s ->
  forall r log, run_target body sigs (sv_reg srv) None s (params_of e) = (r, log) ->
  match r with
  | DFault c msg =>
      answer_entry body sigs srvf srv None e = (Some (err_obj (request_form srvf m) (usable_id e) c msg), log)
  | DExn cls msg =>
      answer_entry body sigs srvf srv None e
      = (Some (err_obj (request_form srvf m) (usable_id e) (-32603) (cls ++ ":" ++ msg)), log)
  | DVal v =>
      exists o, answer_entry body sigs srvf srv None e = (Some o, log)
                /\ (reply_code o = None \/ reply_code o = Some (VInt (-32603)))
  end.
Proof. exact call_answer. Qed.
Print Assumptions C05_call_answer.

(** unknown method: -32601, log [] *)
Theorem C05_unknown_method : forall body sigs reg s p,
  lookup s (r_funcs reg) = None -> r_instance reg = None ->
  exists msg, dispatch body sigs reg s p = (DFault (-32601) msg, []).
Proof. exact unknown_method_no_instance. Qed.
Print Assumptions C05_unknown_method.

Theorem C05_unknown_method_instance : forall body sigs reg inst s p,
  lookup s (r_funcs reg) = None -> r_instance reg = Some inst -> i_dispatch inst = None ->
  resolve_segs (AObj (i_attrs inst)) (split_dot s) = None ->
  exists msg, dispatch body sigs reg s p = (DFault (-32601) msg, []).
Proof. exact unknown_method_instance. Qed.
Print Assumptions C05_unknown_method_instance.

(** on a registered instance, any dotted name with a segment starting with an underscore:
    -32601, log [] — whatever the instance's attribute tree holds *)
Theorem C05_private_segment : forall body sigs reg inst s p,
  has_underscore_segment s = true ->
  lookup s (r_funcs reg) = None -> r_instance reg = Some inst -> i_dispatch inst = None ->
  exists msg, dispatch body sigs reg s p = (DFault (-32601) msg, []).
Proof. exact private_segment. Qed.
Print Assumptions C05_private_segment.

Theorem C05_private_segment_declined : forall body sigs reg inst d s p m,
  has_underscore_segment s = true ->
  lookup s (r_funcs reg) = None -> r_instance reg = Some inst -> i_dispatch inst = Some d ->
  body d (dispatch_args s p) = RaiseExn "AttributeError" m ->
  exists msg, dispatch body sigs reg s p = (DFault (-32601) msg, [EvCall d (dispatch_args s p)]).
Proof. exact private_segment_declined. Qed.
Print Assumptions C05_private_segment_declined.

Theorem C05_resolution_rejects_private : forall segs a,
  existsb starts_with_underscore segs = true -> resolve_segs a segs = None.
Proof. exact resolve_private. Qed.
Print Assumptions C05_resolution_rejects_private.

(** argument mismatch: -32602 and the callable's body is not entered *)
Theorem C05_bad_arity : forall body sigs reg s p c,
  lookup s (r_funcs reg) = Some c -> call_binds (sigs c) p = false ->
  exists msg, dispatch body sigs reg s p = (DFault (-32602) msg, []).
Proof. exact bad_arity. Qed.
Print Assumptions C05_bad_arity.

Theorem C05_bad_arity_resolved : forall body sigs reg inst s p c,
  lookup s (r_funcs reg) = None -> r_instance reg = Some inst -> i_dispatch inst = None ->
  resolve_segs (AObj (i_attrs inst)) (split_dot s) = Some (ACallable c) ->
  call_binds (sigs c) p = false ->
  exists msg, dispatch body sigs reg s p = (DFault (-32602) msg, []).
Proof. exact bad_arity_resolved. Qed.
Print Assumptions C05_bad_arity_resolved.

(** any other exception raised by the method: -32603, the message names type and text,
    the method ran once *)
Theorem C05_method_exception : forall body sigs reg s p c cls t,
  lookup s (r_funcs reg) = Some c -> call_binds (sigs c) p = true ->
  body c p = RaiseExn cls t -> cls <> "TypeError" ->
  exists msg, dispatch body sigs reg s p = (DFault (-32603) msg, [EvCall c p])
              /\ substrb cls msg = true /\ substrb t msg = true.
Proof. exact method_exception. Qed.
Print Assumptions C05_method_exception.

Theorem C05_method_exception_resolved : forall body sigs reg inst s p c cls t,
  lookup s (r_funcs reg) = None -> r_instance reg = Some inst -> i_dispatch inst = None ->
  resolve_segs (AObj (i_attrs inst)) (split_dot s) = Some (ACallable c) ->
  call_binds (sigs c) p = true -> body c p = RaiseExn cls t -> cls <> "TypeError" ->
  exists msg, dispatch body sigs reg s p = (DFault (-32603) msg, [EvCall c p])
              /\ substrb cls msg = true /\ substrb t msg = true.
Proof. exact method_exception_resolved. Qed.
Print Assumptions C05_method_exception_resolved.

Theorem C05_custom_dispatch_exception : forall body sigs srvf srv d e m s cls t,
  e = VDict m -> wellformed_entry e = true -> no_id e = false -> method_of e = Some s ->
  body d (dispatch_args s (params_of e)) = RaiseExn cls t ->
  exists msg, answer_entry body sigs srvf srv (Some d) e
              = (Some (err_obj (request_form srvf m) (usable_id e) (-32603) msg),
                 [EvCall d (dispatch_args s (params_of e))])
              /\ substrb cls msg = true /\ substrb t msg = true.
Proof. exact custom_dispatch_exception. Qed.
Print Assumptions C05_custom_dispatch_exception.

(** known finding F13, stated as the code behaves: a TypeError raised inside the method's own
    body is reported as -32602 although the method ran (the property wants -32603) *)
Theorem C05_known_F13_type_error_in_body : forall body sigs reg s p c t,
  lookup s (r_funcs reg) = Some c -> call_binds (sigs c) p = true ->
  body c p = RaiseTypeErrorInBody t ->
  exists msg, dispatch body sigs reg s p = (DFault (-32602) msg, [EvCall c p]).
Proof. exact type_error_in_body_is_32602. Qed.
Print Assumptions C05_known_F13_type_error_in_body.

(** the client surfaces each standard code as ProtocolError((code, message)) (composition with C06) *)
Theorem C05_client_surfaces : forall f i c msg,
  In c [-32700; -32600; -32601; -32602; -32603] ->
  check_for_errors (err_obj f i c msg) = Raise (EProtocol (VTuple [VInt c; VStr msg])).
Proof. exact client_surfaces. Qed.
Print Assumptions C05_client_surfaces.

(** end to end: the code (and message) of the Fault the default dispatch returns is the code of the
    reply to the request, which carries the request's id; the reply's log is the dispatch's log —
    combine with C05_unknown_method / C05_private_segment / C05_bad_arity / C05_method_exception *)
Theorem C05_fault_code_surfaces : forall body sigs srvf srv e m s c msg log,
  e = VDict m -> wellformed_entry e = true -> no_id e = false -> method_of e = Some s ->
  dispatch body sigs (sv_reg srv) s (params_of e) = (DFault c msg, log) ->
  exists o, answer_entry body sigs srvf srv None e = (Some o, log)
            /\ reply_code o = Some (VInt c) /\ reply_message o = Some (VStr msg)
            /\ reply_id o = Some (usable_id e).
Proof. exact fault_code_surfaces. Qed.
Print Assumptions C05_fault_code_surfaces.
