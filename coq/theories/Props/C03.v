(** Property C03 — responses echo the request id; batches answer one-to-one and in order.
    Statements only; each is closed by [exact] and followed by [Print Assumptions].
    [body]/[sigs]: arbitrary registered callables; [srvf]: server version (1.0 / 2.0);
    [srv]: registry, notification pool, class translation; [dm]: custom dispatch function. *)
From JR Require Import Dispatch DispatchProofs DispatchTheorems.

(** every response object carries the id of the entry that caused it, as the same value —
    or null when the entry has no usable id ([usable_id]) *)
Theorem C03_id_echo : forall body sigs srvf srv dm e o log,
  answer_entry body sigs srvf srv dm e = (Some o, log) -> reply_id o = Some (usable_id e).
Proof. exact id_echo. Qed.
Print Assumptions C03_id_echo.

(** an entry is answered iff it is not a well-formed notification *)
Theorem C03_answered_iff : forall body sigs srvf srv dm e,
  fst (answer_entry body sigs srvf srv dm e) = None <-> is_notification_entry e = true.
Proof. exact answer_entry_none_iff. Qed.
Print Assumptions C03_answered_iff.

(** the responses of a batch are the answers of its entries, in entry order (all batch lengths) *)
Theorem C03_batch_answers : forall body sigs srvf srv dm entries,
  fst (batch body sigs srvf srv dm entries)
  = flat_map (fun e => opt_list (fst (answer_entry body sigs srvf srv dm e))) entries.
Proof. exact batch_answers. Qed.
Print Assumptions C03_batch_answers.

(** exactly one response per entry that expects one (calls, failing calls, unknown methods,
    invalid entries), in the order of the entries, each with its own entry's id *)
Theorem C03_batch_one_to_one : forall body sigs srvf srv dm entries,
  map reply_id (fst (batch body sigs srvf srv dm entries))
  = map (fun e => Some (usable_id e)) (filter expects_answer entries).
Proof. exact batch_one_to_one. Qed.
Print Assumptions C03_batch_one_to_one.

(** the array sent back for a batch with at least one answerable entry holds exactly those answers *)
Theorem C03_batch_reply : forall body sigs srvf srv dm entries,
  results_dumpable body (sv_jsonclass srv) ->
  filter expects_answer entries <> [] ->
  marshaled_dispatch body sigs srvf srv dm (PValue (VList entries))
  = Ok (RMany (fst (batch body sigs srvf srv dm entries)), snd (batch body sigs srvf srv dm entries)).
Proof. exact batch_reply. Qed.
Print Assumptions C03_batch_reply.

(** a batch that produces no response yields an empty body rather than an empty array *)
Theorem C03_empty_batch_body : forall body sigs srvf srv dm entries,
  entries <> [] -> forallb is_notification_entry entries = true ->
  exists log, marshaled_dispatch body sigs srvf srv dm (PValue (VList entries)) = Ok (REmpty, log).
Proof. exact empty_batch_body. Qed.
Print Assumptions C03_empty_batch_body.

(** positions: the i-th response answers the i-th answerable entry (what MultiCall relies on;
    the client half is C06_same_at_every_batch_position) *)
Theorem C03_multicall_positions : forall body sigs srvf srv dm entries i,
  option_map reply_id (nth_error (fst (batch body sigs srvf srv dm entries)) i)
  = option_map (fun e => Some (usable_id e)) (nth_error (filter expects_answer entries) i).
Proof. exact batch_positions. Qed.
Print Assumptions C03_multicall_positions.

(** a single (non-batch) request that expects an answer is answered by exactly one object, which
    carries its id *)
Theorem C03_single_reply : forall body sigs srvf srv dm e,
  results_dumpable body (sv_jsonclass srv) ->
  truthy e = true -> is_list e = false -> expects_answer e = true ->
  exists o log, marshaled_dispatch body sigs srvf srv dm (PValue e) = Ok (ROne o, log)
                /\ reply_id o = Some (usable_id e) /\ wf_obj o = true.
Proof. exact single_reply. Qed.
Print Assumptions C03_single_reply.
