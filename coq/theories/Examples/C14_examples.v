(** Non-vacuity examples for C14, satisfying instances of the section hypotheses, and the
    refutation witness of the pre-fix id rule (finding F8). *)
From JR Require Import Payload PayloadProofs.
From Coq Require Import Lia Ascii.

(** ** An id supply that is injective and never empty *)
Fixpoint unary (n : nat) : string := match n with O => EmptyString | S k => String "a"%char (unary k) end.
Definition fr (n : nat) : str := String "i"%char (unary n).

Lemma unary_inj a : forall b, unary a = unary b -> a = b.
Proof. induction a; destruct b; simpl; intros H; try discriminate; auto. inversion H. f_equal; auto. Qed.
Example fr_inj : forall a b, fr a = fr b -> a = b.
Proof. unfold fr. intros a b H. inversion H. now apply unary_inj. Qed.
Example fr_nonempty : forall n, fr n <> "".
Proof. unfold fr. discriminate. Qed.

(** ** A trivial JSON codec satisfying the round-trip hypothesis of C14_loads_dumps:
    the "text" of a value is the normalised value itself; [None] is the empty text *)
Definition t_enc (v : val) : res (option val) := if json_ok v then Ok (Some (norm v)) else Raise EType.
Definition t_dec (t : option val) : res val := match t with Some v => Ok v | None => Raise EValue end.
Definition t_empty (t : option val) : bool := match t with None => true | Some _ => false end.

Example t_codec_ok : forall v, json_ok v = true ->
  exists t, t_enc v = Ok t /\ t_empty t = false /\ t_dec t = Ok (norm v).
Proof. intros v H. exists (Some (norm v)). unfold t_enc. rewrite H. auto. Qed.

Definition idj (v : val) : res val := Ok v.        (* class translation that leaves plain data alone *)
Definition cfg2 := mkPcfg (VFlt (F 2 1)) true.
Definition cfg1 := mkPcfg (VFlt (F 1 1)) false.
Definition v2 := VFlt (F 2 1).

(** ** The hypotheses of the theorems are met by concrete calls *)
Example ex_request_v2_hyps :
  listed_version VNone = true /\ listed_config_version (pc_version cfg2) = true /\ version_number cfg2 VNone = 2 /\
  is_string (VStr "add") = true /\ truthy VNone = false /\
  valid_params false (PVal (default_params VNone (VTuple [VInt 1; VInt 2]))) = true /\
  translated idj cfg2 (default_params VNone (VTuple [VInt 1; VInt 2])) = Ok (VTuple [VInt 1; VInt 2]).
Proof. repeat split; reflexivity. Qed.

Example ex_request_v2 :
  dump idj fr v2 cfg2 (PVal (VTuple [VInt 1; VInt 2])) (VStr "add") (VInt 0) VNone VNone VNone 5%nat
  = Ok (VDict [(VStr "id", VInt 0); (VStr "method", VStr "add"); (VStr "params", VTuple [VInt 1; VInt 2]);
               (VStr "jsonrpc", VStr "2.0")], 5%nat).
Proof. reflexivity. Qed.

Example ex_request_v2_no_params_generated_id :
  dump idj fr v2 cfg2 (PVal VNone) (VStr "ping") VNone (VStr "2.0") VNone VNone 5%nat
  = Ok (VDict [(VStr "id", VStr (fr 5)); (VStr "method", VStr "ping"); (VStr "jsonrpc", VStr "2.0")], 6%nat).
Proof. reflexivity. Qed.

Example ex_request_v1 :
  dump idj fr v2 cfg2 (PVal (VDict [])) (VStr "ping") (VStr "abc") (VStr "1.0") VNone VNone 0%nat
  = Ok (VDict [(VStr "id", VStr "abc"); (VStr "method", VStr "ping"); (VStr "params", VList [])], 0%nat).
Proof. reflexivity. Qed.

Example ex_notification_v2 :
  dump idj fr v2 cfg2 (PVal (VList [VInt 1])) (VStr "log") (VInt 7) VNone VNone (VBool true) 0%nat
  = Ok (VDict [(VStr "method", VStr "log"); (VStr "params", VList [VInt 1]); (VStr "jsonrpc", VStr "2.0")], 0%nat).
Proof. reflexivity. Qed.

Example ex_notification_v1 :
  dump idj fr v2 cfg1 (PVal (VList [VInt 1])) (VStr "log") (VInt 7) VNone VNone (VBool true) 0%nat
  = Ok (VDict [(VStr "id", VNone); (VStr "method", VStr "log"); (VStr "params", VList [VInt 1])], 0%nat).
Proof. reflexivity. Qed.

Example ex_supplied_ids :
  supplied_id (VInt 0) = true /\ supplied_id (VFlt (F 0 1)) = true /\ supplied_id (VFlt FNegZero) = true /\
  supplied_id (VStr "a") = true /\ supplied_id (VInt (-5)) = true /\
  needs_fresh_id VNone = true /\ needs_fresh_id (VStr "") = true /\ needs_fresh_id (VBool false) = true /\
  needs_fresh_id (VList []) = true /\ needs_fresh_id (VInt 0) = false.
Proof. repeat split; reflexivity. Qed.

Example ex_response_v2 :
  dump idj fr v2 cfg2 (PVal (VInt 0)) VNone (VInt 0) VNone (VBool true) VNone 0%nat
  = Ok (VDict [(VStr "result", VInt 0); (VStr "id", VInt 0); (VStr "jsonrpc", VStr "2.0")], 0%nat).
Proof. reflexivity. Qed.

Example ex_response_requires_id :
  dump idj fr v2 cfg2 (PVal (VInt 1)) VNone VNone VNone (VBool true) VNone 0%nat = Raise EValue.
Proof. reflexivity. Qed.

Example ex_error_v1_with_data :
  dump idj fr v2 cfg2 (PFault (VInt (-32601)) (VStr "nope") (VInt 0)) VNone (VStr "r1") (VFlt (F 1 1)) (VBool true) VNone 0%nat
  = Ok (VDict [(VStr "result", VNone); (VStr "id", VStr "r1");
               (VStr "error", VDict [(VStr "code", VInt (-32601)); (VStr "message", VStr "nope"); (VStr "data", VInt 0)])], 0%nat).
Proof. reflexivity. Qed.

Example ex_rejections :
  dump idj fr v2 cfg2 (PVal (VInt 5)) (VStr "m") VNone VNone VNone VNone 0%nat = Raise EType /\
  dump idj fr v2 cfg2 (PVal (VList [])) (VInt 5) VNone VNone VNone VNone 0%nat = Raise EValue /\
  invalid_combination (VInt 5) (VStr "m") VNone VNone = true /\
  invalid_combination (VList []) VNone VNone VNone = true /\
  invalid_combination (VInt 1) VNone VNone (VBool true) = true.
Proof. repeat split; reflexivity. Qed.

Example ex_fault_dump_falsy_forced_id_ignored :
  fst (fault_dump v2 (mkFault (VInt 1) (VStr "x") (VInt 9) cfg2 VNone) (VInt 0) VNone)
  = Ok (VDict [(VStr "id", VInt 9); (VStr "jsonrpc", VStr "2.0");
               (VStr "error", VDict [(VStr "code", VInt 1); (VStr "message", VStr "x")])]).
Proof. reflexivity. Qed.

(** the sequence theorem instantiated: three calls, two generated ids, distinct *)
Definition three_calls : list call :=
  [mkCall cfg2 (PVal (VList [])) (VStr "a") VNone VNone VNone VNone;
   mkCall cfg2 (PVal (VList [])) (VStr "b") (VInt 0) VNone VNone VNone;
   mkCall cfg1 (PVal (VList [])) (VStr "c") (VStr "") VNone VNone VNone].
Example ex_three_calls : fst (run_calls fr idj v2 three_calls 0) = [VStr (fr 0); VStr (fr 1)].
Proof. reflexivity. Qed.
Example ex_three_calls_distinct : NoDup (filter is_string (fst (run_calls fr idj v2 three_calls 0))).
Proof. exact (generated_ids_distinct fr idj fr_inj v2 three_calls 0%nat). Qed.

(** loads(dumps(x)) with the instance codec *)
Example ex_loads_dumps :
  exists t, dumps idj fr t_enc v2 cfg2 (PVal (VTuple [VInt 1])) (VStr "m") VNone (VInt 3) VNone VNone 0%nat = Ok (t, 0%nat)
            /\ loads t_empty t_dec idj cfg2 t =
               Ok (VDict [(VStr "id", VInt 3); (VStr "method", VStr "m"); (VStr "params", VList [VInt 1]); (VStr "jsonrpc", VStr "2.0")]).
Proof.
  destruct (loads_dumps fr idj t_empty t_enc t_dec idj t_codec_ok v2 cfg2 cfg2 (PVal (VTuple [VInt 1])) (VStr "m") VNone (VInt 3) VNone VNone 0%nat
              _ _ eq_refl eq_refl (or_intror eq_refl)) as [t [H1 H2]].
  exists t. split; assumption.
Qed.

(** ** The pinned (pre-fix) id rule, jsonrpc.py:1127-1129 of the snapshot:  [if not self.id: self.id = str(uuid.uuid4())] *)
Definition needs_fresh_id_v0 (i : val) : bool := negb (truthy i).

Definition payload_request_v0 (fresh : nat -> str) (p : payload) (method params : val) (n : nat) : res (val * payload * nat) :=
  if negb (is_string method) then Raise EValue
  else
    let '(p, n) := if needs_fresh_id_v0 (p_id p)
                   then (mkPayload (VStr (fresh n)) (p_version p), S n)
                   else (p, n) in
    let request := [(VStr "id", p_id p); (VStr "method", method)] in
    let request := if truthy params || lt11 (p_version p)
                   then dset request (VStr "params") (params_or_empty params)
                   else request in
    do request <- (if ge2 (p_version p)
                   then do s <- float_str (p_version p); Ok (dset request (VStr "jsonrpc") (VStr s))
                   else Ok request);
    Ok (VDict request, p, n).

(** F8: on the pinned tree a supplied number id is not used verbatim *)
Example F8_refuted_zero :
  exists i d p n, supplied_id i = true /\
    payload_request_v0 fr (mkPayload i (2, 1%positive)) (VStr "m") (VList []) 0%nat = Ok (VDict d, p, n) /\
    dget d "id" <> Some i.
Proof. exists (VInt 0). do 3 eexists. split; [reflexivity|]. split; [reflexivity|]. discriminate. Qed.

Example F8_refuted_float_zero :
  exists i d p n, supplied_id i = true /\
    payload_request_v0 fr (mkPayload i (1, 1%positive)) (VStr "m") (VList []) 0%nat = Ok (VDict d, p, n) /\
    dget d "id" <> Some i.
Proof. exists (VFlt (F 0 1)). do 3 eexists. split; [reflexivity|]. split; [reflexivity|]. discriminate. Qed.

(** ... and the repaired rule keeps it *)
Example F8_fixed_zero :
  payload_request fr (mkPayload (VInt 0) (2, 1%positive)) (VStr "m") (VList []) 0%nat
  = Ok (VDict [(VStr "id", VInt 0); (VStr "method", VStr "m"); (VStr "jsonrpc", VStr "2.0")], mkPayload (VInt 0) (2, 1%positive), 0%nat).
Proof. reflexivity. Qed.
