(** Non-vacuity examples for C17 and the model of the PRE-FIX body loop with its refutation (finding F11). *)
From JR Require Import Wire WireProofs.
From Coq Require Import Lia ZifyN ZifyNat ZifyBool.
Local Open Scope N_scope.
Local Open Scope list_scope.

(** ** the codec on the boundary code points *)
Example boundary_points :
  utf8_enc [0; 127; 128; 2047; 2048; 55295; 57344; 65535; 65536; 1114111]
  = [0; 127; 194;128; 223;191; 224;160;128; 237;159;191; 238;128;128; 239;191;191; 240;144;128;128; 244;143;191;191].
Proof. reflexivity. Qed.
Example boundary_points_scalar : forallb is_scalar [0; 127; 128; 2047; 2048; 55295; 57344; 65535; 65536; 1114111] = true.
Proof. reflexivity. Qed.
Example surrogate_not_scalar : is_scalar 55296 = false /\ is_scalar 57343 = false /\ is_scalar 1114112 = false.
Proof. repeat split. Qed.
(** strictness: overlong forms, surrogates, > U+10FFFF, truncation, stray continuation *)
Example rejects :
  map utf8_dec [[192;128]; [193;191]; [224;159;191]; [237;160;128]; [240;143;191;191]; [244;144;128;128];
                [245;128;128;128]; [195]; [226;130]; [240;159;152]; [128]; [97;195]; [195;40]]
  = repeat (Raise dec_err) 13.
Proof. reflexivity. Qed.

(** ** hypotheses of the theorems are satisfiable *)
Example caps_positive : forallb (fun c => 0 <? c) [1; 3; 1024; 1] = true.
Proof. reflexivity. Qed.
Example server_short_reads :
  server_body 4 (blen (utf8_enc [97; 233; 8364; 128512])) (utf8_enc [97; 233; 8364; 128512], [1; 1; 1; 2; 1; 1; 1])
  = Ok [97; 233; 8364; 128512].
Proof. reflexivity. Qed.
Example client_split_inside_character :
  target_close (fold_left target_feed [[97; 195]; [169; 226; 130]; []; [172]] target_init) = PStr [97; 233; 8364].
Proof. reflexivity. Qed.
Example client_invalid_passthrough :
  target_close (fold_left target_feed [[97; 195]; [40]] target_init) = PBytes [97; 195; 40].
Proof. reflexivity. Qed.
Example targets :
  match proxy_init "http" "" "a=1&b=%20" false, proxy_init "unix+http" "/tmp/s.sock" "x" false, proxy_init "https" "/p/q" "" false with
  | Ok a, Ok b, Ok c => (request_target a, request_target b, request_target c)
  | _, _, _ => (""%string, ""%string, ""%string)
  end = ("/?a=1&b=%20"%string, "/?x"%string, "/p/q"%string).
Proof. reflexivity. Qed.
Example schemes :
  map (fun st => accepted (fst st) (snd st))
      [("http"%string, false); ("https"%string, false); ("unix+http"%string, false); ("unix+https"%string, true);
       ("unix+https"%string, false); ("ftp"%string, true); (""%string, false); ("unix+"%string, true); ("unix+unix+http"%string, false)]
  = [true; true; true; true; false; false; false; false; false].
Proof. reflexivity. Qed.
Example client_headers :
  match send_content "application/json-rpc" "ua" [("Content-Length"%string, "7"%string); ("X-A"%string, "1"%string); ("CONTENT-TYPE"%string, "t"%string)] (PStr [233]) with
  | Ok (hs, b) => (framing hs, b)
  | Raise _ => (([], []), [])
  end = ((["application/json-rpc"%string], ["2"%string]), [195; 169]).
Proof. reflexivity. Qed.

(** a gzip pair satisfying the section hypothesis (a one-byte frame stands for the real format) *)
Definition toy_gz (b : bytes) : bytes := 31 :: b.
Definition toy_gunz (b : bytes) : res bytes := match b with 31 :: r => Ok r | _ => Raise EOS end.
Example toy_gzip_ok : forall b, toy_gunz (toy_gz b) = Ok b.
Proof. reflexivity. Qed.
Example toy_gzip_parse :
  parse_response toy_gunz true [1; 2] (toy_gz [97; 195; 169; 98]) = Ok (PStr [97; 233; 98]).
Proof. reflexivity. Qed.

(** ** F11 — the pinned (pre-fix) body loop, SimpleJSONRPCServer.py:476-488 of the snapshot:
    [chunks.append(utils.from_bytes(raw_chunk))] decodes every chunk on its own, [data = "".join(chunks)] *)
Fixpoint body_loop_v0 (fuel : bytes) (M rem : N) (f : rfile) (chunks : list text) : res (list text) :=
  if rem =? 0 then Ok chunks
  else match fuel with
       | [] => Raise EUnmodelled
       | _ :: fuel' =>
           let '(raw, f') := rfile_read (N.min rem M) f in
           match raw with
           | [] => Ok chunks
           | _ => do t <- from_bytes (PBytes raw);
                  body_loop_v0 fuel' M (rem - blen raw) f' (chunks ++ [t])
           end
       end.

Definition server_body_v0 (M clen : N) (f : rfile) : res text :=
  do chunks <- body_loop_v0 (0 :: fst f) M clen f [];
  Ok (concat chunks).

(** small instance: chunk size 4, body "aaaé" + "b" (the two bytes of "é" straddle the boundary) *)
Example F11_small :
  utf8_dec [97; 97; 97; 195; 169; 98] = Ok [97; 97; 97; 233; 98]
  /\ server_body_v0 4 6 ([97; 97; 97; 195; 169; 98], []) = Raise dec_err
  /\ server_body 4 6 ([97; 97; 97; 195; 169; 98], []) = Ok [97; 97; 97; 233; 98].
Proof. repeat split. Qed.

(** the same defect through a short read, with the real chunk size *)
Example F11_short_read :
  server_body_v0 max_chunk_size 3 ([97; 195; 169], [2]) = Raise dec_err
  /\ server_body max_chunk_size 3 ([97; 195; 169], [2]) = Ok [97; 233].
Proof. split; vm_compute; reflexivity. Qed.

Lemma dec_ascii_prefix m rest : utf8_dec (repeat 97 m ++ rest) = match utf8_dec rest with Ok t => Ok (repeat 97 m ++ t) | Raise e => Raise e end.
Proof.
  induction m as [|m IH]; cbn [repeat List.app].
  - now destruct (utf8_dec rest).
  - change (utf8_dec (97 :: repeat 97 m ++ rest)) with (cons_ok 97 (utf8_dec (repeat 97 m ++ rest))).
    rewrite IH. now destruct (utf8_dec rest).
Qed.

Lemma takeN_repeat m (rest : bytes) x : takeN (N.of_nat (S m)) (repeat 97 m ++ x :: rest) = repeat 97 m ++ [x].
Proof.
  rewrite takeN_firstn. replace (N.to_nat (N.of_nat (S m))) with (length (repeat 97%N m ++ [x]) + 0)%nat
    by (rewrite app_length, repeat_length; cbn; lia).
  change (x :: rest) with ([x] ++ rest). rewrite app_assoc, firstn_app_2. cbn. now rewrite app_nil_r.
Qed.

(** parametric refutation: for EVERY chunk size M = m + 1 > 0 the body of M - 1 ASCII bytes followed by
    the two bytes of U+00E9 is valid UTF-8, the repaired loop decodes it, the pinned loop raises
    (UnicodeDecodeError -> HTTP 500).  M = 10 MiB gives the real 10 MiB + 1 replay. *)
Theorem F11_refuted : forall m : nat,
  let M := N.of_nat (S m) in
  let body := repeat 97 m ++ [195; 169] in
  0 < M
  /\ utf8_dec body = Ok (repeat 97 m ++ [233])
  /\ server_body M (blen body) (body, []) = Ok (repeat 97 m ++ [233])
  /\ server_body_v0 M (blen body) (body, []) = Raise dec_err.
Proof.
  intros m M body.
  assert (Hdec : utf8_dec body = Ok (repeat 97 m ++ [233])).
  { unfold body. rewrite dec_ascii_prefix. reflexivity. }
  split; [unfold M; lia|]. split; [exact Hdec|]. split.
  - rewrite server_reassembly by (unfold M; reflexivity || lia). exact Hdec.
  - unfold server_body_v0. cbn [fst body_loop_v0].
    assert (Hb : blen body = N.of_nat (m + 2)).
    { unfold blen, body. rewrite app_length, repeat_length. reflexivity. }
    assert (E : (blen body =? 0) = false) by (rewrite Hb; lia).
    rewrite E. unfold rfile_read.
    replace (N.min (blen body) M) with (N.of_nat (S m)) by (rewrite Hb; unfold M; lia).
    assert (Ht : takeN (N.of_nat (S m)) body = repeat 97 m ++ [195]) by (unfold body; apply takeN_repeat).
    rewrite !Ht.
    destruct (repeat 97 m ++ [195]) as [|y r] eqn:Hraw; [destruct m; discriminate Hraw|].
    rewrite <- Hraw. cbn [from_bytes]. rewrite dec_ascii_prefix. reflexivity.
Qed.

(** the instance the replay of F11 uses: M = 10 MiB, a body of 10 MiB + 1 bytes *)
Corollary F11_refuted_real_chunk_size :
  exists m : nat,
    N.of_nat (S m) = max_chunk_size /\
    let body := repeat 97 m ++ [195; 169] in
    blen body = max_chunk_size + 1
    /\ utf8_dec body = Ok (repeat 97 m ++ [233])
    /\ server_body_v0 max_chunk_size (blen body) (body, []) = Raise dec_err.
Proof.
  pose (m := N.to_nat (N.pred max_chunk_size)).
  assert (E : N.of_nat (S m) = max_chunk_size) by (unfold m, max_chunk_size; lia).
  clearbody m. exists m. split; [exact E|].
  destruct (F11_refuted m) as (_ & H1 & _ & H2). cbv zeta. rewrite E in H2.
  split; [|split; assumption].
  unfold blen. rewrite app_length, repeat_length. cbn [length]. lia.
Qed.
