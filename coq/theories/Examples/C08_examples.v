(** Non-vacuity examples for C08. *)
From JR Require Import JsonClass JsonClassObs.

Definition c08_env : pyenv :=
  mkEnv [("canary.Cls", mkClass KDict "canary" "Cls" [] [] [] [] "" None [])] ["canary"].

(** a valid name is imported and constructed: the event log is not always empty *)
Example ex_valid_events :
  lres_events (jc_load_m fixed c08_env [] (VDict [(VStr "__jsonclass__", VList [VStr "canary.Cls"; VList []])]))
  = [EvImport "canary"; EvConstruct "canary.Cls"].
Proof. reflexivity. Qed.

(** hypotheses of C08_invalid_name_rejected: a name with a space that would otherwise reach the canary *)
Definition bad : list (val * val) := [(VStr "__jsonclass__", VList [VStr "can ary.Cls"; VList []])].
Example ex_shape : descriptor_shape (VList [VStr "can ary.Cls"; VList []]) = Some (VStr "can ary.Cls", VList []).
Proof. reflexivity. Qed.
Example ex_name_bad : name_ok (VStr "can ary.Cls") = false. Proof. reflexivity. Qed.
Example ex_name_empty : name_ok (VStr "") = false. Proof. reflexivity. Qed.
Example ex_name_nonascii : name_ok (VStr (sb [99; 195; 169]%N)) = false. Proof. reflexivity. Qed.
Example ex_name_good : name_ok (VStr "canary.Cls") = true. Proof. reflexivity. Qed.
Example ex_rejected : jc_load_m fixed c08_env [] (VDict bad) = (Raise ETranslation, VDict bad, []).
Proof. reflexivity. Qed.

(** malformed: a number, a one-element list *)
Example ex_malformed_number :
  lres_val (jc_load_m fixed c08_env [] (VDict [(VStr "__jsonclass__", VInt 5)])) = Raise EType.
Proof. reflexivity. Qed.
Example ex_malformed_short :
  jc_load_m fixed c08_env [] (VDict [(VStr "__jsonclass__", VList [VStr "canary.Cls"])])
  = (Raise EIndex, VDict [(VStr "__jsonclass__", VList [VStr "canary.Cls"])], []).
Proof. reflexivity. Qed.

(** a frame stack satisfying frame_ok: the rejected descriptor sits behind a loadable one, two levels down *)
Definition good : val := VDict [(VStr "__jsonclass__", VList [VStr "canary.Cls"; VList []])].
Definition stack : list frame := [FDict [(VStr "a", VInt 1)] (VStr "params") []; FList [good] [VInt 2]].
Example ex_frames_ok : forallb (frame_ok fixed c08_env []) stack = true. Proof. reflexivity. Qed.
Example ex_at_depth :
  lres_val (jc_load_m fixed c08_env [] (plugs stack (VDict bad))) = Raise ETranslation /\
  lres_events (jc_load_m fixed c08_env [] (plugs stack (VDict bad))) = [EvImport "canary"; EvConstruct "canary.Cls"].
Proof. split; reflexivity. Qed.

(** gate off: the same payload is returned as it is *)
Example ex_inert :
  rpc_load fixed c08_env (mkCfg false "_serialize" "_ignore" [] []) (VDict bad) = (Ok (VDict bad), VDict bad, []).
Proof. reflexivity. Qed.
