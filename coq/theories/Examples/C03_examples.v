(** C03: non-vacuity examples and the refutation witnesses of the pinned code (finding F1). *)
From JR Require Import Dispatch DispatchProofs DispatchTheorems Dispatch_examples.

Example C03_batch_hypothesis : filter expects_answer ex_batch <> [].
Proof. exact ex_batch_answerable. Qed.

Example C03_batch_ids_in_order :
  map reply_id (fst (batch ex_body ex_sigs V2 ex_srv None ex_batch))
  = [Some (VFlt (F 3 2)); Some VNone; Some (VList [VInt 1]); Some (VDict [])].
Proof. exact ex_batch_ids. Qed.

Example C03_type_exact_ids :
  map reply_id (fst (batch ex_body ex_sigs V1 ex_srv None
        [call "ok" (VList []) (VInt 0); call "ok" (VList []) (VBool false); call "ok" (VList []) (VFlt (F 0 1));
         call "ok" (VList []) (VFlt FNegZero)]))
  = [Some (VInt 0); Some (VBool false); Some (VFlt (F 0 1)); Some (VFlt FNegZero)].
Proof. reflexivity. Qed.

Example C03_all_notifications_hypothesis :
  [notify "ok"; notify "fail"; notify "nope"] <> []
  /\ forallb is_notification_entry [notify "ok"; notify "fail"; notify "nope"] = true.
Proof. exact ex_all_notifications. Qed.

(** pinned code: F1 on both exception paths *)
Example C03_F1_refuted_custom_dispatch :
  exists e o log, answer_entry_v0 ex_body ex_sigs V2 ex_srv (Some 4%nat) e = (Some o, log)
                  /\ reply_id o <> Some (usable_id e).
Proof. exact F1_refuted_custom_dispatch. Qed.

Example C03_F1_refuted_conversion :
  exists e o log, answer_entry_v0 ex_body ex_sigs V2 ex_srv None e = (Some o, log)
                  /\ reply_id o <> Some (usable_id e).
Proof. exact F1_refuted_conversion. Qed.
