(** Non-vacuity examples for C06 and the refutation witness of the pre-fix code (finding F3). *)
From JR Require Import Client.

(** the hypotheses of the C06 theorems are met by concrete replies *)
Example envelope_v2_string : envelope_ok [(VStr "jsonrpc", VStr "2.0"); (VStr "id", VInt 1)] = true.
Proof. reflexivity. Qed.
Example envelope_v2_number : envelope_ok [(VStr "jsonrpc", VFlt (F 2 1))] = true.
Proof. reflexivity. Qed.
Example envelope_v1 : envelope_ok [(VStr "result", VNone); (VStr "error", VStr "boom"); (VStr "id", VInt 1)] = true.
Proof. reflexivity. Qed.

Example ex_boundary_low :
  check_for_errors (VDict [(VStr "jsonrpc", VStr "2.0");
                           (VStr "error", VDict [(VStr "code", VInt (-32700)); (VStr "message", VStr "m")]);
                           (VStr "id", VInt 1)])
  = Raise (EProtocol (VTuple [VInt (-32700); VStr "m"])).
Proof. reflexivity. Qed.

Example ex_below_range :
  check_for_errors (VDict [(VStr "jsonrpc", VStr "2.0");
                           (VStr "error", VDict [(VStr "code", VInt (-32701)); (VStr "trace", VStr "t"); (VStr "data", VInt 7)]);
                           (VStr "id", VInt 1)])
  = Raise (EApp (VTuple [VInt (-32701); VStr "t"; VInt 7])).
Proof. reflexivity. Qed.

Example ex_falsy_result :
  proxy_result (VDict [(VStr "result", VInt 0); (VStr "error", VNone); (VStr "id", VInt 1)]) = Ok (VInt 0).
Proof. reflexivity. Qed.

(** ** The pinned (pre-fix) classification, jsonrpc.py as of the snapshot commit:
    ["code" in result["error"]] is evaluated on whatever the error is,
    [-32700 <= code <= -32000] on whatever the code is, and the single-entry
    branch subscripts [dict.keys()]. *)
Definition py_le (a b : val) : res bool :=
  match num_of a, num_of b with
  | Some x, Some y => Ok (rat_leb x y)
  | _, _ => Raise EType
  end.

Definition raise_for_error_v0 (e : val) : exn :=
  match py_contains (VStr "code") e with
  | Raise x => x
  | Ok true =>
      match py_getitem e (VStr "code") with
      | Raise x => x
      | Ok code =>
          match e with
          | VDict em =>
              match py_le (VInt (-32700)) code with
              | Raise x => x
              | Ok false => EApp (VTuple [code; error_message em; error_data em])
              | Ok true =>
                  match py_le code (VInt (-32000)) with
                  | Raise x => x
                  | Ok true => EProtocol (VTuple [code; error_message em])
                  | Ok false => EApp (VTuple [code; error_message em; error_data em])
                  end
              end
          | _ => EType    (* strings / lists cannot be subscripted by "message" *)
          end
      end
  | Ok false =>
      match e with
      | VDict [(_, _)] => EType              (* 'dict_keys' object is not subscriptable *)
      | _ => EProtocol e
      end
  end.

(** F3: on the pinned tree a truthy error does not always raise ProtocolError *)
Example F3_refuted_number_error :
  exists e, truthy e = true /\ is_protocol_error (raise_for_error_v0 e) = false.
Proof. exists (VInt 5). split; reflexivity. Qed.

Example F3_refuted_single_entry :
  exists e, truthy e = true /\ is_protocol_error (raise_for_error_v0 e) = false.
Proof. exists (VDict [(VStr "reason", VStr "x")]). split; reflexivity. Qed.

Example F3_refuted_string_code :
  exists e, truthy e = true /\ is_protocol_error (raise_for_error_v0 e) = false.
Proof. exists (VDict [(VStr "code", VStr "E42"); (VStr "message", VStr "m")]). split; reflexivity. Qed.

Example F3_refuted_string_containing_code :
  exists e, truthy e = true /\ is_protocol_error (raise_for_error_v0 e) = false.
Proof. exists (VStr "bad code"). split; reflexivity. Qed.
