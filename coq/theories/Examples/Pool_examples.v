(** Non-vacuity of the growth theorems (Props/C09.v, Props/C10.v): concrete reachable states that meet
    their hypotheses, with a non-empty backlog. *)
From JR Require Import Pool PoolBase PoolInvDefs PoolInvE PoolInvG PoolInvH PoolSafety PoolLifecycle PoolGrowth PoolFifo PoolProgress.

Definition ex_progs (c : nat) : list op :=
  match c with 0%nat => [OStart] | 1%nat => [OEnqueue; OEnqueue; OEnqueue] | _ => [] end.
(* start() runs to completion, then the client thread runs; no worker thread is ever scheduled *)
Definition ex_sched (k : nat) : list (thr * bool) := repeat (TC 0%nat, false) 30 ++ repeat (TC 1%nat, false) k.

(** at rest, max_threads = 1: three tasks wait for the only worker: the right-hand disjunct is the one that holds *)
Example ex_rest_full :
  let s := run (ex_sched 80) (init 1 0 ex_progs) in
  start_done s = true /\ (forall c, ewin (cpc (cs s c)) = false) /\ length (q s) = 3%nat /\
  count serving (ws s) (next_w s) = 1%nat /\ count holding (ws s) (next_w s) = 0%nat /\ nb_threads s = 1.
Proof.
  cbv zeta. repeat split; try (vm_compute; reflexivity).
  intros c. destruct c as [|[|c]]; vm_compute; reflexivity.
Qed.

(** at rest, max_threads = 3: each of the three waiting tasks got its own worker: the left-hand disjunct holds with equality *)
Example ex_rest_grown :
  let s := run (ex_sched 80) (init 3 0 ex_progs) in
  start_done s = true /\ (forall c, ewin (cpc (cs s c)) = false) /\ length (q s) = 3%nat /\
  count serving (ws s) (next_w s) = 3%nat /\ count holding (ws s) (next_w s) = 0%nat /\
  count retiring (ws s) (next_w s) = 0%nat.
Proof.
  cbv zeta. repeat split; try (vm_compute; reflexivity).
  intros c. destruct c as [|[|c]]; vm_compute; reflexivity.
Qed.

(** inside the window of enqueue(): the task is in the queue, its thread is not yet started *)
Example ex_window :
  let s := run (ex_sched 3) (init 3 0 ex_progs) in
  stopped s = false /\ ctl s <> CSTQsize /\ ewin (cpc (cs s 1%nat)) = true /\ length (q s) = 1%nat /\
  count serving (ws s) (next_w s) = 0%nat.
Proof. cbv zeta. repeat split; try (vm_compute; reflexivity). vm_compute. discriminate. Qed.

(** FIFO, non-vacuity: a single worker runs three tasks; the log is [2; 1; 0]. *)
Definition ex_fifo_sched : list (thr * bool) :=
  repeat (TC 0%nat, false) 30 ++ repeat (TC 1%nat, false) 80 ++ repeat (TW 0%nat, false) 60.
Example ex_fifo_log : start_log (run ex_fifo_sched (init 1 0 ex_progs)) = [2; 1; 0]%nat.
Proof. vm_compute. reflexivity. Qed.

(** progress, non-vacuity: stop() blocked on the pool lock, which a worker holds between taking a task and
    beginning its body; the controlling thread has no step (not even a timeout), the worker has one *)
Definition ex_stop_progs (c : nat) : list op :=
  match c with 0%nat => [OStart; OStop] | 1%nat => [OEnqueue] | _ => [] end.
Definition ex_stop_sched : list (thr * bool) :=
  repeat (TC 1%nat, false) 20 ++ repeat (TC 0%nat, false) 12 ++ repeat (TW 0%nat, false) 3 ++ repeat (TC 0%nat, false) 2.
Example ex_stop_blocked :
  let s := run ex_stop_sched (init 2 0 ex_stop_progs) in
  stop_region (ctl s) = true /\ step s (TC 0%nat) false = None /\ step s (TC 0%nat) true = None /\
  lock s = Some (TW 0%nat, 1%nat) /\ wpc (ws s 0%nat) = WActInc /\ step s (TW 0%nat) false <> None.
Proof. cbv zeta. repeat split; try (vm_compute; reflexivity). vm_compute. discriminate. Qed.

(** ... and the hypothesis max_threads = 1 is needed: with two workers the second task can begin first
    (worker 0 takes task 0, worker 1 takes task 1 and begins it, then worker 0 begins task 0) *)
Definition ex_two_progs (c : nat) : list op := match c with 0%nat => [OStart] | 1%nat => [OEnqueue; OEnqueue] | _ => [] end.
Definition ex_two_sched : list (thr * bool) :=
  repeat (TC 1%nat, false) 40 ++ repeat (TC 0%nat, false) 40 ++ repeat (TW 0%nat, false) 2 ++ repeat (TW 1%nat, false) 8 ++
  repeat (TW 0%nat, false) 8.
Example ex_two_workers_not_fifo :
  start_log (run ex_two_sched (init 2 0 ex_two_progs)) = [0; 1]%nat /\ ~ desc (start_log (run ex_two_sched (init 2 0 ex_two_progs))).
Proof.
  split; [vm_compute; reflexivity|]. intros H.
  assert (E : start_log (run ex_two_sched (init 2 0 ex_two_progs)) = [0; 1]%nat) by (vm_compute; reflexivity).
  rewrite E in H. destruct H as [H _]. specialize (H 1%nat (or_introl eq_refl)). lia.
Qed.
