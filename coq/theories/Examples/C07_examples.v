(** Non-vacuity examples for C07 and the refutation witnesses of the pinned code (findings F4, F15). *)
From JR Require Import JsonClass JsonClassObs.

(** a world with every class shape: a class is listed before its bases *)
Definition w7 : pyenv :=
  mkEnv [("m.Child", mkClass KSlot "m" "Child" ["m.Base"] ["c"; "__p"] [] [] "" None []);
         ("m.Base", mkClass KSlot "m" "Base" [] ["a"] [] [] "" None []);
         ("m.sub.Bean", mkClass KDict "m.sub" "Bean" ["m.sub.Root"] [] [] [("x", VInt 0)] "" None []);
         ("m.sub.Root", mkClass KDict "m.sub" "Root" [] [] [] [("r", VNone)] "" None []);
         ("m.Point", mkClass (KSer false) "m" "Point" [] [] ["x"; "y"] [("tag", VStr "t")] "_serialize" None []);
         ("m.KwPoint", mkClass (KSer true) "m" "KwPoint" [] [] ["x"; "y"] [] "_serialize" None []);
         ("m.Color", mkClass KEnum "m" "Color" [] [] [] [] "" None [VInt 1; VStr "b"]);
         ("decimal.Decimal", mkClass KDecimal "decimal" "Decimal" [] [] [] [] "" None []);
         ("Loc", mkClass KDict "__main__" "Loc" [] [] [] [("v", VInt 1)] "" None [])]
        ["m"; "m.sub"; "decimal"].

Definition cfg7 : config := mkCfg true "_serialize" "_ignore" [] [("Loc", "Loc")].

Definition child : val := VInst "m.Child" [("c", VInt 1); ("_Child__p", VTuple [VInt 2]); ("a", VNone)].
Definition bean (held : val) : val := VInst "m.sub.Bean" [("r", VInt 5); ("x", VStr "s"); ("held", held)].
Definition loc : val := VInst "Loc" [("v", VList [VInt 3])].
Definition point : val := VInst "m.Point" [("x", VInt 1); ("y", VList [VInt 2]); ("tag", VStr "u"); ("extra", VNone)].
Definition kwpoint : val := VInst "m.KwPoint" [("x", VFlt (F 1 2)); ("y", VStr "")].

(** beans in a list, in a dict value, inside containers held by a field of another bean; local and qualified *)
Definition graph : val :=
  VList [bean (VDict [(VStr "in", VTuple [child; loc])]); point; kwpoint;
         VDict [(VStr "e", VEnum "m.Color" (VStr "b")); (VStr "d", VList [VDec "1.50"; loc])]].

Example ex_supported : supported w7 (cf_classes cfg7) "_serialize" "_ignore" graph = true.
Proof. vm_compute. reflexivity. Qed.

Example ex_roundtrip :
  (do d <- jc_dump std_hfun fixed w7 cfg7 "_serialize" "_ignore" [] graph;
   lres_val (jc_load_m fixed w7 (cf_classes cfg7) d)) = Ok (normi graph).
Proof. vm_compute. reflexivity. Qed.

Example ex_dumped_child :
  jc_dump std_hfun fixed w7 cfg7 "_serialize" "_ignore" [] child =
  Ok (VDict [(VStr "__jsonclass__", VList [VStr "m.Child"; VList []]);
             (VStr "c", VInt 1); (VStr "_Child__p", VList [VInt 2]); (VStr "a", VNone)]).
Proof. vm_compute. reflexivity. Qed.

(** a bean held DIRECTLY in a field is outside the domain (the field is omitted by dump, C20) *)
Example ex_direct_bean_unsupported :
  supported w7 (cf_classes cfg7) "_serialize" "_ignore" (bean loc) = false.
Proof. vm_compute. reflexivity. Qed.

(** hypothesis of C07_wf_instance_reloads on the fields of [bean]: constructor attributes r, x first *)
Example ex_wf :
  map fst (ctor_fields (e_ctab w7) "m.sub.Bean" []) = map fst [("r", VInt 5); ("x", VStr "s")] /\
  nodup_str (map fst ([("r", VInt 5); ("x", VStr "s")] ++ [("held", VNone)])%list) = true.
Proof. split; reflexivity. Qed.

(** ** F4: the pinned code does not forward `classes` into lists and dicts (lines 238, 242) *)
Definition pinned_f4 : variant := mkVariant true false true.

Example F4_local_classes_refuted :
  exists E cfg v, supported E (cf_classes cfg) "_serialize" "_ignore" v = true /\
    forall d, jc_dump std_hfun pinned_f4 E cfg "_serialize" "_ignore" [] v = Ok d ->
              lres_val (jc_load_m pinned_f4 E (cf_classes cfg) d) = Raise EValue.
Proof.
  exists w7, cfg7, (VList [loc]). split; [vm_compute; reflexivity|].
  intros d Hd. vm_compute in Hd. injection Hd as <-. vm_compute. reflexivity.
Qed.

(** at the top level the pinned code does find the local class *)
Example F4_top_level_works :
  (do d <- jc_dump std_hfun pinned_f4 w7 cfg7 "_serialize" "_ignore" [] loc;
   lres_val (jc_load_m pinned_f4 w7 (cf_classes cfg7) d)) = Ok (normi loc).
Proof. vm_compute. reflexivity. Qed.

(** ** F15: the pinned _slots_finder reports private slots under the unmangled name *)
Definition pinned_f15 : variant := mkVariant true true false.

Example F15_mangled_slot_refuted :
  exists E cfg v, supported E (cf_classes cfg) "_serialize" "_ignore" v = true /\
    jc_dump std_hfun pinned_f15 E cfg "_serialize" "_ignore" [] v = Raise EAttr.
Proof. exists w7, cfg7, child. split; vm_compute; reflexivity. Qed.
