(** Non-vacuity examples for property C19, and variants of the code that break it. *)
From JR Require Import Transport TransportProofs.

Definition t (n : Z) : val := VInt n.
Definition H := "HOST".
Definition P := "/rpc/x".

(** a concrete history with every kind of outcome (the same runs are made against the real
    proxy by the correspondence stage) *)
Example run_mixed :
  outcomes H P [FBodiless 204; FStatusLen 503; FCloseNoReply; FCloseNoReply; FEmpty200; FTruncated; FRefuse]
           [t 0; t 1; t 2; t 3; t 4; t 5; t 6; t 7]
  = [Raise (ETransport "HOST/rpc/x" 204);      (* bodiless status *)
     Raise ENotReady;                          (* its response is still attached: one failing call; the 503 is never read *)
     Raise ERemoteDisconnected;                (* closed twice: the retry is used up *)
     Raise EType;                              (* empty 200: None["result"] *)
     Raise EValue;                             (* truncated body *)
     Raise EConnRefused;                       (* stale connection, retry refused *)
     Ok (t 6); Ok (t 7)].
Proof. vm_compute. reflexivity. Qed.

(** one transparent retry: a request can be answered on the second attempt *)
Example run_retry :
  outcomes H P [FHealthyClose; FHealthy; FReset; FHealthy] [t 0; t 1; t 2] = [Ok (t 0); Ok (t 1); Ok (t 2)].
Proof. vm_compute. reflexivity. Qed.

(** hypotheses of C19_pending_cleared are satisfiable by a reachable state *)
Definition st_pending := fst (run_calls H P (init [FBodiless 204]) [t 0]).
Example pending_state_reachable : inv st_pending = true /\ idle st_pending = false.
Proof. vm_compute. auto. Qed.

(** hypotheses of C19_transport_error_fields / C19_reply_is_own *)
Example exchange_non200 :
  exchange (last_attempt_state H P (init [FCloseNoReply; FStatusLen 404]) (t 0)) (t 0)
  = Ok (mkResp 404 true BErrText).
Proof. vm_compute. reflexivity. Qed.

Example transport_error_after_retry :
  snd (proxy_call H P (init [FCloseNoReply; FStatusLen 404]) (t 0)) = Raise (ETransport "HOST/rpc/x" 404).
Proof. vm_compute. reflexivity. Qed.

(** hypothesis of C19_recovery_bound; the bound 1 is reached (tight) *)
Example recovery_hypothesis :
  forallb is_healthy (t_script st_pending) = true.
Proof. vm_compute. reflexivity. Qed.

Example recovery_bound_tight :
  failures (snd (run_calls H P st_pending [t 1; t 2; t 3])) = 1%nat.
Proof. vm_compute. reflexivity. Qed.

(** The invariant is what keeps foreign results out: from a state that violates it (an unread
    reply to an earlier request sits in the socket and no response is attached) the model DOES
    return the stale reply.  So C19_own_or_exception is not true by construction of the model. *)
Definition st_stale : state :=
  mkState (Some (mkConn (Some (mkSock PeerOpen [IResponse (mkResp 200 true (BReply (t 41)))])) false)) [].

Example stale_state_breaks_inv : inv st_stale = false.
Proof. reflexivity. Qed.

Example stale_state_returns_foreign :
  snd (proxy_call H P st_stale (t 42)) = Ok (t 41).
Proof. vm_compute. reflexivity. Qed.

(** ** Variant 1: single_request WITHOUT [self.close()] in its except path
    (mutants/C19_no_close_on_error.patch).  The connection with the unfinished response stays
    cached for ever: the recovery bound is refuted. *)

Definition single_request_noclose (host handler : str) (st : state) (tok : val) : state * res body :=
  let c := make_connection st in
  match h_request c (t_script st) tok with
  | (c1, script', Raise e) => (mkState (Some c1) script', Raise e)
  | (c1, script', Ok _) =>
      match h_getresponse c1 with
      | (c2, Raise e) => (mkState (Some c2) script', Raise e)
      | (c2, Ok r) =>
          if r_status r =? 200
          then (mkState (Some (h_read c2 r)) script', Ok (r_body r))
          else
            let c3 := if r_has_len r then h_read c2 r else c2 in
            (mkState (Some c3) script', Raise (ETransport (url_of host handler) (r_status r)))
      end
  end.

Definition proxy_call_noclose (host handler : str) (st : state) (tok : val) : state * res val :=
  let tr :=
    match single_request_noclose host handler st tok with
    | (st1, Raise e) => if retryable e then single_request_noclose host handler st1 tok else (st1, Raise e)
    | r => r
    end in
  match tr with
  | (st1, Raise e) => (st1, Raise e)
  | (st1, Ok b) => (st1, do r <- run_request b; proxy_result r)
  end.

Fixpoint run_calls_noclose (host handler : str) (st : state) (toks : list val) : state * list (res val) :=
  match toks with
  | [] => (st, [])
  | tok :: rest =>
      let '(st1, o) := proxy_call_noclose host handler st tok in
      let '(st2, os) := run_calls_noclose host handler st1 rest in
      (st2, o :: os)
  end.

Theorem noclose_recovery_refuted :
  exists script toks1 toks2,
    let st := fst (run_calls_noclose H P (init script) toks1) in
    forallb is_healthy (t_script st) = true /\
    (failures (snd (run_calls_noclose H P st toks2)) > 1)%nat.
Proof.
  exists [FBodiless 204], [t 0], [t 1; t 2; t 3]. vm_compute. split; [reflexivity|]. repeat constructor.
Qed.

(** ** Variant 2: single_request that does not drain the body of a non-200 reply
    (mutants/C19_no_drain.patch): the invariant's "no response attached" part fails after a
    status-with-length fault, so the next healthy call fails (the model of the real code says Own). *)

Definition single_request_nodrain (host handler : str) (st : state) (tok : val) : state * res body :=
  let c := make_connection st in
  match h_request c (t_script st) tok with
  | (_, script', Raise e) => (transport_close script', Raise e)
  | (c1, script', Ok _) =>
      match h_getresponse c1 with
      | (_, Raise e) => (transport_close script', Raise e)
      | (c2, Ok r) =>
          if r_status r =? 200
          then (mkState (Some (h_read c2 r)) script', Ok (r_body r))
          else (mkState (Some c2) script', Raise (ETransport (url_of host handler) (r_status r)))
      end
  end.

Example nodrain_differs :
  let st1 := fst (single_request_nodrain H P (init [FStatusLen 503]) (t 0)) in
  idle st1 = false /\
  idle (fst (single_request H P (init [FStatusLen 503]) (t 0))) = true /\
  snd (single_request_nodrain H P st1 (t 1)) = Raise ENotReady /\
  snd (single_request H P (fst (single_request H P (init [FStatusLen 503]) (t 0))) (t 1)) = Ok (BReply (t 1)).
Proof. vm_compute. repeat split; reflexivity. Qed.
