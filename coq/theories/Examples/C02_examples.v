(** C02: non-vacuity of the hypothesis of C02_total_wellformed / C02_http_status and the refutation
    witness of the pinned code (finding F15).  Definitions are in Dispatch_examples.v. *)
From JR Require Import Dispatch DispatchProofs DispatchTheorems Dispatch_examples.

(** the hypothesis [results_dumpable] holds for a concrete registry (a computable criterion) *)
Example C02_hypothesis_satisfiable : results_dumpable ex_body true.
Proof. exact ex_results_dumpable. Qed.

(** so the theorem applies to it: e.g. the HTTP answer to a parse error *)
Example C02_instance :
  exists r, do_post ex_body ex_sigs V2 ex_srv None PError = (200, r) /\ wf_reply r = true.
Proof. apply http_status. exact ex_results_dumpable. Qed.

(** a callable returning a non-JSON object with class translation off breaks the hypothesis,
    and the model then raises: the hypothesis is needed *)
Example C02_hypothesis_needed :
  marshaled_dispatch ex_body ex_sigs V2 (mkSrv ex_reg false false) None
    (PValue (call "opq" (VList []) (VInt 1))) = Raise EType.
Proof. reflexivity. Qed.

(** pinned code: F15 *)
Example C02_F15_refuted :
  exists e o log, answer_entry_v0 ex_body ex_sigs V2 ex_srv None e = (Some o, log) /\ dumpable o = false.
Proof. exact F15_refuted. Qed.
