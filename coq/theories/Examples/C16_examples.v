(** * C16 examples — non-vacuity of the C16 theorems on concrete schedules, and the model of the
    PRE-FIX FutureResult (threadpool.py before commit "fix: FutureResult notifies every registered
    callback exactly once", finding F10) with its refutation witnesses. *)
From Coq Require Import List Bool Arith.
From JR Require Import Sched Future FutureInv FutureTheorems.
Import ListNotations.

(** ** The repaired protocol: concrete runs that meet the hypotheses of the theorems *)
Definition cfg1 : cfg := mk_cfg (BRet (Some 7)) [KRet; KRaise; KArity] [ODone; OResultT; OResult].

Definition X n := repeat (Go TX) n.
Definition R i n := repeat (Go (TR i)) n.

(** registrar 0 entirely before, registrar 1 overlapping completion, registrar 2 after it *)
Definition sched1 : list move :=
  R 0 6 ++ X 4 ++ R 1 3 ++ X 1 ++ R 1 3 ++ X 10 ++ R 2 7 ++ [Go (TO 0); Go (TO 1); Go (TO 1); Go (TO 1); Go (TO 2); Go (TO 2); Go (TO 2)].

Example settled_reached : xp (run_future cfg1 sched1) = X_end /\
  map (fun i => rp (run_future cfg1 sched1) i) [0; 1; 2; 3] = [R_end; R_end; R_end; R_lock].
Proof. vm_compute. split; reflexivity. Qed.

(** 0 was replaced by 1 before completion (owed nothing), 1 is the one in force (called by execute),
    2 registered afterwards (called by set_callback) *)
Example owed_and_calls :
  map (owed (run_future cfg1 sched1)) [0; 1; 2; 3] = [false; true; true; false] /\
  map (ncalls (run_future cfg1 sched1)) [0; 1; 2; 3] = [0; 1; 1; 0] /\
  logged (run_future cfg1 sched1) = 2 /\
  map (oobs (run_future cfg1 sched1)) [0; 1; 2] = [Some (ObsDone true); Some (ObsRet (Some 7)); Some (ObsRet (Some 7))].
Proof. vm_compute. repeat split; reflexivity. Qed.

(** before the body has finished: a timed result() times out *)
Example timeout_before_finish :
  oobs (run_future cfg1 [Fire (TO 1); Go (TO 1); Go (TO 0)]) 1 = Some ObsTimeout /\
  oobs (run_future cfg1 [Fire (TO 1); Go (TO 1); Go (TO 0)]) 0 = Some (ObsDone false).
Proof. vm_compute. split; reflexivity. Qed.

(** a raising task: result() re-raises the same exception object *)
Example raising_task :
  oobs (run_future (mk_cfg (BRaise 3) [] [OResult]) (X 11 ++ [Go (TO 0); Go (TO 0); Go (TO 0)])) 0 = Some (ObsRaise 3).
Proof. vm_compute. reflexivity. Qed.

(** ** The pre-fix code (finding F10)

    def __notify(self):
        if self.__callback is not None:                       (N_test: reads __callback)
            self.__callback(data, exception, self.__extra)    (N_call: reads __callback and __extra)
    def set_callback(self, method, extra=None):
        self.__callback = method                              (pc 0)
        self.__extra = extra                                  (pc 1)
        if self._done_event.is_set(): self.__notify()         (pc 2, then N_test = 3, N_call = 4)
    def execute(...):  body (0); store data/exception (1); event.set() (2); finally: self.__notify() (3, 4) *)
Module Old.
  Record ost := mkO { oev : bool; ocb : option nat; oextra : option nat; oxp : nat; orp : nat -> nat;
                      ocalls : list (nat * option nat) }.
  Definition oinit := mkO false None None 0 (fun _ => 0) [].
  Definition ncall (s : ost) : ost :=
    match ocb s with
    | Some i => mkO (oev s) (ocb s) (oextra s) (oxp s) (orp s) ((i, oextra s) :: ocalls s)
    | None => s
    end.
  Definition set_xp (s : ost) (p : nat) := mkO (oev s) (ocb s) (oextra s) p (orp s) (ocalls s).
  Definition set_rp (s : ost) (i p : nat) := mkO (oev s) (ocb s) (oextra s) (oxp s) (fun j => if Nat.eqb j i then p else orp s j) (ocalls s).
  Inductive othread := OX | OR (i : nat).
  Definition ostep (s : ost) (t : othread) : option ost :=
    match t with
    | OX => match oxp s with
            | 0 => Some (set_xp s 1) | 1 => Some (set_xp s 2)
            | 2 => Some (set_xp (mkO true (ocb s) (oextra s) (oxp s) (orp s) (ocalls s)) 3)
            | 3 => Some (set_xp s (match ocb s with Some _ => 4 | None => 5 end))
            | 4 => Some (set_xp (ncall s) 5)
            | _ => None
            end
    | OR i => match orp s i with
              | 0 => Some (set_rp (mkO (oev s) (Some i) (oextra s) (oxp s) (orp s) (ocalls s)) i 1)
              | 1 => Some (set_rp (mkO (oev s) (ocb s) (Some i) (oxp s) (orp s) (ocalls s)) i 2)
              | 2 => Some (set_rp s i (if oev s then 3 else 5))
              | 3 => Some (set_rp s i (match ocb s with Some _ => 4 | None => 5 end))
              | 4 => Some (set_rp (ncall s) i 5)
              | _ => None
              end
    end.
  Definition orun := run ostep.
  Definition ocount (s : ost) (i : nat) := length (filter (fun k => Nat.eqb (fst k) i) (ocalls s)).
End Old.

(** registration stored before execute() reads it, its own is_set() test after the event is set:
    BOTH threads call the callback *)
Theorem F10_refuted_called_twice : exists sched,
  let s := Old.orun sched Old.oinit in
  Old.oxp s = 5 /\ Old.orp s 0 = 5 /\ Old.ocount s 0 = 2.
Proof.
  exists [Old.OR 0; Old.OR 0; Old.OX; Old.OX; Old.OX; Old.OR 0; Old.OR 0; Old.OR 0; Old.OX; Old.OX].
  vm_compute. repeat split; reflexivity.
Qed.

(** execute() notifies between the two assignments of set_callback: the callback gets a stale extra *)
Theorem F10_refuted_stale_extra : exists sched,
  let s := Old.orun sched Old.oinit in
  Old.oxp s = 5 /\ In (0, None) (Old.ocalls s).
Proof.
  exists [Old.OR 0; Old.OX; Old.OX; Old.OX; Old.OX; Old.OX].
  vm_compute. split; [reflexivity | left; reflexivity].
Qed.

(** the same two schedules on the repaired model (lock + completed flag): one call, own extra *)
Example F10_fixed_once :
  let s := run_future (mk_cfg (BRet None) [KRet] []) (R 0 3 ++ X 5 ++ R 0 4 ++ X 10 ++ R 0 3) in
  ncalls s 0 = 1 /\ map c_extra (calls s) = [Some 0].
Proof. vm_compute. split; reflexivity. Qed.
