(** C04: non-vacuity examples and the refutation witness of the pinned code (finding F2). *)
From JR Require Import Dispatch DispatchProofs DispatchTheorems Dispatch_examples.

Example C04_hypotheses :
  is_notification_entry (notify "fail") = true /\ method_of (notify "fail") = Some "fail"
  /\ sv_pool ex_srv = false.
Proof. repeat split. Qed.

Example C04_inline_instance :
  answer_entry ex_body ex_sigs V2 ex_srv None (notify "fail") = (None, [EvCall 1%nat (VList [])]).
Proof. exact ex_notification_inline. Qed.

Example C04_raising_dispatcher_instance :
  answer_entry ex_body ex_sigs V2 ex_srv (Some 4%nat) (notify "ok")
  = (None, [EvCall 4%nat (dispatch_args "ok" (VList []))]).
Proof. exact ex_notification_custom_raises. Qed.

Example C04_pooled_instance :
  answer_entry ex_body ex_sigs V2 (mkSrv ex_reg true true) None (notify "ok")
  = (None, [EvEnqueue None "ok" (VList []) (Some V2)])
  /\ drain ex_body ex_sigs ex_reg [EvEnqueue None "ok" (VList []) (Some V2)] = [EvCall 0%nat (VList [])].
Proof. split; reflexivity. Qed.

Example C04_v1_null_id_and_empty_id :
  is_notification_entry (VDict [(VStr "method", VStr "ok"); (VStr "id", VNone)]) = true
  /\ is_notification_entry (VDict [(VStr "jsonrpc", VStr "2.0"); (VStr "method", VStr "ok"); (VStr "id", VStr "")]) = true
  /\ is_notification_entry (VDict [(VStr "jsonrpc", VStr "2.0"); (VStr "method", VStr "ok"); (VStr "id", VInt 0)]) = false.
Proof. repeat split. Qed.

(** pinned code: F2 *)
Example C04_F2_refuted :
  exists e, is_notification_entry e = true
            /\ fst (answer_entry_v0 ex_body ex_sigs V2 ex_srv (Some 4%nat) e) <> None.
Proof. exact F2_refuted. Qed.
