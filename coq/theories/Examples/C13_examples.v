(** Non-vacuity examples for property C13 (the hypotheses of the theorems of Props/C13.v are satisfied
    by concrete heaps, servers, requests and schedules), and a MUTANT model — not of the pinned code,
    which is correct here — that writes [version := 1.0] into the server's own Config instead of a copy,
    with witnesses that the theorems fail for it. *)
From JR Require Import Dispatch DispatchProofs DispatchTheorems Config ConfigProofs.

(** ** A concrete server: Config(version=2.0) with non-empty tables at location 5, DEFAULT at 2 *)

Definition ex_h : heap :=
  heap_with_server [] [] (VFlt (F 2 1)) (VBool true) [(VStr "local.Point", VStr "class-Point")] [(VStr "hk", VStr "hv")].

Definition ex_table : list cdesc := [
  mkC default_sig (BReturn (VInt 42));                 (* 0 "ok" *)
  mkC default_sig (BRaise "ValueError" "boom")         (* 1 "fail" *)
].
Definition ex_hs : hserver := mkHS 5%nat (mkReg [("ok", 0%nat); ("fail", 1%nat)] None) false.
Definition ex_body := body_of ex_table.
Definition ex_sigs := sigs_of ex_table.

Example ex_heap_wf : heap_wf ex_h = true.                            Proof. reflexivity. Qed.
Example ex_server_ok : cfg_ok ex_h (hs_cfg ex_hs) = true.            Proof. reflexivity. Qed.
Example ex_default_ok : cfg_ok ex_h default_loc = true.              Proof. reflexivity. Qed.
Example ex_form : read_form ex_h (hs_cfg ex_hs) = Ok V2.             Proof. reflexivity. Qed.
Example ex_jsonclass : read_jsonclass ex_h (hs_cfg ex_hs) = Ok true. Proof. reflexivity. Qed.

(** a dispatcher built without a config argument: DEFAULT is the server's Config *)
Example ex_default_server_ok :
  let h := heap0 [(VStr "k", VStr "v")] [] in
  cfg_ok h default_loc = true /\ read_form h default_loc = Ok V2 /\ read_jsonclass h default_loc = Ok true.
Proof. repeat split. Qed.

(** a version 1.0 server *)
Example ex_v1_server_ok :
  let h := heap_with_server [] [] (VFlt (F 1 1)) (VBool false) [] [] in
  cfg_ok h 5%nat = true /\ read_form h 5%nat = Ok V1 /\ read_jsonclass h 5%nat = Ok false.
Proof. repeat split. Qed.

(** ** Requests *)

Definition call10 : val := VDict [(VStr "method", VStr "ok"); (VStr "params", VList []); (VStr "id", VInt 1)].
Definition call20 : val :=
  VDict [(VStr "jsonrpc", VStr "2.0"); (VStr "method", VStr "ok"); (VStr "params", VList []); (VStr "id", VInt 2)].
Definition fail10 : val := VDict [(VStr "method", VStr "fail"); (VStr "params", VList []); (VStr "id", VInt 3)].
Definition invalid20 : val := VDict [(VStr "jsonrpc", VStr "2.0"); (VStr "id", VInt 4)].

Example ex_wellformed : wellformed_entry call10 = true /\ wellformed_entry call20 = true
                        /\ wellformed_entry fail10 = true /\ wellformed_entry invalid20 = false.
Proof. repeat split. Qed.

(** the compatibility branch runs: a 1.0-form call on the 2.0 server is answered in 1.0 form, through
    three allocations (locations 6, 7, 8) and one more write, to the copy (8) *)
Example ex_serve_call10 :
  exists h1, serve ex_body ex_sigs ex_h ex_hs None (PValue call10)
             = Ok (h1, Ok (ROne (VDict [(VStr "result", VInt 42); (VStr "id", VInt 1); (VStr "error", VNone)]),
                           [EvCall 0%nat (VList [])]))
             /\ map wloc (h_log h1) = [8%nat; 8%nat; 7%nat; 6%nat]
             /\ snapshot h1 5%nat = snapshot ex_h 5%nat /\ snapshot h1 default_loc = snapshot ex_h default_loc.
Proof. eexists. vm_compute. repeat split. Qed.

Example ex_serve_call20 :
  serve ex_body ex_sigs ex_h ex_hs None (PValue call20)
  = Ok (ex_h, Ok (ROne (VDict [(VStr "result", VInt 42); (VStr "id", VInt 2); (VStr "jsonrpc", VStr "2.0")]),
                  [EvCall 0%nat (VList [])])).
Proof. reflexivity. Qed.

(** a history mixing the forms, a batch and an unparsable body: the reply to the last body is the
    reply it gets without history *)
Definition ex_history : list parse_outcome :=
  [PValue call10; PValue (VList [fail10; call20; invalid20; call10]); PError; PValue call20; PEmpty].

Example ex_history_free :
  reply_after ex_body ex_sigs ex_h ex_hs None ex_history (PValue call20)
  = reply_after ex_body ex_sigs ex_h ex_hs None [] (PValue call20).
Proof. vm_compute. reflexivity. Qed.

Example ex_history_runs :
  exists h1 xs, serve_all ex_body ex_sigs ex_h ex_hs None ex_history = Ok (h1, xs)
                /\ length xs = 5%nat /\ length (h_log h1) = 12%nat
                /\ snapshot h1 5%nat = snapshot ex_h 5%nat.
Proof. eexists _, _. vm_compute. repeat split. Qed.

(** ** Config.copy() and operations *)

Definition ex_ops : list op :=
  [SetVersion (VFlt (F 1 1)); ClassesAdd (VStr "Q") (VStr "class-Q"); ClassesDel (VStr "local.Point");
   HandlersSet (VStr "hk") (VInt 0); HandlersDel (VStr "hk"); SetUseJsonclass (VBool false); SetUserAgent VNone;
   SetContentType (VStr "application/json"); SetSerializeMethod (VStr "_s"); SetIgnoreAttr (VStr "_i")].

Example ex_copy_then_ops :
  exists h1 c' h2 h3,
    config_copy ex_h 5%nat = Ok (h1, c') /\ c' = 8%nat
    /\ apply_ops h1 c' ex_ops = Ok h2 /\ snap_eqb (snapshot h2 5%nat) (snapshot ex_h 5%nat) = true
    /\ snap_eqb (snapshot h2 c') (snapshot h1 c') = false                    (* the operations do change the copy *)
    /\ apply_ops h1 5%nat ex_ops = Ok h3 /\ snap_eqb (snapshot h3 c') (snapshot h1 c') = true
    /\ snap_eqb (snapshot h3 5%nat) (snapshot ex_h 5%nat) = false.
Proof. eexists _, _, _, _. vm_compute. repeat split. Qed.

(** ** Concurrent serving: three threads, two schedules that let every thread finish *)

Definition treq_of (e : val) : treq :=
  match e with
  | VDict m => mkTReq None m (match dget m "method" with Some (VStr s) => s | _ => "" end) (params_of e)
  | _ => mkTReq None [] "" VNone
  end.

Definition ex_reqs : list treq := [treq_of call10; treq_of call20; treq_of fail10].

Definition pcs (s : cstate) : list pc := map t_pc (cs_threads s).

Definition done_form (p : pc) : option form :=
  match p with PDone (Some o, _) => reply_form o | _ => None end.

Definition ex_sched_interleaved : list nat :=
  [0; 2; 1; 0; 2; 2; 0; 1; 1; 0; 2; 0; 2; 1; 7; 0; 2; 1; 0; 2]%nat.
Definition ex_sched_blocks : list nat :=
  [2; 2; 2; 2; 2; 1; 1; 1; 1; 0; 0; 0; 0; 0; 0; 0]%nat.

Example ex_concurrent_interleaved :
  let s := run_sched ex_body ex_sigs ex_hs ex_sched_interleaved (mkCS ex_h (init_threads ex_reqs)) in
  map done_form (pcs s) = [Some V1; Some V2; Some V1]
  /\ snap_eqb (snapshot (cs_heap s) 5%nat) (snapshot ex_h 5%nat) = true
  /\ length (h_log (cs_heap s)) = 8%nat.
Proof. vm_compute. repeat split. Qed.

Example ex_concurrent_blocks :
  let s := run_sched ex_body ex_sigs ex_hs ex_sched_blocks (mkCS ex_h (init_threads ex_reqs)) in
  map done_form (pcs s) = [Some V1; Some V2; Some V1]
  /\ pcs s = pcs (run_sched ex_body ex_sigs ex_hs ex_sched_interleaved (mkCS ex_h (init_threads ex_reqs))).
Proof. vm_compute. repeat split. Qed.

(** ** The mutant: [config = self.json_config; config.version = 1.0] — no copy *)

Definition request_config_mut (h : heap) (srv : loc) (m : list (val * val)) : res (heap * loc) :=
  do f <- read_form h srv;
  if negb (dhas m "jsonrpc") && form_eqb f V2
  then do h1 <- apply_op h srv (SetVersion one_point_zero); Ok (h1, srv)
  else Ok (h, srv).

Definition single_dispatch_mut (h : heap) (hs : hserver) (dm : option cid)
           (m : list (val * val)) (method : str) (params : val) : res (heap * (option val * list event)) :=
  do hc <- request_config_mut h (hs_cfg hs) m;
  let '(h1, c) := hc in
  do f <- read_form h1 c;
  do jc <- read_jsonclass h1 c;
  Ok (h1, single_dispatch_with ex_body ex_sigs f (mkSrv (hs_reg hs) (hs_pool hs) jc) dm m method params).

Definition answer_entry_mut (h : heap) (hs : hserver) (dm : option cid) (e : val)
  : res (heap * (option val * list event)) :=
  do f <- read_form h (hs_cfg hs);
  match validate_request f e with
  | Invalid ft => Ok (h, (Some (fault_dump ft), []))
  | Valid m method params => single_dispatch_mut h hs dm m method params
  end.

Definition answer_form (r : res (heap * (option val * list event))) : option form :=
  match r with Ok (_, (Some o, _)) => reply_form o | _ => None end.

(** C13_reply_function fails for the mutant: the 2.0-form call is answered in 2.0 form on the initial
    heap, and in 1.0 form after a 1.0-form call has been served *)
Example nocopy_history_dependent_refuted :
  exists h hs e1 e2,
    cfg_ok h (hs_cfg hs) = true /\ read_form h (hs_cfg hs) = Ok V2
    /\ wellformed_entry e2 = true
    /\ answer_form (answer_entry_mut h hs None e2) = Some V2
    /\ answer_form (do a <- answer_entry_mut h hs None e1; answer_entry_mut (fst a) hs None e2) = Some V1.
Proof. exists ex_h, ex_hs, call10, call20. vm_compute. repeat split. Qed.

(** C13_config_unchanged fails for the mutant: the write goes to the server's own location *)
Example nocopy_writes_server_config_refuted :
  exists h hs e h1 out,
    cfg_ok h (hs_cfg hs) = true /\ answer_entry_mut h hs None e = Ok (h1, out)
    /\ map wloc (h_log h1) = [hs_cfg hs]
    /\ snap_eqb (snapshot h1 (hs_cfg hs)) (snapshot h (hs_cfg hs)) = false.
Proof. exists ex_h, ex_hs, call10. eexists _, _. vm_compute. repeat split. Qed.

(** a copy that shares the tables (new_config.classes = self.classes): C13_copy_independent fails *)
Definition config_copy_shared (h : heap) (c : loc) : res (heap * loc) :=
  do r <- get_cfg h c;
  let '(h1, c') := alloc_cfg h r in
  Ok (h1, c').

Example shared_copy_refuted :
  exists h c h1 c' h2,
    cfg_ok h c = true /\ config_copy_shared h c = Ok (h1, c')
    /\ apply_ops h1 c' [ClassesAdd (VStr "Q") (VStr "class-Q")] = Ok h2
    /\ snap_eqb (snapshot h2 c) (snapshot h c) = false.
Proof. exists ex_h, 5%nat. eexists _, _, _. vm_compute. repeat split. Qed.
