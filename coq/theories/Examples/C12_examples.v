(** Non-vacuity examples for C12 and the refutation witness of the pre-fix server_close (finding F7). *)
From JR Require Import Server.
From Coq Require Import Arith.
Local Open Scope nat_scope.

(** ** handler level: a concrete dispatcher, four connections (good, failing dispatch, bad path, no length) *)
Definition ex_dispatch (d : string) : dres * list string :=
  if String.eqb d "ping" then (DReply "pong", ["tok-ping"])
  else if String.eqb d "boom" then (DFail, ["tok-boom"])
  else (DReply "parse-error", []).

Definition ex_reqs : list request :=
  [mkReq true (Some 4) "ping"; mkReq true (Some 4) "boom"; mkReq false (Some 4) "ping"; mkReq true None "ping";
   mkReq true (Some 2) "ping"].

Definition ex_final := run ex_dispatch "F500" "P404" 2 ([0;1;2;0;3;4;1;1;2;0;0;3;4;4;1;0;3] ++ concat (repeat [4;3;2;1;0] 12))%list (init ex_reqs).

Example ex_all_done : map (@c_pc string) ex_final = [HDone; HDone; HDone; HDone; HDone].
Proof. vm_compute. reflexivity. Qed.

Example ex_replies : map (@c_wfile string) ex_final =
  [Some (200, "pong"); Some (500, "F500"); Some (404, "P404"); Some (500, "F500"); Some (200, "parse-error")].
Proof. vm_compute. reflexivity. Qed.

Example ex_effects : map (@c_effects string) ex_final = [["tok-ping"]; ["tok-boom"]; []; []; []].
Proof. vm_compute. reflexivity. Qed.

(** the pool gate is real: with one worker a second connection cannot be entered while the first is active *)
Example ex_gate : step ex_dispatch "F500" "P404" 1 (run ex_dispatch "F500" "P404" 1 [0] (init ex_reqs)) 1 = None.
Proof. vm_compute. reflexivity. Qed.

(** ** lifecycle: legal histories exist, and the hypotheses of the theorems are met *)
Example legal_close_alone : legal Pooled [Construct; ServerClose] = true.          Proof. reflexivity. Qed.
Example legal_stop_sequence : legal Plain [Construct; ServeInThread; Request true; Shutdown; ServerClose] = true.
Proof. reflexivity. Qed.
Example legal_reserve : legal Pooled [Construct; ServeInThread; Shutdown; ServeInThread; ServerClose] = true.
Proof. reflexivity. Qed.
Example illegal_shutdown_not_serving : legal Plain [Construct; Shutdown] = false.  Proof. reflexivity. Qed.
Example illegal_plain_close_serving : legal Plain [Construct; ServeInThread; ServerClose] = false.
Proof. reflexivity. Qed.

(** repaired code: close without ever serving returns, socket closed, pool stopped *)
Example close_alone_returns : lobs Pooled [Construct; ServerClose] = (2, false, Some true, false).
Proof. vm_compute. reflexivity. Qed.

(** a plain server's shutdown() waits for the handler running inline; all five calls return *)
Example plain_inflight : lobs Plain [Construct; ServeInThread; Request true; Shutdown; ServerClose] = (5, false, Some true, false).
Proof. vm_compute. reflexivity. Qed.

(** while serving, the loop runs: the fourth component of the observation is not constantly false *)
Example serving_observed : lobs Pooled [Construct; ServeInThread; Request false] = (3, true, None, true).
Proof. vm_compute. reflexivity. Qed.

(** a reachable state in which ServerClose has returned (hypothesis of C12_closed_state) *)
Example closed_reachable :
  close_returned (lrun Pooled [AMain; AMain; AMain; AMain; AMain; AMain; ALoop; AMain; AMain; ALoop; AHandler; AWorker; AMain; AMain; AMain]
                       (linit [Construct; ServeInThread; Request true; ServerClose])) = true.
Proof. vm_compute. reflexivity. Qed.

(** ** F7 — the pinned server_close: [SimpleJSONRPCServer.shutdown(self)] unconditionally *)
Definition lstep_v0 := lstep_gen (fun _ => true).
Definition lrun_v0 := lrun_gen (fun _ => true).

(** the history [Construct; ServerClose] is legal, and after the caller's two steps it is inside
    shutdown() waiting for an event nobody will ever set: no thread can move, the call has not returned *)
Example F7_refuted :
  exists k h sched, legal k h = true /\
    let s := lrun_v0 k sched (linit h) in
    main_finished s = false /\ forall a, lstep_v0 k s a = None.
Proof.
  exists Pooled, [Construct; ServerClose], [AMain; AMain]. split; [reflexivity|].
  split; [reflexivity|]. intros a; destruct a; reflexivity.
Qed.

(** the same through the executor the correspondence stage uses: only Construct returns, the socket stays open *)
Example F7_refuted_obs : lobs_gen (fun _ => true) Pooled [Construct; ServerClose] = (1, true, None, false).
Proof. vm_compute. reflexivity. Qed.

(** the pinned code is fine once the loop has run: the defect is specific to never having served *)
Example F7_prefix_ok_after_serving :
  lobs_gen (fun _ => true) Pooled [Construct; ServeInThread; Shutdown; ServerClose] = (4, false, Some true, false).
Proof. vm_compute. reflexivity. Qed.
