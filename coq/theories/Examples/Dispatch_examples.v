(** Non-vacuity examples for the dispatch group (C02, C03, C04, C05) and the models of the
    PINNED (pre-fix) code with the refutation witnesses of findings F1, F2 and F15. *)
From JR Require Import Dispatch DispatchProofs DispatchTheorems.

(** ** A concrete registry: the hypotheses of the theorems are satisfiable *)

Definition ex_table : list cdesc := [
  mkC default_sig (BReturn (VInt 42));                                   (* 0  "ok"   *)
  mkC default_sig (BRaise "ValueError" "boom");                          (* 1  "fail" *)
  mkC (mkSig ["a"; "b"] 0 false [] false) (BReturn (VStr "two"));        (* 2  "two"  *)
  mkC default_sig (BReturn (VOpaque 0));                                 (* 3  "opq": conversion fails *)
  mkC default_sig (BRaise "RuntimeError" "dm-boom");                     (* 4  a raising dispatch function *)
  mkC default_sig (BReturn (VTuple [VInt 1; VDict [(VStr "k", VNone)]]))  (* 5  "tup"  *)
].

Definition ex_reg : registry :=
  mkReg [("ok", 0%nat); ("fail", 1%nat); ("two", 2%nat); ("opq", 3%nat); ("tup", 5%nat)]
        (Some (mkInst None [("pub", ACallable 0%nat); ("_priv", ACallable 0%nat);
                            ("sub", AObj [("deep", ACallable 0%nat); ("__d", ACallable 0%nat)])])).

Definition ex_srv : server := mkSrv ex_reg false true.
Definition ex_body := body_of ex_table.
Definition ex_sigs := sigs_of ex_table.

(** a computable sufficient condition for [results_dumpable] on table-defined callables *)
Definition table_results_ok (jc : bool) (t : list cdesc) : bool :=
  forallb (fun d => match cd_beh d with
                    | BReturn v => match conv jc v with Ok v' => dumpable v' | Raise _ => true end
                    | BEcho => false
                    | _ => true
                    end) t.

Lemma table_results_dumpable jc t : table_results_ok jc t = true -> results_dumpable (body_of t) jc.
Proof.
  intros H c a v v' Hb Hc. unfold body_of in Hb.
  destruct (nth_error t c) as [d|] eqn:E; [|discriminate].
  apply nth_error_In in E. unfold table_results_ok in H. rewrite forallb_forall in H.
  specialize (H d E). destruct (cd_beh d); try discriminate.
  inversion Hb; subst. now rewrite Hc in H.
Qed.

Example ex_results_dumpable : results_dumpable ex_body true.
Proof. apply table_results_dumpable. reflexivity. Qed.

Definition call (method : str) (params : val) (i : val) : val :=
  VDict [(VStr "jsonrpc", VStr "2.0"); (VStr "method", VStr method); (VStr "params", params); (VStr "id", i)].
Definition notify (method : str) : val :=
  VDict [(VStr "jsonrpc", VStr "2.0"); (VStr "method", VStr method)].

(** C02: a reply per kind of body *)
Example ex_reply_ok :
  marshaled_dispatch ex_body ex_sigs V2 ex_srv None (PValue (call "ok" (VList []) (VInt 0)))
  = Ok (ROne (resp_obj V2 (VInt 0) (VInt 42)), [EvCall 0%nat (VList [])]).
Proof. reflexivity. Qed.

Example ex_reply_parse_error :
  marshaled_dispatch ex_body ex_sigs V1 ex_srv None PError
  = Ok (ROne (err_obj V1 VNone (-32700) "Request invalid."), []).
Proof. reflexivity. Qed.

Example ex_reply_conversion_fails :
  fst (answer_entry ex_body ex_sigs V2 ex_srv None (call "opq" (VList []) (VBool false)))
  = Some (err_obj V2 (VBool false) (-32603) "ConversionError:").
Proof. reflexivity. Qed.

Example ex_reply_tuple_result :
  fst (answer_entry ex_body ex_sigs V2 ex_srv None (call "tup" (VList []) (VInt 1)))
  = Some (resp_obj V2 (VInt 1) (VList [VInt 1; VDict [(VStr "k", VNone)]])).
Proof. reflexivity. Qed.

(** C03: a mixed batch — hypotheses of C03_batch_reply / C03_empty_batch_body are met *)
Definition ex_batch : list val :=
  [call "ok" (VList []) (VFlt (F 3 2)); notify "ok"; VInt 5; call "nope" (VList []) (VList [VInt 1]);
   VDict [(VStr "jsonrpc", VStr "2.0"); (VStr "id", VDict [])]].

Example ex_batch_answerable : filter expects_answer ex_batch <> [].
Proof. discriminate. Qed.

Example ex_batch_ids :
  map reply_id (fst (batch ex_body ex_sigs V2 ex_srv None ex_batch))
  = [Some (VFlt (F 3 2)); Some VNone; Some (VList [VInt 1]); Some (VDict [])].
Proof. reflexivity. Qed.

Example ex_all_notifications :
  [notify "ok"; notify "fail"; notify "nope"] <> []
  /\ forallb is_notification_entry [notify "ok"; notify "fail"; notify "nope"] = true.
Proof. split; [discriminate|reflexivity]. Qed.

(** C04: hypotheses of C04_inline met; the notification ran once and is not answered *)
Example ex_notification_inline :
  answer_entry ex_body ex_sigs V2 ex_srv None (notify "fail") = (None, [EvCall 1%nat (VList [])]).
Proof. reflexivity. Qed.

Example ex_notification_custom_raises :
  answer_entry ex_body ex_sigs V2 ex_srv (Some 4%nat) (notify "ok")
  = (None, [EvCall 4%nat (dispatch_args "ok" (VList []))]).
Proof. reflexivity. Qed.

Example ex_notification_pooled :
  answer_entry ex_body ex_sigs V2 (mkSrv ex_reg true true) None (notify "ok")
  = (None, [EvEnqueue None "ok" (VList []) (Some V2)]).
Proof. reflexivity. Qed.

(** C05: hypotheses met *)
Example ex_private : has_underscore_segment "sub.__d" = true /\ lookup "sub.__d" (r_funcs ex_reg) = None.
Proof. split; reflexivity. Qed.

Example ex_private_code :
  dispatch ex_body ex_sigs ex_reg "sub.__d" (VList []) = (DFault (-32601) "Method sub.__d not supported.", []).
Proof. reflexivity. Qed.

Example ex_public_nested :
  dispatch ex_body ex_sigs ex_reg "sub.deep" (VList []) = (DVal (VInt 42), [EvCall 0%nat (VList [])]).
Proof. reflexivity. Qed.

Example ex_bad_arity : call_binds (ex_sigs 2%nat) (VList [VInt 1]) = false.
Proof. reflexivity. Qed.

Example ex_good_arity : call_binds (ex_sigs 2%nat) (VDict [(VStr "b", VInt 1); (VStr "a", VInt 2)]) = true.
Proof. reflexivity. Qed.

Example ex_method_exception :
  ex_body 1%nat (VList []) = RaiseExn "ValueError" "boom" /\ "ValueError" <> "TypeError".
Proof. split; [reflexivity|discriminate]. Qed.

(** ** The pinned code (before the repairs) *)

Section Pinned.
  Variable body : cid -> val -> outcome.
  Variable sigs : cid -> signature.

  (** _marshaled_single_dispatch as pinned: the Faults built on the two exception paths carry no
      rpcid (F1), and the first one is returned before the notification test (F2) *)
  Definition single_dispatch_v0 (srvf : form) (srv : server) (dm : option cid)
             (m : list (val * val)) (method : str) (params : val) : option val * list event :=
    let f := request_form srvf m in
    let notif := is_notification m in
    if notif && sv_pool srv
    then (None, [EvEnqueue dm method params (match dm with Some _ => None | None => Some f end)])
    else
      let '(r, log) := run_target body sigs (sv_reg srv) dm method params in
      let rpcid := request_id m in
      match r with
      | DExn cls msg => (Some (err_obj f VNone (-32603) (cls ++ ":" ++ msg)), log)
      | DFault code msg => if notif then (None, log) else (Some (err_obj f rpcid code msg), log)
      | DVal v =>
          if notif then (None, log)
          else match (if sv_jsonclass srv then convert v else Ok v) with
               | Ok v' => (Some (resp_obj f rpcid v'), log)
               | Raise _ => (Some (err_obj f VNone (-32603) "ConversionError:"), log)
               end
      end.

  (** validate_request as pinned: the id is not checked (F15) *)
  Definition validate_request_v0 (srvf : form) (e : val) : validated :=
    match e with
    | VDict m =>
        let rpcid := request_id m in
        if negb (has_version m)
        then Invalid (mkFault (-32600) "Request invalid." rpcid srvf)
        else
          let params := match dget m "params" with Some p => p | None => VList [] end in
          match dget m "method" with
          | Some (VStr s) =>
              if negb (String.eqb s "") && is_param_container params
              then Valid m s params
              else Invalid (mkFault (-32600) "Invalid request parameters or method." rpcid srvf)
          | _ => Invalid (mkFault (-32600) "Invalid request parameters or method." rpcid srvf)
          end
    | _ => Invalid (mkFault (-32600) "Request must be a dict" VNone srvf)
    end.

  Definition answer_entry_v0 (srvf : form) (srv : server) (dm : option cid) (e : val) : option val * list event :=
    match validate_request_v0 srvf e with
    | Invalid ft => (Some (fault_dump ft), [])
    | Valid m method params => single_dispatch_v0 srvf srv dm m method params
    end.
End Pinned.

(** F1: on the pinned tree the response to a request whose custom dispatch function raises does
    not carry the request's id *)
Example F1_refuted_custom_dispatch :
  exists e o log, answer_entry_v0 ex_body ex_sigs V2 ex_srv (Some 4%nat) e = (Some o, log)
                  /\ reply_id o <> Some (usable_id e).
Proof. exists (call "ok" (VList []) (VInt 9)). eexists _, _. split; [reflexivity|]. cbn. discriminate. Qed.

Example F1_refuted_conversion :
  exists e o log, answer_entry_v0 ex_body ex_sigs V2 ex_srv None e = (Some o, log)
                  /\ reply_id o <> Some (usable_id e).
Proof. exists (call "opq" (VList []) (VInt 0)). eexists _, _. split; [reflexivity|]. cbn. discriminate. Qed.

(** F2: on the pinned tree a notification whose dispatch function raises is answered *)
Example F2_refuted :
  exists e, is_notification_entry e = true
            /\ fst (answer_entry_v0 ex_body ex_sigs V2 ex_srv (Some 4%nat) e) <> None.
Proof. exists (notify "ok"). split; [reflexivity|]. cbn. discriminate. Qed.

(** F15: on the pinned tree an id the class translator turned into an object is echoed into the
    response, which json.dumps then refuses: _marshaled_dispatch raises *)
Example F15_refuted :
  exists e o log, answer_entry_v0 ex_body ex_sigs V2 ex_srv None e = (Some o, log) /\ dumpable o = false.
Proof. exists (call "ok" (VList []) (VOpaque 0)). eexists _, _. split; reflexivity. Qed.

(** the repaired model on the same witnesses *)
Example F1_fixed : reply_id (match fst (answer_entry ex_body ex_sigs V2 ex_srv (Some 4%nat) (call "ok" (VList []) (VInt 9)))
                             with Some o => o | None => VNone end) = Some (VInt 9).
Proof. reflexivity. Qed.

Example F15_fixed :
  fst (answer_entry ex_body ex_sigs V2 ex_srv None (call "ok" (VList []) (VOpaque 0)))
  = Some (err_obj V2 VNone (-32600) "Request id invalid.").
Proof. reflexivity. Qed.
