(** * C01 examples — the hypotheses of the C01 theorems are met by concrete tables, and the closed forms
    of the theorems agree with the executable model on a grid of configurations (non-vacuity). *)
From Coq Require Import List ZArith String Bool.
From JR Require Import Val PyOps Payload Client Dispatch EndToEnd EndToEndProofs.
Import ListNotations.
Open Scope string_scope.

Definition ex_body (c : cid) (p : val) : outcome := Return (VTuple [VInt 1; p; VDict [(VStr "k", VTuple [])]]).
Definition ex_sigs (c : cid) : signature := default_sig.
Definition ex_fresh (n : nat) : str := "uuid".
Definition ex_reg := mkReg [("méth od.x", 3%nat)] None.

Definition ex_lhs srvf sjc cv cjc carg a :=
  proxy_call ex_body ex_sigs ex_fresh f20 srvf (mkSrv ex_reg false sjc) None (mkClient (mkPcfg cv cjc) carg) "méth od.x" a 0%nat (mkHist [] []).
Definition ex_rhs srvf cv cjc carg a :=
  let c := mkClient (mkPcfg cv cjc) carg in
  let v := VTuple [VInt 1; entered a; VDict [(VStr "k", VTuple [])]] in
  (Ok (norm v), [EvCall 3%nat (entered a)],
   add_response (add_request (mkHist [] []) (request_value (req_v2 c) "méth od.x" a (ex_fresh 0%nat)))
                (Some (resp_obj (reply_form (req_v2 c) srvf) (VStr (ex_fresh 0%nat)) (norm v))),
   1%nat).
Definition ex_args := [Positional []; Positional [VInt 1; VList [VNone]]; Keyword [];
                       Keyword [(VStr "a", VFlt FNegZero); (VStr "", VDict [])]].
Definition ex_grid :=
  flat_map (fun srvf => flat_map (fun sjc => flat_map (fun cv => flat_map (fun cjc => flat_map (fun carg =>
    map (fun a => (srvf, sjc, cv, cjc, carg, a)) ex_args) [VNone; f10; f20]) [true; false]) [f10; f20]) [true; false]) [V1; V2].

(** 192 configurations: the closed form of C01_single_call is what the executable model computes *)
Example single_call_grid :
  forallb (fun '(srvf, sjc, cv, cjc, carg, a) =>
    match ex_lhs srvf sjc cv cjc carg a, ex_rhs srvf cv cjc carg a with
    | (Ok x, l1, h1, n1), (Ok y, l2, h2, n2) =>
        val_eqb x y && list_eqb event_eqb l1 l2 && list_eqb val_eqb (h_requests h1) (h_requests h2)
        && list_eqb opt_val_eqb (h_responses h1) (h_responses h2) && Nat.eqb n1 n2
    | _, _ => false
    end) ex_grid = true.
Proof. vm_compute. reflexivity. Qed.

(** the hypotheses of C01_single_call hold for this table *)
Example hypotheses_hold :
  lookup "méth od.x" (r_funcs ex_reg) = Some 3%nat /\
  forallb args_json ex_args = true /\
  forallb (fun a => call_binds (ex_sigs 3%nat) (entered a)) ex_args = true /\
  dumpable (VTuple [VInt 1; VList []; VDict [(VStr "k", VTuple [])]]) = true.
Proof. vm_compute. repeat split; reflexivity. Qed.

(** falsy results come back exactly *)
Example falsy_results :
  map (fun v => fst (fst (fst (proxy_call (fun _ _ => Return v) ex_sigs ex_fresh f20 V2 (mkSrv ex_reg false true) None
                                          (mkClient (mkPcfg f20 true) VNone) "méth od.x" (Positional []) 0%nat (mkHist [] [])))))
      [VNone; VBool false; VInt 0; VFlt (F 0 1); VFlt FNegZero; VStr ""; VList []; VDict []]
  = map (@Ok val) [VNone; VBool false; VInt 0; VFlt (F 0 1); VFlt FNegZero; VStr ""; VList []; VDict []].
Proof. vm_compute. reflexivity. Qed.

(** a batch of three jobs, one of them a notification: results of the two calls, in job order *)
Example batch_example :
  let '(r, log, h, n) :=
    multicall ex_body ex_sigs ex_fresh f20 V2 (mkSrv ex_reg false true) None (mkClient (mkPcfg f20 true) VNone) (mkPcfg f20 true)
              [mkJob "méth od.x" (Positional [VInt 1]) false; mkJob "méth od.x" (Keyword [(VStr "k", VNone)]) true;
               mkJob "méth od.x" (Positional []) false] 0%nat (mkHist [] []) in
  r = Some (Ok [Ok (VList [VInt 1; VList [VInt 1]; VDict [(VStr "k", VList [])]]);
                Ok (VList [VInt 1; VList []; VDict [(VStr "k", VList [])]])])
  /\ List.length log = 3%nat /\ List.length (h_requests h) = 1%nat /\ List.length (h_responses h) = 1%nat.
Proof. vm_compute. repeat split; reflexivity. Qed.
