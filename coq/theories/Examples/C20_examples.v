(** Non-vacuity examples for C20. *)
From JR Require Import JsonClass JsonClassObs.

Definition w20 : pyenv :=
  mkEnv [("m.Sub", mkClass KDict "m" "Sub" ["m.Bean"] [] [] [] "" None []);
         ("m.Bean", mkClass KDict "m" "Bean" [] [] [] [("a", VInt 0); ("b", VInt 0)] "" (Some ("_ignore", VList [VStr "b"])) []);
         ("m.Ser", mkClass (KSer false) "m" "Ser" [] [] ["x"] [] "_custom" None [])]
        ["m"].

(** handlers: tuple -> handler 1 (wraps the object), m.Bean -> None entry *)
Definition cfg20 : config := mkCfg true "_serialize" "_ignore" [(TTuple, Some 1%N); (TClass "m.Bean", None)] [].

Definition inner : val := VTuple [VInt 1; VInt 2].
Definition bean20 : val :=
  VInst "m.Bean" [("a", VList [inner]); ("b", VInt 5); ("c", VOpaque 0); ("d", VInst "m.Sub" [("a", VInt 1); ("b", VInt 2)])].

(** b is ignored (class list), c is of an unsupported type (omitted), d is a subclass of a handled class
    (dumped), the tuple two levels down goes through the handler *)
Example ex_dump :
  jc_dump std_hfun fixed w20 cfg20 "_serialize" "_ignore" [] bean20 =
  Ok (VDict [(VStr "__jsonclass__", VList [VStr "m.Bean"; VList []]);
             (VStr "a", VList [VDict [(VStr "h1", inner)]]);
             (VStr "d", VDict [(VStr "__jsonclass__", VList [VStr "m.Sub"; VList []]); (VStr "a", VInt 1)])]).
Proof. vm_compute. reflexivity. Qed.

(** hypotheses of C20_handler_every_depth *)
Example ex_reaches : reaches w20 cfg20 "_serialize" "_ignore" [] bean20 inner.
Proof.
  eapply R_field with (n := "a") (x := VList [inner]) (ignl := [VStr "b"]);
    [reflexivity | reflexivity | reflexivity | reflexivity | reflexivity | reflexivity | discriminate
     | left; reflexivity | reflexivity | ].
  eapply R_item with (l := [inner]); [reflexivity | reflexivity | left; reflexivity | apply R_here].
Qed.
Example ex_handler : handler_for cfg20 (type_of inner) = Some 1%N. Proof. reflexivity. Qed.

(** the per-call ignore argument counts as well *)
Example ex_ignore_arg :
  jc_dump std_hfun fixed w20 cfg20 "_serialize" "_ignore" [VStr "a"; VStr "d"] bean20 =
  Ok (VDict [(VStr "__jsonclass__", VList [VStr "m.Bean"; VList []])]).
Proof. vm_compute. reflexivity. Qed.

(** configured names: the class defines "_custom"; under the default name it is serialised automatically *)
Definition ser20 : val := VInst "m.Ser" [("x", VInt 1); ("y", VInt 2)].
Example ex_default_name :
  jc_dump_top std_hfun fixed w20 cfg20 None None None ser20 =
  Ok (VDict [(VStr "__jsonclass__", VList [VStr "m.Ser"; VList []]); (VStr "x", VInt 1); (VStr "y", VInt 2)]).
Proof. vm_compute. reflexivity. Qed.
Example ex_explicit_name :
  jc_dump_top std_hfun fixed w20 cfg20 (Some "_custom") None None ser20 =
  Ok (VDict [(VStr "__jsonclass__", VList [VStr "m.Ser"; VList [VInt 1]]); (VStr "y", VInt 2)]).
Proof. vm_compute. reflexivity. Qed.
(** another ignore-attribute name: the class list "_ignore" is not consulted *)
Example ex_other_ignore_name :
  jc_dump_top std_hfun fixed w20 cfg20 None (Some "_skip") None (VInst "m.Bean" [("a", VInt 1); ("b", VInt 2)]) =
  Ok (VDict [(VStr "__jsonclass__", VList [VStr "m.Bean"; VList []]); (VStr "a", VInt 1); (VStr "b", VInt 2)]).
Proof. vm_compute. reflexivity. Qed.
