(** C05: non-vacuity examples (each theorem's hypotheses are met by concrete registries / names /
    arguments) and the witness of known finding F13. *)
From JR Require Import Dispatch DispatchProofs DispatchTheorems Dispatch_examples.

Example C05_private_hypotheses :
  has_underscore_segment "sub.__d" = true /\ lookup "sub.__d" (r_funcs ex_reg) = None
  /\ (exists inst, r_instance ex_reg = Some inst /\ i_dispatch inst = None).
Proof. repeat split. eexists. split; reflexivity. Qed.

(** the private attribute exists and is callable, and is still not reachable *)
Example C05_private_exists_but_unreachable :
  lookup "_priv" [("pub", ACallable 0%nat); ("_priv", ACallable 0%nat)] = Some (ACallable 0%nat)
  /\ dispatch ex_body ex_sigs ex_reg "_priv" (VList []) = (DFault (-32601) "Method _priv not supported.", []).
Proof. split; reflexivity. Qed.

Example C05_bad_arity_hypotheses :
  lookup "two" (r_funcs ex_reg) = Some 2%nat /\ call_binds (ex_sigs 2%nat) (VList [VInt 1]) = false
  /\ call_binds (ex_sigs 2%nat) (VList [VInt 1; VInt 2]) = true
  /\ call_binds (ex_sigs 2%nat) (VDict [(VStr "a", VInt 1); (VStr "z", VInt 2)]) = false.
Proof. repeat split. Qed.

Example C05_method_exception_hypotheses :
  lookup "fail" (r_funcs ex_reg) = Some 1%nat /\ call_binds (ex_sigs 1%nat) (VList []) = true
  /\ ex_body 1%nat (VList []) = RaiseExn "ValueError" "boom" /\ "ValueError" <> "TypeError".
Proof. repeat split. discriminate. Qed.

Example C05_invalid_hypothesis :
  wellformed_entry (VDict [(VStr "jsonrpc", VStr "2.0"); (VStr "method", VInt 5); (VStr "id", VInt 1)]) = false
  /\ wellformed_entry (VInt 5) = false
  /\ wellformed_entry (VDict [(VStr "method", VStr "ok")]) = false
  /\ wellformed_entry (VDict [(VStr "id", VInt 1); (VStr "method", VStr "ok"); (VStr "params", VStr "s")]) = false.
Proof. repeat split. Qed.

(** known finding F13 on a concrete callable: it ran, and the code is -32602 *)
Definition f13_table : list cdesc := [mkC default_sig (BTypeErr "unsupported operand")].
Example C05_F13_witness :
  dispatch (body_of f13_table) (sigs_of f13_table) (mkReg [("f", 0%nat)] None) "f" (VList [VInt 1])
  = (DFault (-32602) "Invalid parameters: unsupported operand", [EvCall 0%nat (VList [VInt 1])]).
Proof. reflexivity. Qed.
