(** Non-vacuity examples for C18 and the refutation witnesses of the pre-fix code (findings F12a, F12b). *)
From JR Require Import Headers HeadersProofs HeadersObs.

Definition os := ostr_tbl.

(** ** The hypotheses of the theorems are met by concrete stacks *)

Definition st3 : list hdict :=
  [[("X-Trace", VInt 1); ("User-Agent", VStr "mine")];
   [("x-trace", VInt 2); ("Content-Type", VStr "text/evil")];
   [("X-TRACE", VInt 3)]].
Definition auth : lines := [("Authorization", "Basic dTpw")].

Example ex_recency_hyps :
  is_readonly "x-trace" = false /\ last_defining (layers auth st3) "x-trace" = Some [("X-TRACE", VInt 3)] /\
  variants_in [("X-TRACE", VInt 3)] "x-trace" = [VInt 3].
Proof. repeat split; reflexivity. Qed.

Example ex_emit : emit os auth st3 = Ok [("authorization", "Basic dTpw"); ("x-trace", "3"); ("user-agent", "mine")].
Proof. reflexivity. Qed.

Example ex_request_lines :
  request_headers os "application/json-rpc" "jsonrpclib/0.4" "{}" auth st3 =
  Ok [("Accept-Encoding", "gzip"); ("Content-Type", "application/json-rpc"); ("Content-Length", "2");
      ("authorization", "Basic dTpw"); ("x-trace", "3"); ("user-agent", "mine")].
Proof. reflexivity. Qed.

Example ex_user_agent_default :
  request_headers os "application/json-rpc" "jsonrpclib/0.4" "{}" [] [[("X-A", VBool true); ("x-b", VNone); ("X-C", VFlt (F 3 2))]] =
  Ok [("Accept-Encoding", "gzip"); ("Content-Type", "application/json-rpc"); ("Content-Length", "2");
      ("x-a", "True"); ("x-b", "None"); ("x-c", "1.5"); ("User-Agent", "jsonrpclib/0.4")].
Proof. reflexivity. Qed.

Example ex_fixed_headers_hyp :
  exists l, send_content_headers os "ct" "ua" "body" auth st3 = Ok l.
Proof. eexists. reflexivity. Qed.

Example ex_names_ascii : names_ascii (layers auth st3) = true.
Proof. reflexivity. Qed.

Example ex_user_info_is_base_layer :
  emit os auth [[("authorization", VStr "override")]] = Ok [("authorization", "override")].
Proof. reflexivity. Qed.

(** blocks: a balanced body, and a sequence that leaves two blocks open *)
Definition body1 : list op := [ORequest "a"; OEnter [("X-B", VInt 2)]; ORequest "b"; OLeave Exceptional; ORequest "c"].
Example ex_body_balanced : open_after body1 [] = [].
Proof. reflexivity. Qed.
Example ex_block :
  run (OEnter [("X-A", VInt 1)] :: body1 ++ [OLeave Exceptional]) (mkH (proxy_init None) []) = Ok (mkH (proxy_init None) []).
Proof. reflexivity. Qed.
Example ex_open_blocks :
  run [OEnter [("A", VInt 1)]; OEnter [("B", VInt 2)]; OLeave Normal; OEnter [("C", VInt 3)]] (mkH [[]] [])
  = Ok (mkH [[]; [("A", VInt 1)]; [("C", VInt 3)]] [[("C", VInt 3)]; [("A", VInt 1)]]).
Proof. reflexivity. Qed.

(** ** The pinned (pre-fix) merge, jsonrpc.py:297-323 of the snapshot:
      additional_headers[key] = value / additional_headers.update(headers)   (exact-case keys, raw values)
      additional_headers = dict((str(key).lower(), str(value)) for key, value in additional_headers.items()) *)
Fixpoint vset (m : hdict) (k : str) (v : val) : hdict :=
  match m with
  | [] => [(k, v)]
  | (k', v') :: r => if String.eqb k k' then (k', v) :: r else (k', v') :: vset r k v
  end.

Definition merged_v0 (extra : lines) (st : list hdict) : hdict :=
  fold_left (fun acc h => fold_left (fun a kv => vset a (fst kv) (snd kv)) h acc) (layers extra st) [].

Definition emit_v0 (ostr : val -> str) (extra : lines) (st : list hdict) : lines :=
  filter (fun kv => negb (is_readonly (fst kv)))
         (fold_left (put ostr) (merged_v0 extra st) []).

(** F12a: with three levels and case variants an OLDER value wins: the line carries 2 although the most
    recent dictionary says 3 *)
Definition stack_f12a : list hdict := [[("X-A", VInt 1)]; [("x-a", VInt 2)]; [("X-A", VInt 3)]].

Example F12a_refuted :
  exists extra st n h,
    is_readonly n = false /\ last_defining (layers extra st) n = Some h /\
    forall v, In v (variants_in h n) -> filter (key_is n) (emit_v0 os extra st) <> [(n, pystr os v)].
Proof.
  exists [], stack_f12a, "x-a", [("X-A", VInt 3)]. split; [reflexivity|]. split; [reflexivity|].
  intros v [<-|[]]. vm_compute. discriminate.
Qed.

Example F12a_pinned_value : emit_v0 os [] stack_f12a = [("x-a", "2")].
Proof. reflexivity. Qed.
Example F12a_fixed_value : emit os [] stack_f12a = Ok [("x-a", "3")].
Proof. reflexivity. Qed.

(** with user-info in the URL two levels are enough *)
Example F12a_refuted_authorization :
  emit_v0 os auth [[("authorization", VStr "old")]; [("Authorization", VStr "new")]] = [("authorization", "old")].
Proof. reflexivity. Qed.

(** ** The pinned (pre-fix) context manager, jsonrpc.py:727-741 of the snapshot:
      push_headers(headers); yield self; pop_headers(headers)       — no try/finally:
    when the block is left through an exception the generator is closed at the yield and the pop never runs *)
Definition step_v0 (s : hstate) (o : op) : res hstate :=
  match o with
  | OLeave Exceptional =>
      match h_open s with
      | [] => Ok s
      | _ :: rest => Ok (mkH (h_stack s) rest)
      end
  | _ => step s o
  end.

Fixpoint run_v0 (ops : list op) (s : hstate) : res hstate :=
  match ops with
  | [] => Ok s
  | o :: rest => do s' <- step_v0 s o; run_v0 rest s'
  end.

Example F12b_refuted :
  exists st h body o, open_after body [] = [] /\
    run_v0 (OEnter h :: body ++ [OLeave o]) (mkH st []) <> Ok (mkH st []).
Proof. exists [[]], [("X-A", VInt 1)], [], Exceptional. split; [reflexivity|]. vm_compute. discriminate. Qed.

(** ... and the enclosing block then trips over the assertion of pop_headers *)
Example F12b_outer_block_fails :
  run_v0 [OEnter [("A", VInt 1)]; OEnter [("B", VInt 2)]; OLeave Exceptional; OLeave Normal] (mkH [[]] []) = Raise EAssert.
Proof. reflexivity. Qed.
Example F12b_fixed :
  run [OEnter [("A", VInt 1)]; OEnter [("B", VInt 2)]; OLeave Exceptional; OLeave Normal] (mkH [[]] []) = Ok (mkH [[]] []).
Proof. reflexivity. Qed.
