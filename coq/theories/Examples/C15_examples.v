(** Non-vacuity examples for C15 and the refutation witness of the pre-fix code (finding F9). *)
From JR Require Import JsonClass JsonClassObs.

Definition ex_v : val :=
  VDict [(VStr "a", VTuple [VBool true; VInt 1; VFlt (F 1 1); VFlt FNegZero]);
         (VStr "b", VSet [VStr ""; VNone]);
         (VInt 3, VFrozen [VList []; VDict []])].

Example ex_plain : plain ex_v = true. Proof. reflexivity. Qed.
Example ex_no_descriptor : no_descriptor ex_v = true. Proof. reflexivity. Qed.
Example ex_str_keys : str_keys (VDict [(VStr "k", VTuple [VInt 0])]) = true. Proof. reflexivity. Qed.
Example ex_no_handlers : no_handlers default_cfg = true. Proof. reflexivity. Qed.

Example ex_dump :
  jc_dump_top std_hfun fixed empty_env default_cfg None None None ex_v = Ok (norm ex_v).
Proof. reflexivity. Qed.

Example ex_roundtrip :
  jc_load_m fixed empty_env [] (norm ex_v) = (Ok (norm ex_v), norm ex_v, []).
Proof. reflexivity. Qed.

Example ex_leaves :
  leaves ex_v = [VBool true; VInt 1; VFlt (F 1 1); VFlt FNegZero; VStr ""; VNone].
Proof. reflexivity. Qed.

(** a world with one slotted class *)
Definition ex_env : pyenv :=
  mkEnv [("m.Slotted", mkClass KSlot "m" "Slotted" [] ["a"; "b"] [] [] "" None [])] ["m"].

(** a well-formed descriptor whose second attribute does not exist on the class *)
Definition f9_witness : val :=
  VDict [(VStr "__jsonclass__", VList [VStr "m.Slotted"; VList []]); (VStr "a", VInt 1); (VStr "zzz", VInt 2)].

(** on the repaired code the failing load leaves the dict == to what it was *)
Example f9_fixed_fails : lres_val (jc_load_m fixed ex_env [] f9_witness) = Raise EAttr.
Proof. reflexivity. Qed.
Example f9_fixed_pure : canon (lres_arg (jc_load_m fixed ex_env [] f9_witness)) = canon f9_witness.
Proof. reflexivity. Qed.

(** the pinned code: no try/finally around lines 318-323 *)
Definition pinned_f9 : variant := mkVariant false true true.

Example F9_load_pure_refuted :
  exists E cl v, canon (lres_arg (jc_load_m pinned_f9 E cl v)) <> canon v.
Proof. exists ex_env, [], f9_witness. vm_compute. discriminate. Qed.

Example F9_what_the_caller_finds :
  lres_arg (jc_load_m pinned_f9 ex_env [] f9_witness) = VDict [(VStr "a", VInt 1); (VStr "zzz", VInt 2)].
Proof. reflexivity. Qed.
