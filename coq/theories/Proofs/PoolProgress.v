(** Progress: the pool never deadlocks.  In every reachable state every thread that has not terminated
    can take a step, or waits for the pool lock / the queue mutex whose holder can take a step; the only
    exception is a client inside its own untimed join() while work is outstanding (and a worker that has
    been created but not started yet, whose creator can step).  In particular stop() is never blocked for
    ever by the pool itself: what remains of "stop() always returns" is fair scheduling. *)
From JR Require Import PoolInvDefs PoolInvA PoolInvB PoolInvC PoolInvD PoolInvE PoolInvF PoolInvG PoolInvH PoolSafety PoolLifecycle PoolGrowth.

Definition can_step (s : st) (t : thr) : Prop := exists f s', step s t f = Some s'.
Definition lock_holder_steps (s : st) : Prop := exists o d, lock s = Some (o, d) /\ can_step s o.
Definition mutex_holder_steps (s : st) : Prop := exists m, qmutex s = Some m /\ can_step s (TC m).
Definition progress (s : st) (t : thr) : Prop := can_step s t \/ lock_holder_steps s \/ mutex_holder_steps s.

(** the lock is never recorded with depth 0 *)
Definition I_lockpos (s : st) : Prop := match lock s with Some (_, O) => False | _ => True end.

Lemma acquire_pos s t s' : acquire s t = Some s' -> I_lockpos s -> I_lockpos s'.
Proof.
  unfold acquire, I_lockpos. destruct (lock s) as [[o d]|]; [destruct (thr_eqb o t)|]; intros H; inversion H; subst; cbn; auto.
Qed.
Lemma release_pos s t s' : release s t = Some s' -> I_lockpos s -> I_lockpos s'.
Proof.
  unfold release, I_lockpos. destruct (lock s) as [[o [|[|d]]]|]; try discriminate; destruct (thr_eqb o t); intros H; inversion H; subst; cbn; auto.
Qed.

Lemma P_lockpos s t f s' : I_lockpos s -> step s t f = Some s' -> I_lockpos s'.
Proof.
  intros Hp H.
  open_step2 H;
  try match goal with Ha : acquire _ _ = Some _ |- _ => apply (acquire_pos _ _ _ Ha) in Hp end;
  try match goal with Hr : release _ _ = Some _ |- _ => apply (release_pos _ _ _ Hr) in Hp end;
  unfold I_lockpos in *; simp; try exact Hp.
Qed.

Lemma lockd_owner s t n : lockd s t = S n -> lock s = Some (t, S n).
Proof.
  unfold lockd. destruct (lock s) as [[o d]|]; [|discriminate].
  destruct (thr_eqb o t) eqn:E; [|discriminate]. apply thr_eqb_eq in E. intros ->. subst. reflexivity.
Qed.
Lemma release_ok s t n : lock s = Some (t, S n) -> exists s', release s t = Some s'.
Proof. intros E. unfold release. rewrite E, thr_eqb_refl. eauto. Qed.
Lemma acquire_ok_own s t d : lock s = Some (t, d) -> exists s', acquire s t = Some s'.
Proof. intros E. unfold acquire. rewrite E, thr_eqb_refl. eauto. Qed.
Lemma acquire_ok_free s t : lock s = None -> exists s', acquire s t = Some s'.
Proof. intros E. unfold acquire. rewrite E. eauto. Qed.

Lemma mutex_holder_can_step s m : I_jexit s -> qmutex s = Some m -> can_step s (TC m).
Proof.
  intros Hj Hm. specialize (Hj m). exists false.
  destruct (cpc (cs s m)) eqn:E; try congruence; eexists; cbn [step]; unfold cstep; rewrite E; reflexivity.
Qed.

Ltac wstep_now Ew := exists false; eexists; cbn [step]; unfold wstep; rewrite Ew; cbn [wpc wheld wclean]; reflexivity.
Ltac cstep_now Ec := exists false; eexists; cbn [step]; unfold cstep; rewrite Ec; cbn [cpc cprog cjcall]; reflexivity.

Section Progress.
  Variable s : st.
  Hypothesis J : Inv2 s.
  Hypothesis P : I_lockpos s.

  Let I := j_inv1 _ J.

  Lemma mutex_case : qfree s = false -> mutex_holder_steps s.
  Proof.
    unfold qfree. destruct (qmutex s) as [m|] eqn:E; [|discriminate]. intros _.
    exists m. split; [exact E|]. apply mutex_holder_can_step; [apply (i_jexit _ I) | exact E].
  Qed.

  (** clear()'s join finds nothing to wait for: every worker has been joined and the queue drained *)
  Lemma clear_join_ready : ctl s = CJQJoin JClear -> unfinished s <= 0.
  Proof.
    intros Hc. destruct (j_stopjoin _ J) as (_ & S2 & S3).
    pose proof (i_unf _ I) as Hu. unfold I_unf in Hu.
    rewrite (S3 ltac:(rewrite Hc; reflexivity)) in Hu.
    assert (Hh : count holding (ws s) (next_w s) = 0%nat).
    { apply count_all_false. intros i _. specialize (S2 ltac:(rewrite Hc; reflexivity) i).
      unfold alive in S2. unfold holding. destruct (wpc (ws s i)); try discriminate; reflexivity. }
    unfold clear_pending, ctl in *. rewrite Hc in Hu. rewrite Hh in Hu. cbn in Hu. lia.
  Qed.

  Ltac step_auto Ex :=
    exists false; cbn [step]; (unfold wstep || unfold cstep); rewrite Ex; cbn [wpc wheld wclean cpc cprog cjcall negb orb];
    first [ solve [eexists; reflexivity]
          | solve [repeat (match goal with |- exists _, (if ?b then _ else _) = _ => destruct b end); eexists; reflexivity] ].
  Ltac step_rel Ex Hr :=
    exists false; cbn [step]; (unfold wstep || unfold cstep); rewrite Ex; cbn [wpc wheld wclean cpc cprog cjcall negb orb];
    rewrite Hr; cbn [option_map]; eexists; reflexivity.

  (** whoever holds the pool lock can take a step, unless it waits for the queue mutex (whose holder can) *)
  Lemma owner_progress o d : lock s = Some (o, d) -> can_step s o \/ mutex_holder_steps s.
  Proof.
    intros El.
    assert (Hd : exists n, d = S n) by (unfold I_lockpos in P; rewrite El in P; destruct d; [contradiction | eauto]).
    destruct Hd as [n ->].
    assert (Hl : lockd s o = S n) by (unfold lockd; rewrite El, thr_eqb_refl; reflexivity).
    destruct (i_lock _ I) as [Lw Lc].
    destruct o as [w|c].
    - rewrite Lw in Hl. destruct (ws s w) as [pc held clean] eqn:Ew; cbn [wpc] in Hl.
      destruct (release_ok s (TW w) n El) as [s1 Hr].
      left. destruct pc; cbn [wdepth] in Hl; try discriminate Hl; first [ step_auto Ew | step_rel Ew Hr ].
    - rewrite Lc in Hl. destruct (cs s c) as [pc prog jc] eqn:Ec; cbn [cpc] in Hl.
      destruct (release_ok s (TC c) n El) as [s1 Hr]. destruct (acquire_ok_own s (TC c) _ El) as [s2 Ha].
      destruct (qfree s) eqn:Q; [|right; apply mutex_case; exact Q].
      left. destruct pc; cbn [cdepth] in Hl; try discriminate Hl.
      all: try solve [first [ step_auto Ec | step_rel Ec Hr | step_rel Ec Ha ]].
      all: try (exists false; cbn [step]; unfold cstep; rewrite Ec; cbn [cpc cprog cjcall]; rewrite Q; cbn [negb orb]).
      + eexists; reflexivity.
      + destruct n0; eexists; reflexivity.
      + destruct (q s) as [|[?|] ?]; eexists; reflexivity.
      + eexists; reflexivity.
      + destruct k; cbn [cdepth] in Hl; [discriminate Hl|].
        assert (Hc0 : c = 0%nat).
        { destruct (Nat.eq_dec c 0%nat) as [E0|Hne]; [exact E0|]. pose proof (i_ctl _ I c Hne) as Hx. rewrite Ec in Hx. discriminate Hx. }
        subst c. assert (Hu : unfinished s <= 0) by (apply clear_join_ready; unfold ctl; rewrite Ec; reflexivity).
        apply Z.leb_le in Hu. rewrite Hu. eexists; reflexivity.
  Qed.

  Lemma acquire_progress t : (exists s', acquire s t = Some s') \/ lock_holder_steps s \/ mutex_holder_steps s.
  Proof.
    destruct (lock s) as [[o d]|] eqn:El; [|left; apply acquire_ok_free; exact El].
    destruct (thr_eqb o t) eqn:Eo.
    - apply thr_eqb_eq in Eo. subst o. left. eapply acquire_ok_own; exact El.
    - right. destruct (owner_progress o d El) as [Hs|Hm]; [left; exists o, d; split; [exact El | exact Hs] | right; exact Hm].
  Qed.

  Lemma own_lock_w w : wdepth (wpc (ws s w)) = 1%nat -> exists s', release s (TW w) = Some s'.
  Proof. intros Hd. destruct (i_lock _ I) as [Lw _]. specialize (Lw w). rewrite Hd in Lw. eapply release_ok. apply lockd_owner. exact Lw. Qed.
  Lemma own_lock_c c n : cdepth (cpc (cs s c)) = S n -> exists s', release s (TC c) = Some s'.
  Proof. intros Hd. destruct (i_lock _ I) as [_ Lc]. specialize (Lc c). rewrite Hd in Lc. eapply release_ok. apply lockd_owner. exact Lc. Qed.

  (** every started, live worker makes progress *)
  Theorem worker_progress w : alive (ws s w) = true -> wpc (ws s w) <> WNew -> progress s (TW w).
  Proof.
    intros Ha Hn. unfold progress.
    pose proof (i_wf _ I w) as Hwf. unfold wf_w, held_task, held_sent in Hwf.
    destruct (ws s w) as [pc held clean] eqn:Ew. cbn [wpc wheld wclean] in *. unfold alive in Ha. cbn [wpc] in Ha.
    destruct pc; try discriminate Ha; try congruence.
    all: try solve [left; step_auto Ew].
    all: try solve [destruct (acquire_progress (TW w)) as [[s1 Hq]|Hq]; [left; step_rel Ew Hq | right; exact Hq]].
    all: try solve [destruct (own_lock_w w ltac:(rewrite Ew; reflexivity)) as [s1 Hr]; left; step_rel Ew Hr].
    - (* WGet: an empty queue lets the timeout fire, a non-empty one is served unless the mutex is held *)
      destruct (q s) as [|it r] eqn:Eq.
      + left. exists true. cbn [step]. unfold wstep. rewrite Ew. cbn [wpc]. rewrite Eq. eexists; reflexivity.
      + destruct (qfree s) eqn:Q; [|right; right; apply mutex_case; exact Q].
        left. exists false. cbn [step]. unfold wstep. rewrite Ew. cbn [wpc]. rewrite Q, Eq. eexists; reflexivity.
    - destruct (qfree s) eqn:Q; [|right; right; apply mutex_case; exact Q].
      left. exists false. cbn [step]. unfold wstep. rewrite Ew. cbn [wpc negb orb]. rewrite Q. eexists; reflexivity.
    - destruct held as [[t|]|]; cbn in Hwf; try (rewrite andb_false_r in Hwf; discriminate Hwf). left. step_auto Ew.
    - destruct held as [[t|]|]; cbn in Hwf; try (rewrite andb_false_r in Hwf; discriminate Hwf). left. step_auto Ew.
    - destruct (qfree s) eqn:Q; [|right; right; apply mutex_case; exact Q].
      left. exists false. cbn [step]. unfold wstep. rewrite Ew. cbn [wpc negb orb]. rewrite Q. eexists; reflexivity.
  Qed.

  (** every client call makes progress, except an untimed join() of the client's own while work is outstanding *)
  Theorem client_progress c :
    cpc (cs s c) <> CDone -> (cpc (cs s c) = CJQJoin JOp /\ 0 < unfinished s) \/ progress s (TC c).
  Proof.
    intros Hn. unfold progress.
    destruct (cs s c) as [pc prog jc] eqn:Ec. cbn [cpc] in *.
    destruct pc; try congruence.
    all: try solve [right; left; step_auto Ec].
    all: try solve [right; destruct (acquire_progress (TC c)) as [[s1 Hq]|Hq]; [left; step_rel Ec Hq | right; exact Hq]].
    all: try solve [destruct (own_lock_c c _ ltac:(rewrite Ec; reflexivity)) as [s1 Hr]; right; left; step_rel Ec Hr].
    all: try (destruct (qfree s) eqn:Q; [|right; right; right; apply mutex_case; exact Q]).
    all: try match goal with Ec : cs _ _ = mkC (CJQJoin ?k) _ _ |- _ => idtac end.
    (* thread.join(3) and the timed wait: the timeout may fire *)
    all: try match goal with
         | Ec : cs _ _ = mkC (CSPJoin ?ths) _ _ |- _ =>
             right; left; destruct ths; [exists false | exists true]; cbn [step]; unfold cstep; rewrite Ec; cbn [cpc]; eexists; reflexivity
         | Ec : cs _ _ = mkC (CJParked _) _ _ |- _ =>
             right; left; exists true; cbn [step]; unfold cstep; rewrite Ec; cbn [cpc]; eexists; reflexivity
         end.
    (* queue.join() *)
    all: try match goal with
         | Ec : cs _ _ = mkC (CJQJoin ?k) _ _ |- _ =>
             destruct k;
             [ destruct (unfinished s <=? 0) eqn:Eu;
               [ right; left; exists false; cbn [step]; unfold cstep; rewrite Ec; cbn [cpc]; rewrite Q, Eu; cbn [negb orb]; eexists; reflexivity
               | left; split; [reflexivity | apply Z.leb_gt in Eu; lia] ]
             | assert (Hc0 : c = 0%nat)
                 by (destruct (Nat.eq_dec c 0%nat) as [E0|Hne]; [exact E0|]; pose proof (i_ctl _ I c Hne) as Hx; rewrite Ec in Hx; discriminate Hx);
               subst c;
               assert (Hu : unfinished s <= 0) by (apply clear_join_ready; unfold ctl; rewrite Ec; reflexivity);
               apply Z.leb_le in Hu;
               right; left; exists false; cbn [step]; unfold cstep; rewrite Ec; cbn [cpc]; rewrite Q, Hu; cbn [negb orb]; eexists; reflexivity ]
         end.
    all: right; left.
    all: exists false; cbn [step]; unfold cstep; rewrite Ec; cbn [cpc cprog cjcall]; rewrite ?Q; cbn [negb orb].
    all: try solve [eexists; reflexivity].
    - destruct (maxT s <? Z.of_nat (length (q s))); [|destruct (Z.of_nat (length (q s)) <? minT s)]; eexists; reflexivity.
    - destruct a; eexists; reflexivity.
    - destruct b; eexists; reflexivity.
    - destruct n; eexists; reflexivity.
    - destruct ths; eexists; reflexivity.
    - destruct (q s) as [|[?|] ?]; eexists; reflexivity.
  Qed.

  (** stop() is never blocked by the pool: at every instant of a stop() call the controlling thread can take a
      step, or the holder of the lock / mutex it waits for can *)
  Theorem stop_never_blocked : stop_region (ctl s) = true -> progress s (TC 0%nat).
  Proof.
    intros Hr. destruct (client_progress 0%nat) as [[E _]|Hp]; [| |exact Hp].
    - intros E. unfold ctl in Hr. rewrite E in Hr. discriminate Hr.
    - unfold ctl in Hr. rewrite E in Hr. discriminate Hr.
  Qed.

  (** a worker that has been created but not started: its creator is about to start it *)
  Lemma new_worker_creator w : wpc (ws s w) = WNew -> exists c, can_step s (TC c).
  Proof.
    intros Hn. destruct (j_threads _ J) as [_ T2]. destruct (T2 w Hn) as (c & k & Ec). exists c.
    destruct (cs s c) as [pc prog jc] eqn:E. cbn [cpc] in Ec. subst pc. step_auto E.
  Qed.
End Progress.

(** I_lockpos in every reachable state *)
Lemma lockpos_run sched : forall s, I_lockpos s -> I_lockpos (run sched s).
Proof.
  induction sched as [|[t f] r IH]; intros s H; cbn [run]; [exact H|].
  destruct (step s t f) as [s'|] eqn:E; [|apply IH; assumption]. apply IH. eapply P_lockpos; eauto.
Qed.

Lemma wst_eq_new (x : wst) : wpc x = WNew \/ wpc x <> WNew.
Proof. destruct (wpc x); (left; reflexivity) || (right; discriminate). Qed.

Section Reachable.
  Variables (mx mn : Z) (progs : nat -> list op) (sched : list (thr * bool)).
  Hypothesis Hv : valid_cfg mx mn.
  Let s := run sched (init mx mn progs).

  Lemma reach_J : Inv2 s. Proof. apply reachable_inv2, Hv. Qed.
  Lemma reach_P : I_lockpos s. Proof. apply lockpos_run. exact I. Qed.

  Theorem reachable_worker_progress w : alive (ws s w) = true -> wpc (ws s w) <> WNew -> progress s (TW w).
  Proof. apply worker_progress; [apply reach_J | apply reach_P]. Qed.
  Theorem reachable_client_progress c :
    cpc (cs s c) <> CDone -> (cpc (cs s c) = CJQJoin JOp /\ 0 < unfinished s) \/ progress s (TC c).
  Proof. apply client_progress; [apply reach_J | apply reach_P]. Qed.
  Theorem reachable_stop_never_blocked : stop_region (ctl s) = true -> progress s (TC 0%nat).
  Proof. apply stop_never_blocked; [apply reach_J | apply reach_P]. Qed.

  Lemma progress_some_step t : progress s t -> exists u f s', step s u f = Some s'.
  Proof.
    intros [(f & s' & H)|[(o & d & _ & f & s' & H)|(m & _ & f & s' & H)]]; eauto.
  Qed.

  (** no deadlock inside stop() *)
  Theorem stop_no_deadlock : stop_region (ctl s) = true -> exists u f s', step s u f = Some s'.
  Proof. intros H. eapply progress_some_step, reachable_stop_never_blocked, H. Qed.

  Lemma count_pos_witness (g : wst -> bool) n : (1 <= count g (ws s) n)%nat -> exists i, (i < n)%nat /\ g (ws s i) = true.
  Proof.
    intros H. destruct (count_lt_witness (fun _ => false) g (ws s) n) as (i & Hi & Hg & _); [|eauto].
    rewrite count_all_false by reflexivity. lia.
  Qed.

  (** an untimed join() on a running pool at rest is never stuck: while work is outstanding some thread can step *)
  Theorem join_on_running_pool_not_stuck :
    start_done s = true -> (forall c, ewin (cpc (cs s c)) = false) -> 0 < unfinished s ->
    exists u f s', step s u f = Some s'.
  Proof.
    intros Hsd Hall Hu.
    pose proof reach_J as J. pose proof reach_P as P. pose proof (j_inv1 _ J) as I1.
    assert (Hw : forall w, (w < next_w s)%nat -> serving (ws s w) = true -> exists u f s', step s u f = Some s').
    { intros w _ Hs. destruct (wst_eq_new (ws s w)) as [Hn|Hn].
      - destruct (new_worker_creator s J w Hn) as (c & f & s' & H). eauto.
      - eapply progress_some_step, reachable_worker_progress; [|exact Hn].
        unfold serving in Hs. unfold alive. destruct (wpc (ws s w)); try discriminate; reflexivity. }
    pose proof (i_unf _ I1) as Hunf. unfold I_unf in Hunf.
    destruct (j_flag _ J) as (_ & _ & _ & F4 & _). destruct (F4 Hsd) as (_ & Hsr & _).
    assert (Hcp : clear_pending s = 0).
    { unfold clear_pending. unfold ctl in Hsr. destruct (cpc (cs s 0%nat)); try reflexivity. discriminate Hsr. }
    destruct (q s) as [|it r] eqn:Eq.
    - (* some worker holds an item *)
      assert (Hh : (1 <= count holding (ws s) (next_w s))%nat) by (cbn [length] in Hunf; lia).
      destruct (count_pos_witness holding _ Hh) as (w & Hw1 & Hw2).
      apply (Hw w Hw1). unfold holding in Hw2. unfold serving. destruct (wpc (ws s w)); try discriminate; reflexivity.
    - (* a queued item: a worker serves the queue *)
      destruct (growth_at_rest mx mn progs sched Hv Hsd Hall) as [_ G]. fold s in G.
      assert (Hn : 1 <= nb_threads s) by (apply G; rewrite Eq; discriminate).
      pose proof (i_nb _ I1) as Hnb. unfold I_nb in Hnb.
      destruct (count_pos_witness serving (next_w s) ltac:(lia)) as (w & Hw1 & Hw2). exact (Hw w Hw1 Hw2).
  Qed.
End Reachable.
