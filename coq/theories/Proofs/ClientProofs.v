(** Proofs about Model/Client.v (property C06). *)
From JR Require Import Client.
From Coq Require Import Lia.

Lemma dget_some_nonempty m k v : dget m k = Some v -> m <> [].
Proof. destruct m; [discriminate | congruence]. Qed.

Lemma dhas_of_dget m k v : dget m k = Some v -> dhas m k = true.
Proof. unfold dhas; now intros ->. Qed.

(** The classification is reached, whole, for every reply with a truthy error. *)
Lemma check_error_dict m e :
  envelope_ok m = true -> dget m "error" = Some e -> truthy e = true ->
  check_for_errors (VDict m) = Raise (raise_for_error e).
Proof.
  intros Henv He Ht. unfold check_for_errors.
  assert (Hm : truthy (VDict m) = true) by (destruct m; [discriminate He | reflexivity]).
  rewrite Hm. cbn [negb].
  unfold envelope_ok in Henv.
  rewrite (dhas_of_dget _ _ _ He), andb_false_r, He, Ht.
  destruct (dget m "jsonrpc") as [j|]; cbn [bind].
  - destruct (py_float j) as [f|]; [|discriminate]. cbn [bind].
    apply negb_true_iff in Henv. now rewrite Henv.
  - reflexivity.
Qed.

Lemma raise_for_error_is_protocol e : is_protocol_error (raise_for_error e) = true.
Proof.
  destruct e; try reflexivity. cbn [raise_for_error].
  destruct (dget m "code") as [c|].
  - destruct (is_numeric c && in_reserved_range c); reflexivity.
  - destruct m as [|[k v] [|]]; reflexivity.
Qed.

Theorem error_raises_protocol m e :
  envelope_ok m = true -> dget m "error" = Some e -> truthy e = true ->
  exists x, check_for_errors (VDict m) = Raise x /\ is_protocol_error x = true.
Proof.
  intros Henv He Ht. exists (raise_for_error e); split; [apply check_error_dict; assumption | apply raise_for_error_is_protocol].
Qed.

Theorem predefined_range m em c :
  envelope_ok m = true -> dget m "error" = Some (VDict em) -> truthy (VDict em) = true ->
  dget em "code" = Some c -> is_numeric c = true -> in_reserved_range c = true ->
  check_for_errors (VDict m) = Raise (EProtocol (VTuple [c; error_message em])).
Proof.
  intros Henv He Ht Hc Hn Hr. rewrite (check_error_dict _ _ Henv He Ht).
  cbn [raise_for_error]. now rewrite Hc, Hn, Hr.
Qed.

Theorem application_code m em c :
  envelope_ok m = true -> dget m "error" = Some (VDict em) -> truthy (VDict em) = true ->
  dget em "code" = Some c -> (is_numeric c && in_reserved_range c) = false ->
  check_for_errors (VDict m) = Raise (EApp (VTuple [c; error_message em; error_data em]))
  /\ app_error_data (EApp (VTuple [c; error_message em; error_data em])) = Some (error_data em).
Proof.
  intros Henv He Ht Hc Hn. rewrite (check_error_dict _ _ Henv He Ht).
  cbn [raise_for_error]. now rewrite Hc, Hn.
Qed.

Theorem codeless_single_entry m k v :
  envelope_ok m = true -> dget m "error" = Some (VDict [(k, v)]) ->
  dget [(k, v)] "code" = None ->
  check_for_errors (VDict m) = Raise (EProtocol v).
Proof.
  intros Henv He Hc. rewrite (check_error_dict _ _ Henv He eq_refl).
  cbn [raise_for_error]. now rewrite Hc.
Qed.

Theorem codeless_object m em :
  envelope_ok m = true -> dget m "error" = Some (VDict em) -> truthy (VDict em) = true ->
  dget em "code" = None -> length em <> 1%nat ->
  check_for_errors (VDict m) = Raise (EProtocol (VDict em)).
Proof.
  intros Henv He Ht Hc Hl. rewrite (check_error_dict _ _ Henv He Ht).
  cbn [raise_for_error]. rewrite Hc. destruct em as [|[k v] [|]]; try reflexivity. now elim Hl.
Qed.

Theorem non_object_error m e :
  envelope_ok m = true -> dget m "error" = Some e -> truthy e = true -> is_dict e = false ->
  check_for_errors (VDict m) = Raise (EProtocol e).
Proof.
  intros Henv He Ht Hd. rewrite (check_error_dict _ _ Henv He Ht). now destruct e.
Qed.

(** the range test really is -32700 <= code <= -32000 *)
Lemma in_reserved_range_int z :
  in_reserved_range (VInt z) = true <-> (-32700 <= z <= -32000).
Proof.
  unfold in_reserved_range, rat_leb, rat_of_Z; cbn. rewrite andb_true_iff, !Z.leb_le. lia.
Qed.

Lemma in_reserved_range_flt n d :
  in_reserved_range (VFlt (F n d)) = true <-> (-32700 * Zpos d <= n <= -32000 * Zpos d).
Proof.
  unfold in_reserved_range, rat_leb, rat_of_Z; cbn [num_of fst snd].
  rewrite andb_true_iff, !Z.leb_le. lia.
Qed.

Lemma in_reserved_range_non_numeric c : num_of c = None -> in_reserved_range c = false.
Proof. unfold in_reserved_range. now intros ->. Qed.

(** replies without error: the result comes back unchanged, falsy or not *)
Theorem result_unchanged m v :
  envelope_ok m = true ->
  (dget m "error" = None \/ dget m "error" = Some VNone) ->
  dget m "result" = Some v ->
  check_for_errors (VDict m) = Ok (VDict m) /\ proxy_result (VDict m) = Ok v.
Proof.
  intros Henv He Hr.
  assert (Hc : check_for_errors (VDict m) = Ok (VDict m)).
  { unfold check_for_errors.
    assert (Hm : truthy (VDict m) = true) by (destruct m; [discriminate Hr | reflexivity]).
    rewrite Hm. cbn [negb]. unfold envelope_ok in Henv.
    rewrite (dhas_of_dget _ _ _ Hr). cbn [negb andb].
    destruct (dget m "jsonrpc") as [j|]; cbn [bind].
    - destruct (py_float j) as [f|]; [|discriminate]. cbn [bind].
      apply negb_true_iff in Henv. rewrite Henv.
      destruct He as [-> | ->]; reflexivity.
    - destruct He as [-> | ->]; reflexivity. }
  split; [exact Hc|]. unfold proxy_result. rewrite Hc. cbn [bind py_getitem hashable].
  unfold dget in Hr. now rewrite Hr.
Qed.

(** batch position does not matter: results[i] is the single-reply behaviour *)
Theorem multicall_position pre r post :
  multicall_get (pre ++ r :: post) (length pre) = proxy_result r.
Proof.
  unfold multicall_get. rewrite nth_error_app2 by lia. now rewrite Nat.sub_diag.
Qed.

Theorem multicall_iter_prefix pre r post vs :
  Forall2 (fun item v => proxy_result item = Ok v) pre vs ->
  multicall_iter (pre ++ r :: post) =
  (map Ok vs ++ match proxy_result r with Ok v => Ok v :: multicall_iter post | Raise e => [Raise e] end)%list.
Proof.
  induction 1 as [|item v pre vs Hv _ IH]; cbn [app map multicall_iter].
  - reflexivity.
  - now rewrite Hv, IH.
Qed.

(** a notification call (ServerProxy._request_notify) surfaces whatever check_for_errors raises on the
    reply a server may still send, and returns None otherwise *)
Theorem notify_surfaces r :
  c06_run PNotify r = [match check_for_errors r with Ok _ => Ok VNone | Raise e => Raise e end].
Proof. unfold c06_run. destruct (check_for_errors r); reflexivity. Qed.
