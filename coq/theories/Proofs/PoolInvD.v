(** Preservation: join bookkeeping (I_jexit, I_jcall) and the join monitors (I_mon). *)
From JR Require Import PoolInvDefs PoolInvA PoolInvB PoolInvC.

Definition I_jcall (s : st) : Prop := forall c, (cjcall (cs s c) <= next_task s)%nat.

Lemma cret_jcall s c : (cjcall (cs s c) <= next_task s)%nat -> (cjcall (cs (cret s c) c) <= next_task s)%nat.
Proof.
  intros H. unfold cret. destruct (next_call c (cprog (cs s c))) as [l r].
  cbn [cs set_c]. rewrite upd_same. cbn [cjcall]. destruct l; auto.
Qed.

Lemma cret_jcall_all s c c' :
  (forall x, (cjcall (cs s x) <= next_task s)%nat) -> (cjcall (cs (cret s c) c') <= next_task (cret s c))%nat.
Proof.
  intros H. unfold cret. destruct (next_call c (cprog (cs s c))) as [l r]. simp.
  destruct (Nat.eq_dec c' c) as [->|Hne]; [rewrite upd_same | rewrite upd_other by assumption; apply H].
  simp. destruct l; auto.
Qed.

Lemma P_jexit s t f s' : I_jexit s -> step s t f = Some s' -> I_jexit s'.
Proof.
  intros Hj H. unfold I_jexit in *.
  open_step2 H; use_lockop; simp.
  all: try match goal with Ec : cs ?s1 ?c = _ |- _ => let Hm := fresh "Hm" in pose proof (Hj c) as Hm; rewrite Ec in Hm; simp end.
  all: intros c'; pose proof (Hj c') as Hx; simp; split_upd; rew_recs; simp;
       unfold qfree in *;
       try match goal with He : is_entry ?l = true |- _ => destruct l; try discriminate He end;
       try match goal with k : jkont |- _ => destruct k end;
       try match goal with k : kont |- _ => destruct k end; cbn [kret] in *;
       try (destruct (qmutex s) eqn:Eqm; try discriminate);
       try assumption; try congruence;
       try (destruct (cpc (cs s c')); try assumption; try congruence;
            try (destruct Hx; split; congruence)).
  all: try solve [exfalso; repeat match goal with H : _ /\ _ |- _ => destruct H end; congruence].
  split; [assumption | reflexivity].
Qed.

Lemma P_jcall s t f s' : I_jcall s -> step s t f = Some s' -> I_jcall s'.
Proof.
  intros Hj H. unfold I_jcall in *.
  step_cases H; try split_lockop H; try (break_ifs H; try inv_some H); unfold jreturn, jnext in *; use_lockop.
  all: intros c'; pose proof (Hj c') as Hx; simp.
  all: repeat match goal with |- context [if ?b then _ else _] => destruct b end.
  all: repeat match goal with |- context [match ?i with ITask _ => _ | ISent => _ end] => destruct i end.
  all: try solve [simp; split_upd; rew_recs; simp; lia].
  all: try solve [match goal with |- context [cret ?s1 ?c] =>
         destruct (Nat.eq_dec c' c) as [->|Hne];
         [ pose proof (cret_jcall s1 c) as Hcj; simp; apply Hcj || (etransitivity; [apply Hcj|]); simp; try lia; auto
         | unfold cret; destruct (next_call c (cprog (cs s1 c))); simp; rewrite upd_other by assumption; simp; lia ] end].
  all: try solve [apply cret_jcall_all; intros; simp; apply Hj].
Qed.


Lemma holds_any_holding t x : holds_any t x = true -> holding x = true.
Proof. unfold holds_any, holding. destruct (wpc x); auto. Qed.

Lemma clear_pending_nonneg s : 0 <= clear_pending s.
Proof. unfold clear_pending. destruct (cpc (cs s 0%nat)); lia. Qed.

Lemma unf_zero_settled s :
  I_unf s -> I_place s -> unfinished s <= 0 -> forall t, (t < next_task s)%nat -> settled s t = true.
Proof.
  intros Hu Hp Hz t Ht. unfold I_unf in Hu. pose proof (clear_pending_nonneg s).
  assert (Hq : length (q s) = 0%nat) by lia.
  assert (Hh : count holding (ws s) (next_w s) = 0%nat) by lia.
  pose proof (Hp t Ht) as H1. pose proof (qocc_le_length t (q s)).
  assert (count (holds_any t) (ws s) (next_w s) <= count holding (ws s) (next_w s))%nat
    by (apply count_le; intros; now apply (holds_any_holding t)).
  destruct (settled s t); [reflexivity | cbn in H1; lia].
Qed.

Lemma all_settled_ok s n :
  I_unf s -> I_place s -> unfinished s <= 0 -> (n <= next_task s)%nat -> all_settled_below s n = true.
Proof.
  intros Hu Hp Hz Hn. unfold all_settled_below. apply forallb_forall. intros t Ht.
  apply in_seq in Ht. apply unf_zero_settled; auto; lia.
Qed.

Lemma P_mon s t f s' :
  I_unf s -> I_place s -> I_jexit s -> I_jcall s -> I_mon s -> step s t f = Some s' -> I_mon s'.
Proof.
  intros Hu Hp Hje Hjc [Hm1 Hm2] H. unfold I_mon.
  step_cases H; try split_lockop H; try (break_ifs H; try inv_some H); unfold jreturn, jnext in *; use_lockop.
  all: repeat match goal with |- context [if ?b then _ else _] => destruct b end.
  all: repeat match goal with |- context [match ?i with ITask _ => _ | ISent => _ end] => destruct i end.
  all: try solve [simp; auto].
  all: try solve [unfold cret; match goal with |- context [next_call ?c ?p] => destruct (next_call c p) end; simp; auto].
  all: match goal with |- join_bad (cret ?X ?c0) = _ /\ _ =>
         let Hcret := fresh "Hcret" in
         assert (Hcret : join_bad (cret X c0) = join_bad X /\ joinf_bad (cret X c0) = joinf_bad X)
           by (unfold cret; destruct (next_call c0 (cprog (cs X c0))); simp; auto);
         destruct Hcret as [-> ->] end; simp.
  all: rewrite Hm1, Hm2; cbn [orb andb negb].
  all: match goal with Ec : cs _ ?c0 = _ |- _ => pose proof (Hjc c0) as Hjc0; pose proof (Hje c0) as Hx; rewrite Ec in Hx; cbn in Hx end.
  - apply Z.leb_le in Eb. rewrite (all_settled_ok s _ Hu Hp Eb Hjc0). auto.
  - apply Z.leb_le in Eb0. rewrite (all_settled_ok s _ Hu Hp Eb0 Hjc0). auto.
  - destruct Hx as [_ ->].
    match goal with |- context [all_settled_below (set_qmutex s None) ?n] =>
      change (all_settled_below (set_qmutex s None) n) with (all_settled_below s n) end.
    destruct (unfinished s <=? 0) eqn:E; cbn [andb negb]; auto.
    apply Z.leb_le in E. rewrite (all_settled_ok s _ Hu Hp E Hjc0). auto.
Qed.

