(** * ConfigProofs — proofs about Model/Config.v (property C13). *)
From JR Require Import Dispatch DispatchProofs DispatchTheorems Config.
From Coq Require Import Lia PeanoNat.
Local Open Scope nat_scope.

(** ** The store *)

Lemma lookup_set_same {A} l (a : A) m : lookup_loc l (set_loc l a m) = Some a.
Proof.
  induction m as [|[l' a'] r IH]; cbn.
  - now rewrite Nat.eqb_refl.
  - destruct (Nat.eqb l l') eqn:E; cbn; rewrite E; auto.
Qed.

Lemma lookup_set_other {A} l l' (a : A) m : l <> l' -> lookup_loc l (set_loc l' a m) = lookup_loc l m.
Proof.
  intros N. induction m as [|[l2 a2] r IH]; cbn.
  - apply Nat.eqb_neq in N. now rewrite N.
  - destruct (Nat.eqb l' l2) eqn:E; cbn.
    + apply Nat.eqb_eq in E. subst l2. apply Nat.eqb_neq in N. now rewrite N.
    + now rewrite IH.
Qed.

Lemma cfgs_write_cfg h l r l0 :
  lookup_loc l0 (h_cfgs (do_write h (WCfg l r))) = if Nat.eqb l0 l then Some r else lookup_loc l0 (h_cfgs h).
Proof.
  cbn. destruct (Nat.eqb l0 l) eqn:E.
  - apply Nat.eqb_eq in E. subst. apply lookup_set_same.
  - apply Nat.eqb_neq in E. now apply lookup_set_other.
Qed.

Lemma tabs_write_tab h l t l0 :
  lookup_loc l0 (h_tabs (do_write h (WTab l t))) = if Nat.eqb l0 l then Some t else lookup_loc l0 (h_tabs h).
Proof.
  cbn. destruct (Nat.eqb l0 l) eqn:E.
  - apply Nat.eqb_eq in E. subst. apply lookup_set_same.
  - apply Nat.eqb_neq in E. now apply lookup_set_other.
Qed.

Lemma tabs_write_cfg h l r : h_tabs (do_write h (WCfg l r)) = h_tabs h.
Proof. reflexivity. Qed.

Lemma cfgs_write_tab h l t : h_cfgs (do_write h (WTab l t)) = h_cfgs h.
Proof. reflexivity. Qed.

Lemma next_write h w : h_next (do_write h w) = Nat.max (h_next h) (S (wloc w)).
Proof. destruct w; reflexivity. Qed.

(** ** Sequences of writes *)

Definition writes (ws : list write) (h : heap) : heap := fold_left do_write ws h.

(** every write of [ws] goes to a location at or above [n] *)
Definition above (n : loc) (ws : list write) : Prop := Forall (fun w => n <= wloc w) ws.

Definition ext (n : loc) (h h' : heap) : Prop := exists ws, h' = writes ws h /\ above n ws.

Lemma writes_app a b h : writes (a ++ b) h = writes b (writes a h).
Proof. apply fold_left_app. Qed.

Lemma writes_next_mono ws : forall h, h_next h <= h_next (writes ws h).
Proof.
  unfold writes. induction ws as [|w r IH]; intros h; cbn [fold_left]; [lia|].
  specialize (IH (do_write h w)). rewrite next_write in IH. lia.
Qed.

Lemma writes_log ws : forall h, h_log (writes ws h) = (rev ws ++ h_log h)%list.
Proof.
  unfold writes. induction ws as [|w r IH]; intros h; cbn [fold_left rev]; [reflexivity|].
  rewrite IH. rewrite <- app_assoc. destruct w; reflexivity.
Qed.

Lemma writes_frame_cfg n ws : above n ws -> forall h l, l < n ->
  lookup_loc l (h_cfgs (writes ws h)) = lookup_loc l (h_cfgs h).
Proof.
  induction 1 as [|w r Hw _ IH]; intros h l Hl; cbn; [reflexivity|].
  rewrite IH by exact Hl. destruct w as [l' r'|l' t']; [|reflexivity].
  rewrite cfgs_write_cfg. cbn in Hw. destruct (Nat.eqb l l') eqn:E; [|reflexivity].
  apply Nat.eqb_eq in E. lia.
Qed.

Lemma writes_frame_tab n ws : above n ws -> forall h l, l < n ->
  lookup_loc l (h_tabs (writes ws h)) = lookup_loc l (h_tabs h).
Proof.
  induction 1 as [|w r Hw _ IH]; intros h l Hl; cbn; [reflexivity|].
  rewrite IH by exact Hl. destruct w as [l' r'|l' t']; [reflexivity|].
  rewrite tabs_write_tab. cbn in Hw. destruct (Nat.eqb l l') eqn:E; [|reflexivity].
  apply Nat.eqb_eq in E. lia.
Qed.

Lemma above_weaken n n' ws : n' <= n -> above n ws -> above n' ws.
Proof. intros L. apply Forall_impl. intros w. lia. Qed.

Lemma above_firstn n k ws : above n ws -> above n (firstn k ws).
Proof.
  intros H. revert k. induction H as [|w r Hw _ IH]; intros [|k]; cbn [firstn]; try constructor; auto.
  apply IH.
Qed.

Lemma ext_refl n h : ext n h h.
Proof. exists []. split; [reflexivity|constructor]. Qed.

Lemma ext_trans n h1 h2 h3 : ext n h1 h2 -> ext n h2 h3 -> ext n h1 h3.
Proof.
  intros (a & -> & Ha) (b & -> & Hb). exists (a ++ b)%list. split.
  - now rewrite writes_app.
  - now apply Forall_app.
Qed.

Lemma ext_weaken n n' h h' : n' <= n -> ext n h h' -> ext n' h h'.
Proof. intros L (ws & -> & H). exists ws. split; [reflexivity|]. eapply above_weaken; eauto. Qed.

Lemma ext_next n h h' : ext n h h' -> h_next h <= h_next h'.
Proof. intros (ws & -> & _). apply writes_next_mono. Qed.

Lemma ext_write n h w : n <= wloc w -> ext n h (do_write h w).
Proof. intros H. exists [w]. split; [reflexivity|]. constructor; [exact H|constructor]. Qed.

(** composition along a run: a later extension above the later allocation pointer *)
Lemma ext_step n h1 h2 h3 : n <= h_next h1 -> ext n h1 h2 -> ext (h_next h2) h2 h3 -> ext n h1 h3.
Proof.
  intros L E1 E2. eapply ext_trans; [exact E1|]. eapply ext_weaken; [|exact E2].
  apply ext_next in E1. lia.
Qed.

(** ** Well-formed configurations are not affected by writes above the allocation pointer *)

Lemma cfg_ok_inv h c : cfg_ok h c = true ->
  exists r cl hd, lookup_loc c (h_cfgs h) = Some r
    /\ lookup_loc (c_classes r) (h_tabs h) = Some cl /\ lookup_loc (c_handlers r) (h_tabs h) = Some hd
    /\ c < h_next h /\ c_classes r < h_next h /\ c_handlers r < h_next h.
Proof.
  unfold cfg_ok. destruct (lookup_loc c (h_cfgs h)) as [r|]; [|discriminate].
  destruct (lookup_loc (c_classes r) (h_tabs h)) as [cl|] eqn:E1;
    [destruct (lookup_loc (c_handlers r) (h_tabs h)) as [hd|] eqn:E2|];
    rewrite ?andb_false_r; try discriminate.
  intros H. rewrite andb_true_r in H.
  apply andb_true_iff in H as [H H3]. apply andb_true_iff in H as [H1 H2].
  apply Nat.ltb_lt in H1, H2, H3. exists r, cl, hd. auto 10.
Qed.

Lemma cfg_ok_intro h c r cl hd :
  lookup_loc c (h_cfgs h) = Some r ->
  lookup_loc (c_classes r) (h_tabs h) = Some cl -> lookup_loc (c_handlers r) (h_tabs h) = Some hd ->
  c < h_next h -> c_classes r < h_next h -> c_handlers r < h_next h -> cfg_ok h c = true.
Proof.
  intros E E1 E2 L L1 L2. unfold cfg_ok. rewrite E, E1, E2.
  apply Nat.ltb_lt in L, L1, L2. now rewrite L, L1, L2.
Qed.

Lemma lookup_loc_In {A} l (m : list (loc * A)) a : lookup_loc l m = Some a -> In (l, a) m.
Proof.
  induction m as [|[l' a'] r IH]; cbn; [discriminate|].
  destruct (Nat.eqb l l') eqn:E.
  - apply Nat.eqb_eq in E. subst. intros H. inversion H. auto.
  - auto.
Qed.

(** in a well-formed heap every allocated Config is complete *)
Lemma heap_wf_cfg_ok h c r : heap_wf h = true -> lookup_loc c (h_cfgs h) = Some r -> cfg_ok h c = true.
Proof.
  unfold heap_wf. intros H E. apply andb_true_iff in H as [H _]. rewrite forallb_forall in H.
  exact (H (c, r) (lookup_loc_In _ _ _ E)).
Qed.

Lemma ext_cfg_ok h h' c : cfg_ok h c = true -> ext (h_next h) h h' ->
  cfg_ok h' c = true /\ get_cfg h' c = get_cfg h c /\ snapshot h' c = snapshot h c.
Proof.
  intros Hok E. pose proof (ext_next _ _ _ E) as Nx.
  destruct (cfg_ok_inv _ _ Hok) as (r & cl & hd & E0 & E1 & E2 & L0 & L1 & L2).
  destruct E as (ws & -> & Ab).
  pose proof (writes_frame_cfg _ _ Ab h c L0) as F0.
  pose proof (writes_frame_tab _ _ Ab h _ L1) as F1.
  pose proof (writes_frame_tab _ _ Ab h _ L2) as F2.
  repeat split.
  - eapply cfg_ok_intro; try (rewrite ?F0, ?F1, ?F2; eassumption); lia.
  - unfold get_cfg. now rewrite F0.
  - unfold snapshot, get_cfg, get_tab. rewrite F0, E0. cbn. now rewrite F1, F2.
Qed.

Lemma ext_read_form h h' c : cfg_ok h c = true -> ext (h_next h) h h' -> read_form h' c = read_form h c.
Proof. intros Hok E. unfold read_form. now rewrite (proj1 (proj2 (ext_cfg_ok _ _ _ Hok E))). Qed.

Lemma ext_read_jsonclass h h' c : cfg_ok h c = true -> ext (h_next h) h h' ->
  read_jsonclass h' c = read_jsonclass h c.
Proof. intros Hok E. unfold read_jsonclass. now rewrite (proj1 (proj2 (ext_cfg_ok _ _ _ Hok E))). Qed.

(** ** Config.copy() *)

Lemma config_copy_spec h c r cl hd :
  lookup_loc c (h_cfgs h) = Some r ->
  lookup_loc (c_classes r) (h_tabs h) = Some cl -> lookup_loc (c_handlers r) (h_tabs h) = Some hd ->
  let n := h_next h in
  let r' := mkCfg (c_version r) (c_content_type r)
                  (match c_user_agent r with VNone => default_user_agent | u => u end)
                  (c_use_jsonclass r) (c_serialize_method r) (c_ignore_attribute r) n (S n) in
  let ws := [WTab n cl; WTab (S n) hd; WCfg (S (S n)) r'] in
  config_copy h c = Ok (writes ws h, S (S n)) /\ above n ws.
Proof.
  intros E E1 E2 n r' ws. split.
  - unfold config_copy, get_cfg, get_tab. rewrite E. cbn [bind]. rewrite E1, E2. cbn [bind].
    unfold alloc_tab, alloc_cfg. cbn [writes ws fold_left]. rewrite !next_write. cbn [wloc].
    fold n. replace (Nat.max n (S n)) with (S n) by lia.
    replace (Nat.max (S n) (S (S n))) with (S (S n)) by lia. reflexivity.
  - subst ws. repeat constructor; cbn; lia.
Qed.

(** the objects of the copy after copy() *)
Definition copy_rec (r : cfgrec) (n : loc) : cfgrec :=
  mkCfg (c_version r) (c_content_type r)
        (match c_user_agent r with VNone => default_user_agent | u => u end)
        (c_use_jsonclass r) (c_serialize_method r) (c_ignore_attribute r) n (S n).

Lemma copy_writes_objects h n r' cl hd : n = h_next h ->
  let h1 := writes [WTab n cl; WTab (S n) hd; WCfg (S (S n)) r'] h in
  h_next h1 = S (S (S n))
  /\ lookup_loc (S (S n)) (h_cfgs h1) = Some r'
  /\ lookup_loc n (h_tabs h1) = Some cl /\ lookup_loc (S n) (h_tabs h1) = Some hd.
Proof.
  intros Hn h1. subst h1. unfold writes. cbn [fold_left]. split; [|split; [|split]].
  - rewrite !next_write. cbn [wloc]. lia.
  - rewrite cfgs_write_cfg, Nat.eqb_refl. reflexivity.
  - rewrite tabs_write_cfg, tabs_write_tab.
    replace (Nat.eqb n (S n)) with false by (symmetry; apply Nat.eqb_neq; lia).
    rewrite tabs_write_tab, Nat.eqb_refl. reflexivity.
  - rewrite tabs_write_cfg, tabs_write_tab, Nat.eqb_refl. reflexivity.
Qed.

Lemma copy_objects h c r cl hd :
  lookup_loc c (h_cfgs h) = Some r ->
  lookup_loc (c_classes r) (h_tabs h) = Some cl -> lookup_loc (c_handlers r) (h_tabs h) = Some hd ->
  forall h1 c', config_copy h c = Ok (h1, c') ->
  let n := h_next h in
  c' = S (S n) /\ h_next h1 = S (S (S n)) /\ ext n h h1
  /\ lookup_loc c' (h_cfgs h1) = Some (copy_rec r n)
  /\ lookup_loc n (h_tabs h1) = Some cl /\ lookup_loc (S n) (h_tabs h1) = Some hd.
Proof.
  intros E E1 E2 h1 c' H n.
  destruct (config_copy_spec h c r cl hd E E1 E2) as [HS Ab]. fold n in HS, Ab. fold (copy_rec r n) in HS, Ab.
  destruct (copy_writes_objects h n (copy_rec r n) cl hd eq_refl) as (P1 & P2 & P3 & P4).
  remember (writes [WTab n cl; WTab (S n) hd; WCfg (S (S n)) (copy_rec r n)] h) as hw eqn:Hw.
  assert (Q : h1 = hw /\ c' = S (S n)) by (rewrite HS in H; split; congruence).
  destruct Q as [-> ->].
  split; [reflexivity|]. split; [exact P1|]. split; [eexists; split; [exact Hw|exact Ab]|].
  auto.
Qed.

(** copy() of a complete configuration succeeds and yields a complete configuration, with the
    contents of the original, whose three objects are new *)
Lemma copy_ok h c : cfg_ok h c = true ->
  exists h1 c', config_copy h c = Ok (h1, c') /\ ext (h_next h) h h1 /\ h_next h <= c'
    /\ cfg_ok h1 c' = true /\ cfg_ok h1 c = true.
Proof.
  intros Hok. destruct (cfg_ok_inv _ _ Hok) as (r & cl & hd & E0 & E1 & E2 & L0 & L1 & L2).
  destruct (config_copy_spec h c r cl hd E0 E1 E2) as [HS Ab].
  eexists _, _. split; [exact HS|].
  destruct (copy_objects h c r cl hd E0 E1 E2 _ _ HS) as (_ & Nx & Ex & R & T1 & T2).
  split; [exact Ex|]. split; [lia|]. split.
  - eapply cfg_ok_intro; [exact R|exact T1|exact T2|..]; cbn; lia.
  - apply (ext_cfg_ok _ _ _ Hok Ex).
Qed.

(** ** Operations: footprint *)

Lemma put_cfg_ok h c r r0 : lookup_loc c (h_cfgs h) = Some r0 -> put_cfg h c r = Ok (do_write h (WCfg c r)).
Proof. intros E. unfold put_cfg. now rewrite E. Qed.

Lemma put_tab_ok h l t t0 : lookup_loc l (h_tabs h) = Some t0 -> put_tab h l t = Ok (do_write h (WTab l t)).
Proof. intros E. unfold put_tab. now rewrite E. Qed.

(** an operation on a complete configuration [c] is one write, to [c] itself (keeping its two table
    references) or to one of its two tables *)
Lemma apply_op_spec h c o r cl hd :
  lookup_loc c (h_cfgs h) = Some r ->
  lookup_loc (c_classes r) (h_tabs h) = Some cl -> lookup_loc (c_handlers r) (h_tabs h) = Some hd ->
  exists w, apply_op h c o = Ok (do_write h w)
    /\ ((exists r', w = WCfg c r' /\ c_classes r' = c_classes r /\ c_handlers r' = c_handlers r)
        \/ (exists t, w = WTab (c_classes r) t) \/ (exists t, w = WTab (c_handlers r) t)).
Proof.
  intros E E1 E2. unfold apply_op, get_cfg, get_tab. rewrite E. cbn [bind].
  destruct o; rewrite ?E1, ?E2; cbn [bind];
    try (erewrite put_cfg_ok by eassumption; eexists; split; [reflexivity|]; left; eexists; repeat split; reflexivity);
    try (erewrite put_tab_ok by eassumption; eexists; split; [reflexivity|]; right; eauto).
Qed.

(** the write [config.version = 1.0] *)
Lemma set_version_spec h c r v : lookup_loc c (h_cfgs h) = Some r ->
  apply_op h c (SetVersion v) = Ok (do_write h (WCfg c (with_version r v))).
Proof. intros E. unfold apply_op, get_cfg. rewrite E. cbn [bind]. eapply put_cfg_ok; eauto. Qed.

(** ** Copy independence *)

(** two complete configurations that share no object *)
Definition separate (h : heap) (a b : loc) : Prop :=
  exists ra rb, lookup_loc a (h_cfgs h) = Some ra /\ lookup_loc b (h_cfgs h) = Some rb /\ a <> b
    /\ c_classes ra <> c_classes rb /\ c_classes ra <> c_handlers rb
    /\ c_handlers ra <> c_classes rb /\ c_handlers ra <> c_handlers rb
    /\ cfg_ok h a = true /\ cfg_ok h b = true.

Lemma write_next_le h w : h_next h <= h_next (do_write h w).
Proof. rewrite next_write. lia. Qed.

(** an operation applied to [a] leaves [b]'s snapshot as it is, and the two stay separate *)
Lemma op_separate h a b o : separate h a b ->
  exists h', apply_op h a o = Ok h' /\ snapshot h' b = snapshot h b /\ separate h' a b.
Proof.
  intros (ra & rb & Ea & Eb & Nab & N1 & N2 & N3 & N4 & Oa & Ob).
  destruct (cfg_ok_inv _ _ Oa) as (ra' & cla & hda & Ea' & Ea1 & Ea2 & La0 & La1 & La2).
  rewrite Ea in Ea'. inversion Ea'; subst ra'. clear Ea'.
  destruct (cfg_ok_inv _ _ Ob) as (rb' & clb & hdb & Eb' & Eb1 & Eb2 & Lb0 & Lb1 & Lb2).
  rewrite Eb in Eb'. inversion Eb'; subst rb'. clear Eb'.
  destruct (apply_op_spec h a o ra cla hda Ea Ea1 Ea2) as (w & HS & Sh).
  exists (do_write h w). split; [exact HS|].
  pose proof (write_next_le h w) as Nx.
  destruct Sh as [(r' & -> & C1 & C2)|[(t & ->)|(t & ->)]].
  - (* a's record rewritten *)
    assert (Fb : lookup_loc b (h_cfgs (do_write h (WCfg a r'))) = Some rb).
    { rewrite cfgs_write_cfg. replace (Nat.eqb b a) with false by (symmetry; apply Nat.eqb_neq; congruence). exact Eb. }
    assert (Fa : lookup_loc a (h_cfgs (do_write h (WCfg a r'))) = Some r').
    { rewrite cfgs_write_cfg. now rewrite Nat.eqb_refl. }
    split.
    + unfold snapshot, get_cfg, get_tab. rewrite Fb, Eb. reflexivity.
    + exists r', rb. rewrite C1, C2. repeat split; auto.
      * eapply cfg_ok_intro; [exact Fa|rewrite C1; exact Ea1|rewrite C2; exact Ea2|..]; rewrite ?C1, ?C2; lia.
      * eapply cfg_ok_intro; [exact Fb|exact Eb1|exact Eb2|..]; lia.
  - (* a's classes table rewritten *)
    assert (T : forall l, l <> c_classes ra ->
                lookup_loc l (h_tabs (do_write h (WTab (c_classes ra) t))) = lookup_loc l (h_tabs h)).
    { intros l N. rewrite tabs_write_tab. apply Nat.eqb_neq in N. now rewrite N. }
    assert (Tc : lookup_loc (c_classes ra) (h_tabs (do_write h (WTab (c_classes ra) t))) = Some t).
    { rewrite tabs_write_tab. now rewrite Nat.eqb_refl. }
    split.
    + unfold snapshot, get_cfg, get_tab. rewrite cfgs_write_tab, Eb. cbn [bind].
      rewrite !T by congruence. reflexivity.
    + exists ra, rb. rewrite cfgs_write_tab. repeat split; auto.
      * destruct (Nat.eq_dec (c_handlers ra) (c_classes ra)) as [Q|Q].
        -- eapply cfg_ok_intro; [exact Ea|exact Tc|rewrite Q; exact Tc|..]; lia.
        -- eapply cfg_ok_intro; [exact Ea|exact Tc|rewrite T by exact Q; exact Ea2|..]; lia.
      * eapply cfg_ok_intro; [exact Eb|rewrite T by congruence; exact Eb1|rewrite T by congruence; exact Eb2|..]; lia.
  - (* a's handlers table rewritten *)
    assert (T : forall l, l <> c_handlers ra ->
                lookup_loc l (h_tabs (do_write h (WTab (c_handlers ra) t))) = lookup_loc l (h_tabs h)).
    { intros l N. rewrite tabs_write_tab. apply Nat.eqb_neq in N. now rewrite N. }
    assert (Tc : lookup_loc (c_handlers ra) (h_tabs (do_write h (WTab (c_handlers ra) t))) = Some t).
    { rewrite tabs_write_tab. now rewrite Nat.eqb_refl. }
    split.
    + unfold snapshot, get_cfg, get_tab. rewrite cfgs_write_tab, Eb. cbn [bind].
      rewrite !T by congruence. reflexivity.
    + exists ra, rb. rewrite cfgs_write_tab. repeat split; auto.
      * destruct (Nat.eq_dec (c_classes ra) (c_handlers ra)) as [Q|Q].
        -- eapply cfg_ok_intro; [exact Ea|rewrite Q; exact Tc|exact Tc|..]; lia.
        -- eapply cfg_ok_intro; [exact Ea|rewrite T by exact Q; exact Ea1|exact Tc|..]; lia.
      * eapply cfg_ok_intro; [exact Eb|rewrite T by congruence; exact Eb1|rewrite T by congruence; exact Eb2|..]; lia.
Qed.

Lemma separate_sym h a b : separate h a b -> separate h b a.
Proof.
  intros (ra & rb & Ea & Eb & Nab & N1 & N2 & N3 & N4 & Oa & Ob).
  exists rb, ra. repeat split; auto.
Qed.

Lemma ops_separate os : forall h a b, separate h a b ->
  exists h', apply_ops h a os = Ok h' /\ snapshot h' b = snapshot h b /\ separate h' a b.
Proof.
  induction os as [|o r IH]; intros h a b HS; cbn [apply_ops].
  - exists h. auto.
  - destruct (op_separate h a b o HS) as (h1 & E1 & Sn1 & S1). rewrite E1. cbn [bind].
    destruct (IH h1 a b S1) as (h2 & E2 & Sn2 & S2). exists h2. split; [exact E2|]. split; [congruence|exact S2].
Qed.

(** copy() establishes separation *)
Lemma copy_separate h c h1 c' : cfg_ok h c = true -> config_copy h c = Ok (h1, c') -> separate h1 c c'.
Proof.
  intros Hok H. destruct (cfg_ok_inv _ _ Hok) as (r & cl & hd & E0 & E1 & E2 & L0 & L1 & L2).
  destruct (copy_objects h c r cl hd E0 E1 E2 _ _ H) as (-> & Nx & Ex & R & T1 & T2).
  pose proof (ext_cfg_ok _ _ _ Hok Ex) as (Hok1 & G & _).
  unfold get_cfg in G. rewrite E0 in G.
  destruct (lookup_loc c (h_cfgs h1)) as [r1|] eqn:E0'; [|discriminate]. inversion G; subst r1. clear G.
  eexists r, _. split; [exact E0'|]. split; [exact R|]. unfold copy_rec. cbn [c_classes c_handlers].
  split; [lia|]. split; [lia|]. split; [lia|]. split; [lia|]. split; [lia|]. split; [exact Hok1|].
  eapply cfg_ok_intro; [exact R|exact T1|exact T2|..]; cbn; lia.
Qed.

Theorem copy_independent h c h1 c' os :
  cfg_ok h c = true -> config_copy h c = Ok (h1, c') ->
  (exists h2, apply_ops h1 c' os = Ok h2 /\ snapshot h2 c = snapshot h c)
  /\ (exists h2, apply_ops h1 c os = Ok h2 /\ snapshot h2 c' = snapshot h1 c').
Proof.
  intros Hok H. pose proof (copy_separate _ _ _ _ Hok H) as HS.
  assert (Sn : snapshot h1 c = snapshot h c).
  { destruct (copy_ok h c Hok) as (h1' & c'' & H' & Ex & _). rewrite H in H'. inversion H'; subst.
    apply (ext_cfg_ok _ _ _ Hok Ex). }
  split.
  - destruct (ops_separate os h1 c' c (separate_sym _ _ _ HS)) as (h2 & E & Sn2 & _).
    exists h2. split; [exact E|congruence].
  - destruct (ops_separate os h1 c c' HS) as (h2 & E & Sn2 & _). exists h2. auto.
Qed.

(** the copy has the attributes and the table contents of the original (a user agent that is None
    is replaced by the generated one), and two tables of its own *)
Theorem copy_contents h c h1 c' s :
  cfg_ok h c = true -> config_copy h c = Ok (h1, c') -> snapshot h c = Ok s ->
  exists s', snapshot h1 c' = Ok s'
    /\ s_classes s' = s_classes s /\ s_handlers s' = s_handlers s
    /\ c_version (s_rec s') = c_version (s_rec s) /\ c_content_type (s_rec s') = c_content_type (s_rec s)
    /\ c_use_jsonclass (s_rec s') = c_use_jsonclass (s_rec s)
    /\ c_serialize_method (s_rec s') = c_serialize_method (s_rec s)
    /\ c_ignore_attribute (s_rec s') = c_ignore_attribute (s_rec s)
    /\ c_user_agent (s_rec s') = match c_user_agent (s_rec s) with VNone => default_user_agent | u => u end
    /\ c_classes (s_rec s') <> c_classes (s_rec s) /\ c_handlers (s_rec s') <> c_handlers (s_rec s)
    /\ c_classes (s_rec s') <> c_handlers (s_rec s) /\ c_handlers (s_rec s') <> c_classes (s_rec s).
Proof.
  intros Hok H Sn. destruct (cfg_ok_inv _ _ Hok) as (r & cl & hd & E0 & E1 & E2 & L0 & L1 & L2).
  destruct (copy_objects h c r cl hd E0 E1 E2 _ _ H) as (-> & Nx & Ex & R & T1 & T2).
  unfold snapshot, get_cfg, get_tab in Sn. rewrite E0 in Sn. cbn [bind] in Sn. rewrite E1, E2 in Sn.
  cbn [bind] in Sn. inversion Sn; subst s. clear Sn.
  eexists. split.
  - unfold snapshot, get_cfg, get_tab. rewrite R. unfold copy_rec. cbn [bind c_classes c_handlers].
    rewrite T1, T2. reflexivity.
  - cbn. repeat split; lia.
Qed.

(** ** Serving over the heap equals the pure dispatcher, and extends the heap above its allocation pointer *)

Section Serving.
  Variable body : cid -> val -> outcome.
  Variable sigs : cid -> signature.

  Lemma read_form_inv h c f : read_form h c = Ok f ->
    exists r, lookup_loc c (h_cfgs h) = Some r /\ form_of_version (c_version r) = Some f.
  Proof.
    unfold read_form, get_cfg. destruct (lookup_loc c (h_cfgs h)) as [r|]; [|discriminate].
    cbn [bind]. destruct (form_of_version (c_version r)) as [f'|] eqn:E; [|discriminate].
    intros H. inversion H; subst. eauto.
  Qed.

  Lemma request_config_spec h srv m f jc :
    cfg_ok h srv = true -> read_form h srv = Ok f -> read_jsonclass h srv = Ok jc ->
    exists h1 c, request_config h srv m = Ok (h1, c) /\ ext (h_next h) h h1
      /\ read_form h1 c = Ok (request_form f m) /\ read_jsonclass h1 c = Ok jc.
  Proof.
    intros Hok Hf Hj. unfold request_config, request_form. rewrite Hf. cbn [bind].
    destruct (negb (dhas m "jsonrpc") && form_eqb f V2) eqn:T.
    2:{ exists h, srv. split; [reflexivity|]. split; [apply ext_refl|]. auto. }
    destruct (cfg_ok_inv _ _ Hok) as (r & cl & hd & E0 & E1 & E2 & L0 & L1 & L2).
    destruct (config_copy_spec h srv r cl hd E0 E1 E2) as [HS Ab]. rewrite HS. cbn [bind].
    destruct (copy_objects h srv r cl hd E0 E1 E2 _ _ HS) as (_ & Nx & Ex & R & T1 & T2).
    rewrite (set_version_spec _ _ _ _ R). cbn [bind].
    eexists _, _. split; [reflexivity|]. split.
    { eapply ext_trans; [exact Ex|]. apply ext_write. cbn. lia. }
    unfold read_form, read_jsonclass, get_cfg. rewrite cfgs_write_cfg, Nat.eqb_refl. cbn [bind].
    split; [reflexivity|].
    unfold read_jsonclass, get_cfg in Hj. rewrite E0 in Hj. exact Hj.
  Qed.

  Lemma single_dispatch_h_spec h hs dm m method params f jc :
    cfg_ok h (hs_cfg hs) = true -> read_form h (hs_cfg hs) = Ok f -> read_jsonclass h (hs_cfg hs) = Ok jc ->
    exists h1, single_dispatch_h body sigs h hs dm m method params
               = Ok (h1, single_dispatch body sigs f (mkSrv (hs_reg hs) (hs_pool hs) jc) dm m method params)
               /\ ext (h_next h) h h1.
  Proof.
    intros Hok Hf Hj. unfold single_dispatch_h.
    destruct (request_config_spec h (hs_cfg hs) m f jc Hok Hf Hj) as (h1 & c & -> & Ex & Rf & Rj).
    cbn [bind]. rewrite Rf, Rj. cbn [bind]. exists h1. split; [reflexivity|exact Ex].
  Qed.

  Lemma answer_entry_h_spec h hs dm e f jc :
    cfg_ok h (hs_cfg hs) = true -> read_form h (hs_cfg hs) = Ok f -> read_jsonclass h (hs_cfg hs) = Ok jc ->
    exists h1, answer_entry_h body sigs h hs dm e
               = Ok (h1, answer_entry body sigs f (mkSrv (hs_reg hs) (hs_pool hs) jc) dm e)
               /\ ext (h_next h) h h1.
  Proof.
    intros Hok Hf Hj. unfold answer_entry_h, answer_entry. rewrite Hf. cbn [bind].
    destruct (validate_request f e) as [ft|m method params].
    - exists h. split; [reflexivity|apply ext_refl].
    - now apply single_dispatch_h_spec.
  Qed.

  (** what an extension above the allocation pointer keeps *)
  Lemma keep h h' c f jc :
    cfg_ok h c = true -> read_form h c = Ok f -> read_jsonclass h c = Ok jc -> ext (h_next h) h h' ->
    cfg_ok h' c = true /\ read_form h' c = Ok f /\ read_jsonclass h' c = Ok jc.
  Proof.
    intros Hok Hf Hj Ex. split; [apply (ext_cfg_ok _ _ _ Hok Ex)|].
    rewrite (ext_read_form _ _ _ Hok Ex), (ext_read_jsonclass _ _ _ Hok Ex). auto.
  Qed.

  Lemma batch_h_spec hs dm f jc es : forall h,
    cfg_ok h (hs_cfg hs) = true -> read_form h (hs_cfg hs) = Ok f -> read_jsonclass h (hs_cfg hs) = Ok jc ->
    exists h1, batch_h body sigs h hs dm es
               = Ok (h1, batch body sigs f (mkSrv (hs_reg hs) (hs_pool hs) jc) dm es)
               /\ ext (h_next h) h h1.
  Proof.
    induction es as [|e r IH]; intros h Hok Hf Hj.
    - exists h. split; [reflexivity|apply ext_refl].
    - cbn [batch_h batch].
      destruct (answer_entry_h_spec h hs dm e f jc Hok Hf Hj) as (h1 & -> & Ex1). cbn [bind].
      destruct (answer_entry body sigs f _ dm e) as [o l].
      destruct (keep _ _ _ _ _ Hok Hf Hj Ex1) as (Hok1 & Hf1 & Hj1).
      destruct (IH h1 Hok1 Hf1 Hj1) as (h2 & -> & Ex2). cbn [bind].
      destruct (batch body sigs f _ dm r) as [os ls].
      exists h2. split; [reflexivity|]. eapply ext_step; eauto.
  Qed.

  Lemma unmarshaled_h_spec h hs dm req f jc :
    cfg_ok h (hs_cfg hs) = true -> read_form h (hs_cfg hs) = Ok f -> read_jsonclass h (hs_cfg hs) = Ok jc ->
    exists h1, unmarshaled_h body sigs h hs dm req
               = Ok (h1, unmarshaled_dispatch body sigs f (mkSrv (hs_reg hs) (hs_pool hs) jc) dm req)
               /\ ext (h_next h) h h1.
  Proof.
    intros Hok Hf Hj. unfold unmarshaled_h, unmarshaled_dispatch.
    destruct (negb (truthy req)).
    { rewrite Hf. cbn [bind]. exists h. split; [reflexivity|apply ext_refl]. }
    assert (One : exists h1,
      (do a <- answer_entry_h body sigs h hs dm req;
       let '(h1, (o, l)) := a in Ok (h1, (match o with Some x => UObj x | None => UNone end, l)))
      = Ok (h1, (let '(o, l) := answer_entry body sigs f (mkSrv (hs_reg hs) (hs_pool hs) jc) dm req in
                 (match o with Some x => UObj x | None => UNone end, l)))
      /\ ext (h_next h) h h1).
    { destruct (answer_entry_h_spec h hs dm req f jc Hok Hf Hj) as (h1 & -> & Ex). cbn [bind].
      destruct (answer_entry body sigs f _ dm req) as [o l]. exists h1. auto. }
    destruct req; try exact One.
    destruct (batch_h_spec hs dm f jc l h Hok Hf Hj) as (h1 & -> & Ex). cbn [bind].
    destruct (batch body sigs f _ dm l) as [os lg]. exists h1. auto.
  Qed.

  Theorem serve_spec h hs dm p f jc :
    cfg_ok h (hs_cfg hs) = true -> read_form h (hs_cfg hs) = Ok f -> read_jsonclass h (hs_cfg hs) = Ok jc ->
    exists h1, serve body sigs h hs dm p
               = Ok (h1, marshaled_dispatch body sigs f (mkSrv (hs_reg hs) (hs_pool hs) jc) dm p)
               /\ ext (h_next h) h h1.
  Proof.
    intros Hok Hf Hj. unfold serve, marshaled_dispatch.
    destruct (loads_m p) as [req|x].
    2:{ rewrite Hf. cbn [bind]. exists h. split; [reflexivity|apply ext_refl]. }
    destruct (unmarshaled_h_spec h hs dm req f jc Hok Hf Hj) as (h1 & -> & Ex). cbn [bind].
    destruct (unmarshaled_dispatch body sigs f _ dm req) as [u l].
    exists h1. split; [|exact Ex]. destruct u; reflexivity.
  Qed.

  Theorem serve_all_spec hs dm f jc ps : forall h,
    cfg_ok h (hs_cfg hs) = true -> read_form h (hs_cfg hs) = Ok f -> read_jsonclass h (hs_cfg hs) = Ok jc ->
    exists h1, serve_all body sigs h hs dm ps
               = Ok (h1, map (marshaled_dispatch body sigs f (mkSrv (hs_reg hs) (hs_pool hs) jc) dm) ps)
               /\ ext (h_next h) h h1.
  Proof.
    induction ps as [|p r IH]; intros h Hok Hf Hj.
    - exists h. split; [reflexivity|apply ext_refl].
    - cbn [serve_all map].
      destruct (serve_spec h hs dm p f jc Hok Hf Hj) as (h1 & -> & Ex1). cbn [bind].
      destruct (keep _ _ _ _ _ Hok Hf Hj Ex1) as (Hok1 & Hf1 & Hj1).
      destruct (IH h1 Hok1 Hf1 Hj1) as (h2 & -> & Ex2). cbn [bind].
      exists h2. split; [reflexivity|]. eapply ext_step; eauto.
  Qed.

  (** *** C13_reply_function *)

  Theorem reply_is_pure h hs dm hist p f jc :
    cfg_ok h (hs_cfg hs) = true -> read_form h (hs_cfg hs) = Ok f -> read_jsonclass h (hs_cfg hs) = Ok jc ->
    reply_after body sigs h hs dm hist p
    = Ok (marshaled_dispatch body sigs f (mkSrv (hs_reg hs) (hs_pool hs) jc) dm p).
  Proof.
    intros Hok Hf Hj. unfold reply_after.
    destruct (serve_all_spec hs dm f jc hist h Hok Hf Hj) as (h1 & -> & Ex1). cbn [bind fst].
    destruct (keep _ _ _ _ _ Hok Hf Hj Ex1) as (Hok1 & Hf1 & Hj1).
    destruct (serve_spec h1 hs dm p f jc Hok1 Hf1 Hj1) as (h2 & -> & _). reflexivity.
  Qed.

  Theorem reply_function h h' srv srv' reg pool dm hist hist' p f jc :
    cfg_ok h srv = true -> cfg_ok h' srv' = true ->
    read_form h srv = Ok f -> read_form h' srv' = Ok f ->
    read_jsonclass h srv = Ok jc -> read_jsonclass h' srv' = Ok jc ->
    reply_after body sigs h (mkHS srv reg pool) dm hist p
    = reply_after body sigs h' (mkHS srv' reg pool) dm hist' p.
  Proof.
    intros Hok Hok' Hf Hf' Hj Hj'.
    rewrite (reply_is_pure h (mkHS srv reg pool) dm hist p f jc Hok Hf Hj).
    rewrite (reply_is_pure h' (mkHS srv' reg pool) dm hist' p f jc Hok' Hf' Hj'). reflexivity.
  Qed.

  (** *** C13_config_unchanged *)

  (** every configuration that is complete before a sequence of writes above the allocation pointer
      has the same snapshot after each prefix of it *)
  Lemma prefix_snapshots h ws c k :
    cfg_ok h c = true -> above (h_next h) ws -> snapshot (writes (firstn k ws) h) c = snapshot h c.
  Proof.
    intros Hok Ab. apply (ext_cfg_ok h _ c Hok). exists (firstn k ws). split; [reflexivity|].
    now apply above_firstn.
  Qed.

  Theorem serve_config_unchanged h hs dm p dflt f jc :
    cfg_ok h (hs_cfg hs) = true -> cfg_ok h dflt = true ->
    read_form h (hs_cfg hs) = Ok f -> read_jsonclass h (hs_cfg hs) = Ok jc ->
    exists h' x ws,
      serve body sigs h hs dm p = Ok (h', x)
      /\ h' = writes ws h /\ h_log h' = (rev ws ++ h_log h)%list
      /\ above (h_next h) ws
      /\ forall k, snapshot (writes (firstn k ws) h) (hs_cfg hs) = snapshot h (hs_cfg hs)
                   /\ snapshot (writes (firstn k ws) h) dflt = snapshot h dflt.
  Proof.
    intros Hok Hokd Hf Hj. destruct (serve_spec h hs dm p f jc Hok Hf Hj) as (h1 & E & (ws & -> & Ab)).
    eexists _, _, ws. split; [exact E|]. split; [reflexivity|]. split; [apply writes_log|].
    split; [exact Ab|]. intros k. split; now apply prefix_snapshots.
  Qed.

  Theorem history_config_unchanged h hs dm ps dflt f jc :
    cfg_ok h (hs_cfg hs) = true -> cfg_ok h dflt = true ->
    read_form h (hs_cfg hs) = Ok f -> read_jsonclass h (hs_cfg hs) = Ok jc ->
    exists h' xs ws,
      serve_all body sigs h hs dm ps = Ok (h', xs)
      /\ h' = writes ws h /\ h_log h' = (rev ws ++ h_log h)%list
      /\ above (h_next h) ws
      /\ forall k, snapshot (writes (firstn k ws) h) (hs_cfg hs) = snapshot h (hs_cfg hs)
                   /\ snapshot (writes (firstn k ws) h) dflt = snapshot h dflt.
  Proof.
    intros Hok Hokd Hf Hj. destruct (serve_all_spec hs dm f jc ps h Hok Hf Hj) as (h1 & E & (ws & -> & Ab)).
    eexists _, _, ws. split; [exact E|]. split; [reflexivity|]. split; [apply writes_log|].
    split; [exact Ab|]. intros k. split; now apply prefix_snapshots.
  Qed.

  (** a write above the allocation pointer is not a write to a complete configuration or its tables *)
  Lemma above_not_config h c r w :
    cfg_ok h c = true -> lookup_loc c (h_cfgs h) = Some r -> h_next h <= wloc w ->
    wloc w <> c /\ wloc w <> c_classes r /\ wloc w <> c_handlers r.
  Proof.
    intros Hok E L. destruct (cfg_ok_inv _ _ Hok) as (r' & cl & hd & E0 & _ & _ & L0 & L1 & L2).
    rewrite E in E0. inversion E0; subst r'. lia.
  Qed.

  (** *** C13_form on the heap *)

  Theorem form_on_heap h hs dm e f jc h1 o log :
    cfg_ok h (hs_cfg hs) = true -> read_form h (hs_cfg hs) = Ok f -> read_jsonclass h (hs_cfg hs) = Ok jc ->
    answer_entry_h body sigs h hs dm e = Ok (h1, (Some o, log)) ->
    (forall m, e = VDict m -> wellformed_entry e = true ->
               reply_form o = Some (if dhas m "jsonrpc" then f else V1))
    /\ (wellformed_entry e = false -> reply_form o = Some f).
  Proof.
    intros Hok Hf Hj H. destruct (answer_entry_h_spec h hs dm e f jc Hok Hf Hj) as (h1' & E & _).
    rewrite E in H. inversion H as [[Hh Ha]]. split.
    - intros m -> Hw. eapply reply_form_valid; eauto.
    - intros Hw. eapply reply_form_invalid; eauto.
  Qed.

  Theorem unparsable_on_heap h hs dm f jc :
    cfg_ok h (hs_cfg hs) = true -> read_form h (hs_cfg hs) = Ok f -> read_jsonclass h (hs_cfg hs) = Ok jc ->
    exists h1 o, serve body sigs h hs dm PError = Ok (h1, Ok (ROne o, [])) /\ reply_form o = Some f.
  Proof.
    intros Hok Hf Hj. unfold serve. cbn [loads_m]. rewrite Hf. cbn [bind].
    eexists _, _. split; [reflexivity|apply reply_form_err].
  Qed.

  (** every object of a batch reply is the answer to one of the batch's entries *)
  Theorem batch_objects srvf srv dm es o :
    In o (fst (batch body sigs srvf srv dm es)) ->
    exists e log, In e es /\ answer_entry body sigs srvf srv dm e = (Some o, log).
  Proof.
    rewrite batch_answers. intros H. apply in_flat_map in H as (e & He & Ho).
    destruct (answer_entry body sigs srvf srv dm e) as [[o'|] l] eqn:E; cbn in Ho; [|contradiction].
    destruct Ho as [->|[]]. eauto.
  Qed.

End Serving.

(** ** Concurrent serving: all schedules *)

Section Concurrent.
  Variable body : cid -> val -> outcome.
  Variable sigs : cid -> signature.
  Variable hs : hserver.
  Variable h0 : heap.                    (* the heap when the threads start *)
  Variable f : form.
  Variable jc : bool.
  Hypothesis Hok0 : cfg_ok h0 (hs_cfg hs) = true.
  Hypothesis Hf0 : read_form h0 (hs_cfg hs) = Ok f.
  Hypothesis Hj0 : read_jsonclass h0 (hs_cfg hs) = Ok jc.

  Let n0 := h_next h0.
  Let srv := hs_cfg hs.

  Definition cfg_is (h : heap) (c : loc) (fm : form) (j : bool) : Prop :=
    exists r, lookup_loc c (h_cfgs h) = Some r /\ form_of_version (c_version r) = Some fm
              /\ truthy (c_use_jsonclass r) = j.

  Definition cfg_has (h : heap) (c : loc) (j : bool) : Prop :=
    exists r, lookup_loc c (h_cfgs h) = Some r /\ truthy (c_use_jsonclass r) = j.

  Definition test_of (rq : treq) : bool := negb (dhas (tr_m rq) "jsonrpc") && form_eqb f V2.

  (** the sequential answer to a thread's request *)
  Definition seq_answer (rq : treq) : option val * list event :=
    single_dispatch body sigs f (mkSrv (hs_reg hs) (hs_pool hs) jc) (tr_dm rq) (tr_m rq) (tr_method rq) (tr_params rq).

  (** what a thread knows at each program point *)
  Definition thread_ok (h : heap) (t : thread) : Prop :=
    let rq := t_req t in
    match t_pc t with
    | PTest => True
    | PCopy => test_of rq = true
    | PKeep => test_of rq = false
    | PSetVer c => test_of rq = true /\ n0 <= c /\ c < h_next h /\ cfg_has h c jc
    | PCall c | PReply c =>
        c < h_next h /\ cfg_is h c (request_form f (tr_m rq)) jc
        /\ ((c = srv /\ test_of rq = false) \/ (n0 <= c /\ test_of rq = true))
    | PDone out => out = seq_answer rq
    | PFailed => False
    end.

  (** what a step of any thread may do to the heap *)
  Inductive guar (h h' : heap) : Prop :=
  | G_id : h' = h -> guar h h'
  | G_alloc ws : h' = writes ws h -> above (h_next h) ws -> guar h h'
  | G_setver c r : lookup_loc c (h_cfgs h) = Some r -> n0 <= c ->
                   h' = do_write h (WCfg c (with_version r one_point_zero)) -> guar h h'.

  Lemma guar_ext h h' : n0 <= h_next h -> guar h h' -> ext n0 h h'.
  Proof.
    intros L [->|ws -> Ab|c r E Lc ->].
    - apply ext_refl.
    - exists ws. split; [reflexivity|]. eapply above_weaken; eauto.
    - now apply ext_write.
  Qed.

  Lemma guar_next h h' : guar h h' -> h_next h <= h_next h'.
  Proof.
    intros [->|ws -> Ab|c r E Lc ->].
    - lia.
    - apply writes_next_mono.
    - apply write_next_le.
  Qed.

  Lemma srv_below : srv < n0.
  Proof. destruct (cfg_ok_inv _ _ Hok0) as (r & cl & hd & _ & _ & _ & L & _). exact L. Qed.

  (** a configuration below the allocation pointer, after a step of any thread *)
  Lemma guar_cfg_has h h' c j : guar h h' -> c < h_next h -> cfg_has h c j -> cfg_has h' c j.
  Proof.
    intros [->|ws -> Ab|c' r' E Lc ->] L (r & Er & Tr); [exists r; auto| |].
    - exists r. split; [|exact Tr]. now rewrite (writes_frame_cfg _ _ Ab h c L).
    - rewrite <- Tr. destruct (Nat.eqb c c') eqn:Q.
      + apply Nat.eqb_eq in Q. subst c'. rewrite Er in E. inversion E; subst r'.
        exists (with_version r one_point_zero). split; [|reflexivity].
        now rewrite cfgs_write_cfg, Nat.eqb_refl.
      + exists r. split; [|reflexivity]. now rewrite cfgs_write_cfg, Q.
  Qed.

  Lemma guar_cfg_is h h' c fm j :
    guar h h' -> c < h_next h -> (n0 <= c -> fm = V1) -> cfg_is h c fm j -> cfg_is h' c fm j.
  Proof.
    intros [->|ws -> Ab|c' r' E Lc ->] L Hv (r & Er & Fr & Tr); [exists r; auto| |].
    - exists r. split; [|auto]. now rewrite (writes_frame_cfg _ _ Ab h c L).
    - destruct (Nat.eqb c c') eqn:Q.
      + apply Nat.eqb_eq in Q. subst c'. rewrite Er in E. inversion E; subst r'.
        exists (with_version r one_point_zero). split; [now rewrite cfgs_write_cfg, Nat.eqb_refl|].
        split; [|exact Tr]. rewrite (Hv Lc). reflexivity.
      + exists r. split; [|auto]. now rewrite cfgs_write_cfg, Q.
  Qed.

  Lemma request_form_test rq : request_form f (tr_m rq) = if test_of rq then V1 else f.
  Proof. reflexivity. Qed.

  Lemma thread_ok_stable h h' t : guar h h' -> thread_ok h t -> thread_ok h' t.
  Proof.
    intros G. pose proof (guar_next _ _ G) as Nx. unfold thread_ok.
    destruct (t_pc t) as [| |c| |c|c|out|]; auto.
    - intros (T & L0 & L & Hc). repeat split; auto; [lia|]. eapply guar_cfg_has; eauto.
    - intros (L & Hc & D). split; [lia|]. split; [|exact D].
      eapply guar_cfg_is; eauto. intros Lc. rewrite request_form_test.
      destruct D as [[-> _]|[_ ->]]; [|reflexivity]. pose proof srv_below. lia.
    - intros (L & Hc & D). split; [lia|]. split; [|exact D].
      eapply guar_cfg_is; eauto. intros Lc. rewrite request_form_test.
      destruct D as [[-> _]|[_ ->]]; [|reflexivity]. pose proof srv_below. lia.
  Qed.

  (** the server's configuration in every heap that extends the initial one above [n0] *)
  Lemma srv_kept h : ext n0 h0 h ->
    cfg_ok h srv = true /\ read_form h srv = Ok f /\ read_jsonclass h srv = Ok jc.
  Proof. intros E. exact (keep _ _ _ _ _ Hok0 Hf0 Hj0 E). Qed.

  Lemma cfg_is_reads h c fm j : cfg_is h c fm j -> read_form h c = Ok fm /\ read_jsonclass h c = Ok j.
  Proof.
    intros (r & E & Fr & Tr). unfold read_form, read_jsonclass, get_cfg. rewrite E. cbn [bind].
    rewrite Fr, Tr. auto.
  Qed.

  Lemma reads_cfg_is h c fm j : read_form h c = Ok fm -> read_jsonclass h c = Ok j -> cfg_is h c fm j.
  Proof.
    intros Hf Hj. destruct (read_form_inv _ _ _ Hf) as (r & E & Fr). exists r. split; [exact E|]. split; [exact Fr|].
    unfold read_jsonclass, get_cfg in Hj. rewrite E in Hj. cbn [bind] in Hj. congruence.
  Qed.

  (** one step of one thread: the heap changes as [guar] allows, and the thread knows what its next
      program point needs *)
  Lemma tstep_ok h t h' p' :
    ext n0 h0 h -> thread_ok h t -> tstep body sigs hs h t = Some (h', p') ->
    guar h h' /\ thread_ok h' (mkThread (t_req t) p').
  Proof.
    intros E T H. destruct (srv_kept h E) as (Hok & Hf & Hj). fold srv in Hok, Hf, Hj.
    pose proof (ext_next _ _ _ E) as Nx. fold n0 in Nx. pose proof srv_below as Sb.
    unfold tstep in H. unfold thread_ok in *. cbn [t_req t_pc]. fold srv in H.
    destruct (t_pc t) as [| |c| |c|c|out|] eqn:P.
    - (* LTest *)
      rewrite Hf in H. inversion H; subst h' p'. split; [now apply G_id|].
      fold (test_of (t_req t)). destruct (test_of (t_req t)) eqn:Q; reflexivity.
    - (* LCopy *)
      destruct (cfg_ok_inv _ _ Hok) as (r & cl & hd & E0 & E1 & E2 & L0 & L1 & L2).
      destruct (config_copy_spec h srv r cl hd E0 E1 E2) as [HS Ab].
      destruct (copy_objects h srv r cl hd E0 E1 E2 _ _ HS) as (_ & Nx1 & _ & R & _ & _).
      fold (copy_rec r (h_next h)) in HS, Ab, Nx1, R.
      remember (writes [WTab (h_next h) cl; WTab (S (h_next h)) hd; WCfg (S (S (h_next h))) (copy_rec r (h_next h))] h)
        as hw eqn:Hw.
      rewrite HS in H.
      assert (Q : h' = hw /\ p' = PSetVer (S (S (h_next h)))) by (split; congruence).
      destruct Q as [-> ->]. clear H. split.
      + eapply G_alloc; [exact Hw|exact Ab].
      + split; [exact T|]. split; [lia|]. split; [rewrite Nx1; lia|].
        eexists. split; [exact R|]. unfold copy_rec. cbn [c_use_jsonclass].
        unfold read_jsonclass, get_cfg in Hj. rewrite E0 in Hj. cbn [bind] in Hj. congruence.
    - (* LSetVer *)
      destruct T as (Tt & L0 & L & (r & Er & Tr)).
      rewrite (set_version_spec _ _ _ _ Er) in H.
      remember (do_write h (WCfg c (with_version r one_point_zero))) as hw eqn:Hw.
      assert (Q : h' = hw /\ p' = PCall c) by (split; congruence).
      destruct Q as [-> ->]. clear H. subst hw. split.
      + eapply G_setver; eauto.
      + split; [rewrite next_write; cbn [wloc]; lia|].
        split; [|right; auto].
        exists (with_version r one_point_zero). split; [now rewrite cfgs_write_cfg, Nat.eqb_refl|].
        split; [|exact Tr]. rewrite request_form_test, Tt. reflexivity.
    - (* LKeep *)
      inversion H; subst h' p'. split; [now apply G_id|].
      split; [lia|]. split; [|left; auto].
      rewrite request_form_test, T. now apply reads_cfg_is.
    - (* LCall *)
      inversion H; subst h' p'. split; [now apply G_id|exact T].
    - (* LReply *)
      destruct T as (L & Hc & D). destruct (cfg_is_reads _ _ _ _ Hc) as [Rf Rj].
      rewrite Rf, Rj in H. inversion H; subst h' p'. split; [now apply G_id|reflexivity].
    - discriminate.
    - discriminate.
  Qed.

  (** the invariant of the whole system *)
  Definition sys_ok (reqs : list treq) (s : cstate) : Prop :=
    ext n0 h0 (cs_heap s) /\ map t_req (cs_threads s) = reqs /\ Forall (thread_ok (cs_heap s)) (cs_threads s).

  Lemma set_nth_map {A B} (g : A -> B) i a l x :
    nth_error l i = Some x -> g a = g x -> map g (set_nth i a l) = map g l.
  Proof.
    revert i. induction l as [|y r IH]; intros [|i] H Q; cbn in *; try discriminate.
    - inversion H; subst. now rewrite Q.
    - now rewrite (IH i H Q).
  Qed.

  Lemma set_nth_Forall {A} (P : A -> Prop) i a l : Forall P l -> P a -> Forall P (set_nth i a l).
  Proof.
    intros F Pa. revert i. induction F as [|y r Py Fr IH]; intros [|i]; cbn; constructor; auto.
  Qed.

  Lemma cstep_ok reqs s i : sys_ok reqs s -> sys_ok reqs (cstep body sigs hs s i).
  Proof.
    intros (E & M & F). unfold cstep.
    destruct (nth_error (cs_threads s) i) as [t|] eqn:Nt; [|now repeat split].
    destruct (tstep body sigs hs (cs_heap s) t) as [[h' p']|] eqn:St; [|now repeat split].
    assert (T : thread_ok (cs_heap s) t).
    { rewrite Forall_forall in F. apply F. eapply nth_error_In; eauto. }
    destruct (tstep_ok _ _ _ _ E T St) as [G T'].
    pose proof (ext_next _ _ _ E) as Nx. fold n0 in Nx.
    split; [|split]; cbn [cs_heap cs_threads].
    - eapply ext_trans; [exact E|]. now apply guar_ext.
    - rewrite <- M. eapply set_nth_map; eauto.
    - apply set_nth_Forall; [|exact T'].
      eapply Forall_impl; [|exact F]. intros t0. now apply thread_ok_stable.
  Qed.

  Lemma run_ok reqs sched : forall s, sys_ok reqs s -> sys_ok reqs (run_sched body sigs hs sched s).
  Proof.
    unfold run_sched. induction sched as [|i r IH]; intros s H; cbn [fold_left]; [exact H|].
    apply IH. now apply cstep_ok.
  Qed.

  Lemma init_ok reqs : sys_ok reqs (mkCS h0 (init_threads reqs)).
  Proof.
    split; [apply ext_refl|]. split; cbn [cs_threads cs_heap]; unfold init_threads.
    - rewrite map_map. cbn. apply map_id.
    - apply Forall_forall. intros t Hin. apply in_map_iff in Hin as (rq & <- & _). exact I.
  Qed.

  (** for every schedule: all writes so far go to locations allocated after the threads started (so the
      server's Config and any other complete Config keep their snapshot after every prefix of writes);
      the i-th thread serves the i-th request, never fails, and when it has finished its answer is the
      sequential one *)
  Theorem concurrent_independence reqs sched dflt :
    cfg_ok h0 dflt = true ->
    let s := run_sched body sigs hs sched (mkCS h0 (init_threads reqs)) in
    (exists ws, cs_heap s = writes ws h0 /\ h_log (cs_heap s) = (rev ws ++ h_log h0)%list
                /\ above (h_next h0) ws
                /\ forall k, snapshot (writes (firstn k ws) h0) (hs_cfg hs) = snapshot h0 (hs_cfg hs)
                             /\ snapshot (writes (firstn k ws) h0) dflt = snapshot h0 dflt)
    /\ map t_req (cs_threads s) = reqs
    /\ forall i t, nth_error (cs_threads s) i = Some t ->
         t_pc t <> PFailed
         /\ forall out, t_pc t = PDone out ->
              out = seq_answer (t_req t)
              /\ exists h1, single_dispatch_h body sigs h0 hs (tr_dm (t_req t)) (tr_m (t_req t))
                                              (tr_method (t_req t)) (tr_params (t_req t)) = Ok (h1, out).
  Proof.
    intros Hokd s. destruct (run_ok reqs sched _ (init_ok reqs)) as (E & M & F). fold s in E, M, F.
    split; [|split; [exact M|]].
    - destruct E as (ws & Ew & Ab). exists ws. split; [exact Ew|]. split; [rewrite Ew; apply writes_log|].
      split; [exact Ab|]. intros k. split; now apply prefix_snapshots.
    - intros i t Nt. rewrite Forall_forall in F. pose proof (F t (nth_error_In _ _ Nt)) as T.
      unfold thread_ok in T. split.
      + intros Q. now rewrite Q in T.
      + intros out Q. rewrite Q in T. split; [exact T|].
        destruct (single_dispatch_h_spec body sigs h0 hs (tr_dm (t_req t)) (tr_m (t_req t)) (tr_method (t_req t))
                                          (tr_params (t_req t)) f jc Hok0 Hf0 Hj0) as (h1 & Eq & _).
        exists h1. rewrite Eq, T. reflexivity.
  Qed.

End Concurrent.
