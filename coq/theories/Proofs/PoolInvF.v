(** Lifecycle invariants, part 2: the thread list, what stop() has joined, the quiet pool. *)
From JR Require Import PoolInvDefs PoolInvA PoolInvB PoolInvE.

Definition listed_pc (l : wlabel) : bool :=
  match l with WNone | WNew | WFNbDec | WFUnlock | WDead => false | _ => true end.

Definition I_threads (s : st) : Prop :=
  (forall w, listed_pc (wpc (ws s w)) = true -> In w (threads s) \/ exists c k, cpc (cs s c) = CSAppend k w) /\
  (forall w, wpc (ws s w) = WNew -> exists c k, cpc (cs s c) = CSTStart k w).

Definition after_join (l : clabel) : bool :=
  match l with
  | CSPDel | CCLLock | CCLGet | CCLDone | CCLUnlock | CJTest _ JClear | CJQJoin JClear => true
  | _ => false
  end.
Definition drained (l : clabel) : bool :=
  match l with CCLUnlock | CJTest _ JClear | CJQJoin JClear => true | _ => false end.
Definition joining (l : clabel) : option (list nat) :=
  match l with CSPUnlock ths | CSPAlive ths | CSPJoin ths | CSPAlive2 ths => Some ths | _ => None end.

Definition I_stopjoin (s : st) : Prop :=
  (forall ths, joining (ctl s) = Some ths -> forall w, alive (ws s w) = true -> In w ths) /\
  (after_join (ctl s) = true -> forall w, alive (ws s w) = false) /\
  (drained (ctl s) = true -> q s = []).

Definition I_quiet (s : st) : Prop :=
  stopped s = true -> stop_region (ctl s) = false ->
  (forall w, alive (ws s w) = false) /\ (forall i, In i (q s) -> is_task i = true).

Lemma in_remove_other (l : list nat) w w' : w' <> w -> In w' l -> In w' (remove Nat.eq_dec w l).
Proof. intros Hne Hin. apply in_in_remove; auto. Qed.

Lemma P_threads s t f s' :
  I_ctl s -> I_created s -> I_lock s -> I_stopjoin s -> I_threads s -> step s t f = Some s' -> I_threads s'.
Proof.
  intros Hctl Hcr Hlk Hsj [Ht1 Ht2] H. pose proof Hcr as [Hcr1 Hcr2]. unfold I_threads.
  open_step2 H; use_lockop; simp.
  all: split; [ intros w' Hl'; pose proof (Ht1 w') as Hx | intros w' Hn'; pose proof (Ht2 w') as Hx ]; simp.
  all: try solve [split_upd; simp; cbn [listed_pc] in *; try discriminate;
                  try (rewrite ?Hwnew in *; rew_recs; simp; cbn [listed_pc] in *; discriminate);
                  try (destruct (Hx ltac:(assumption || (rew_recs; reflexivity))) as [Hin|(c1 & k1 & Hc1)];
                       [ left; try assumption; try (apply in_remove_other; assumption); try (apply in_or_app; left; assumption)
                       | right; exists c1, k1; split_upd; rew_recs; simp; try assumption; try congruence; try discriminate ]);
                  try (destruct (Hx ltac:(assumption)) as (c1 & k1 & Hc1); exists c1, k1; split_upd; rew_recs; simp; try assumption; try congruence; try discriminate)].
  - (* CSNbInc: the creator stands at CSTStart for the new worker *)
    split_upd; simp.
    + exists c, k. rewrite upd_same. reflexivity.
    + destruct (Hx Hn') as (c1 & k1 & Hc1). exists c1, k1.
      split_upd; rew_recs; simp; try assumption; discriminate.
  - (* CSTStart *)
    split_upd; simp.
    + right. exists c, k. rewrite upd_same. reflexivity.
    + destruct (Hx Hl') as [Hin|(c1 & k1 & Hc1)]; [left; assumption|].
      right. exists c1, k1. split_upd; rew_recs; simp; try assumption; discriminate.
  - (* CSAppend *)
    destruct (Hx Hl') as [Hin|(c1 & k1 & Hc1)]; [left; apply in_or_app; left; assumption|].
    destruct (Nat.eq_dec c1 c) as [->|Hne].
    + rewrite Ec in Hc1. cbn in Hc1. injection Hc1 as _ <-. left. apply in_or_app. right. left. reflexivity.
    + right. exists c1, k1. rewrite upd_other by assumption. assumption.
  - (* CSPDel: every worker is dead *)
    exfalso. destruct Hsj as (_ & Hs2 & _). unfold ctl in Hs2.
    ctl_cases Hctl. rewrite Ec in Hs2. specialize (Hs2 eq_refl w').
    unfold alive in Hs2. destruct (wpc (ws s w')); discriminate.
Qed.

Lemma alive_listed x : alive x = true -> listed_pc (wpc x) = true \/ wpc x = WNew \/ wpc x = WFNbDec \/ wpc x = WFUnlock.
Proof. unfold alive, listed_pc. destruct (wpc x); auto; discriminate. Qed.

Lemma P_stopjoin s t f s' :
  I_ctl s -> I_created s -> I_lock s -> I_flag s -> I_nocreate s -> I_threads s -> I_stopjoin s ->
  step s t f = Some s' -> I_stopjoin s'.
Proof.
  intros Hctl Hcr Hlk Hfl Hnc Hth (S1 & S2 & S3) H. unfold I_stopjoin, ctl in *.
  open_step2 H; use_lockop; simp.
  all: try solve [ctl_cases Hctl; try (rewrite Ec in * ); simp;
         (split; [intros ths Hj w' Ha; apply (S1 ths Hj w'); revert Ha; split_upd; simp; try (rewrite Ew); unfold alive; simp; auto; try discriminate
                 |split; [intros Haj w'; specialize (S2 Haj w'); revert S2; split_upd; simp; try (rewrite Ew); unfold alive; simp; auto; try discriminate
                         |intros Hd; specialize (S3 Hd); try assumption; try congruence]])].
  all: try match goal with He : is_entry ?l = true |- _ => destruct l; try discriminate He end.
  all: try match goal with k : jkont |- _ => destruct k; try discriminate end.
  all: try match goal with k : kont |- _ => destruct k end; cbn [kret] in *.
  all: try solve [ctl_cases Hctl; try (rewrite Ec in * ); simp; cbn [joining after_join drained] in *;
         (split; [intros ths Hj w' Ha; try discriminate; apply (S1 ths Hj w'); revert Ha; split_upd; simp; unfold alive; simp; auto; try discriminate
                 |split; [intros Haj w'; try discriminate; specialize (S2 Haj w'); revert S2; split_upd; simp; unfold alive; simp; auto; try discriminate
                         |intros Hd; try discriminate; specialize (S3 Hd); try assumption; try congruence]])].
  all: ctl_cases Hctl; simp.
  all: try solve [simp; cbn [joining after_join drained]; split; [intros ? Hj; discriminate Hj | split; intros Hx; discriminate Hx]].
  - (* CEPut by a client other than the controller: the controller is not at a drained label (it would hold the lock) *)
    split; [exact S1 | split; [exact S2|]]. intros Hd. exfalso.
    apply (two_lockers s c 0%nat Hlk Hc0); [rewrite Ec; cbn; lia|].
    destruct (cpc (cs s 0%nat)); try discriminate Hd; try (destruct k; try discriminate Hd); cbn; lia.
  - (* CSNbInc by another client while stop() is past its lock: impossible *)
    assert (Hcre : stopped s = false \/ cpc (cs s 0%nat) = CSPLock) by (apply (Hnc c); rewrite Ec; reflexivity).
    destruct Hfl as (F1 & _).
    assert (Hreg : joining (cpc (cs s 0%nat)) <> None \/ after_join (cpc (cs s 0%nat)) = true -> False).
    { intros Hj. assert (stop_region (cpc (cs s 0%nat)) = true /\ cpc (cs s 0%nat) <> CSPLock) as [Hr Hne].
      { destruct (cpc (cs s 0%nat)); cbn in *; destruct Hj as [Hj|Hj]; try discriminate; try congruence; split; try reflexivity; try discriminate;
          destruct k; try discriminate; try reflexivity; congruence. }
      destruct (F1 Hr) as (Hst & _). destruct Hcre; congruence. }
    split; [intros ths Hj; exfalso; apply Hreg; left; congruence | split; [intros Haj; exfalso; apply Hreg; right; exact Haj | exact S3]].
  - (* CSTStart by another client: WNew becomes WLoop, both alive *)
    destruct Hcr as [_ Hcr2]. destruct (Hcr2 c KEnq w) as [_ Hnew]; [rewrite Ec; reflexivity|].
    split; [intros ths Hj w' Ha; apply (S1 ths Hj w'); revert Ha; split_upd; simp; auto; intros _; rewrite Hnew; reflexivity
           | split; [intros Haj w'; specialize (S2 Haj w'); revert S2; split_upd; simp; auto; rewrite Hnew; discriminate | exact S3]].
  - (* CSPCopy: every live worker is in the list (lock exclusion) *)
    cbn [joining after_join drained]. split; [|split; intros Hx; discriminate Hx].
    intros ths Hj w' Ha. injection Hj as <-.
    destruct Hth as [T1 T2].
    assert (Hctl0 : (0 < cdepth (cpc (cs s 0%nat)))%nat) by (rewrite Ec; cbn; lia).
    destruct (alive_listed _ Ha) as [Hl|[Hn|[Hn|Hn]]].
    + destruct (T1 w' Hl) as [Hin|(c1 & k1 & Hc1)]; [exact Hin|]. exfalso.
      destruct (Nat.eq_dec c1 0%nat) as [->|Hne]; [rewrite Ec in Hc1; discriminate|].
      apply (two_lockers s c1 0%nat Hlk Hne); [rewrite Hc1; cbn; lia | exact Hctl0].
    + exfalso. destruct (T2 w' Hn) as (c1 & k1 & Hc1).
      destruct (Nat.eq_dec c1 0%nat) as [->|Hne]; [rewrite Ec in Hc1; discriminate|].
      apply (two_lockers s c1 0%nat Hlk Hne); [rewrite Hc1; cbn; lia | exact Hctl0].
    + exfalso. apply (wc_lockers s w' 0%nat Hlk); [rewrite Hn; cbn; lia | exact Hctl0].
    + exfalso. apply (wc_lockers s w' 0%nat Hlk); [rewrite Hn; cbn; lia | exact Hctl0].
  - (* CSPUnlock [] *)
    rewrite Ec in *. cbn [joining after_join drained] in *. split; [intros ? Hj; discriminate Hj | split; [|intros Hx; discriminate Hx]].
    intros _ w'. destruct (alive (ws s w')) eqn:Ea; [|reflexivity]. destruct (S1 [] eq_refl w' Ea).
  - (* CSPUnlock (n :: ths) *)
    rewrite Ec in *. cbn [joining after_join drained] in *. split; [exact S1 | split; intros Hx; discriminate Hx].
  - (* CSPAlive [] *)
    rewrite Ec in *. cbn [joining after_join drained] in *. split; [intros ? Hj; discriminate Hj | split; [|intros Hx; discriminate Hx]].
    intros _ w'. destruct (alive (ws s w')) eqn:Ea; [|reflexivity]. destruct (S1 [] eq_refl w' Ea).
  - (* CSPAlive [n], n dead: everything is joined *)
    rewrite Ec in *. cbn [joining after_join drained] in *. split; [intros ? Hj; discriminate Hj | split; [|intros Hx; discriminate Hx]].
    intros _ w'. destruct (alive (ws s w')) eqn:Ea; [|reflexivity].
    destruct (S1 _ eq_refl w' Ea) as [<-|[]]. unfold alive in Ea. rewrite Epc in Ea. discriminate.
  - (* CSPAlive (n :: n0 :: l), n dead *)
    rewrite Ec in *. cbn [joining after_join drained] in *. split; [|split; intros Hx; discriminate Hx].
    intros ths Hj w' Ha. injection Hj as <-. destruct (S1 _ eq_refl w' Ha) as [<-|Hin]; [|exact Hin].
    unfold alive in Ha. rewrite Epc in Ha. discriminate.
  - (* CSPJoin [] *)
    rewrite Ec in *. cbn [joining after_join drained] in *. split; [intros ? Hj; discriminate Hj | split; [|intros Hx; discriminate Hx]].
    intros _ w'. destruct (alive (ws s w')) eqn:Ea; [|reflexivity]. destruct (S1 [] eq_refl w' Ea).
  - (* CSPAlive2 *)
    rewrite Ec in *. cbn [joining after_join drained] in *. split; [exact S1 | split; intros Hx; discriminate Hx].
  - (* CCLGet on an empty queue *)
    rewrite Ec in *. cbn [joining after_join drained] in *. split; [intros ? Hj; discriminate Hj | split; [exact S2 | intros _; assumption]].
Qed.

Lemma P_quiet s t f s' :
  I_ctl s -> I_created s -> I_flag s -> I_nocreate s -> I_stopjoin s -> I_quiet s ->
  step s t f = Some s' -> I_quiet s'.
Proof.
  intros Hctl Hcr Hfl Hnc (S1 & S2 & S3) Hq H. unfold I_quiet, I_nocreate, ctl in *.
  open_step2 H; use_lockop; simp.
  (* worker steps: a quiet pool has no live worker *)
  all: try solve [intros Hst Hr; exfalso; destruct (Hq Hst Hr) as [Hd _];
                  match goal with Ew : ws _ ?w = _ |- _ => specialize (Hd w); rewrite Ew in Hd; discriminate end].
  all: try match goal with He : is_entry ?l = true |- _ => destruct l; try discriminate He end.
  all: try match goal with k : jkont |- _ => destruct k; try discriminate end.
  all: try match goal with k : kont |- _ => destruct k end; cbn [kret] in *.
  all: ctl_cases Hctl; simp; try (rewrite Ec in * ); simp; cbn [stop_region] in *.
  all: try solve [intros Hst Hr; try discriminate; destruct (Hq Hst Hr) as [Hd Hk]; split; [exact Hd | try exact Hk]].
  all: try solve [intros Hst Hr; try discriminate; destruct (Hq Hst ltac:(reflexivity || assumption)) as [Hd Hk]; split; [exact Hd | try exact Hk]].
  all: try solve [intros Hst Hr; try discriminate; try congruence;
                  destruct (Hq ltac:(assumption || congruence) ltac:(reflexivity || assumption)) as [Hd Hk];
                  (split; [exact Hd |
                   intros i Hi; try (apply in_app_or in Hi as [Hi|[<-|[]]]); auto; try reflexivity;
                   try (apply Hk; rewrite ?Em; try (right; assumption); assumption)])].
  all: try solve [intros Hst Hr; exfalso; destruct (Hq ltac:(assumption || reflexivity || congruence) Hr) as [Hd _];
                  match goal with Ew : ws _ ?w = _ |- _ => specialize (Hd w); rewrite Ew in Hd; discriminate end].
  (* CCLUnlock: stop() returns; everything was joined and drained *)
  all: try solve [intros _ _; split; [apply S2; reflexivity | intros i Hi; rewrite (S3 eq_refl) in Hi; destruct Hi]].
  (* CSNbInc: nobody creates a thread while the pool is stopped outside stop() *)
  all: try solve [intros Hst Hr; exfalso;
                  match goal with Ec : cs ?s1 ?c1 = mkC (CSNbInc ?k) _ _ |- _ =>
                    destruct (Hnc c1 ltac:(rewrite Ec; reflexivity)) as [Hx|Hx]; [congruence|];
                    first [ rewrite Hx in Hr; discriminate Hr | rewrite Ec in Hx; discriminate Hx | discriminate Hx | congruence ] end].
  (* CSTStart: the worker being started is alive *)
  all: try solve [intros Hst Hr; exfalso; destruct Hcr as [_ Hcr2];
                  match goal with Ec : cs ?s1 ?c1 = mkC (CSTStart ?k ?w) _ _ |- _ =>
                    destruct (Hcr2 c1 k w ltac:(rewrite Ec; reflexivity)) as [_ Hnew];
                    destruct (Hq Hst ltac:(first [exact Hr | reflexivity])) as [Hd _]; specialize (Hd w); rewrite Hnew in Hd; discriminate end].
Qed.
