(** * TransportProofs — proofs about Model/Transport.v (property C19).

    All statements quantify over every fault script, every token list (every number of calls)
    and every host / handler; the induction is over the list of calls with the connection
    invariant [inv]. *)

From JR Require Import Transport.
From Coq Require Import Lia ZifyBool.

(** ** Small facts *)

Lemma proxy_result_reply tok : proxy_result (reply_of tok) = Ok tok.
Proof. reflexivity. Qed.

Lemma proxy_result_none : proxy_result VNone = Raise EType.
Proof. reflexivity. Qed.

Lemma nbs_200 : no_body_status 200 = false.
Proof. reflexivity. Qed.

(** a body is "own" for [tok] when, if it is a JSON-RPC reply at all, it echoes [tok] *)
Definition body_own (tok : val) (b : body) : Prop :=
  match b with BReply t => t = tok | _ => True end.

Definition res_own (tok : val) (r : res body) : Prop :=
  match r with Ok b => body_own tok b | Raise _ => True end.

Local Opaque no_body_status.

(** case analysis on the abstract statuses left in a goal *)
Ltac split_status :=
  repeat match goal with
    | |- context [Z.eqb ?s 200] => is_var s; destruct (Z.eqb s 200) eqn:?
    | |- context [no_body_status ?s] => is_var s; destruct (no_body_status s) eqn:?
    end.

(** every shape of an invariant-satisfying state *)
Ltac split_state st H :=
  let s := fresh "s" in let p := fresh "p" in let ib := fresh "ib" in let pd := fresh "pd" in
  let sc := fresh "script" in
  destruct st as [[[[[p ib]|] pd]|] sc];
  cbn in H;
  [ destruct pd; [ destruct p | destruct ib; [|discriminate H]; destruct p ]
  | destruct pd; [discriminate H|]
  | ].

Ltac split_script sc :=
  let f := fresh "f" in let rest := fresh "rest" in
  destruct sc as [|f rest]; [|destruct f].

Ltac red1 :=
  cbn [make_connection h_request h_getresponse h_read next_fault peer_deliver peer_act
       transport_close closed_conn body_nonempty t_cached t_script h_sock h_pending
       s_pend s_inbuf r_status r_has_len r_body app fst snd negb andb orb inv idle conn_clean
       body_own res_own Z.eqb Pos.eqb].
Ltac crunch1 :=
  unfold exchange, single_request; red1;
  unfold h_read, will_close; red1; rewrite ?nbs_200; red1.
Ltac crunch := do 3 (crunch1; split_status); crunch1.

(** ** single_request: invariant and own-ness *)

Lemma single_request_spec host handler st tok :
  inv st = true ->
  inv (fst (single_request host handler st tok)) = true /\
  res_own tok (snd (single_request host handler st tok)).
Proof.
  intros H. split_state st H; split_script script; crunch; auto.
Qed.

(** the state after a failed attempt that will be retried is always a closed transport *)
Lemma single_request_retry host handler st tok st1 e :
  single_request host handler st tok = (st1, Raise e) -> retryable e = true ->
  t_cached st1 = None.
Proof.
  unfold single_request.
  destruct (h_request (make_connection st) (t_script st) tok) as [[c1 sc1] [u|e1]].
  - destruct (h_getresponse c1) as [c2 [r|e2]].
    + destruct (r_status r =? 200); intros E; inversion E; subst; discriminate.
    + intros E; inversion E; subst; reflexivity.
  - intros E; inversion E; subst; reflexivity.
Qed.

Lemma transport_request_spec host handler st tok :
  inv st = true ->
  inv (fst (transport_request host handler st tok)) = true /\
  res_own tok (snd (transport_request host handler st tok)).
Proof.
  intros H. unfold transport_request.
  pose proof (single_request_spec host handler st tok H) as [H1 H2].
  destruct (single_request host handler st tok) as [st1 [b|e]]; cbn [fst snd] in *.
  - auto.
  - destruct (retryable e).
    + apply single_request_spec; assumption.
    + cbn [fst snd]; auto.
Qed.

(** ** proxy_call *)

Lemma proxy_call_spec host handler st tok :
  inv st = true ->
  inv (fst (proxy_call host handler st tok)) = true /\
  (snd (proxy_call host handler st tok) = Ok tok \/ exists e, snd (proxy_call host handler st tok) = Raise e).
Proof.
  intros H. unfold proxy_call.
  pose proof (transport_request_spec host handler st tok H) as [H1 H2].
  destruct (transport_request host handler st tok) as [st1 [b|e]]; cbn [fst snd] in *.
  - split; [assumption|].
    destruct b; cbn [run_request bind res_own body_own] in *.
    + subst. left. apply proxy_result_reply.
    + right; eexists; reflexivity.
    + right; eexists; apply proxy_result_none.
    + right; eexists; reflexivity.
    + right; eexists; reflexivity.
  - split; [assumption|]. right; eexists; reflexivity.
Qed.

Lemma run_calls_inv host handler toks : forall st,
  inv st = true -> inv (fst (run_calls host handler st toks)) = true.
Proof.
  induction toks as [|tok toks IH]; intros st H; cbn [run_calls].
  - exact H.
  - pose proof (proxy_call_spec host handler st tok H) as [H1 _].
    destruct (proxy_call host handler st tok) as [st1 o]; cbn [fst] in H1.
    specialize (IH st1 H1).
    destruct (run_calls host handler st1 toks) as [st2 os]; exact IH.
Qed.

Lemma run_calls_own host handler toks : forall st i tok,
  inv st = true -> nth_error toks i = Some tok ->
  exists o, nth_error (snd (run_calls host handler st toks)) i = Some o /\ (o = Ok tok \/ exists e, o = Raise e).
Proof.
  induction toks as [|t toks IH]; intros st i tok H Hn.
  - destruct i; discriminate Hn.
  - cbn [run_calls].
    pose proof (proxy_call_spec host handler st t H) as [H1 H2].
    destruct (proxy_call host handler st t) as [st1 o]; cbn [fst snd] in *.
    specialize (IH st1).
    destruct (run_calls host handler st1 toks) as [st2 os] eqn:E; cbn [snd] in *.
    destruct i as [|i]; cbn [nth_error] in *.
    + inversion Hn; subst. eexists; split; [reflexivity|exact H2].
    + apply IH; assumption.
Qed.

Lemma init_inv script : inv (init script) = true.
Proof. reflexivity. Qed.

(** ** The invariant on reachable states; a response left attached is cleared by the next call *)

Theorem inv_reachable host handler script toks :
  inv (fst (run_calls host handler (init script) toks)) = true.
Proof. apply run_calls_inv, init_inv. Qed.

Theorem pending_cleared host handler st tok :
  inv st = true -> idle st = false ->
  (exists e, snd (proxy_call host handler st tok) = Raise e) /\
  t_cached (fst (proxy_call host handler st tok)) = None.
Proof.
  intros H Hi. unfold proxy_call, transport_request.
  split_state st H; try discriminate Hi; split_script script; crunch;
    (split; [eexists; reflexivity | reflexivity]).
Qed.

Theorem own_or_exception host handler script toks i tok :
  nth_error toks i = Some tok ->
  exists o, nth_error (outcomes host handler script toks) i = Some o /\ (o = Ok tok \/ exists e, o = Raise e).
Proof. intros Hn. unfold outcomes. apply run_calls_own; [apply init_inv | exact Hn]. Qed.

(** ** The reply a call reads is the peer's answer to this very call *)

Theorem reply_is_own st tok r :
  inv st = true -> exchange st tok = Ok r ->
  exists f cl, peer_act f tok = PReply r cl.
Proof.
  intros H. split_state st H; split_script script; crunch; intros E;
    try discriminate E; inversion E; subst;
    first [ exists FHealthy; eexists; reflexivity
          | exists FHealthyClose; eexists; reflexivity
          | match goal with |- context [mkResp ?s true BErrText] => exists (FStatusLen s); eexists; reflexivity end
          | match goal with |- context [mkResp ?s false BErrText] => exists (FStatusNoLenClose s); eexists; reflexivity end
          | match goal with |- context [mkResp ?s false BEmpty] => exists (FBodiless s); eexists; reflexivity end
          | exists FTruncated; eexists; reflexivity
          | exists FEmpty200; eexists; reflexivity
          | exists FNonJson; eexists; reflexivity ].
Qed.

(** ** TransportError fields *)

Lemma single_request_non200 host handler st tok r :
  exchange st tok = Ok r -> r_status r <> 200 ->
  snd (single_request host handler st tok) = Raise (ETransport (host ++ handler) (r_status r)).
Proof.
  unfold exchange, single_request. intros E Hs.
  destruct (h_request (make_connection st) (t_script st) tok) as [[c1 sc1] [u|e1]]; [|discriminate E].
  destruct (h_getresponse c1) as [c2 [r'|e2]]; cbn [snd] in E; [|discriminate E].
  inversion E; subst r'.
  destruct (r_status r =? 200) eqn:E2; [lia|]. reflexivity.
Qed.

Theorem transport_error_fields host handler st tok r :
  exchange (last_attempt_state host handler st tok) tok = Ok r -> r_status r <> 200 ->
  snd (proxy_call host handler st tok) = Raise (ETransport (host ++ handler) (r_status r)).
Proof.
  unfold last_attempt_state, proxy_call, transport_request. intros E Hs.
  destruct (single_request host handler st tok) as [st1 [b|e]] eqn:E1.
  - pose proof (single_request_non200 host handler st tok r E Hs) as H. rewrite E1 in H. discriminate H.
  - destruct (retryable e) eqn:Er.
    + pose proof (single_request_non200 host handler st1 tok r E Hs) as H.
      destruct (single_request host handler st1 tok) as [st2 [b2|e2]]; cbn [snd] in *; [discriminate H|].
      inversion H; reflexivity.
    + pose proof (single_request_non200 host handler st tok r E Hs) as H. rewrite E1 in H. cbn [snd] in *.
      inversion H; reflexivity.
Qed.

(** the http.client table never raises a TransportError itself *)
Lemma h_request_no_terr c sc tk c' sc' u s :
  h_request c sc tk = (c', sc', Raise (ETransport u s)) -> False.
Proof.
  unfold h_request. destruct (h_sock c) as [sk|].
  - destruct (s_pend sk); try (intros E; inversion E; fail).
    destruct (next_fault sc) as [[] ?]; intros E; inversion E.
  - destruct (next_fault sc) as [[] ?]; intros E; inversion E.
Qed.

Lemma h_getresponse_no_terr c c' u s :
  h_getresponse c = (c', Raise (ETransport u s)) -> False.
Proof.
  unfold h_getresponse.
  destruct (h_pending c); [intros E; inversion E|].
  destruct (h_sock c) as [sk|]; [|intros E; inversion E].
  destruct (s_inbuf sk) as [|[r|] rest].
  - destruct (s_pend sk); intros E; inversion E.
  - destruct (will_close r); intros E; inversion E.
  - intros E; inversion E.
Qed.

(** conversely a TransportError is raised only for a non-200 reply that was read, with exactly these fields *)
Lemma single_request_terr host handler st tok u s :
  snd (single_request host handler st tok) = Raise (ETransport u s) ->
  u = (host ++ handler)%string /\ s <> 200 /\ exists r, exchange st tok = Ok r /\ r_status r = s.
Proof.
  unfold exchange, single_request.
  destruct (h_request (make_connection st) (t_script st) tok) as [[c1 sc1] [x|e1]] eqn:R.
  - destruct (h_getresponse c1) as [c2 [r|e2]] eqn:G; cbn [snd].
    + destruct (r_status r =? 200) eqn:E2; cbn [snd]; intros H; [discriminate H|].
      inversion H; subst. repeat split; [lia|]. exists r; auto.
    + intros H. inversion H; subst e2. exfalso. eapply h_getresponse_no_terr; exact G.
  - cbn [snd]. intros H. inversion H; subst e1. exfalso. eapply h_request_no_terr; exact R.
Qed.

Theorem transport_error_only_non200 host handler st tok u s :
  snd (proxy_call host handler st tok) = Raise (ETransport u s) ->
  u = (host ++ handler)%string /\ s <> 200 /\
  exists r, exchange (last_attempt_state host handler st tok) tok = Ok r /\ r_status r = s.
Proof.
  unfold last_attempt_state, proxy_call, transport_request.
  destruct (single_request host handler st tok) as [st1 [b|e]] eqn:E1.
  - cbn [snd]. destruct b; cbn [run_request bind]; intros H;
      try discriminate H; try (rewrite proxy_result_reply in H; discriminate H).
  - destruct (retryable e) eqn:Er.
    + destruct (single_request host handler st1 tok) as [st2 [b2|e2]] eqn:E2; cbn [snd].
      * destruct b2; cbn [run_request bind]; intros H;
          try discriminate H; try (rewrite proxy_result_reply in H; discriminate H).
      * intros H. inversion H; subst e2.
        apply (single_request_terr host handler st1 tok). rewrite E2. reflexivity.
    + cbn [snd]. intros H. inversion H; subst e.
      apply (single_request_terr host handler st tok). rewrite E1. reflexivity.
Qed.

(** ** Recovery: once the remaining script is healthy at most one further call fails *)

Ltac red2 :=
  cbn [run_request bind retryable String.eqb Ascii.eqb Bool.eqb orb andb negb forallb is_healthy
       is_raise fst snd inv idle conn_clean t_cached t_script h_sock h_pending s_inbuf s_pend].
Ltac crunch2 := unfold proxy_call, transport_request; do 3 (crunch1; red2); rewrite ?proxy_result_reply.

Lemma healthy_call host handler st tok :
  inv st = true -> idle st = true -> forallb is_healthy (t_script st) = true ->
  snd (proxy_call host handler st tok) = Ok tok /\
  inv (fst (proxy_call host handler st tok)) = true /\
  idle (fst (proxy_call host handler st tok)) = true /\
  forallb is_healthy (t_script (fst (proxy_call host handler st tok))) = true.
Proof.
  intros H Hi Hh.
  split_state st H; try discriminate Hi; split_script script;
    cbn [t_script forallb is_healthy andb] in Hh; try discriminate Hh;
    crunch2; auto.
Qed.

Lemma pending_call host handler st tok :
  inv st = true -> idle st = false -> forallb is_healthy (t_script st) = true ->
  is_raise (snd (proxy_call host handler st tok)) = true /\
  inv (fst (proxy_call host handler st tok)) = true /\
  idle (fst (proxy_call host handler st tok)) = true /\
  forallb is_healthy (t_script (fst (proxy_call host handler st tok))) = true.
Proof.
  intros H Hi Hh.
  split_state st H; try discriminate Hi; split_script script;
    cbn [t_script forallb is_healthy andb] in Hh; try discriminate Hh;
    crunch2; auto.
Qed.

Lemma healthy_run host handler toks : forall st,
  inv st = true -> idle st = true -> forallb is_healthy (t_script st) = true ->
  snd (run_calls host handler st toks) = map Ok toks.
Proof.
  induction toks as [|tok toks IH]; intros st H Hi Hh; cbn [run_calls map].
  - reflexivity.
  - pose proof (healthy_call host handler st tok H Hi Hh) as (E & H1 & Hi1 & Hh1).
    destruct (proxy_call host handler st tok) as [st1 o]; cbn [fst snd] in *. subst o.
    specialize (IH st1 H1 Hi1 Hh1).
    destruct (run_calls host handler st1 toks) as [st2 os]; cbn [snd] in *. now rewrite IH.
Qed.

Lemma failures_map_ok toks : failures (map Ok toks) = 0%nat.
Proof. unfold failures. induction toks; cbn; auto. Qed.

Lemma recovery_from host handler toks st :
  inv st = true -> forallb is_healthy (t_script st) = true ->
  (failures (snd (run_calls host handler st toks)) <= if idle st then 0 else 1)%nat.
Proof.
  intros H Hh. destruct (idle st) eqn:Hi.
  - rewrite healthy_run by assumption. rewrite failures_map_ok. lia.
  - destruct toks as [|tok toks]; cbn [run_calls].
    + cbn. lia.
    + pose proof (pending_call host handler st tok H Hi Hh) as (E & H1 & Hi1 & Hh1).
      destruct (proxy_call host handler st tok) as [st1 o]; cbn [fst snd] in *.
      pose proof (healthy_run host handler toks st1 H1 Hi1 Hh1) as R.
      destruct (run_calls host handler st1 toks) as [st2 os]; cbn [snd] in *. subst os.
      unfold failures. cbn [filter]. rewrite E. cbn [length].
      fold (failures (map Ok toks)). rewrite failures_map_ok. lia.
Qed.

Theorem recovery_bound host handler script toks1 toks2 :
  let st := fst (run_calls host handler (init script) toks1) in
  forallb is_healthy (t_script st) = true ->
  (failures (snd (run_calls host handler st toks2)) <= 1)%nat.
Proof.
  intros st Hh.
  pose proof (recovery_from host handler toks2 st (inv_reachable host handler script toks1) Hh) as R.
  destruct (idle st); lia.
Qed.

(** after that one failure (if any) every call returns its own result *)
Theorem recovered_calls_succeed host handler script toks1 tok toks2 :
  let st := fst (run_calls host handler (init script) toks1) in
  forallb is_healthy (t_script st) = true ->
  exists o, snd (run_calls host handler st (tok :: toks2)) = o :: map Ok toks2.
Proof.
  intros st Hh. cbn [run_calls].
  pose proof (inv_reachable host handler script toks1) as H. fold st in H.
  assert (inv (fst (proxy_call host handler st tok)) = true /\
          idle (fst (proxy_call host handler st tok)) = true /\
          forallb is_healthy (t_script (fst (proxy_call host handler st tok))) = true) as (H1 & Hi1 & Hh1).
  { destruct (idle st) eqn:Hi.
    - apply (healthy_call host handler st tok H Hi Hh).
    - apply (pending_call host handler st tok H Hi Hh). }
  destruct (proxy_call host handler st tok) as [st1 o]; cbn [fst snd] in *.
  pose proof (healthy_run host handler toks2 st1 H1 Hi1 Hh1) as R.
  destruct (run_calls host handler st1 toks2) as [st2 os]; cbn [snd] in *. subst os.
  exists o. reflexivity.
Qed.

(** ** The script is consumed in order: what is left is always a suffix *)

Lemma h_request_script c sc tok :
  snd (fst (h_request c sc tok)) = sc \/ snd (fst (h_request c sc tok)) = tl sc.
Proof.
  unfold h_request. destruct (h_sock c) as [sk|].
  - destruct (s_pend sk); cbn; auto.
    destruct sc as [|[] rest]; cbn; auto.
  - destruct sc as [|[] rest]; cbn; auto.
Qed.

Lemma single_request_script host handler st tok :
  t_script (fst (single_request host handler st tok)) = t_script st \/
  t_script (fst (single_request host handler st tok)) = tl (t_script st).
Proof.
  unfold single_request.
  pose proof (h_request_script (make_connection st) (t_script st) tok) as K.
  destruct (h_request (make_connection st) (t_script st) tok) as [[c1 sc1] [u|e1]]; cbn [fst snd] in *.
  - destruct (h_getresponse c1) as [c2 [r|e2]]; [destruct (r_status r =? 200)|]; exact K.
  - exact K.
Qed.

Lemma tl_skipn {A} (l : list A) k : tl (skipn k l) = skipn (S k) l.
Proof.
  revert l; induction k as [|k IH]; intros [|x l]; try reflexivity.
  change (tl (skipn k l) = skipn (S k) l). apply IH.
Qed.

Lemma proxy_call_script host handler st tok k0 script :
  t_script st = skipn k0 script ->
  exists k, t_script (fst (proxy_call host handler st tok)) = skipn k script.
Proof.
  intros E. unfold proxy_call, transport_request.
  pose proof (single_request_script host handler st tok) as K1.
  destruct (single_request host handler st tok) as [st1 [b|e]]; cbn [fst] in *.
  - destruct K1 as [K1|K1]; rewrite K1, E; [exists k0 | exists (S k0)]; auto using tl_skipn.
  - assert (exists k1, t_script st1 = skipn k1 script) as [k1 E1].
    { destruct K1 as [K1|K1]; rewrite K1, E; [exists k0 | exists (S k0)]; auto using tl_skipn. }
    destruct (retryable e).
    + pose proof (single_request_script host handler st1 tok) as K2.
      destruct (single_request host handler st1 tok) as [st2 [b2|e2]]; cbn [fst] in *;
        destruct K2 as [K2|K2]; rewrite K2, E1; [exists k1 | exists (S k1) | exists k1 | exists (S k1)];
        auto using tl_skipn.
    + exists k1. exact E1.
Qed.

Theorem script_suffix host handler script toks :
  exists k, t_script (fst (run_calls host handler (init script) toks)) = skipn k script.
Proof.
  assert (forall st k0, t_script st = skipn k0 script ->
          exists k, t_script (fst (run_calls host handler st toks)) = skipn k script) as G.
  { induction toks as [|tok toks IH]; intros st k0 E; cbn [run_calls].
    - exists k0. exact E.
    - destruct (proxy_call_script host handler st tok k0 script E) as [k1 E1].
      destruct (proxy_call host handler st tok) as [st1 o]; cbn [fst] in *.
      destruct (IH st1 k1 E1) as [k2 E2].
      destruct (run_calls host handler st1 toks) as [st2 os]; cbn [fst] in *.
      exists k2. exact E2. }
  apply (G (init script) 0%nat). reflexivity.
Qed.
