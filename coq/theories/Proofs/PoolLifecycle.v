(** All lifecycle invariants hold in every reachable state; consequences for C09–C11. *)
From JR Require Import PoolInvDefs PoolInvA PoolInvB PoolInvC PoolInvD PoolInvE PoolInvF PoolInvG PoolSafety.

Definition I_late (s : st) : Prop := late_start s = false.

Lemma P_late s t f s' : I_flag s -> I_quiet s -> I_late s -> step s t f = Some s' -> I_late s'.
Proof.
  intros Hfl Hq Hl H. unfold I_late in *.
  open_step2 H; use_lockop; simp; try assumption.
  (* WBegin *)
  rewrite Hl. cbn [orb]. destruct (stop_done s) eqn:Esd; [exfalso | reflexivity].
  destruct Hfl as (F1 & _ & F3 & _). destruct (F3 Esd) as [Hst _].
  assert (Hr : stop_region (ctl s) = false).
  { destruct (stop_region (ctl s)) eqn:E; [|reflexivity]. destruct (F1 eq_refl) as (_ & _ & ?). congruence. }
  destruct (Hq Hst Hr) as [Hd _]. specialize (Hd w). rewrite Ew in Hd. discriminate.
Qed.

Record Inv2 (s : st) : Prop := {
  j_inv1 : Inv1 s; j_flag : I_flag s; j_nocreate : I_nocreate s; j_threads : I_threads s;
  j_stopjoin : I_stopjoin s; j_quiet : I_quiet s; j_nosent : I_nosent s; j_retire : I_retire s;
  j_min : I_min s; j_late : I_late s }.

Lemma ctl_init mx mn progs : exists l r, cs (init mx mn progs) 0%nat = mkC l r 0%nat /\ is_entry l = true.
Proof. rewrite cs_init. destruct (init_entry 0%nat progs) as (l & r & E & He & _). eauto. Qed.

Lemma Inv2_init mx mn progs : valid_cfg mx mn -> Inv2 (init mx mn progs).
Proof.
  intros Hv. destruct (ctl_init mx mn progs) as (l & r & E & He).
  constructor.
  - apply Inv1_init, Hv.
  - unfold I_flag, ctl. rewrite E. cbn [cpc].
    split; [|split; [|split; [|split; [|split]]]]; intros Hx; try discriminate Hx;
      try (destruct l; try discriminate He; try discriminate Hx; destruct k; discriminate).

  - red. intros c Hc. rewrite cs_init in Hc. destruct (init_entry c progs) as (l' & r' & E' & He' & _).
    rewrite E' in Hc. cbn in Hc. destruct l'; try discriminate He'; discriminate Hc.
  - red. split; intros w Hw; cbn in Hw; discriminate.
  - unfold I_stopjoin, ctl. rewrite E. cbn [cpc].
    split; [|split]; intros; destruct l; try discriminate He; try discriminate; destruct k; discriminate.
  - red. intros _ _. split; [intros w; reflexivity | intros i []].
  - red. intros Hst. discriminate.
  - red. intros w Hw. discriminate.
  - unfold I_min, ctl. rewrite E. cbn [cpc]. split; intros Hx; [|discriminate].
    destruct l; try discriminate He; try discriminate Hx; destruct k; discriminate.
  - reflexivity.
Qed.

Lemma Inv2_step s t f s' : Inv2 s -> step s t f = Some s' -> Inv2 s'.
Proof.
  intros J H. pose proof (j_inv1 _ J) as I.
  pose proof (i_ctl _ I). pose proof (i_created _ I). pose proof (i_cfg _ I). pose proof (i_lock _ I).
  pose proof (i_wf _ I). pose proof (i_nb _ I).
  pose proof (j_flag _ J). pose proof (j_nocreate _ J). pose proof (j_threads _ J). pose proof (j_stopjoin _ J).
  pose proof (j_quiet _ J). pose proof (j_nosent _ J). pose proof (j_retire _ J). pose proof (j_min _ J). pose proof (j_late _ J).
  constructor.
  - eapply Inv1_step; eauto.
  - eapply P_flag; eauto.
  - eapply P_nocreate; eauto.
  - eapply P_threads; eauto.
  - eapply P_stopjoin; eauto.
  - eapply P_quiet; eauto.
  - eapply P_nosent; eauto.
  - eapply P_retire; eauto.
  - eapply P_min; eauto.
  - eapply P_late; eauto.
Qed.

Lemma Inv2_run sched : forall s, Inv2 s -> Inv2 (run sched s).
Proof.
  induction sched as [|[t f] r IH]; intros s H; cbn [run]; [exact H|].
  apply IH. destruct (step s t f) eqn:E; [eapply Inv2_step; eauto | exact H].
Qed.

Theorem reachable_inv2 mx mn progs sched : valid_cfg mx mn -> Inv2 (run sched (init mx mn progs)).
Proof. intros Hv. apply Inv2_run, Inv2_init, Hv. Qed.

(** C09 / C11: once stop() has returned (and until start() is called again) every worker thread
    has terminated, and no task body ever began in such a state *)
Theorem no_run_after_stop mx mn progs sched :
  valid_cfg mx mn ->
  let s := run sched (init mx mn progs) in
  late_start s = false /\ (stop_done s = true -> forall w, alive (ws s w) = false).
Proof.
  intros Hv s. pose proof (reachable_inv2 mx mn progs sched Hv) as J. fold s in J.
  split; [apply (j_late _ J)|]. intros Hsd w.
  destruct (j_flag _ J) as (F1 & _ & F3 & _). destruct (F3 Hsd) as [Hst _].
  assert (Hr : stop_region (ctl s) = false).
  { destruct (stop_region (ctl s)) eqn:E; [|reflexivity]. destruct (F1 eq_refl) as (_ & _ & ?). congruence. }
  apply (j_quiet _ J Hst Hr).
Qed.

(** C10: from the return of start() until stop() is called, at least min_threads workers serve the queue *)
Theorem min_bound mx mn progs sched :
  valid_cfg mx mn ->
  let s := run sched (init mx mn progs) in
  start_done s = true -> mn <= nb_threads s /\ nb_threads s = Z.of_nat (count serving (ws s) (next_w s)).
Proof.
  intros Hv s Hsd. pose proof (reachable_inv2 mx mn progs sched Hv) as J. fold s in J.
  destruct (j_min _ J) as [_ M2]. destruct (cfg_run sched (init mx mn progs)) as [_ Hm]. fold s in Hm.
  split; [change mn with (minT (init mx mn progs)); rewrite <- Hm; apply (M2 Hsd) | apply (i_nb _ (j_inv1 _ J))].
Qed.

(** C11: start() on a running pool and stop() on a stopped pool change nothing but the caller's own position *)
Theorem start_idempotent s : cpc (cs s 0%nat) = CSTTest -> stopped s = false ->
  step s (TC 0%nat) false = Some (cret s 0%nat).
Proof. intros Hpc Hst. cbn [step]. unfold cstep. rewrite Hpc, Hst. reflexivity. Qed.
Theorem stop_idempotent s : cpc (cs s 0%nat) = CSPTest -> stopped s = true ->
  step s (TC 0%nat) false = Some (cret s 0%nat).
Proof. intros Hpc Hst. cbn [step]. unfold cstep. rewrite Hpc, Hst. reflexivity. Qed.
Lemma cret_pool_unchanged s c :
  let s' := cret s c in
  stopped s' = stopped s /\ q s' = q s /\ unfinished s' = unfinished s /\ lock s' = lock s /\ threads s' = threads s /\
  nb_threads s' = nb_threads s /\ nb_active s' = nb_active s /\ nb_pending s' = nb_pending s /\ ws s' = ws s /\
  next_w s' = next_w s /\ next_task s' = next_task s.
Proof. unfold cret. destruct (next_call c (cprog (cs s c))). cbn. repeat split; reflexivity. Qed.
