(** With a single worker (max_threads = 1) task bodies begin in submission order (C09, last clause):
    the queue is sorted by task number, whatever a worker has taken and not begun is older than the
    whole queue, everything that began is older than both; with at most one worker serving the queue
    there is never a second taken-and-not-begun task to overtake. *)
From JR Require Import PoolInvDefs PoolInvA PoolInvB PoolInvC PoolInvD PoolSafety.

Definition qabove (m : nat) (l : list item) : Prop := forall u, (0 < qocc u l)%nat -> (m < u)%nat.
Fixpoint qsorted (l : list item) : Prop :=
  match l with
  | [] => True
  | ISent :: r => qsorted r
  | ITask t :: r => qabove t r /\ qsorted r
  end.
Fixpoint desc (l : list nat) : Prop :=
  match l with [] => True | m :: r => (forall m', In m' r -> (m' < m)%nat) /\ desc r end.

Record I_fifo (s : st) : Prop := {
  f_sorted : qsorted (q s);
  f_held : forall w t, holds_pre t (ws s w) = true -> qabove t (q s);
  f_log_q : forall m, In m (start_log s) -> qabove m (q s);
  f_log_held : forall m w t, In m (start_log s) -> holds_pre t (ws s w) = true -> (m < t)%nat;
  f_log_started : forall m, In m (start_log s) -> (0 < tstarts s m)%nat;
  f_desc : desc (start_log s) }.

Lemma qabove_tail m it r : qabove m (it :: r) -> qabove m r.
Proof. intros H u Hu. apply H. cbn [qocc]. lia. Qed.
Lemma qabove_head m t r : qabove m (ITask t :: r) -> (m < t)%nat.
Proof. intros H. apply H. cbn [qocc item_eqb]. rewrite Nat.eqb_refl. cbn. lia. Qed.
Lemma qsorted_tail it r : qsorted (it :: r) -> qsorted r.
Proof. destruct it; cbn [qsorted]; tauto. Qed.
Lemma qabove_snoc m l t : qabove m l -> (m < t)%nat -> qabove m (l ++ [ITask t]).
Proof.
  intros H Ht u Hu. rewrite qocc_app in Hu. cbn [qocc item_eqb] in Hu.
  destruct (Nat.eqb t u) eqn:E; [apply Nat.eqb_eq in E; subst; exact Ht|]. apply H. cbn [b2n] in Hu. lia.
Qed.
Lemma qsorted_snoc l t : qsorted l -> (forall u, (0 < qocc u l)%nat -> (u < t)%nat) -> qsorted (l ++ [ITask t]).
Proof.
  induction l as [|it r IH]; intros Hs Hb; cbn [app qsorted]; [split; [intros u Hu; cbn in Hu; lia | exact I]|].
  assert (Hb' : forall u, (0 < qocc u r)%nat -> (u < t)%nat) by (intros u Hu; apply Hb; cbn [qocc]; lia).
  destruct it as [t0|]; cbn [qsorted] in Hs.
  - destruct Hs as [Ha Hs]. split; [|apply IH; assumption].
    apply qabove_snoc; [exact Ha|]. apply Hb. cbn [qocc item_eqb]. rewrite Nat.eqb_refl. cbn. lia.
  - apply IH; assumption.
Qed.

Lemma qabove_snoc_sent m l : qabove m l -> qabove m (l ++ [ISent]).
Proof. intros H u Hu. rewrite qocc_app in Hu. cbn [qocc item_eqb b2n] in Hu. apply H. lia. Qed.
Lemma qsorted_snoc_sent l : qsorted l -> qsorted (l ++ [ISent]).
Proof.
  induction l as [|it r IH]; intros Hs; cbn [app qsorted]; [exact I|].
  destruct it as [t0|]; cbn [qsorted] in Hs; [|apply IH; exact Hs].
  destruct Hs as [Ha Hs]. split; [apply qabove_snoc_sent; exact Ha | apply IH; exact Hs].
Qed.

Lemma held_lt s w t : I_created s -> I_fresh s -> holds_pre t (ws s w) = true -> (t < next_task s)%nat.
Proof.
  intros [Hc1 _] Hfr Hh. destruct (le_lt_dec (next_task s) t) as [Hle|Hlt]; [exfalso | exact Hlt].
  destruct (Hfr t Hle) as (_ & F2 & _).
  destruct (le_lt_dec (next_w s) w) as [Hw|Hw].
  - rewrite (Hc1 w Hw) in Hh. discriminate Hh.
  - pose proof (count_zero _ _ _ w F2 Hw) as Hz. rewrite (holds_pre_any _ _ Hh) in Hz. discriminate.
Qed.

Lemma holds_pre_serving t x : holds_pre t x = true -> serving x = true.
Proof. unfold holds_pre, serving. destruct (wpc x); try discriminate; reflexivity. Qed.

Lemma fifo_frame s s' :
  (q s' = q s \/ exists it, q s = it :: q s') -> start_log s' = start_log s -> (forall m, (tstarts s m <= tstarts s' m)%nat) ->
  (forall w t, holds_pre t (ws s' w) = true -> holds_pre t (ws s w) = true) ->
  I_fifo s -> I_fifo s'.
Proof.
  intros Hq Hl Ht Hh [F1 F2 F3 F4 F5 F6].
  assert (Hqa : forall m, qabove m (q s) -> qabove m (q s')).
  { intros m Hm. destruct Hq as [->|[it E]]; [exact Hm|]. rewrite E in Hm. eapply qabove_tail; exact Hm. }
  constructor; rewrite ?Hl.
  - destruct Hq as [->|[it E]]; [exact F1|]. rewrite E in F1. eapply qsorted_tail; exact F1.
  - intros w t H. apply Hqa. exact (F2 _ _ (Hh _ _ H)).
  - intros m H. apply Hqa. exact (F3 _ H).
  - intros m w t Hm H. exact (F4 _ _ _ Hm (Hh _ _ H)).
  - intros m Hm. specialize (F5 m Hm). specialize (Ht m). lia.
  - exact F6.
Qed.

Lemma P_fifo s t f s' :
  maxT s = 1 -> I_created s -> I_wf s -> I_fresh s -> I_nb s -> I_bound s -> I_fifo s -> step s t f = Some s' -> I_fifo s'.
Proof.
  intros Hmx Hcr Hwf Hfr Hnb Hbd Hf H. pose proof Hcr as [Hcr1 Hcr2].
  open_step2 H; use_lockop; simp; worker_lt Hcr; use_wf Hwf.
  all: try (match goal with Ec : cs ?s1 ?c = mkC (CSTStart ?k ?w) _ _ |- _ =>
              let X := fresh "Hwlt" in let Y := fresh "Hwnew" in destruct (Hcr2 c k w) as [X Y]; [rewrite Ec; reflexivity|] end).
  (* frame: log and task counter unchanged, queue unchanged or shortened at the head, the mover's taken-and-not-begun task unchanged or gone *)
  all: try solve [
    apply (fifo_frame s); simp;
    [ first [ left; reflexivity | right; eexists; eassumption ]
    | reflexivity
    | intros m; tstart_cases; lia
    | intros w' t'; split_upd; rewrite ?Ew, ?Hwnew; pred_simp; try discriminate; auto
    | exact Hf ] ].
  all: destruct Hf as [F1 F2 F3 F4 F5 F6].
  - (* WGet: the head of the queue is taken *)
    rewrite Em in *. cbn [qsorted] in F1. destruct F1 as [F1a F1].
    constructor; simp.
    + exact F1.
    + intros w' t'. split_upd; pred_simp.
      * intros Hh. apply Nat.eqb_eq in Hh. subst t'. exact F1a.
      * intros Hh. eapply qabove_tail. exact (F2 _ _ Hh).
    + intros m Hm. eapply qabove_tail. exact (F3 _ Hm).
    + intros m w' t' Hm. split_upd; pred_simp.
      * intros Hh. apply Nat.eqb_eq in Hh. subst t'. eapply qabove_head. exact (F3 _ Hm).
      * intros Hh. exact (F4 _ _ _ Hm Hh).
    + exact F5.
    + exact F6.
  - (* WBegin: the body of the only taken task begins *)
    assert (Hme : holds_pre t (ws s w) = true) by (rewrite Ew; pred_simp; apply Nat.eqb_refl).
    assert (Hone : forall w' t', w' <> w -> holds_pre t' (ws s w') = true -> False).
    { intros w' t' Hne Hh. apply Hne.
      destruct (le_lt_dec (next_w s) w') as [Hw|Hw]; [rewrite (Hcr1 w' Hw) in Hh; discriminate Hh|].
      apply (count_le1 serving (ws s) (next_w s)); try assumption.
      - unfold I_nb in Hnb. destruct Hbd as [Hb _]. lia.
      - eapply holds_pre_serving; exact Hh.
      - eapply holds_pre_serving; exact Hme. }
    constructor; simp.
    + exact F1.
    + intros w' t'. split_upd; pred_simp; [discriminate|]. intros Hh. exact (F2 _ _ Hh).
    + intros m [<-|Hm]; [exact (F2 _ _ Hme) | exact (F3 _ Hm)].
    + intros m w' t' Hm. split_upd; pred_simp; [discriminate|]. intros Hh. exfalso. eapply Hone; eassumption.
    + intros m [<-|Hm]; [rewrite upd_same; lia|]. specialize (F5 m Hm). tstart_cases; lia.
    + cbn [desc]. split; [|exact F6]. intros m' Hm'. exact (F4 _ _ _ Hm' Hme).
  - (* CEPut: the new task gets the next number *)
    assert (Hq : forall u, (0 < qocc u (q s))%nat -> (u < next_task s)%nat).
    { intros u Hu. destruct (le_lt_dec (next_task s) u) as [Hle|Hlt]; [|exact Hlt]. destruct (Hfr u Hle) as (Fa & _). lia. }
    constructor; simp.
    + apply qsorted_snoc; assumption.
    + intros w' t' Hh. apply qabove_snoc; [exact (F2 _ _ Hh) | eapply held_lt; eassumption].
    + intros m Hm. apply qabove_snoc; [exact (F3 _ Hm)|].
      destruct (le_lt_dec (next_task s) m) as [Hle|Hlt]; [|exact Hlt]. destruct (Hfr m Hle) as (_ & _ & Fc). specialize (F5 m Hm). lia.
    + exact F4.
    + exact F5.
    + exact F6.
  - (* stop() puts a sentinel *)
    constructor; simp;
    [ apply qsorted_snoc_sent; exact F1
    | intros w' t' Hh; apply qabove_snoc_sent; exact (F2 _ _ Hh)
    | intros m Hm; apply qabove_snoc_sent; exact (F3 _ Hm)
    | exact F4 | exact F5 | exact F6 ].
  - constructor; simp;
    [ apply qsorted_snoc_sent; exact F1
    | intros w' t' Hh; apply qabove_snoc_sent; exact (F2 _ _ Hh)
    | intros m Hm; apply qabove_snoc_sent; exact (F3 _ Hm)
    | exact F4 | exact F5 | exact F6 ].
Qed.

Record InvF (s : st) : Prop := { ff_inv1 : Inv1 s; ff_fifo : I_fifo s }.

Lemma InvF_init mx mn progs : valid_cfg mx mn -> InvF (init mx mn progs).
Proof.
  intros Hv. constructor; [apply Inv1_init, Hv|].
  constructor; cbn; try exact I; try (intros; contradiction).
  all: intros w t H; discriminate H.
Qed.

Lemma InvF_run sched : forall s, maxT s = 1 -> InvF s -> InvF (run sched s).
Proof.
  induction sched as [|[t f] r IH]; intros s Hm H; cbn [run]; [exact H|].
  destruct (step s t f) as [s'|] eqn:E; [|apply IH; assumption].
  apply IH.
  - destruct (cfg_step _ _ _ _ E) as [-> _]. exact Hm.
  - destruct H as [I F]. constructor; [eapply Inv1_step; eauto|].
    eapply P_fifo; eauto using i_created, i_wf, i_fresh, i_nb, i_bound.
Qed.

(** C09, last clause: with a single worker thread allowed, task bodies begin in submission order
    (tasks are numbered in the order of their put; the log lists the begun bodies, most recent first) *)
Theorem single_worker_fifo mn progs sched :
  valid_cfg 1 mn -> desc (start_log (run sched (init 1 mn progs))).
Proof. intros Hv. apply f_desc, ff_fifo, InvF_run; [reflexivity | apply InvF_init, Hv]. Qed.

(** the log is exactly the record of the bodies that began: task t occurs in it as many times as its body began
    (at most once, by C09_at_most_once) *)
Definition I_logcount (s : st) : Prop := forall t, count_occ Nat.eq_dec (start_log s) t = tstarts s t.

Lemma P_logcount s t f s' : I_logcount s -> step s t f = Some s' -> I_logcount s'.
Proof.
  intros Hl H. unfold I_logcount in *.
  open_step2 H; use_lockop; simp.
  all: try exact Hl.
  all: intros t'; specialize (Hl t'); cbn [count_occ]; destruct (Nat.eq_dec _ t') as [->|Hne];
    [rewrite upd_same; lia | rewrite upd_other by congruence; exact Hl].
Qed.

Lemma logcount_run sched : forall s, I_logcount s -> I_logcount (run sched s).
Proof.
  induction sched as [|[t f] r IH]; intros s H; cbn [run]; [exact H|].
  destruct (step s t f) as [s'|] eqn:E; [|apply IH; assumption]. apply IH. eapply P_logcount; eauto.
Qed.

Theorem start_log_counts mx mn progs sched t :
  count_occ Nat.eq_dec (start_log (run sched (init mx mn progs))) t = tstarts (run sched (init mx mn progs)) t.
Proof. apply logcount_run. intros t'. reflexivity. Qed.
