(** * FutureInvC — the ghost linearisation (order of lock acquisitions) against the real fields *)
From Coq Require Import List Bool Arith Lia.
From RecordUpdate Require Import RecordSet.
From JR Require Import Sched Future FutureInv.
Import ListNotations RecordSetNotations.

Definition is_store_cb (p : rpc) : bool := match p with R_store_cb => true | _ => false end.
Definition r_read (p : rpc) : bool := match p with R_unlock | R_notify | R_end => true | _ => false end.
Definition inpost (s : st) (i : nat) : bool := existsb (Nat.eqb i) (hpost s).

Lemma inpost_cons : forall s i j l, hpost s = j :: l -> inpost s i = Nat.eqb i j || existsb (Nat.eqb i) l.
Proof. intros s i j l H; unfold inpost; rewrite H; reflexivity. Qed.

Section Inv.
Variable c : cfg.

Definition G0 s := hdone s = false -> hpost s = [].
Definition G1 s := hdone s = false ->
  hd1 (hpre s) = match lock s with Some (TR i) => if is_store_cb (rp s i) then Some i else cb s | _ => cb s end.
Definition G2 s := hdone s = true -> x_ge_rcb (xp s) = false -> cb s = hd1 (hpre s).
Definition G3 s := x_ge_rcb (xp s) = true -> xcb s = hd1 (hpre s).
Definition G4 s := forall i, inpost s i = true -> rp s i <> R_lock.
Definition G5 s := forall i, inpost s i = true -> r_read (rp s i) = true -> rcomp s i = true.
Definition G6 s := forall i, inpost s i = false -> rcomp s i = false.
Definition G7 s := forall i, inpost s i = false -> r_in (rp s i) = true -> hdone s = false.
Definition InvG s := G0 s /\ G1 s /\ G2 s /\ G3 s /\ G4 s /\ G5 s /\ G6 s /\ G7 s.

Ltac simpG := cbn [is_store_cb r_read] in *.
Ltac exs := cbn [existsb] in *;
  repeat match goal with n : ?a <> ?b |- _ => rewrite (proj2 (Nat.eqb_neq a b) n) in * end;
  rewrite ?Nat.eqb_refl in *; cbn [orb] in *.

Lemma G_step : forall s m s', InvA c s -> InvG s -> step c s m = Some s' -> InvG s'.
Proof.
  intros s m s' (H1 & H2 & H3 & H4 & H5 & H6 & H7 & H8 & H9) (B0 & B1 & B2 & B3 & B4 & B5 & B6 & B7) H.
  unfold InvG in *; unfold L1, L2, L3, D1, D2, D3, D4, D5, D6, holds in *.
  unfold G0, G1, G2, G3, G4, G5, G6, G7, inpost in *.
  unstep H; simp.
  all: repeat split; cheap.
  all: prep; simpG; fin.
  all: exs; try solve [prep; simpG; fin].
  all: try solve [dlock; rw; simp; split_upd; simpG; prep; simpG; fin].
  all: try solve [destruct (hdone s) eqn:Hd; [| rewrite (B0 eq_refl) in *; cbn [existsb] in *; discriminate]; dlock; eqbs; dxp; rw; base].
  all: try solve [dlock; eqbs; try discriminate;
                  repeat match goal with E : rp _ _ = _ |- _ => rewrite E in * end; cbn [is_store_cb] in *; congruence].
Qed.
End Inv.
