(** Growth: the pending counter dominates the tasks still to be finished, and outside enqueue's
    critical section every unfinished task is matched by a serving worker unless max_threads is reached. *)
From JR Require Import PoolInvDefs PoolInvA PoolInvB PoolInvC PoolInvE PoolInvF PoolInvG.

Fixpoint qtasks (l : list item) : nat :=
  match l with [] => 0%nat | i :: r => (b2n (is_task i) + qtasks r)%nat end.
Lemma qtasks_app l1 l2 : qtasks (l1 ++ l2) = (qtasks l1 + qtasks l2)%nat.
Proof. induction l1 as [|i r IH]; cbn [qtasks app]; [reflexivity | rewrite IH; lia]. Qed.
Lemma qtasks_all l : (forall i, In i l -> is_task i = true) -> qtasks l = length l.
Proof.
  induction l as [|i r IH]; intros H; cbn [qtasks length]; [reflexivity|].
  rewrite (H i (or_introl eq_refl)), IH by (intros; apply H; right; assumption). reflexivity.
Qed.

(** took a task from the queue, pending counter not yet decremented for it *)
Definition powing (x : wst) : bool :=
  match wpc x with
  | WLock1 | WActInc | WUnlock1 | WBegin | WBody | WTaskDone | WLock2 | WPendDec => true
  | _ => false
  end.

Definition at_pend (l : clabel) : bool := match l with CEPend => true | _ => false end.

Definition I_pend (s : st) : Prop :=
  (forall c, at_pend (cpc (cs s c)) = true ->
             Z.of_nat (qtasks (q s)) + Z.of_nat (count powing (ws s) (next_w s)) - 1 <= nb_pending s) /\
  ((forall c, at_pend (cpc (cs s c)) = false) ->
             Z.of_nat (qtasks (q s)) + Z.of_nat (count powing (ws s) (next_w s)) <= nb_pending s).

Ltac rew_c := repeat match goal with E : cs _ _ = mkC _ _ _ |- _ => rewrite E in *; clear E end.
Ltac rew_w := repeat match goal with E : ws _ _ = mkW _ _ _ |- _ => rewrite E in *; clear E end.
Ltac pend_simp := cbn [powing at_pend qtasks is_task wpc wheld wclean b2n negb andb length] in *.

Lemma P_pend s t f s' : I_created s -> I_lock s -> I_wf s -> I_pend s -> step s t f = Some s' -> I_pend s'.
Proof.
  intros Hcr Hlk Hwf [P1 P0] H. pose proof Hcr as [Hcr1 Hcr2]. unfold I_pend.
  open_step2 H; use_lockop; simp; worker_lt Hcr; use_wf Hwf.
  all: try (match goal with Ec : cs ?s1 ?c = mkC (CSTStart ?k ?w) _ _ |- _ =>
              let X := fresh "Hwlt" in let Y := fresh "Hwnew" in destruct (Hcr2 c k w) as [X Y]; [rewrite Ec; reflexivity|] end).
  all: rewrite ?count_new, ?qtasks_app.
  all: try match goal with He : is_entry ?l = true |- _ => destruct l; try discriminate He end.
  all: try match goal with k : kont |- _ => destruct k end; cbn [kret] in *.
  (* frame cases: the mover is not at CEPend before nor after *)
  all: try solve [
    split;
    [ intros c' Hc'; pose proof (P1 c') as Hx; revert Hc' Hx; split_upd; rew_c; simp; pend_simp; try discriminate;
      intros Hc' Hx; specialize (Hx Hc'); revert Hx; count_goal; rew_w; try rewrite Hwnew in *; pend_simp;
      try match goal with E : q _ = _ |- _ => rewrite E in *; pend_simp end;
      try (destruct held as [[?|]|]; pend_simp; try discriminate); intros; lia
    | intros Hall;
      assert (Hall0 : forall c, at_pend (cpc (cs s c)) = false)
        by (intros c'; specialize (Hall c'); revert Hall; split_upd; rew_c; simp; pend_simp; auto; try discriminate);
      specialize (P0 Hall0); revert P0; count_goal; rew_w; try rewrite Hwnew in *; pend_simp;
      try match goal with E : q _ = _ |- _ => rewrite E in *; pend_simp end;
      try (destruct held as [[?|]|]; pend_simp; try discriminate); intros; lia ] ].
  - (* CEPut *)
    assert (Hnone : forall x, at_pend (cpc (cs s x)) = false).
    { intros x. destruct (at_pend (cpc (cs s x))) eqn:Ex; [exfalso | reflexivity].
      destruct (Nat.eq_dec x c) as [->|Hne]; [rewrite Ec in Ex; discriminate|].
      apply (two_lockers s x c Hlk Hne); [destruct (cpc (cs s x)); try discriminate Ex; cbn; lia | rewrite Ec; cbn; lia]. }
    specialize (P0 Hnone). split.
    + intros c' _. pend_simp. lia.
    + intros Hall. specialize (Hall c). rewrite upd_same in Hall. discriminate.
  - (* CEPend *)
    split.
    + intros c' Hc'. exfalso. revert Hc'. split_upd; simp; [discriminate|]. intros Hc'.
      apply (two_lockers s c' c Hlk n); [destruct (cpc (cs s c')); try discriminate Hc'; cbn; lia | rewrite Ec; cbn; lia].
    + intros _. pose proof (P1 c ltac:(rewrite Ec; reflexivity)). lia.
Qed.

(** *** growth *)
Definition retiring (x : wst) : bool := match wpc x with WNbDec => true | _ => false end.
Definition nb_eff (s : st) : Z := nb_threads s - Z.of_nat (count retiring (ws s) (next_w s)).
Definition ewin (l : clabel) : bool :=
  match l with
  | CEPend | CETest | CSLock KEnq | CSTest KEnq | CSNbInc KEnq => true
  | _ => false
  end.
Definition gclaim (s : st) (d : Z) : Prop :=
  unfinished s - d <= nb_eff s + need 0 (ctl s) \/ maxT s <= nb_threads s + need 0 (ctl s).

Definition I_growth (s : st) : Prop :=
  stopped s = false -> ctl s <> CSTQsize ->
  (forall c, ewin (cpc (cs s c)) = true -> gclaim s 1) /\
  ((forall c, ewin (cpc (cs s c)) = false) -> gclaim s 0) /\
  (forall w, retiring (ws s w) = true -> unfinished s <= nb_eff s).

Lemma count_all_false {A} (g : A -> bool) f n : (forall i, (i < n)%nat -> g (f i) = false) -> count g f n = 0%nat.
Proof.
  induction n as [|k IH]; intros H; cbn [count]; [reflexivity|].
  rewrite IH by (intros; apply H; lia). rewrite (H k) by lia. reflexivity.
Qed.
Lemma count_single {A} (g : A -> bool) f n w :
  (w < n)%nat -> (forall i, (i < n)%nat -> i <> w -> g (f i) = false) -> count g f n = b2n (g (f w)).
Proof.
  induction n as [|k IH]; intros Hw H; [lia|]. cbn [count].
  destruct (Nat.eq_dec w k) as [->|Hne].
  - rewrite count_all_false by (intros; apply H; lia). reflexivity.
  - rewrite IH by (try lia; intros; apply H; lia). rewrite (H k) by lia. cbn. lia.
Qed.

Lemma retiring_none_if_client_locks s c :
  I_lock s -> (0 < cdepth (cpc (cs s c)))%nat -> count retiring (ws s) (next_w s) = 0%nat.
Proof.
  intros Hlk Hc. apply count_all_false. intros i _.
  destruct (retiring (ws s i)) eqn:E; [exfalso | reflexivity].
  apply (wc_lockers s i c Hlk); [|exact Hc]. unfold retiring in E. destruct (wpc (ws s i)); try discriminate; cbn; lia.
Qed.
Lemma retiring_only_locker s w :
  I_lock s -> (w < next_w s)%nat -> (0 < wdepth (wpc (ws s w)))%nat ->
  count retiring (ws s) (next_w s) = b2n (retiring (ws s w)).
Proof.
  intros Hlk Hw Hd. apply count_single; [exact Hw|]. intros i _ Hne.
  destruct (retiring (ws s i)) eqn:E; [exfalso | reflexivity].
  apply (two_wlockers s i w Hlk Hne); [|exact Hd]. unfold retiring in E. destruct (wpc (ws s i)); try discriminate; cbn; lia.
Qed.
Lemma no_window_if_worker_locks s w c :
  I_lock s -> (0 < wdepth (wpc (ws s w)))%nat -> ewin (cpc (cs s c)) = false.
Proof.
  intros Hlk Hw. destruct (ewin (cpc (cs s c))) eqn:E; [exfalso | reflexivity].
  apply (wc_lockers s w c Hlk Hw). destruct (cpc (cs s c)); try discriminate E; try (destruct k; try discriminate E); cbn; lia.
Qed.
Lemma window_unique s c1 c2 :
  I_lock s -> (0 < cdepth (cpc (cs s c1)))%nat -> c2 <> c1 -> ewin (cpc (cs s c2)) = false.
Proof.
  intros Hlk H1 Hne. destruct (ewin (cpc (cs s c2))) eqn:E; [exfalso | reflexivity].
  apply (two_lockers s c2 c1 Hlk Hne); [|exact H1].
  destruct (cpc (cs s c2)); try discriminate E; try (destruct k; try discriminate E); cbn; lia.
Qed.
Lemma need_nonneg l : 0 <= need 0 l.
Proof. destruct l; cbn; try lia; destruct k; cbn; lia. Qed.

Ltac g_simp := cbn [retiring ewin need kneed_pre kneed_post wpc wheld wclean b2n negb andb length] in *.


Lemma count_disjoint_le {A} (g1 g2 h : A -> bool) f n :
  (forall i, (i < n)%nat -> g1 (f i) = true -> h (f i) = true /\ g2 (f i) = false) ->
  (forall i, (i < n)%nat -> g2 (f i) = true -> h (f i) = true) ->
  (count g1 f n + count g2 f n <= count h f n)%nat.
Proof.
  induction n as [|k IH]; intros H1 H2; cbn [count]; [lia|].
  specialize (IH (fun i Hi => H1 i ltac:(lia)) (fun i Hi => H2 i ltac:(lia))).
  specialize (H1 k ltac:(lia)). specialize (H2 k ltac:(lia)).
  destruct (g1 (f k)); destruct (g2 (f k)); destruct (h (f k)); cbn [b2n];
    try lia; try (destruct (H1 eq_refl); discriminate); try (specialize (H2 eq_refl); discriminate).
Qed.

(** a worker that has decided to retire (it holds the pool lock) leaves enough threads for every unfinished task *)
Definition I_ret (s : st) : Prop := forall w, retiring (ws s w) = true -> unfinished s <= nb_eff s.

Lemma P_ret s t f s' : I_created s -> I_lock s -> I_wf s -> I_ret s -> step s t f = Some s' -> I_ret s'.
Proof.
  intros Hcr Hlk Hwf Hr H. pose proof Hcr as [Hcr1 Hcr2]. unfold I_ret in *.
  open_step2 H; use_lockop; simp; worker_lt Hcr; use_wf Hwf.
  all: intros w' Hw'.
  all: try (match goal with Ec : cs ?s1 ?c = mkC (CSTStart ?k ?w) _ _ |- _ =>
              let X := fresh "Hwlt" in let Y := fresh "Hwnew" in destruct (Hcr2 c k w) as [X Y]; [rewrite Ec; reflexivity|] end).
  all: revert Hw'; simp; split_upd; simp; g_simp; try discriminate; intros Hw'.
  all: try solve [pose proof (Hr _ Hw') as Hx; unfold nb_eff in *; simp; revert Hx; rewrite ?count_new; count_goal; rew_w;
                  try rewrite Hwnew in *; g_simp;
                  try match goal with E : q _ = _ |- _ => rewrite E in *; cbn [length] in * end; intros; lia].
  all: try solve [exfalso; match goal with
                  | Ew : ws ?s1 ?w = mkW _ _ _, Hn : ?w2 <> ?w |- _ =>
                      apply (two_wlockers s1 w2 w Hlk Hn); [unfold retiring in Hw'; destruct (wpc (ws s1 w2)); try discriminate; cbn; lia | rewrite Ew; cbn; lia]
                  | Ec : cs ?s1 ?c = mkC _ _ _ |- _ =>
                      apply (wc_lockers s1 w' c Hlk); [unfold retiring in Hw'; destruct (wpc (ws s1 w')); try discriminate; cbn; lia | rewrite Ec; cbn; lia]
                  end].
  (* WTest decides to retire: unfinished < nb_threads, and nobody else can be retiring (it holds the lock) *)
  apply andb_true_iff in Eg as [_ Eg]. apply Z.ltb_lt in Eg.
  assert (Hd : (0 < wdepth (wpc (ws s w)))%nat) by (rewrite Ew; cbn; lia).
  pose proof (retiring_only_locker s w Hlk H Hd) as Hr0. rewrite Ew in Hr0. cbn in Hr0.
  unfold nb_eff. simp. rewrite Ew. simp.
  pose proof (count_upd_lt retiring (ws s) w {| wpc := WNbDec; wheld := held; wclean := clean |} (next_w s) H) as E.
  rewrite Ew in E. cbn [retiring wpc b2n] in E. lia.
Qed.


Ltac gpre c :=
  match goal with
  | Ec : cs ?s c = _, Hlk : I_lock ?s, Hctl : I_ctl ?s,
    Hg : stopped ?s = false -> _ |- _ =>
      let Hst := fresh "Hst" in let Hq := fresh "Hq" in
      intros Hst Hq;
      assert (Hcd : (0 < cdepth (cpc (cs s c)))%nat) by (rewrite Ec; cbn; lia);
      pose proof (retiring_none_if_client_locks s c Hlk Hcd) as Hr0;
      pose proof (need_nonneg (cpc (cs s 0%nat))) as Hn;
      assert (Hq0 : cpc (cs s 0%nat) <> CSTQsize)
        by (intros Hx; ctl_cases Hctl; simp; try (rewrite Ec in Hx; discriminate); try (apply Hq; exact Hx); try congruence);
      destruct (Hg Hst Hq0) as (G1 & G0 & G3)
  end.
Ltac nowin c :=
  match goal with
  | Hlk : I_lock ?s, Hcd : (0 < cdepth (cpc (cs ?s c)))%nat |- _ =>
      let c' := fresh "c'" in let Hc' := fresh "Hc'" in let Hcc := fresh "Hcc" in
      intros c' Hc'; exfalso; revert Hc'; simp; destruct (Nat.eq_dec c' c) as [->|Hcc];
      [ rewrite upd_same; simp; g_simp; discriminate
      | rewrite upd_other by exact Hcc; intros Hc'; rewrite (window_unique s c c' Hlk Hcd Hcc) in Hc'; discriminate ]
  end.

Ltac noret :=
  match goal with
  | Hlk : I_lock ?s, Hcd : (0 < cdepth (cpc (cs ?s ?cc)))%nat |- retiring (ws ?s ?w') = true -> False =>
      let Hw' := fresh "Hw'" in
      intros Hw'; apply (wc_lockers s w' cc Hlk); [|exact Hcd];
      unfold retiring in Hw'; destruct (wpc (ws s w')); try discriminate; cbn; lia
  end.

Lemma P_growth s t f s' :
  I_ctl s -> I_created s -> I_cfg s -> I_lock s -> I_wf s -> I_nb s -> I_unf s -> I_flag s -> I_nosent s -> I_pend s -> I_ret s ->
  I_growth s -> step s t f = Some s' -> I_growth s'.
Proof.
  intros Hctl Hcr Hcfg Hlk Hwf Hnb Hunf Hfl Hns Hpd Hret Hg H. pose proof Hcr as [Hcr1 Hcr2].
  unfold I_growth, ctl in *.
  open_step2 H; use_lockop; simp; worker_lt Hcr; use_wf Hwf.
  (* ---- worker steps that change no quantity of the claim, or only decrease unfinished_tasks *)
  all: try solve [
    intros Hst Hq; destruct (Hg ltac:(assumption || congruence) Hq) as (G1 & G0 & G3);
    (split; [intros c' Hc'; specialize (G1 c' Hc') | split; [intros Hall; specialize (G0 Hall) | intros w' Hw']]);
    unfold gclaim, nb_eff, ctl in *; simp;
    [ revert G1 | revert G0
    | revert Hw'; split_upd; simp; g_simp; try discriminate; intros Hw'; pose proof (G3 _ Hw') as G3'; revert G3' ];
    count_goal; rew_w; g_simp;
    try match goal with E : q _ = _ |- _ => rewrite E in *; cbn [length] in * end;
    intros; lia ].
  (* ---- the controller inside stop(): the pool is stopped, the premise is false *)
  all: try solve [
    intros Hst Hq; exfalso; ctl_cases Hctl; destruct Hfl as (F1 & _); unfold ctl in F1; rewrite Ec in F1;
    destruct (F1 eq_refl) as (F & _); simp; congruence ].
  (* ---- client steps that change no quantity and stay outside enqueue's window *)
  all: try match goal with He : is_entry ?l = true |- _ => destruct l; try discriminate He end.
  all: try match goal with k : jkont |- _ => destruct k; try discriminate end.
  all: try match goal with k : kont |- _ => destruct k end; cbn [kret] in *.
  all: try solve [
    intros Hst Hq;
    assert (Hq0 : cpc (cs s 0%nat) <> CSTQsize)
      by (intros Hx; ctl_cases Hctl; simp; try (rewrite Ec in Hx; discriminate); try (apply Hq; exact Hx); try congruence);
    destruct (Hg ltac:(assumption || congruence) Hq0) as (G1 & G0 & G3);
    (split; [ intros c' Hc'; revert Hc'; split_upd; simp; g_simp; try discriminate; intros Hc'; specialize (G1 c' Hc')
            | split; [ intros Hall;
                       assert (Hall0 : forall x, ewin (cpc (cs s x)) = false)
                         by (intros x; specialize (Hall x); revert Hall; split_upd; simp; try (rewrite Ec); g_simp; auto);
                       specialize (G0 Hall0)
                     | intros w' Hw'; specialize (G3 w' Hw') ] ]);
    unfold gclaim, nb_eff, ctl in *; simp; ctl_cases Hctl; simp; try (rewrite Ec in * ); simp; g_simp;
    try assumption; try lia ].
  (* ---- steps inside enqueue's window (the mover is the unique window client before and after) *)
  all: try solve [
    intros Hst Hq;
    assert (Hq0 : cpc (cs s 0%nat) <> CSTQsize)
      by (intros Hx; ctl_cases Hctl; simp; try (rewrite Ec in Hx; discriminate); try (apply Hq; exact Hx); try congruence);
    destruct (Hg ltac:(assumption || congruence) Hq0) as (G1 & G0 & G3);
    match goal with Ec : cs ?s1 ?c1 = _ |- _ => pose proof (G1 c1 ltac:(rewrite Ec; reflexivity)) as G1c end;
    (split; [ intros c' Hc'; clear G1 G0
            | split; [ intros Hall; exfalso;
                       match goal with Ec : cs ?s1 ?c1 = _ |- _ => specialize (Hall c1); rewrite upd_same in Hall; simp; g_simp; discriminate end
                     | intros w' Hw'; specialize (G3 w' Hw'); clear G1 G0 ] ]);
    unfold gclaim, nb_eff, ctl in *; simp; ctl_cases Hctl; simp; try (rewrite Ec in * ); simp; g_simp;
    try assumption; try lia ].
  - (* WTest decides to retire: the other threads can take every unfinished task *)
    intros Hst Hq. apply andb_true_iff in Eg as [_ Eg]. apply Z.ltb_lt in Eg.
    assert (Hd : (0 < wdepth (wpc (ws s w)))%nat) by (rewrite Ew; cbn; lia).
    assert (H0 : (w < next_w s)%nat) by (apply (created_lt s w _ _ _ Hcr Ew); discriminate).
    pose proof (retiring_only_locker s w Hlk H0 Hd) as Hr0. rewrite Ew in Hr0. cbn in Hr0.
    pose proof (need_nonneg (cpc (cs s 0%nat))) as Hn.
    assert (Hcnt : count retiring (upd (ws s) w {| wpc := WNbDec; wheld := held; wclean := clean |}) (next_w s) = 1%nat).
    { pose proof (count_upd_lt retiring (ws s) w {| wpc := WNbDec; wheld := held; wclean := clean |} (next_w s) H0) as E.
      rewrite Ew in E. cbn [retiring wpc b2n] in E. lia. }
    split; [|split].
    + intros c' Hc'. simp. rewrite (no_window_if_worker_locks s w c' Hlk Hd) in Hc'. discriminate.
    + intros _. left. unfold nb_eff, ctl. simp. rewrite Ew. simp. rewrite Hcnt. lia.
    + intros w' _. unfold nb_eff. simp. rewrite Ew. simp. rewrite Hcnt. lia.
  - (* WNbDec: the retirement decided at WTest takes effect *)
    intros Hst Hq.
    assert (Hd : (0 < wdepth (wpc (ws s w)))%nat) by (rewrite Ew; cbn; lia).
    assert (H0 : (w < next_w s)%nat) by (apply (created_lt s w _ _ _ Hcr Ew); discriminate).
    pose proof (retiring_only_locker s w Hlk H0 Hd) as Hr0. rewrite Ew in Hr0. cbn in Hr0.
    pose proof (need_nonneg (cpc (cs s 0%nat))) as Hn.
    destruct (Hg Hst Hq) as (_ & _ & G3). pose proof (G3 w ltac:(rewrite Ew; reflexivity)) as G3w.
    unfold nb_eff in G3w. rewrite Hr0 in G3w.
    assert (Hcnt : count retiring (upd (ws s) w {| wpc := WUnlock3R; wheld := held; wclean := true |}) (next_w s) = 0%nat).
    { pose proof (count_upd_lt retiring (ws s) w {| wpc := WUnlock3R; wheld := held; wclean := true |} (next_w s) H0) as E.
      rewrite Ew in E. cbn [retiring wpc b2n] in E. lia. }
    split; [|split].
    + intros c' Hc'. simp. rewrite (no_window_if_worker_locks s w c' Hlk Hd) in Hc'. discriminate.
    + intros _. left. unfold nb_eff, ctl. simp. rewrite Hcnt. lia.
    + intros w' _. unfold nb_eff. simp. rewrite Hcnt. lia.
  - (* WFNbDec without the clean flag: impossible while the pool runs *)
    intros Hst Hq. exfalso. destruct (Hns Hst) as [_ Hd]. specialize (Hd w). rewrite Ew in Hd. discriminate.
  - (* CEPut: the enqueuer enters the window with one more unfinished task *)
    intros Hst Hq.
    assert (Hcd : (0 < cdepth (cpc (cs s c)))%nat) by (rewrite Ec; cbn; lia).
    assert (Hq0 : cpc (cs s 0%nat) <> CSTQsize)
      by (intros Hx; ctl_cases Hctl; simp; try (rewrite Ec in Hx; discriminate); apply Hq; exact Hx).
    destruct (Hg Hst Hq0) as (_ & G0 & _).
    assert (Hnone : forall x, ewin (cpc (cs s x)) = false).
    { intros x. destruct (Nat.eq_dec x c) as [->|Hne]; [rewrite Ec; reflexivity | apply (window_unique s c x Hlk Hcd Hne)]. }
    specialize (G0 Hnone).
    split; [|split].
    + intros c' _. unfold gclaim, nb_eff, ctl in *. simp. ctl_cases Hctl; simp; try (rewrite Ec in * ); simp; g_simp; lia.
    + intros Hall. specialize (Hall c). rewrite upd_same in Hall. discriminate.
    + intros w' Hw'. exfalso. simp. apply (wc_lockers s w' c Hlk); [|exact Hcd].
      unfold retiring in Hw'. destruct (wpc (ws s w')); try discriminate; cbn; lia.
  - (* CETest decides not to grow: pending <= threads, and pending dominates the unfinished tasks *)
    intros Hst Hq. apply Z.ltb_ge in Eg.
    assert (Hcd : (0 < cdepth (cpc (cs s c)))%nat) by (rewrite Ec; cbn; lia).
    pose proof (retiring_none_if_client_locks s c Hlk Hcd) as Hr0.
    destruct (Hns Hst) as [Hk Hne].
    assert (Hcp : clear_pending s = 0).
    { unfold clear_pending. destruct (cpc (cs s 0%nat)) eqn:E0; try reflexivity. exfalso.
      destruct Hfl as (F1 & _). unfold ctl in F1. rewrite E0 in F1. destruct (F1 eq_refl) as [? _]. congruence. }
    assert (Hhp : (count holding (ws s) (next_w s) <= count powing (ws s) (next_w s))%nat).
    { apply count_le. intros i _ Hh. specialize (Hne i). unfold holding, powing, nonclean_exit in *.
      destruct (wpc (ws s i)); try discriminate; reflexivity. }
    destruct Hpd as [_ P0].
    assert (Hnp : forall x, at_pend (cpc (cs s x)) = false).
    { intros x. destruct (at_pend (cpc (cs s x))) eqn:Ex; [exfalso | reflexivity].
      destruct (Nat.eq_dec x c) as [->|Hnx]; [rewrite Ec in Ex; discriminate|].
      apply (two_lockers s x c Hlk Hnx); [destruct (cpc (cs s x)); try discriminate Ex; cbn; lia | exact Hcd]. }
    specialize (P0 Hnp). rewrite (qtasks_all _ Hk) in P0. unfold I_unf in Hunf.
    pose proof (need_nonneg (cpc (cs s 0%nat))) as Hn.
    split; [|split].
    + intros c' Hc'. exfalso. revert Hc'. simp. destruct (Nat.eq_dec c' c) as [->|Hcc]; [rewrite upd_same; simp; discriminate|].
      rewrite upd_other by exact Hcc. intros Hc'. rewrite (window_unique s c c' Hlk Hcd Hcc) in Hc'. discriminate.
    + intros _. left. unfold nb_eff, ctl. simp. rewrite Hr0.
      ctl_cases Hctl; simp; try (rewrite Ec in * ); simp; g_simp; lia.
    + intros w' Hw'. exfalso. simp. apply (wc_lockers s w' c Hlk); [|exact Hcd].
      unfold retiring in Hw'. destruct (wpc (ws s w')); try discriminate; cbn; lia.
  - (* CSTest KEnq refuses: max_threads reached *)
    gpre c. match goal with H : stopped s = false |- _ => rewrite H, orb_false_r in Eg end. apply Z.leb_le in Eg.
    split; [|split].
    + nowin c.
    + intros _. right. unfold ctl. simp. ctl_cases Hctl; simp; try (rewrite Ec in * ); simp; g_simp; lia.
    + intros w' Hw'. exfalso. simp. apply (wc_lockers s w' c Hlk); [|exact Hcd].
      unfold retiring in Hw'. destruct (wpc (ws s w')); try discriminate; cbn; lia.
  - (* CSTest (KStartA a b) refuses: max_threads reached (start() is running: not stopped) *)
    gpre c. match goal with H : stopped s = false |- _ => rewrite H, orb_false_r in Eg end. apply Z.leb_le in Eg.
    split; [|split].
    + nowin c.
    + intros _. right. unfold ctl. simp. ctl_cases Hctl; simp; try (rewrite Ec in * ); simp; g_simp; lia.
    + intros w' Hw'. exfalso. simp. apply (wc_lockers s w' c Hlk); [|exact Hcd].
      unfold retiring in Hw'. destruct (wpc (ws s w')); try discriminate; cbn; lia.
  - (* CSTest (KStartB b) refuses: max_threads reached (start() is running: not stopped) *)
    gpre c. match goal with H : stopped s = false |- _ => rewrite H, orb_false_r in Eg end. apply Z.leb_le in Eg.
    split; [|split].
    + nowin c.
    + intros _. right. unfold ctl. simp. ctl_cases Hctl; simp; try (rewrite Ec in * ); simp; g_simp; lia.
    + intros w' Hw'. exfalso. simp. apply (wc_lockers s w' c Hlk); [|exact Hcd].
      unfold retiring in Hw'. destruct (wpc (ws s w')); try discriminate; cbn; lia.
  - (* CSNbInc KEnq: the enqueuer's new thread is counted; it leaves the window *)
    gpre c. pose proof (G1 c ltac:(rewrite Ec; reflexivity)) as G1c.
    split; [|split].
    + nowin c.
    + intros _. unfold gclaim, nb_eff, ctl in *. simp. rewrite count_new. g_simp. rewrite Hr0 in *.
      ctl_cases Hctl; simp; try (rewrite Ec in * ); simp; g_simp; lia.
    + intros w' Hw'. exfalso. revert Hw'. simp. split_upd; simp; g_simp; try discriminate. all: noret.
  - (* CSNbInc (KStartA a b): start() counts a new thread, one fewer left to start *)
    gpre c.
    assert (Hall0 : forall x, ewin (cpc (cs s x)) = false).
    { intros x. destruct (Nat.eq_dec x c) as [->|Hne]; [rewrite Ec; reflexivity | apply (window_unique s c x Hlk Hcd Hne)]. }
    specialize (G0 Hall0).
    split; [|split].
    + nowin c.
    + intros _. unfold gclaim, nb_eff, ctl in *. simp. rewrite count_new. g_simp. rewrite Hr0 in *.
      ctl_cases Hctl; simp; try (rewrite Ec in * ); simp; g_simp; lia.
    + intros w' Hw'. exfalso. revert Hw'. simp. split_upd; simp; g_simp; try discriminate. all: noret.
  - (* CSNbInc (KStartB b): start() counts a new thread, one fewer left to start *)
    gpre c.
    assert (Hall0 : forall x, ewin (cpc (cs s x)) = false).
    { intros x. destruct (Nat.eq_dec x c) as [->|Hne]; [rewrite Ec; reflexivity | apply (window_unique s c x Hlk Hcd Hne)]. }
    specialize (G0 Hall0).
    split; [|split].
    + nowin c.
    + intros _. unfold gclaim, nb_eff, ctl in *. simp. rewrite count_new. g_simp. rewrite Hr0 in *.
      ctl_cases Hctl; simp; try (rewrite Ec in * ); simp; g_simp; lia.
    + intros w' Hw'. exfalso. revert Hw'. simp. split_upd; simp; g_simp; try discriminate. all: noret.
  - (* CSTStart KEnq: the new thread starts running (WNew -> WLoop); nothing the claim reads changes *)
    gpre c.
    assert (Hall0 : forall x, ewin (cpc (cs s x)) = false).
    { intros x. destruct (Nat.eq_dec x c) as [->|Hne]; [rewrite Ec; reflexivity | apply (window_unique s c x Hlk Hcd Hne)]. }
    specialize (G0 Hall0).
    destruct (Hcr2 c _ w ltac:(rewrite Ec; reflexivity)) as [Hwlt Hwnew].
    assert (Hcnt : count retiring (upd (ws s) w {| wpc := WLoop; wheld := None; wclean := false |}) (next_w s) = 0%nat).
    { pose proof (count_upd_lt retiring (ws s) w {| wpc := WLoop; wheld := None; wclean := false |} (next_w s) Hwlt) as E.
      rewrite Hwnew in E. cbn [retiring wpc b2n] in E. lia. }
    split; [|split].
    + nowin c.
    + intros _. unfold gclaim, nb_eff, ctl in *. simp. rewrite Hcnt. rewrite Hr0 in *.
      ctl_cases Hctl; simp; try (rewrite Ec in * ); simp; g_simp; lia.
    + intros w' Hw'. exfalso. revert Hw'. simp. split_upd; simp; g_simp; try discriminate. all: noret.
  - (* CSTStart (KStartA a b): the new thread starts running (WNew -> WLoop); nothing the claim reads changes *)
    gpre c.
    assert (Hall0 : forall x, ewin (cpc (cs s x)) = false).
    { intros x. destruct (Nat.eq_dec x c) as [->|Hne]; [rewrite Ec; reflexivity | apply (window_unique s c x Hlk Hcd Hne)]. }
    specialize (G0 Hall0).
    destruct (Hcr2 c _ w ltac:(rewrite Ec; reflexivity)) as [Hwlt Hwnew].
    assert (Hcnt : count retiring (upd (ws s) w {| wpc := WLoop; wheld := None; wclean := false |}) (next_w s) = 0%nat).
    { pose proof (count_upd_lt retiring (ws s) w {| wpc := WLoop; wheld := None; wclean := false |} (next_w s) Hwlt) as E.
      rewrite Hwnew in E. cbn [retiring wpc b2n] in E. lia. }
    split; [|split].
    + nowin c.
    + intros _. unfold gclaim, nb_eff, ctl in *. simp. rewrite Hcnt. rewrite Hr0 in *.
      ctl_cases Hctl; simp; try (rewrite Ec in * ); simp; g_simp; lia.
    + intros w' Hw'. exfalso. revert Hw'. simp. split_upd; simp; g_simp; try discriminate. all: noret.
  - (* CSTStart (KStartB b): the new thread starts running (WNew -> WLoop); nothing the claim reads changes *)
    gpre c.
    assert (Hall0 : forall x, ewin (cpc (cs s x)) = false).
    { intros x. destruct (Nat.eq_dec x c) as [->|Hne]; [rewrite Ec; reflexivity | apply (window_unique s c x Hlk Hcd Hne)]. }
    specialize (G0 Hall0).
    destruct (Hcr2 c _ w ltac:(rewrite Ec; reflexivity)) as [Hwlt Hwnew].
    assert (Hcnt : count retiring (upd (ws s) w {| wpc := WLoop; wheld := None; wclean := false |}) (next_w s) = 0%nat).
    { pose proof (count_upd_lt retiring (ws s) w {| wpc := WLoop; wheld := None; wclean := false |} (next_w s) Hwlt) as E.
      rewrite Hwnew in E. cbn [retiring wpc b2n] in E. lia. }
    split; [|split].
    + nowin c.
    + intros _. unfold gclaim, nb_eff, ctl in *. simp. rewrite Hcnt. rewrite Hr0 in *.
      ctl_cases Hctl; simp; try (rewrite Ec in * ); simp; g_simp; lia.
    + intros w' Hw'. exfalso. revert Hw'. simp. split_upd; simp; g_simp; try discriminate. all: noret.
  - (* CSTClear: start() is about to read the queue size: the claim is suspended until it has *)
    intros Hst Hq. exfalso. apply Hq. ctl_cases Hctl; simp; reflexivity.
  - (* CSTQsize: start() has read the backlog; it will start min(backlog, max) threads, then up to min_threads *)
    intros Hst Hq. clear Hg.
    assert (Hc0 : c = 0%nat).
    { destruct (Nat.eq_dec c 0%nat) as [E0|Hne]; [exact E0|]. exfalso. pose proof (Hctl c Hne) as Hl. rewrite Ec in Hl. discriminate. }
    subst c.
    assert (Hcp : clear_pending s = 0) by (unfold clear_pending; rewrite Ec; reflexivity).
    assert (Hhr : (count holding (ws s) (next_w s) + count retiring (ws s) (next_w s) <= count serving (ws s) (next_w s))%nat).
    { apply count_disjoint_le.
      - intros i _ Hh. pose proof (Hwf i) as Hwi. unfold holding, serving, retiring, wf_w in *.
        destruct (wpc (ws s i)); try discriminate; split; reflexivity.
      - intros i _ Hh. unfold serving, retiring in *. destruct (wpc (ws s i)); try discriminate; reflexivity. }
    unfold I_unf in Hunf. unfold I_nb in Hnb. destruct Hcfg as (Hmx & Hmn0 & Hmn1).
    assert (Hclaim : forall d, 0 <= d -> gclaim (cgo s 0%nat (CSTLoopA (Z.to_nat z) (Z.to_nat z0))) d).
    { intros d Hd. unfold gclaim, nb_eff, ctl. simp. rewrite upd_same. simp. g_simp.
      destruct (maxT s <? Z.of_nat (length (q s))) eqn:E1.
      - inversion Em; subst. right. rewrite Z2Nat.id by lia. cbn. lia.
      - apply Z.ltb_ge in E1. destruct (Z.of_nat (length (q s)) <? minT s) eqn:E2; inversion Em; subst.
        + apply Z.ltb_lt in E2. left. rewrite !Z2Nat.id by lia. lia.
        + left. rewrite !Z2Nat.id by lia. cbn. lia. }
    split; [|split].
    + intros c' _. apply Hclaim. lia.
    + intros _. apply Hclaim. lia.
    + intros w' Hw'. pose proof (Hret w' Hw') as Hx. unfold nb_eff in *. simp. exact Hx.
  - (* CSTLoopA: one more thread for the backlog *)
    intros Hst Hq.
    assert (Hc0 : c = 0%nat).
    { destruct (Nat.eq_dec c 0%nat) as [E0|Hne]; [exact E0|]. exfalso. pose proof (Hctl c Hne) as Hl. rewrite Ec in Hl. discriminate. }
    subst c.
    assert (Hq0 : cpc (cs s 0%nat) <> CSTQsize) by (rewrite Ec; discriminate).
    destruct (Hg Hst Hq0) as (G1 & G0 & G3).
    assert (Hcl : forall d, gclaim s d -> gclaim (cgo (set_counters s (nb_threads s) (nb_active s) (nb_pending s + 1)) 0%nat (CSLock (KStartA n b))) d).
    { intros d. unfold gclaim, nb_eff, ctl. simp. rewrite upd_same. rewrite Ec. simp. g_simp. lia. }
    split; [|split].
    + intros c' Hc'. apply Hcl. destruct (Nat.eq_dec c' 0%nat) as [->|Hne].
      * rewrite upd_same in Hc'. discriminate.
      * rewrite upd_other in Hc' by exact Hne. exact (G1 c' Hc').
    + intros Hall. apply Hcl, G0. intros c'. destruct (Nat.eq_dec c' 0%nat) as [->|Hne].
      * rewrite Ec. reflexivity.
      * specialize (Hall c'). rewrite upd_other in Hall by exact Hne. exact Hall.
    + intros w' Hw'. pose proof (G3 w' Hw') as Hx. unfold nb_eff in *. simp. exact Hx.
  - (* CSTLoopB: one more thread up to min_threads *)
    intros Hst Hq.
    assert (Hc0 : c = 0%nat).
    { destruct (Nat.eq_dec c 0%nat) as [E0|Hne]; [exact E0|]. exfalso. pose proof (Hctl c Hne) as Hl. rewrite Ec in Hl. discriminate. }
    subst c.
    assert (Hq0 : cpc (cs s 0%nat) <> CSTQsize) by (rewrite Ec; discriminate).
    destruct (Hg Hst Hq0) as (G1 & G0 & G3).
    assert (Hcl : forall d, gclaim s d -> gclaim (cgo (set_counters s (nb_threads s) (nb_active s) (nb_pending s + 1)) 0%nat (CSLock (KStartB n))) d).
    { intros d. unfold gclaim, nb_eff, ctl. simp. rewrite upd_same. rewrite Ec. simp. g_simp. lia. }
    split; [|split].
    + intros c' Hc'. apply Hcl. destruct (Nat.eq_dec c' 0%nat) as [->|Hne].
      * rewrite upd_same in Hc'. discriminate.
      * rewrite upd_other in Hc' by exact Hne. exact (G1 c' Hc').
    + intros Hall. apply Hcl, G0. intros c'. destruct (Nat.eq_dec c' 0%nat) as [->|Hne].
      * rewrite Ec. reflexivity.
      * specialize (Hall c'). rewrite upd_other in Hall by exact Hne. exact Hall.
    + intros w' Hw'. pose proof (G3 w' Hw') as Hx. unfold nb_eff in *. simp. exact Hx.
Qed.
