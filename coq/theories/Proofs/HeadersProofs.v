(** * HeadersProofs — property C18 proved about Model/Headers.v for all stacks and all enter/leave sequences. *)

From JR Require Import Headers.
From Coq Require Import Ascii Lia.

(** ** Specification vocabulary *)

(** [n] is a lower-case name; a dictionary defines it when one of its names lower-cases to it *)
Definition name_is (n : str) (kv : str * val) : bool := String.eqb n (ascii_lower (fst kv)).
Definition defines (h : hdict) (n : str) : bool := existsb (name_is n) h.
(** the values the dictionary gives to the case variants of [n] *)
Definition variants_in (h : hdict) (n : str) : list val := map snd (filter (name_is n) h).

(** the most recently pushed dictionary (last in push order) that defines [n] *)
Fixpoint last_defining (ls : list hdict) (n : str) : option hdict :=
  match ls with
  | [] => None
  | h :: r =>
      match last_defining r n with
      | Some h' => Some h'
      | None => if defines h n then Some h else None
      end
  end.

(** header lines whose name is [n], compared case-insensitively / exactly *)
Definition line_is (n : str) (kv : str * str) : bool := String.eqb n (ascii_lower (fst kv)).
Definition key_is (n : str) (kv : str * str) : bool := String.eqb n (fst kv).

(** ** Generic list facts *)

Lemma fold_left_concat {A B} (f : A -> B -> A) (ls : list (list B)) : forall a,
  fold_left f (concat ls) a = fold_left (fun a l => fold_left f l a) ls a.
Proof. induction ls as [|l r IH]; intros a; simpl; [reflexivity|]. rewrite fold_left_app. apply IH. Qed.

Lemma fold_left_map {A B C} (f : A -> C -> A) (g : B -> C) (l : list B) : forall a,
  fold_left f (map g l) a = fold_left (fun a x => f a (g x)) l a.
Proof. induction l as [|x r IH]; intros a; simpl; [reflexivity|apply IH]. Qed.

Lemma filter_comm {A} (p q : A -> bool) (l : list A) : filter p (filter q l) = filter q (filter p l).
Proof.
  induction l as [|x r IH]; simpl; [reflexivity|].
  destruct (q x) eqn:Q; destruct (p x) eqn:P; simpl; rewrite ?Q, ?P, IH; reflexivity.
Qed.

Lemma filter_none {A} (p : A -> bool) (l : list A) : (forall x, In x l -> p x = false) -> filter p l = [].
Proof.
  induction l as [|x r IH]; intros H; simpl; [reflexivity|].
  rewrite (H x (or_introl eq_refl)). apply IH. intros y Hy. apply H. right; exact Hy.
Qed.

(** ** ASCII lower-casing is idempotent *)

Lemma ascii_lower_char_idem a : ascii_lower_char (ascii_lower_char a) = ascii_lower_char a.
Proof. destruct a as [[] [] [] [] [] [] [] []]; reflexivity. Qed.

Lemma ascii_lower_idem s : ascii_lower (ascii_lower s) = ascii_lower s.
Proof. induction s as [|a r IH]; simpl; [reflexivity|]. now rewrite ascii_lower_char_idem, IH. Qed.

Section P.
  Variable ostr : val -> str.
  Notation pystr := (pystr ostr).

  (** ** [sset] / [slookup] *)

  Lemma slookup_sset m k v k' :
    slookup (sset m k v) k' = if String.eqb k' k then Some v else slookup m k'.
  Proof.
    induction m as [|[k0 v0] r IH]; simpl.
    - reflexivity.
    - destruct (String.eqb k k0) eqn:E; simpl.
      + apply String.eqb_eq in E. subst k0. destruct (String.eqb k' k); reflexivity.
      + rewrite IH. destruct (String.eqb k' k0) eqn:E0; [|reflexivity].
        apply String.eqb_eq in E0. subst k0.
        destruct (String.eqb k' k) eqn:E1; [|reflexivity].
        apply String.eqb_eq in E1. subst k'. rewrite String.eqb_refl in E. discriminate.
  Qed.

  Lemma keys_sset m k v x : In x (map fst (sset m k v)) <-> x = k \/ In x (map fst m).
  Proof.
    induction m as [|[k0 v0] r IH]; simpl.
    - intuition.
    - destruct (String.eqb k k0) eqn:E; simpl.
      + apply String.eqb_eq in E. subst. intuition.
      + rewrite IH. intuition.
  Qed.

  Lemma NoDup_sset m k v : NoDup (map fst m) -> NoDup (map fst (sset m k v)).
  Proof.
    induction m as [|[k0 v0] r IH]; simpl; intros H.
    - constructor; [intros []|constructor].
    - inversion H as [|? ? Hn Hr]; subst. destruct (String.eqb k k0) eqn:E; simpl.
      + constructor; assumption.
      + constructor; [|apply IH; assumption].
        rewrite keys_sset. intros [->|Hin]; [rewrite String.eqb_refl in E; discriminate|contradiction].
  Qed.

  Lemma In_sset m k v a b : In (a, b) (sset m k v) -> (a = k /\ b = v) \/ In (a, b) m.
  Proof.
    induction m as [|[k0 v0] r IH]; simpl.
    - intros [H|[]]. inversion H. auto.
    - destruct (String.eqb k k0) eqn:E; simpl.
      + apply String.eqb_eq in E. subst. intros [H|H]; [inversion H; auto|auto].
      + intros [H|H]; [auto|]. destruct (IH H); auto.
  Qed.

  Lemma slookup_In m k v : slookup m k = Some v -> In (k, v) m.
  Proof.
    induction m as [|[k0 v0] r IH]; simpl; [discriminate|].
    destruct (String.eqb k k0) eqn:E.
    - apply String.eqb_eq in E. subst. intros H; inversion H; auto.
    - auto.
  Qed.

  Lemma In_slookup m k v : NoDup (map fst m) -> In (k, v) m -> slookup m k = Some v.
  Proof.
    induction m as [|[k0 v0] r IH]; simpl; intros Hn; [intros []|].
    inversion Hn as [|? ? Hk Hr]; subst. intros [H|H].
    - inversion H; subst. now rewrite String.eqb_refl.
    - destruct (String.eqb k k0) eqn:E; [|auto].
      apply String.eqb_eq in E. subst. exfalso. apply Hk. apply (in_map fst) in H. exact H.
  Qed.

  Lemma slookup_none_filter m k : slookup m k = None -> filter (key_is k) m = [].
  Proof.
    induction m as [|[k0 v0] r IH]; simpl; [reflexivity|]. unfold key_is at 1. simpl.
    destruct (String.eqb k k0); [discriminate|auto].
  Qed.

  Lemma filter_key m k : NoDup (map fst m) ->
    filter (key_is k) m = match slookup m k with Some v => [(k, v)] | None => [] end.
  Proof.
    induction m as [|[k0 v0] r IH]; simpl; intros Hn; [reflexivity|].
    inversion Hn as [|? ? Hk Hr]; subst. unfold key_is at 1. simpl.
    destruct (String.eqb k k0) eqn:E.
    - apply String.eqb_eq in E. subst k0. f_equal.
      apply filter_none. intros [a b] Hin. unfold key_is. simpl.
      destruct (String.eqb k a) eqn:E; [|reflexivity]. apply String.eqb_eq in E. subst.
      exfalso. apply Hk. apply (in_map fst) in Hin. exact Hin.
    - auto.
  Qed.

  (** ** Building a dictionary from a list of items *)

  Definition build (items acc : lines) : lines := fold_left (fun acc kv => sset acc (fst kv) (snd kv)) items acc.

  (** the value of the last item named [n], else [init] *)
  Definition lastv (items : lines) (n : str) (init : option str) : option str :=
    fold_left (fun r kv => if String.eqb n (fst kv) then Some (snd kv) else r) items init.

  Lemma slookup_build items n : forall acc, slookup (build items acc) n = lastv items n (slookup acc n).
  Proof.
    induction items as [|[k v] r IH]; intros acc; simpl; [reflexivity|].
    unfold build in *. simpl. rewrite IH, slookup_sset. reflexivity.
  Qed.

  Lemma NoDup_build items : forall acc, NoDup (map fst acc) -> NoDup (map fst (build items acc)).
  Proof.
    induction items as [|[k v] r IH]; intros acc H; simpl; [exact H|].
    apply IH. apply NoDup_sset. exact H.
  Qed.

  Lemma keys_build items x : forall acc, In x (map fst (build items acc)) -> In x (map fst items) \/ In x (map fst acc).
  Proof.
    induction items as [|[k v] r IH]; intros acc H; simpl in *; [auto|].
    apply IH in H as [H|H]; [auto|]. apply keys_sset in H as [->|H]; auto.
  Qed.

  Lemma lastv_app a b n init : lastv (a ++ b)%list n init = lastv b n (lastv a n init).
  Proof. unfold lastv. apply fold_left_app. Qed.

  (** ** The merged dictionary is built from the flattened, normalised items *)

  Definition norm_item (kv : str * val) : str * str := (ascii_lower (fst kv), pystr (snd kv)).
  Definition flat (ls : list hdict) : lines := map norm_item (concat ls).

  Lemma merged_build extra st : merged ostr extra st = build (flat (layers extra st)) [].
  Proof.
    unfold merged, build, flat, merge_layer. rewrite fold_left_map, fold_left_concat. reflexivity.
  Qed.

  Lemma flat_cons h r : flat (h :: r) = (map norm_item h ++ flat r)%list.
  Proof. unfold flat. simpl. apply map_app. Qed.

  Lemma NoDup_merged extra st : NoDup (map fst (merged ostr extra st)).
  Proof. rewrite merged_build. apply NoDup_build. constructor. Qed.

  (** every key of the merged dictionary is a lower-cased name *)
  Lemma merged_keys_lower extra st k : In k (map fst (merged ostr extra st)) -> ascii_lower k = k.
  Proof.
    rewrite merged_build. intros H. apply keys_build in H as [H|[]].
    unfold flat in H. rewrite map_map in H. apply in_map_iff in H as [kv [<- _]]. simpl. apply ascii_lower_idem.
  Qed.

  (** ** The last item named [n] comes from the most recent dictionary that defines [n] *)

  Lemma lastv_undefined h n init : defines h n = false -> lastv (map norm_item h) n init = init.
  Proof.
    revert init. induction h as [|kv r IH]; intros init H; simpl; [reflexivity|].
    simpl in H. apply orb_false_iff in H as [H1 H2]. unfold name_is in H1.
    unfold lastv in *. simpl. rewrite H1. apply IH. exact H2.
  Qed.

  Lemma lastv_defined h n : defines h n = true -> forall init,
    exists v, In v (variants_in h n) /\ lastv (map norm_item h) n init = Some (pystr v).
  Proof.
    induction h as [|kv r IH]; intros H init; simpl in H; [discriminate|].
    unfold variants_in. simpl.
    destruct (defines r n) eqn:D.
    - destruct (IH eq_refl (if String.eqb n (ascii_lower (fst kv)) then Some (pystr (snd kv)) else init)) as [v [Hv Hl]].
      exists v. split.
      + destruct (name_is n kv); [right|]; exact Hv.
      + unfold lastv in *. simpl. exact Hl.
    - rewrite orb_false_r in H. exists (snd kv). rewrite H. split; [left; reflexivity|].
      unfold lastv. simpl. unfold name_is in H. rewrite H.
      apply (lastv_undefined r n (Some (pystr (snd kv))) D).
  Qed.

  Lemma lastv_defined_init h n : defines h n = true ->
    forall i1 i2, lastv (map norm_item h) n i1 = lastv (map norm_item h) n i2.
  Proof.
    induction h as [|kv r IH]; intros D i1 i2; simpl in D; [discriminate|].
    unfold lastv in *. simpl. unfold name_is in D.
    destruct (String.eqb n (ascii_lower (fst kv))); [reflexivity|]. simpl in D. apply IH. exact D.
  Qed.

  Lemma lastv_layers n : forall ls init,
    lastv (flat ls) n init =
    match last_defining ls n with
    | Some h => lastv (map norm_item h) n None
    | None => init
    end.
  Proof.
    induction ls as [|h r IH]; intros init; simpl; [reflexivity|].
    rewrite flat_cons, lastv_app, IH.
    destruct (last_defining r n) as [h'|]; [reflexivity|].
    destruct (defines h n) eqn:D.
    - apply lastv_defined_init. exact D.
    - apply lastv_undefined. exact D.
  Qed.

  (** the merged dictionary at [n] *)
  Lemma slookup_merged extra st n :
    slookup (merged ostr extra st) n =
    match last_defining (layers extra st) n with
    | Some h => lastv (map norm_item h) n None
    | None => None
    end.
  Proof. rewrite merged_build, slookup_build. simpl. apply lastv_layers. Qed.

  Lemma last_defining_defines ls n h : last_defining ls n = Some h -> defines h n = true /\ In h ls.
  Proof.
    induction ls as [|h0 r IH]; simpl; [discriminate|].
    destruct (last_defining r n) as [h'|].
    - intros E. inversion E; subst. destruct (IH eq_refl). auto.
    - destruct (defines h0 n) eqn:D; [|discriminate]. intros E. inversion E; subst. auto.
  Qed.

  (** *** C18_recency *)
  Lemma recency extra st n h :
    is_readonly n = false -> last_defining (layers extra st) n = Some h ->
    exists v, In v (variants_in h n) /\ filter (key_is n) (emit_pure ostr extra st) = [(n, pystr v)].
  Proof.
    intros Hro Hl. destruct (last_defining_defines _ _ _ Hl) as [D _].
    destruct (lastv_defined h n D None) as [v [Hv E]].
    exists v. split; [exact Hv|].
    unfold emit_pure. rewrite filter_comm, (filter_key _ _ (NoDup_merged extra st)), slookup_merged, Hl, E.
    simpl. rewrite Hro. reflexivity.
  Qed.

  (** a name nobody defines is not emitted *)
  Lemma undefined_not_emitted extra st n :
    last_defining (layers extra st) n = None -> filter (key_is n) (emit_pure ostr extra st) = [].
  Proof.
    intros Hl. unfold emit_pure. rewrite filter_comm, (filter_key _ _ (NoDup_merged extra st)), slookup_merged, Hl.
    reflexivity.
  Qed.

  (** *** C18_nothing_else *)
  Lemma nothing_else extra st k v :
    In (k, v) (emit_pure ostr extra st) ->
    is_readonly k = false /\ ascii_lower k = k /\
    exists h, last_defining (layers extra st) k = Some h /\ exists v', In v' (variants_in h k) /\ v = pystr v'.
  Proof.
    unfold emit_pure. intros H. apply filter_In in H as [Hin Hro]. simpl in Hro.
    apply negb_true_iff in Hro. split; [exact Hro|].
    split; [apply (merged_keys_lower extra st); apply (in_map fst) in Hin; exact Hin|].
    apply (In_slookup _ _ _ (NoDup_merged extra st)) in Hin. rewrite slookup_merged in Hin.
    destruct (last_defining (layers extra st) k) as [h|] eqn:Hl; [|discriminate].
    exists h. split; [reflexivity|].
    destruct (last_defining_defines _ _ _ Hl) as [D _].
    destruct (lastv_defined h k D None) as [v' [Hv E]]. exists v'. split; [exact Hv|]. congruence.
  Qed.

  (** no name is emitted twice *)
  Lemma emit_NoDup extra st : NoDup (map fst (emit_pure ostr extra st)).
  Proof.
    unfold emit_pure. pose proof (NoDup_merged extra st) as H.
    induction (merged ostr extra st) as [|[k v] r IH]; simpl; [constructor|].
    inversion H as [|? ? Hk Hr]; subst. destruct (negb (is_readonly k)); simpl; [|auto].
    constructor; [|auto]. intros Hin. apply Hk. apply in_map_iff in Hin as [[a b] [<- Hin]].
    apply filter_In in Hin as [Hin _]. apply (in_map fst) in Hin. exact Hin.
  Qed.

  (** *** C18_fixed_headers *)

  Lemma line_is_key_on_emit extra st n :
    filter (line_is n) (emit_pure ostr extra st) = filter (key_is n) (emit_pure ostr extra st).
  Proof.
    apply filter_ext_in. intros [k v] Hin. unfold line_is, key_is. simpl.
    destruct (nothing_else extra st k v Hin) as [_ [E _]]. rewrite E. reflexivity.
  Qed.

  Lemma readonly_not_emitted extra st n : is_readonly n = true -> filter (line_is n) (emit_pure ostr extra st) = [].
  Proof.
    intros Hro. rewrite line_is_key_on_emit. apply filter_none. intros [k v] Hin. unfold key_is. simpl.
    destruct (String.eqb n k) eqn:E; [|reflexivity]. apply String.eqb_eq in E. subst.
    destruct (nothing_else extra st k v Hin) as [H _]. congruence.
  Qed.

  Lemma has_key_emit extra st n :
    has_key (emit_pure ostr extra st) n = negb (is_readonly n) && has_key (merged ostr extra st) n.
  Proof.
    unfold has_key, emit_pure.
    induction (merged ostr extra st) as [|[k v] r IH]; simpl; [now rewrite andb_false_r|].
    destruct (is_readonly k) eqn:Rk; simpl.
    - destruct (String.eqb n k) eqn:E.
      + apply String.eqb_eq in E. subst. rewrite Rk. simpl.
        (* n is read-only: it is in neither *)
        clear IH. induction r as [|[k' v'] r' IH']; simpl; [reflexivity|].
        destruct (is_readonly k') eqn:Rk'; simpl; [exact IH'|].
        destruct (String.eqb k k') eqn:E'; [apply String.eqb_eq in E'; subst; congruence|exact IH'].
      + exact IH.
    - destruct (String.eqb n k) eqn:E.
      + apply String.eqb_eq in E. subst. rewrite Rk. reflexivity.
      + exact IH.
  Qed.

  Definition content_length (body : str) : str := z_to_str (Z.of_nat (String.length body)).

  Lemma fixed_headers ct ua body extra st l :
    send_content_headers ostr ct ua body extra st = Ok l ->
    filter (line_is "content-type") l = [("Content-Type", ct)] /\
    filter (line_is "content-length") l = [("Content-Length", content_length body)] /\
    (last_defining (layers extra st) "user-agent" = None -> filter (line_is "user-agent") l = [("User-Agent", ua)]) /\
    (forall h, last_defining (layers extra st) "user-agent" = Some h ->
       exists v, In v (variants_in h "user-agent") /\ filter (line_is "user-agent") l = [("user-agent", pystr v)]).
  Proof.
    unfold send_content_headers, emit. destruct (names_ascii (layers extra st)); cbn [bind]; [|discriminate].
    intros E. inversion E; subst l; clear E.
    assert (UA : forall n, n <> "user-agent" ->
              filter (line_is n) (if has_key (emit_pure ostr extra st) "user-agent" then [] else [("User-Agent", ua)]) = []).
    { intros n Hn. destruct (has_key _ _); [reflexivity|]. cbn [filter]. unfold line_is. cbn [fst].
      change (ascii_lower "User-Agent") with "user-agent".
      destruct (String.eqb n "user-agent") eqn:E; [apply String.eqb_eq in E; contradiction|reflexivity]. }
    unfold content_length. set (cl := z_to_str (Z.of_nat (String.length body))).
    assert (HD : forall n X, filter (line_is n) (("Content-Type", ct) :: ("Content-Length", cl) :: X)
                 = (filter (line_is n) [("Content-Type", ct); ("Content-Length", cl)] ++ filter (line_is n) X)%list).
    { intros n X. cbn [filter app]. destruct (line_is n ("Content-Type", ct)); destruct (line_is n ("Content-Length", cl)); reflexivity. }
    cbn [app].
    repeat split.
    - rewrite HD, !filter_app. rewrite readonly_not_emitted by reflexivity. rewrite UA by discriminate. reflexivity.
    - rewrite HD, !filter_app. rewrite readonly_not_emitted by reflexivity. rewrite UA by discriminate. reflexivity.
    - intros Hl. rewrite HD, !filter_app. rewrite line_is_key_on_emit, undefined_not_emitted by exact Hl.
      rewrite has_key_emit. unfold has_key at 1. rewrite slookup_merged, Hl. reflexivity.
    - intros h Hl. destruct (recency extra st "user-agent" h eq_refl Hl) as [v [Hv E]].
      exists v. split; [exact Hv|]. rewrite HD, !filter_app. rewrite line_is_key_on_emit, E.
      rewrite has_key_emit. unfold has_key at 1. rewrite slookup_merged, Hl.
      destruct (last_defining_defines _ _ _ Hl) as [D _].
      destruct (lastv_defined h "user-agent" D None) as [v' [_ E']]. rewrite E'. reflexivity.
  Qed.

  (** the complete list of lines of a request *)
  Lemma request_lines ct ua body extra st :
    names_ascii (layers extra st) = true ->
    request_headers ostr ct ua body extra st =
    Ok ([("Accept-Encoding", "gzip"); ("Content-Type", ct); ("Content-Length", content_length body)]
        ++ emit_pure ostr extra st
        ++ (if has_key (emit_pure ostr extra st) "user-agent" then [] else [("User-Agent", ua)]))%list.
  Proof. intros H. unfold request_headers, send_content_headers, emit. rewrite H. reflexivity. Qed.
End P.

(** ** Blocks: the stack after any sequence of enter / leave events *)

Lemma hdict_eq_refl h : hdict_eq h h = true.
Proof. unfold hdict_eq. rewrite val_eqb_refl. reflexivity. Qed.

Lemma pop_push st h : pop_headers (push_headers st h) h = Ok st.
Proof.
  unfold pop_headers, push_headers. rewrite rev_app_distr. simpl. rewrite hdict_eq_refl, rev_involutive. reflexivity.
Qed.

(** invariant: the stack is the initial stack followed by the dictionaries of the open blocks, outermost first *)
Lemma run_invariant ops : forall st0 open,
  run ops (mkH (st0 ++ rev open) open) = Ok (mkH (st0 ++ rev (open_after ops open)) (open_after ops open)).
Proof.
  induction ops as [|o rest IH]; intros st0 open; [reflexivity|].
  destruct o as [h|o|b]; cbn [run step bind open_after h_stack h_open].
  - unfold push_headers. rewrite <- app_assoc. exact (IH st0 (h :: open)).
  - destruct open as [|h r].
    + cbn [bind]. exact (IH st0 []).
    + cbn [rev]. rewrite app_assoc. fold (push_headers (st0 ++ rev r) h). rewrite pop_push. cbn [bind]. exact (IH st0 r).
  - exact (IH st0 open).
Qed.

(** *** C18_nested_blocks *)
Lemma nested_blocks ops st0 :
  run ops (mkH st0 []) = Ok (mkH (st0 ++ rev (open_after ops [])) (open_after ops [])).
Proof. pose proof (run_invariant ops st0 []) as H. simpl in H. rewrite app_nil_r in H. exact H. Qed.

(** when every block has been left, the stack is the initial one — no exception is ever raised by pop *)
Lemma balanced_restores ops st0 :
  open_after ops [] = [] -> run ops (mkH st0 []) = Ok (mkH st0 []).
Proof. intros H. rewrite nested_blocks, H. simpl. now rewrite app_nil_r. Qed.

Lemma open_after_app a b open : open_after (a ++ b) open = open_after b (open_after a open).
Proof.
  revert open. induction a as [|o r IH]; intros open; simpl; [reflexivity|].
  destruct o; apply IH.
Qed.

(** a balanced body leaves an enclosing block open (or, if it contains an unmatched leave, closes it) *)
Lemma open_after_enclosed ops : forall open x,
  open_after ops open = [] -> open_after ops (open ++ [x]) = [x] \/ open_after ops (open ++ [x]) = [].
Proof.
  induction ops as [|op r IH]; intros open x H; simpl in *.
  - subst. left. reflexivity.
  - destruct op as [h'|o'|b'].
    + apply (IH (h' :: open) x H).
    + destruct open as [|a t]; simpl in *.
      * right. exact H.
      * apply (IH t x H).
    + apply (IH open x H).
Qed.

(** *** C18_block_restores: one block around any balanced body, left normally or through an exception *)
Lemma block_restores st h body o :
  open_after body [] = [] ->
  run (OEnter h :: body ++ [OLeave o]) (mkH st []) = Ok (mkH st []).
Proof.
  intros Hb. apply balanced_restores. simpl. rewrite open_after_app.
  destruct (open_after_enclosed body [] h Hb) as [E|E]; simpl in E; rewrite E; reflexivity.
Qed.
