(** * FutureInvO — what done() / result() can observe *)
From Coq Require Import List Bool Arith Lia.
From RecordUpdate Require Import RecordSet.
From JR Require Import Sched Future FutureInv.
Import ListNotations RecordSetNotations.

Section Inv.
Variable c : cfg.

(** while the task body has not finished *)
Definition pre_ok (s : st) (j : nat) : Prop :=
  match op s j with
  | O_start => True
  | O_read_exc => owaited s j = false
  | O_reraise | O_read_data => False
  | O_end => oobs s j = Some (ObsDone false) \/ oobs s j = Some ObsTimeout
  end.
Definition O2 s := xp s = X_body -> forall j, pre_ok s j.

(** classification of every observer by its pc *)
Definition cls (s : st) (j : nat) : Prop :=
  match op s j with
  | O_start => oobs s j = None
  | O_read_exc => (owaited s j = true -> ev s = true) /\ obsk c j <> ODone /\ (owaited s j = false -> obsk c j = OResultT)
  | O_reraise => exc s <> None /\ obsk c j <> ODone
  | O_read_data => ev s = true /\ exc s = None /\ obsk c j <> ODone
  | O_end => exists o, oobs s j = Some o /\
               (o = expected_obs c (obsk c j) \/ (o = ObsDone false /\ obsk c j = ODone) \/ (o = ObsTimeout /\ obsk c j = OResultT))
  end.
Definition O3 s := forall j, cls s j.
Definition O1 s := forall j, op s j <> O_end -> oobs s j = None.
Definition InvO s := O1 s /\ O2 s /\ O3 s.

Lemma O_step : forall s m s', InvA c s -> InvO s -> step c s m = Some s' -> InvO s'.
Proof.
  intros s m s' (H1 & H2 & H3 & H4 & H5 & H6 & H7 & H8 & H9) (B1 & B2 & B3) H.
  unfold InvO in *; unfold L1, L2, L3, D1, D2, D3, D4, D5, D6, holds in *.
  unfold O1, O2, O3, pre_ok, cls in *.
  unstep H; simp.
  all: repeat split; cheap.
  all: try solve [apply B3 | apply B2; fin0 | apply B1; fin0].
  all: rw; pcs; simp.
  all: try solve [apply B3 | apply B2; fin0].
  all: try solve [match goal with |- context [op ?s0 ?k] => generalize (B3 k); destruct (op s0 k); intros; prep; try (destruct (body c)); intuition fin0 end].
  all: match goal with E : op ?s0 ?k = _ |- _ =>
         generalize (B3 k); try (generalize (fun h => B2 h k)); rewrite ?E; intros end.
  all: repeat match goal with E : obsk _ _ = _ |- _ => rewrite ?E in *; revert E end; intros.
  all: repeat match goal with E : exc _ = _ |- _ => rewrite ?E in *; revert E end; intros.
  all: repeat match goal with E : ev _ = _ |- _ => rewrite ?E in *; revert E end; intros.
  all: fwd; djs.
  all: try solve [fin0 | intuition fin0 | eexists; split; [reflexivity|]; unfold expected_obs; intuition fin0].
  all: try solve [eexists; split; [reflexivity|]; unfold expected_obs; left;
                  match goal with |- context [obsk c ?k] => destruct (obsk c k) end; try congruence;
                  destruct (xp s); pcs; destruct (body c); cbn [out_exc out_data] in *; rewrite ?H4; intuition fin0].
  eexists; split; [reflexivity|]. unfold expected_obs. destruct (x_ge_ev (xp s)); auto.
Qed.
End Inv.
