(** Proofs about Model/Server.v (property C12). *)
From JR Require Import Server.
From Coq Require Import Arith Lia.
Local Open Scope nat_scope.

(* ================================================================================================ *)
(** * Part 1 — handler level *)

Section HandlerProofs.
  Variable eff : Type.
  Variable dispatch : string -> dres * list eff.
  Variable fault500 page404 : string.

  Notation hstep := (hstep dispatch fault500 page404).
  Notation hrun := (hrun dispatch fault500 page404).
  Notation complete := (complete dispatch fault500 page404).
  Notation hfinal := (hfinal dispatch fault500 page404).
  Notation step := (step dispatch fault500 page404).
  Notation run := (run dispatch fault500 page404).
  Notation reply_of := (reply_of dispatch fault500 page404).
  Notation effects_of := (effects_of dispatch).

  Ltac hstep_cases H c :=
    unfold Server.hstep in H; destruct c as [rq pc dat st rsp wf calls effs]; cbn [c_pc c_req c_data c_status c_response c_wfile c_calls c_effects set_pc] in *;
    destruct pc; try discriminate H;
    repeat match type of H with
           | context [if ?x then _ else _] => destruct x eqn:?
           | context [match rq_clen ?x with _ => _ end] => destruct (rq_clen x) eqn:?
           | context [let '(_, _) := ?x in _] => destruct x as [[?|] ?] eqn:?
           end; inversion H; subst; clear H.

  Lemma hstep_rank c c' : hstep c = Some c' -> rank (c_pc c') < rank (c_pc c).
  Proof. intros H. hstep_cases H c; cbn; lia. Qed.

  Lemma hstep_req c c' : hstep c = Some c' -> c_req c' = c_req c.
  Proof. intros H. hstep_cases H c; reflexivity. Qed.

  Lemma hstep_calls_mono c c' : hstep c = Some c' -> c_calls c <= c_calls c'.
  Proof. intros H. hstep_cases H c; cbn; lia. Qed.

  Lemma hstep_none c : hstep c = None <-> c_pc c = HDone.
  Proof.
    split.
    - intros H. unfold Server.hstep in H. destruct (c_pc c); try reflexivity; try discriminate H.
      + destruct (rq_path_ok (c_req c)); discriminate H.
      + destruct (rq_clen (c_req c)); discriminate H.
      + destruct (dispatch (c_data c)) as [[t|] e]; discriminate H.
    - intros H. unfold Server.hstep. now rewrite H.
  Qed.

  Lemma rank_zero p : rank p = 0 -> p = HDone.
  Proof. destruct p; cbn; intros; try lia; reflexivity. Qed.

  Lemma hrun_S : forall f c, rank (c_pc c) <= f -> hrun (S f) c = hrun f c.
  Proof.
    induction f as [|f IH]; intros c Hr.
    - assert (Hd : c_pc c = HDone) by (apply rank_zero; lia).
      cbn [Server.hrun]. apply hstep_none in Hd. now rewrite Hd.
    - change (hrun (S (S f)) c) with (match hstep c with Some c' => hrun (S f) c' | None => c end).
      change (hrun (S f) c) with (match hstep c with Some c' => hrun f c' | None => c end).
      destruct (hstep c) as [c'|] eqn:Hs; [|reflexivity].
      apply IH. pose proof (hstep_rank _ _ Hs). lia.
  Qed.

  Lemma hrun_plus : forall d c, hrun (rank (c_pc c) + d) c = hrun (rank (c_pc c)) c.
  Proof.
    induction d as [|d IH]; intros c.
    - now rewrite Nat.add_0_r.
    - rewrite Nat.add_succ_r, hrun_S by lia. apply IH.
  Qed.

  Lemma hrun_ge f c : rank (c_pc c) <= f -> hrun f c = complete c.
  Proof.
    intros H. unfold Server.complete. replace f with (rank (c_pc c) + (f - rank (c_pc c))) by lia. apply hrun_plus.
  Qed.

  Lemma complete_step c c' : hstep c = Some c' -> complete c' = complete c.
  Proof.
    intros Hs. pose proof (hstep_rank _ _ Hs) as Hr.
    unfold Server.complete at 2. destruct (rank (c_pc c)) as [|m] eqn:Em; [lia|].
    change (hrun (S m) c) with (match hstep c with Some c' => hrun m c' | None => c end).
    rewrite Hs. symmetry. apply hrun_ge. lia.
  Qed.

  Lemma complete_done c : c_pc c = HDone -> complete c = c.
  Proof. intros H. unfold Server.complete. now rewrite H. Qed.

  Lemma hrun_calls_mono : forall f c, c_calls c <= c_calls (hrun f c).
  Proof.
    induction f as [|f IH]; intros c; cbn [Server.hrun]; [lia|].
    destruct (hstep c) as [c'|] eqn:Hs; [|lia].
    pose proof (hstep_calls_mono _ _ Hs). specialize (IH c'). lia.
  Qed.

  (** closed forms of the completed handler *)
  Lemma hfinal_closed r :
    c_pc (hfinal r) = HDone /\ c_wfile (hfinal r) = Some (reply_of r)
    /\ c_calls (hfinal r) = (if dispatched r then 1 else 0) /\ c_effects (hfinal r) = effects_of r.
  Proof.
    destruct r as [p cl b]. unfold Server.hfinal, Server.complete, Server.reply_of, Server.effects_of, dispatched, data_of, init_conn.
    cbn [c_pc rank rq_path_ok rq_clen rq_body].
    destruct p.
    - destruct cl as [n|].
      + cbn [Server.hrun Server.hstep c_pc c_req set_pc rq_path_ok rq_clen rq_body c_data c_status c_response c_wfile c_calls c_effects negb andb].
        destruct (dispatch (substring 0 n b)) as [[t|] e] eqn:Ed;
          cbn [Server.hrun Server.hstep c_pc c_req set_pc rq_path_ok rq_clen rq_body c_data c_status c_response c_wfile c_calls c_effects fst snd app];
          auto.
      + cbn. auto.
    - cbn. auto.
  Qed.

  (** ** lists *)
  Lemma nth_error_set_nth_same {A} : forall (s : list A) c x y, nth_error s c = Some y -> nth_error (set_nth c x s) c = Some x.
  Proof. induction s as [|a s IH]; intros [|c] x y H; cbn in *; try discriminate; [reflexivity | eauto]. Qed.

  Lemma nth_error_set_nth_other {A} : forall (s : list A) c c' x, c' <> c -> nth_error (set_nth c x s) c' = nth_error s c'.
  Proof.
    induction s as [|a s IH]; intros [|c] [|c'] x H; cbn; try reflexivity; try congruence.
    apply IH. congruence.
  Qed.

  Lemma length_set_nth {A} : forall (s : list A) c x, length (set_nth c x s) = length s.
  Proof. induction s as [|a s IH]; intros [|c] x; cbn; auto. Qed.

  (** inversion of a system step *)
  Lemma step_inv pool s c s' : step pool s c = Some s' ->
    exists cn cn', nth_error s c = Some cn /\ hstep cn = Some cn' /\ s' = set_nth c cn' s.
  Proof.
    unfold Server.step. destruct (nth_error s c) as [cn|] eqn:En; [|discriminate].
    destruct (match c_pc cn with HQueued => active s <? pool | _ => true end); [|discriminate].
    destruct (hstep cn) as [cn'|] eqn:Hs; [|discriminate].
    intros H; inversion H; subst. eauto.
  Qed.

  (** *** footprint: a step of connection c changes the state of connection c only *)
  Theorem handler_footprint pool s c s' : step pool s c = Some s' ->
    length s' = length s /\ (forall c', c' <> c -> nth_error s' c' = nth_error s c')
    /\ (forall cn cn', nth_error s c = Some cn -> nth_error s' c = Some cn' -> c_req cn' = c_req cn).
  Proof.
    intros H. destruct (step_inv _ _ _ _ H) as (cn & cn' & En & Hs & ->).
    split; [apply length_set_nth|]. split.
    - intros c' Hc. now apply nth_error_set_nth_other.
    - intros x y Hx Hy. rewrite (nth_error_set_nth_same _ _ _ _ En) in Hy. rewrite En in Hx.
      inversion Hx; inversion Hy; subst. eapply hstep_req; eauto.
  Qed.

  (** every step of a connection's handler moves that handler strictly towards its end *)
  Theorem step_rank pool s c s' : step pool s c = Some s' ->
    exists cn cn', nth_error s c = Some cn /\ nth_error s' c = Some cn' /\ rank (c_pc cn') < rank (c_pc cn).
  Proof.
    intros H. destruct (step_inv _ _ _ _ H) as (cn & cn' & En & Hs & ->).
    exists cn, cn'. split; [assumption|]. split; [eapply nth_error_set_nth_same; eauto | eapply hstep_rank; eauto].
  Qed.

  (** *** the invariant: the completion of every connection's state is the completion of its own request *)
  Definition HInv (reqs : list request) (s : hstate eff) : Prop :=
    forall c cn, nth_error s c = Some cn -> exists r, nth_error reqs c = Some r /\ complete cn = hfinal r.

  Lemma HInv_init reqs : HInv reqs (init reqs).
  Proof.
    intros c cn H. unfold init in H. destruct (nth_error reqs c) as [r|] eqn:Er.
    - rewrite (map_nth_error _ _ _ Er) in H. inversion H; subst. exists r. split; reflexivity.
    - apply nth_error_None in Er. assert (Hn : nth_error (map (@init_conn eff) reqs) c = None)
        by (apply nth_error_None; now rewrite map_length).
      congruence.
  Qed.

  Lemma HInv_step reqs pool s c s' : HInv reqs s -> step pool s c = Some s' -> HInv reqs s'.
  Proof.
    intros HI H. destruct (step_inv _ _ _ _ H) as (cn & cn' & En & Hs & ->).
    intros c' x Hx. destruct (Nat.eq_dec c' c) as [->|Hne].
    - rewrite (nth_error_set_nth_same _ _ _ _ En) in Hx. inversion Hx; subst.
      destruct (HI _ _ En) as (r & Hr & Hc). exists r. split; [assumption|].
      now rewrite (complete_step _ _ Hs).
    - rewrite nth_error_set_nth_other in Hx by assumption. eauto.
  Qed.

  Lemma HInv_run reqs pool : forall sched s, HInv reqs s -> HInv reqs (run pool sched s).
  Proof.
    induction sched as [|c sched IH]; intros s HI; [assumption|].
    unfold Server.run. cbn [fold_left]. fold (run pool sched).
    destruct (step pool s c) as [s'|] eqn:Hs; apply IH; [eapply HInv_step; eauto | assumption].
  Qed.

  (** *** no cross-talk, exactly-once *)
  Theorem no_crosstalk reqs pool sched c cn :
    nth_error (run pool sched (init reqs)) c = Some cn -> c_pc cn = HDone ->
    exists r, nth_error reqs c = Some r /\ c_wfile cn = Some (reply_of r)
              /\ c_calls cn = (if dispatched r then 1 else 0) /\ c_effects cn = effects_of r.
  Proof.
    intros Hn Hd. destruct (HInv_run reqs pool sched _ (HInv_init reqs) _ _ Hn) as (r & Hr & Hc).
    rewrite (complete_done _ Hd) in Hc. exists r. split; [assumption|].
    destruct (hfinal_closed r) as (_ & Hw & Hcalls & He). rewrite Hc. auto.
  Qed.

  Theorem at_most_once reqs pool sched c cn :
    nth_error (run pool sched (init reqs)) c = Some cn -> c_calls cn <= 1.
  Proof.
    intros Hn. destruct (HInv_run reqs pool sched _ (HInv_init reqs) _ _ Hn) as (r & Hr & Hc).
    pose proof (hrun_calls_mono (rank (c_pc cn)) cn) as Hm. fold (complete cn) in Hm. rewrite Hc in Hm.
    destruct (hfinal_closed r) as (_ & _ & Hcalls & _). rewrite Hcalls in Hm. destruct (dispatched r); lia.
  Qed.

  (** *** fault isolation: what connection c gets depends on the request of c only *)
  Theorem fault_isolation reqs reqs' pool pool' sched sched' c cn cn' :
    nth_error reqs c = nth_error reqs' c ->
    nth_error (run pool sched (init reqs)) c = Some cn -> c_pc cn = HDone ->
    nth_error (run pool' sched' (init reqs')) c = Some cn' -> c_pc cn' = HDone ->
    c_wfile cn = c_wfile cn' /\ c_calls cn = c_calls cn' /\ c_effects cn = c_effects cn'.
  Proof.
    intros He H1 D1 H2 D2.
    destruct (no_crosstalk _ _ _ _ _ H1 D1) as (r & Hr & W1 & C1 & E1).
    destruct (no_crosstalk _ _ _ _ _ H2 D2) as (r' & Hr' & W2 & C2 & E2).
    assert (r = r') by congruence. subst r'. repeat split; congruence.
  Qed.

  (** *** progress: with at least one worker, an unfinished connection never leaves the system stuck *)
  Lemma existsb_false_filter {A} (f : A -> bool) : forall l, existsb f l = false -> filter f l = [].
  Proof.
    induction l as [|a l IH]; cbn; [reflexivity|]. intros H. apply orb_false_iff in H as [Ha Hl]. rewrite Ha. auto.
  Qed.

  Theorem handlers_progress pool s : 1 <= pool ->
    (exists c cn, nth_error s c = Some cn /\ c_pc cn <> HDone) -> exists c s', step pool s c = Some s'.
  Proof.
    intros Hp (c & cn & En & Hnd).
    destruct (existsb is_active s) eqn:Ex.
    - apply existsb_exists in Ex as (x & Hin & Hact). apply In_nth_error in Hin as (c' & Hc').
      destruct (hstep x) as [x'|] eqn:Hs.
      + exists c', (set_nth c' x' s). unfold Server.step. rewrite Hc', Hs.
        unfold is_active in Hact. destruct (c_pc x); try discriminate; reflexivity.
      + apply hstep_none in Hs. unfold is_active in Hact. rewrite Hs in Hact. discriminate.
    - pose proof (existsb_false_filter _ _ Ex) as Hf.
      assert (Hq : c_pc cn = HQueued).
      { assert (Hna : is_active cn = false).
        { destruct (is_active cn) eqn:Ea; [|reflexivity].
          assert (existsb is_active s = true) by (apply existsb_exists; exists cn; split; [eapply nth_error_In; eauto | assumption]).
          congruence. }
        unfold is_active in Hna. destruct (c_pc cn); try discriminate; [reflexivity | congruence]. }
      destruct (hstep cn) as [x'|] eqn:Hs.
      + exists c, (set_nth c x' s). unfold Server.step. rewrite En, Hs, Hq. unfold active. rewrite Hf. cbn [length].
        destruct pool; [lia | reflexivity].
      + apply hstep_none in Hs. congruence.
  Qed.

End HandlerProofs.

(* ================================================================================================ *)
(** * Part 2 — lifecycle *)

(** ** the finite part of the invariant, as a boolean function of the finite components of the state *)
Definition is_closing (m : mpc) : bool :=
  match m with MCloseWait | MCloseSock | MCloseStop | MCloseJoin => true | _ => false end.

Definition finv (k : kind) (p : phase) (m : mpc) (l : lpc) (sr isd fl so po : bool) : bool :=
  let idle_ := match m with MIdle => true | _ => false end in
  let lrun_ := match l with LRun => true | _ => false end in
  let serving_ := match p with PServing => true | _ => false end in
  let closed_ := match p with PClosed => true | _ => false end in
  let done_ := closed_ && idle_ in
  (* between calls, the loop runs exactly in phase Serving, and then nobody has asked it to stop *)
  implb idle_ (Bool.eqb lrun_ serving_)
  && implb (idle_ && negb closed_) (negb sr)
  (* the event is set only by a loop that has left; clear() happens only when no loop runs *)
  && implb isd (negb lrun_)
  && implb (isd && negb closed_) (negb sr)
  && implb (match l with LExit => true | _ => false end) (isd && is_pooled k)
  (* the serving flag *)
  && implb (lrun_ && is_pooled k) fl
  && implb fl (match l with LNone => false | _ => true end)
  && implb (negb (is_pooled k)) (negb fl)
  (* a thread waiting for the event will get it *)
  && implb (match m with MWaitSD | MCloseWait => true | _ => false end) (isd || (lrun_ && sr))
  && implb (match m with MCloseSock | MCloseStop | MCloseJoin => true | _ => false end) (negb lrun_)
  (* where the calling thread can be *)
  && implb (is_closing m) (closed_ && is_pooled k)
  && implb (match m with MWaitSD => true | _ => false end) (match p with PReady => true | _ => false end)
  (* socket and pool *)
  && implb (match m with MCloseStop | MCloseJoin => true | _ => done_ end) (negb so)
  && implb ((match m with MCloseJoin => true | _ => done_ end) && is_pooled k) (negb po)
  && implb (is_pooled k && negb (match p with PFresh => true | _ => false end)
            && negb (match m with MCloseJoin => true | _ => done_ end)) po.

Definition fin_inv (k : kind) (s : lst) : bool :=
  finv k (phase_ s) (mpc_ s) (loop s) (shutdown_request s) (is_shut_down s) (serving_flag s) (socket_open s) (pool_running s).

Definition LInv (k : kind) (s : lst) : Prop :=
  legal_from k (phase_ s) (todo s) = true
  /\ fin_inv k s = true
  /\ (close_returned s = true -> is_pooled k = true -> idle s + in_flight s = 0).

Lemma LInv_init k h : legal k h = true -> LInv k (linit h).
Proof. intros H. split; [exact H|]. split; [destruct k; reflexivity | discriminate]. Qed.

Ltac proj H := cbn [phase_ todo returned mpc_ loop shutdown_request is_shut_down serving_flag socket_open pool_running idle in_flight] in H.
Ltac prune HI := vm_compute in HI; try discriminate HI.

(** exhaustive case analysis over the finite components; the states violating the invariant are pruned first *)
Ltac finite_cases HI k p l sr isd fl so po :=
  destruct k, p, l; destruct sr, isd; try (prune HI; fail); destruct fl, so, po; prune HI.
Ltac finite_cases_m HI k p m l sr isd fl so po :=
  destruct m; finite_cases HI k p l sr isd fl so po.

Lemma fin_inv_step k s a s' : fin_inv k s = true -> lstep k s a = Some s' -> fin_inv k s' = true.
Proof.
  destruct s as [p td ret m l sr isd fl so po id nf]. unfold fin_inv, lstep, lstep_gen.
  cbn [phase_ todo returned mpc_ loop shutdown_request is_shut_down serving_flag socket_open pool_running idle in_flight].
  intros HI H.
  destruct a.
  - (* the calling thread *)
    destruct m.
    + destruct td as [|o r]; [discriminate H|].
      destruct o as [| |[|]| |]; finite_cases HI k p l sr isd fl so po;
        cbn in H; try discriminate H; inversion H; subst; reflexivity.
    + finite_cases HI k p l sr isd fl so po; cbn in H; try discriminate H; inversion H; subst; reflexivity.
    + finite_cases HI k p l sr isd fl so po; cbn in H; try discriminate H; inversion H; subst; reflexivity.
    + finite_cases HI k p l sr isd fl so po; cbn in H; try discriminate H; inversion H; subst; reflexivity.
    + finite_cases HI k p l sr isd fl so po; cbn in H; try discriminate H; inversion H; subst; reflexivity.
    + finite_cases HI k p l sr isd fl so po; destruct id as [|i], nf as [|n]; cbn in H; try discriminate H; inversion H; subst; reflexivity.
  - (* the serving thread *)
    finite_cases_m HI k p m l sr isd fl so po; cbn in H; try discriminate H;
      try (destruct nf; cbn in H; try discriminate H); inversion H; subst; reflexivity.
  - (* a handler finishes: no finite component changes *)
    cbn in H. destruct nf; [discriminate H|]. inversion H; subst. exact HI.
  - unfold worker_step in H; proj H. destruct id; [discriminate H|]. inversion H; subst. exact HI.
Qed.

Lemma legal_step k s a s' : legal_from k (phase_ s) (todo s) = true -> lstep k s a = Some s' ->
  legal_from k (phase_ s') (todo s') = true.
Proof.
  destruct s as [p td ret m l sr isd fl so po id nf]. unfold lstep, lstep_gen.
  cbn [phase_ todo]. intros HA H.
  destruct a.
  - unfold main_step in H; proj H; destruct m.
    + destruct td as [|o r]; [discriminate H|]. cbn [legal_from] in HA.
      destruct (next_phase k p o) as [p'|]; [|discriminate HA].
      destruct o as [| |[|]| |]; try (inversion H; subst; exact HA).
      * destruct l; try discriminate H; inversion H; subst; exact HA.
      * destruct k; [inversion H; subst; exact HA|]. destruct fl; inversion H; subst; exact HA.
    + destruct isd; [|discriminate H]. inversion H; subst; exact HA.
    + destruct isd; [|discriminate H]. inversion H; subst; exact HA.
    + inversion H; subst; exact HA.
    + destruct po; inversion H; subst; exact HA.
    + destruct (id + nf); [|discriminate H]. inversion H; subst; exact HA.
  - unfold loop_step in H; proj H. destruct l; try discriminate H.
    + destruct (sr && (is_pooled k || Nat.eqb nf 0)); [|discriminate H]. inversion H; subst; exact HA.
    + inversion H; subst; exact HA.
  - unfold handler_step in H; proj H. destruct nf; [discriminate H|]. inversion H; subst; exact HA.
  - unfold worker_step in H; proj H. destruct id; [discriminate H|]. inversion H; subst; exact HA.
Qed.

Lemma workers_step k s a s' : LInv k s -> lstep k s a = Some s' ->
  close_returned s' = true -> is_pooled k = true -> idle s' + in_flight s' = 0.
Proof.
  intros (HA & HI & HW) H.
  destruct s as [p td ret m l sr isd fl so po id nf]. unfold lstep, lstep_gen, fin_inv, close_returned in *.
  cbn [phase_ todo returned mpc_ loop shutdown_request is_shut_down serving_flag socket_open pool_running idle in_flight] in *.
  destruct a.
  - unfold main_step in H; proj H; destruct m.
    + destruct td as [|o r]; [discriminate H|].
      destruct (next_phase k p o) as [p'|] eqn:En; [|discriminate H].
      destruct o as [| |[|]| |].
      * inversion H; subst. cbn. destruct p, k; cbn in En; try discriminate En; inversion En; subst; discriminate.
      * destruct l; try discriminate H. inversion H; subst. cbn. destruct p, k; cbn in En; try discriminate En; inversion En; subst; discriminate.
      * inversion H; subst. cbn. destruct p, k; cbn in En; try discriminate En; inversion En; subst; discriminate.
      * inversion H; subst. cbn. destruct p, k; cbn in En; try discriminate En; inversion En; subst; discriminate.
      * inversion H; subst. cbn. destruct p'; discriminate.
      * destruct k; [intros _ Hk; discriminate Hk|]. destruct fl; inversion H; subst; cbn; destruct p'; discriminate.
    + destruct isd; [|discriminate H]. inversion H; subst. cbn.
      (* a returning shutdown() is in phase Ready *)
      destruct k, p, l, sr, fl, so, po; prune HI; cbn; discriminate.
    + destruct isd; [|discriminate H]. inversion H; subst. cbn. destruct p; discriminate.
    + inversion H; subst. cbn. destruct p; discriminate.
    + destruct po.
      * inversion H; subst. cbn. destruct p; discriminate.
      * (* unreachable: the pool is running until this very call stops it *)
        destruct k, p, l, sr, isd, fl, so; prune HI.
    + destruct (id + nf) eqn:Es; [|discriminate H]. inversion H; subst. cbn. intros _ _. exact Es.
  - unfold loop_step in H; proj H. destruct l; try discriminate H.
    + destruct (sr && (is_pooled k || Nat.eqb nf 0)); [|discriminate H]. inversion H; subst. cbn. exact HW.
    + inversion H; subst. cbn. exact HW.
  - unfold handler_step in H; proj H. destruct nf as [|n]; [discriminate H|]. inversion H; subst. cbn.
    intros Hc Hk. specialize (HW Hc Hk). lia.
  - unfold worker_step in H; proj H. destruct id as [|n]; [discriminate H|]. inversion H; subst. cbn.
    intros Hc Hk. specialize (HW Hc Hk). lia.
Qed.

Lemma LInv_step k s a s' : LInv k s -> lstep k s a = Some s' -> LInv k s'.
Proof.
  intros HI H. pose proof HI as (HA & HF & HW).
  split; [eapply legal_step; eauto|]. split; [eapply fin_inv_step; eauto | eapply workers_step; eauto].
Qed.

Lemma LInv_run k : forall sched s, LInv k s -> LInv k (lrun k sched s).
Proof.
  induction sched as [|a sched IH]; intros s HI; [assumption|].
  unfold lrun, lrun_gen. cbn [fold_left]. fold (lrun_gen serving_flag k sched). fold (lrun k sched).
  fold (lstep k s a). destruct (lstep k s a) as [s'|] eqn:Hs; apply IH; [eapply LInv_step; eauto | assumption].
Qed.

(** *** closed state *)
Theorem closed_state k h sched :
  legal k h = true ->
  let s := lrun k sched (linit h) in
  close_returned s = true ->
  socket_open s = false /\ loop_running s = false
  /\ (is_pooled k = true -> pool_running s = false /\ idle s + in_flight s = 0).
Proof.
  intros Hl s Hc. pose proof (LInv_run k sched _ (LInv_init k h Hl)) as (HA & HI & HW). fold s in HA, HI, HW.
  revert Hc HI HW. generalize s. clear. intros s.
  destruct s as [p td ret m l sr isd fl so po id nf]. unfold fin_inv, close_returned, loop_running.
  cbn [phase_ todo returned mpc_ loop shutdown_request is_shut_down serving_flag socket_open pool_running idle in_flight].
  intros Hc HI HW. destruct p; try discriminate Hc. destruct m; try discriminate Hc.
  split; [|split].
  - destruct k, l, sr, isd, fl, so, po; prune HI; reflexivity.
  - destruct k, l, sr, isd, fl, so, po; prune HI; reflexivity.
  - intros Hk. split; [|auto]. destruct k; [discriminate Hk|].
    destruct l, sr, isd, fl, so, po; prune HI; reflexivity.
Qed.

(** *** termination, ranking form *)

(** (b) every step of every thread decreases the measure: no infinite run *)
Theorem measure_decreases k s a s' : lstep k s a = Some s' -> lmeasure s' < lmeasure s.
Proof.
  destruct s as [p td ret m l sr isd fl so po id nf]. unfold lstep, lstep_gen, lmeasure.
  cbn [phase_ todo returned mpc_ loop shutdown_request is_shut_down serving_flag socket_open pool_running idle in_flight].
  intros H. destruct a.
  - unfold main_step in H; proj H; destruct m.
    + destruct td as [|o r]; [discriminate H|].
      destruct (next_phase k p o) as [p'|]; [|discriminate H].
      assert (Hsum : list_sum (map opcost (o :: r)) = opcost o + list_sum (map opcost r)) by reflexivity.
      rewrite Hsum; clear Hsum.
      destruct o as [| |[|]| |]; cbn [opcost].
      * inversion H; subst; cbn [mcost lcost todo mpc_ loop idle in_flight]. lia.
      * destruct l; try discriminate H. inversion H; subst; cbn [mcost lcost todo mpc_ loop idle in_flight]. lia.
      * inversion H; subst; cbn [mcost lcost todo mpc_ loop idle in_flight]. lia.
      * destruct id as [|i], (is_pooled k); cbn [Nat.max] in H; inversion H; subst; cbn [mcost lcost todo mpc_ loop idle in_flight]; lia.
      * inversion H; subst; cbn [mcost lcost todo mpc_ loop idle in_flight]. lia.
      * destruct k; [|destruct fl]; inversion H; subst; cbn [mcost lcost todo mpc_ loop idle in_flight]; lia.
    + destruct isd; [|discriminate H]. inversion H; subst; cbn [mcost lcost todo mpc_ loop idle in_flight]. lia.
    + destruct isd; [|discriminate H]. inversion H; subst; cbn [mcost lcost todo mpc_ loop idle in_flight]. lia.
    + inversion H; subst; cbn [mcost lcost todo mpc_ loop idle in_flight]. lia.
    + destruct po; inversion H; subst; cbn [mcost lcost todo mpc_ loop idle in_flight]; lia.
    + destruct (id + nf); [|discriminate H]. inversion H; subst; cbn [mcost lcost todo mpc_ loop idle in_flight]. lia.
  - unfold loop_step in H; proj H. destruct l; try discriminate H.
    + destruct (sr && (is_pooled k || Nat.eqb nf 0)); [|discriminate H].
      inversion H; subst; cbn [mcost lcost todo mpc_ loop idle in_flight]. destruct (is_pooled k); cbn [lcost]; lia.
    + inversion H; subst; cbn [mcost lcost todo mpc_ loop idle in_flight]. lia.
  - unfold handler_step in H; proj H. destruct nf as [|n]; [discriminate H|]. inversion H; subst; cbn [mcost lcost todo mpc_ loop idle in_flight].
    destruct (is_pooled k); lia.
  - unfold worker_step in H; proj H. destruct id as [|n]; [discriminate H|]. inversion H; subst; cbn [mcost lcost todo mpc_ loop idle in_flight]. lia.
Qed.

(** (a) while a call of the history has not returned, some thread can move: the calling thread itself, or the
    serving thread, an in-flight handler or a pool worker (the ones it is waiting for) *)
Lemma progress_inv k s : LInv k s -> main_finished s = false -> exists s', pick_step serving_flag k s = Some s'.
Proof.
  intros (HA & HI & _).
  destruct s as [p td ret m l sr isd fl so po id nf]. unfold fin_inv, main_finished, pick_step, lstep_gen in *.
  cbn [phase_ todo returned mpc_ loop shutdown_request is_shut_down serving_flag socket_open pool_running idle in_flight] in *.
  intros Hm.
  destruct m.
  - destruct td as [|o r]; [discriminate Hm|]. clear Hm.
    destruct o as [| |[|]| |]; finite_cases HI k p l sr isd fl so po; cbn in HA; try discriminate HA; cbn; eauto.
  - clear Hm. finite_cases HI k p l sr isd fl so po; cbn; eauto; destruct nf; cbn; eauto.
  - clear Hm. finite_cases HI k p l sr isd fl so po; cbn; eauto; destruct nf; cbn; eauto.
  - clear Hm. cbn. eauto.
  - clear Hm. cbn. destruct po; eauto.
  - clear Hm. cbn. destruct id as [|i], nf as [|n]; cbn; eauto;
      destruct l; cbn; eauto; destruct (sr && (is_pooled k || false)); cbn; eauto; destruct (sr && (is_pooled k || true)); eauto.
Qed.

Lemma pick_step_actor w k s s' : pick_step w k s = Some s' -> exists a, lstep_gen w k s a = Some s'.
Proof.
  unfold pick_step. intros H.
  destruct (lstep_gen w k s AMain) eqn:E1; [inversion H; subst; eauto|].
  destruct (lstep_gen w k s ALoop) eqn:E2; [inversion H; subst; eauto|].
  destruct (lstep_gen w k s AHandler) eqn:E3; [inversion H; subst; eauto|]. eauto.
Qed.

Theorem close_terminates k h sched :
  legal k h = true ->
  let s := lrun k sched (linit h) in
  (main_finished s = false -> exists a s', lstep k s a = Some s')
  /\ (forall a s', lstep k s a = Some s' -> lmeasure s' < lmeasure s).
Proof.
  intros Hl s. split.
  - intros Hm. pose proof (LInv_run k sched _ (LInv_init k h Hl)) as HI. fold s in HI.
    destruct (progress_inv k s HI Hm) as (s' & Hp). destruct (pick_step_actor _ _ _ _ Hp) as (a & Ha). eauto.
  - intros a s'. apply measure_decreases.
Qed.

(** corollary, executable form: the fair executor of the model returns from every call of a legal history *)
Lemma lexec_finishes k : forall fuel s, LInv k s -> lmeasure s < fuel -> main_finished (lexec serving_flag fuel k s) = true.
Proof.
  induction fuel as [|f IH]; intros s HI Hf; [lia|].
  cbn [lexec]. destruct (pick_step serving_flag k s) as [s'|] eqn:Hp.
  - destruct (pick_step_actor _ _ _ _ Hp) as (a & Ha).
    apply IH; [eapply LInv_step; eauto|]. pose proof (measure_decreases k s a s' Ha). lia.
  - destruct (main_finished s) eqn:Hm; [reflexivity|].
    destruct (progress_inv k s HI Hm) as (s' & Hs'). congruence.
Qed.

Theorem all_calls_return k h : legal k h = true ->
  main_finished (lexec serving_flag (S (lmeasure (linit h))) k (linit h)) = true.
Proof. intros Hl. apply lexec_finishes; [now apply LInv_init | lia]. Qed.
