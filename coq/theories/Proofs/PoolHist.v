(** The future of a task is completed only by the worker that began its body. *)
From JR Require Import PoolInvDefs PoolInvA PoolInvB PoolInvC PoolSafety.

Definition running_t (t : nat) (x : wst) : bool :=
  match wpc x with WBody | WTaskDone => held_is t x | _ => false end.

Definition I_hist (s : st) : Prop :=
  (forall t, tdone s t = true -> (1 <= tstarts s t)%nat) /\
  (forall w t, running_t t (ws s w) = true -> (1 <= tstarts s t)%nat).

Lemma P_hist s t f s' : I_hist s -> step s t f = Some s' -> I_hist s'.
Proof.
  intros [H1 H2] H. unfold I_hist.
  open_step2 H; use_lockop; simp.
  all: split; [ intros t' Hd; pose proof (H1 t') as Hx | intros w' t' Hr; pose proof (H2 w' t') as Hx ]; simp.
  all: try solve [revert Hx; try revert Hd; try revert Hr; split_upd; simp; unfold running_t, held_is in *; simp;
                  tstart_cases; eqb_cases; intros; try discriminate; try lia; auto;
                  try (match goal with Ew : ws ?s1 ?w = _ |- _ =>
                         let X := fresh in pose proof (H2 w) as X; rewrite Ew in X; unfold running_t, held_is in X; simp;
                         eapply X; rewrite Nat.eqb_refl; reflexivity end)].
  - (* WBegin *)
    revert Hr Hx. split_upd; simp; rewrite ?Ew; unfold running_t, held_is; simp;
      intros Hr Hx; tstart_cases; try lia; try (apply Nat.eqb_eq in Hr; congruence); try (apply Hx; exact Hr).
  - (* WBody -> WTaskDone: same task *)
    revert Hr Hx. split_upd; simp; rewrite ?Ew; unfold running_t, held_is; simp; auto;
    try (intros Hr _; apply (H2 w t'); rewrite Ew; unfold running_t, held_is; simp; exact Hr).
Qed.

Theorem reachable_hist mx mn progs sched : I_hist (run sched (init mx mn progs)).
Proof.
  assert (Hr : forall sched s, I_hist s -> I_hist (run sched s)).
  { clear. induction sched as [|[t f] r IH]; intros s H; cbn [run]; [exact H|].
    apply IH. destruct (step s t f) eqn:E; [eapply P_hist; eauto | exact H]. }
  apply Hr. split; [intros t Hd; discriminate | intros w t Hx; discriminate].
Qed.

(** C09: a future is done only if the body of its task began exactly once (and it is completed by
    the worker that ran that body: [tdone] is written by the WBody step alone) *)
Theorem future_done_means_ran_once mx mn progs sched t :
  valid_cfg mx mn ->
  tdone (run sched (init mx mn progs)) t = true -> tstarts (run sched (init mx mn progs)) t = 1%nat.
Proof.
  intros Hv Hd. destruct (reachable_hist mx mn progs sched) as [H1 _].
  pose proof (H1 t Hd). pose proof (at_most_once mx mn progs sched t Hv). lia.
Qed.
