(** * DispatchProofs — lemmas about Model/Dispatch.v shared by properties C02, C03, C04, C05, C13. *)
From JR Require Import Dispatch.
From Coq Require Import Lia.

(** ** Reply objects *)

Lemma wf_err_obj f i c m : wf_obj (err_obj f i c m) = true.
Proof. destruct f; reflexivity. Qed.

Lemma wf_resp_obj f i v : wf_obj (resp_obj f i v) = true.
Proof. destruct f; reflexivity. Qed.

Lemma dumpable_err_obj f i c m : dumpable i = true -> dumpable (err_obj f i c m) = true.
Proof. intros H. destruct f; cbn; rewrite H; reflexivity. Qed.

Lemma dumpable_resp_obj f i v : dumpable i = true -> dumpable v = true -> dumpable (resp_obj f i v) = true.
Proof. intros H1 H2. destruct f; cbn; rewrite H1, H2; reflexivity. Qed.

Lemma reply_id_err f i c m : reply_id (err_obj f i c m) = Some i.
Proof. destruct f; reflexivity. Qed.

Lemma reply_id_resp f i v : reply_id (resp_obj f i v) = Some i.
Proof. destruct f; reflexivity. Qed.

Lemma reply_code_err f i c m : reply_code (err_obj f i c m) = Some (VInt c).
Proof. destruct f; reflexivity. Qed.

Lemma reply_message_err f i c m : reply_message (err_obj f i c m) = Some (VStr m).
Proof. destruct f; reflexivity. Qed.

Lemma reply_code_resp f i v : reply_code (resp_obj f i v) = None.
Proof. destruct f; reflexivity. Qed.

Lemma reply_form_err f i c m : reply_form (err_obj f i c m) = Some f.
Proof. destruct f; reflexivity. Qed.

Lemma reply_form_resp f i v : reply_form (resp_obj f i v) = Some f.
Proof. destruct f; reflexivity. Qed.

(** ** Strings *)

Lemma prefixb_app a b : prefixb a (a ++ b) = true.
Proof. induction a as [|x a IH]; cbn; [reflexivity|]. now rewrite Ascii.eqb_refl, IH. Qed.

Lemma substrb_app_l a x : substrb x (a ++ x) = true -> forall c, substrb x (c ++ a ++ x) = true.
Proof.
  intros H c. induction c as [|y c IH]; [exact H|].
  change ((String y c ++ a ++ x)%string) with (String y (c ++ a ++ x)).
  cbn [substrb]. rewrite IH. apply orb_true_r.
Qed.

Lemma substrb_app_r x s : substrb x s = true -> forall c, substrb x (c ++ s) = true.
Proof.
  intros H c. induction c as [|y c IH]; [exact H|].
  change ((String y c ++ s)%string) with (String y (c ++ s)).
  cbn [substrb]. rewrite IH. apply orb_true_r.
Qed.

Lemma substrb_mid a x b : substrb x (a ++ x ++ b) = true.
Proof.
  induction a as [|y a IH].
  - change (("" ++ x ++ b)%string) with ((x ++ b)%string).
    destruct (x ++ b)%string eqn:E; cbn [substrb].
    + destruct x; [reflexivity|discriminate].
    + rewrite <- E. now rewrite prefixb_app.
  - change ((String y a ++ x ++ b)%string) with (String y (a ++ x ++ b)).
    cbn [substrb]. rewrite IH. apply orb_true_r.
Qed.

Lemma substrb_end a x : substrb x (a ++ x) = true.
Proof.
  assert (H := substrb_mid a x ""). 
  assert (E : forall s : string, (s ++ "")%string = s).
  { induction s; cbn; congruence. }
  now rewrite E in H.
Qed.

(** ** resolve_dotted_attribute rejects every name with an underscore segment *)

Lemma resolve_private segs : forall a,
  existsb starts_with_underscore segs = true -> resolve_segs a segs = None.
Proof.
  induction segs as [|s r IH]; intros a H; [discriminate|].
  cbn [existsb] in H. cbn [resolve_segs].
  destruct (starts_with_underscore s) eqn:Hs; [reflexivity|].
  cbn [orb] in H. destruct a; try reflexivity.
  destruct (lookup s children); [apply IH; exact H|reflexivity].
Qed.

(** ** Validation *)

Lemma is_notification_no_id m : is_notification m = no_id (VDict m).
Proof. unfold is_notification, no_id. destruct (dget m "id") as [[]|]; reflexivity. Qed.

Lemma validate_spec srvf e :
  match validate_request srvf e with
  | Valid m s p =>
      e = VDict m /\ wellformed_entry e = true /\ method_of e = Some s /\ s <> ""
      /\ p = params_of e /\ dumpable (request_id m) = true /\ request_id m = usable_id e
  | Invalid ft =>
      wellformed_entry e = false /\ ft_code ft = -32600 /\ ft_form ft = srvf /\ ft_rpcid ft = usable_id e
  end.
Proof.
  destruct e; try (cbn; repeat split; reflexivity).
  unfold validate_request, request_id, has_version, wellformed_entry, usable_id, method_of, params_of, dhas,
    is_param_container.
  destruct (dget m "id") as [i|] eqn:Hid;
    [destruct (dumpable i) eqn:Hd|];
    destruct (dget m "jsonrpc") eqn:Hj;
    destruct (dget m "method") as [[]|] eqn:Hm;
    try destruct (String.eqb s "") eqn:Hs;
    destruct (dget m "params") as [p|] eqn:Hp;
    try destruct (is_list p || is_dict p || is_tuple p) eqn:Hc;
    cbn; rewrite ?Hid, ?Hd; cbn;
    repeat split; try reflexivity; try (intros ->; discriminate).
Qed.

(** ** The dispatcher, for arbitrary callables *)

Section Proofs.
  Variable body : cid -> val -> outcome.
  Variable sigs : cid -> signature.

  (** a value some callable returns *)
  Definition returned (v : val) : Prop := exists c a, body c a = Return v.

  (** conversion of a result under the request's configuration *)
  Definition conv (jc : bool) (v : val) : res val := if jc then convert v else Ok v.

  (** hypothesis of C02 on the callables: what they return stays JSON-representable after conversion *)
  Definition results_dumpable (jc : bool) : Prop :=
    forall c a v v', body c a = Return v -> conv jc v = Ok v' -> dumpable v' = true.

  Lemma call_func_returned c p v l : call_func body sigs c p = (DVal v, l) -> returned v.
  Proof.
    unfold call_func. destruct (call_binds (sigs c) p); [|discriminate].
    destruct (body c p) eqn:E; try discriminate.
    - intros H. inversion H; subst. now exists c, p.
    - destruct (String.eqb cls "TypeError"); discriminate.
  Qed.

  Lemma call_dispatcher_returned d s p v l : call_dispatcher body d s p = (DVal v, l) -> returned v.
  Proof.
    unfold call_dispatcher. destruct (body d (dispatch_args s p)) eqn:E; try discriminate.
    intros H. inversion H; subst. now exists d, (dispatch_args s p).
  Qed.

  Lemma dispatch_resolved_returned inst s p v l :
    dispatch_resolved body sigs inst s p = (DVal v, l) -> returned v.
  Proof.
    unfold dispatch_resolved, unknown_method.
    destruct (resolve_segs _ _) as [[]|]; try discriminate. apply call_func_returned.
  Qed.

  Lemma dispatch_returned reg s p v l : dispatch body sigs reg s p = (DVal v, l) -> returned v.
  Proof.
    unfold dispatch, unknown_method.
    destruct (lookup s (r_funcs reg)); [apply call_func_returned|].
    destruct (r_instance reg) as [inst|]; [|discriminate].
    destruct (i_dispatch inst) as [d|]; [|apply dispatch_resolved_returned].
    destruct (call_dispatcher body d s p) as [[] ev] eqn:E.
    - intros H. inversion H; subst. eapply call_dispatcher_returned; eauto.
    - discriminate.
    - destruct (String.eqb cls "AttributeError"); [|discriminate].
      destruct (dispatch_resolved body sigs inst s p) as [r ev'] eqn:E2.
      intros H. inversion H; subst. eapply dispatch_resolved_returned; eauto.
  Qed.

  Lemma run_target_returned reg dm s p v l : run_target body sigs reg dm s p = (DVal v, l) -> returned v.
  Proof.
    destruct dm; cbn; [apply call_dispatcher_returned|apply dispatch_returned].
  Qed.

  (** *** Shape of a single dispatch *)

  Definition answer_shape (jc : bool) (f : form) (i o : val) : Prop :=
    (exists v v', returned v /\ conv jc v = Ok v' /\ o = resp_obj f i v')
    \/ (exists c msg, o = err_obj f i c msg).

  Lemma single_spec srvf srv dm m s p :
    match single_dispatch body sigs srvf srv dm m s p with
    | (None, _) => is_notification m = true
    | (Some o, _) => is_notification m = false
                     /\ answer_shape (sv_jsonclass srv) (request_form srvf m) (request_id m) o
    end.
  Proof.
    unfold single_dispatch, single_dispatch_with.
    destruct (is_notification m) eqn:Hn.
    - destruct (sv_pool srv); cbn [andb]; [reflexivity|].
      destruct (run_target body sigs (sv_reg srv) dm s p) as [[] log]; reflexivity.
    - cbn [andb].
      destruct (run_target body sigs (sv_reg srv) dm s p) as [[v|c msg|cls msg] log] eqn:E.
      + fold (conv (sv_jsonclass srv) v). destruct (conv (sv_jsonclass srv) v) as [v'|x] eqn:Ec.
        * split; [reflexivity|]. left. exists v, v'. repeat split; auto. eapply run_target_returned; eauto.
        * split; [reflexivity|]. right. eauto.
      + split; [reflexivity|]. right. eauto.
      + split; [reflexivity|]. right. eauto.
  Qed.

  (** *** One entry *)

  Lemma notification_entry_dict m : wellformed_entry (VDict m) = true ->
    is_notification_entry (VDict m) = is_notification m.
  Proof. intros H. unfold is_notification_entry. rewrite H, is_notification_no_id. reflexivity. Qed.

  Lemma answer_entry_spec srvf srv dm e :
    match answer_entry body sigs srvf srv dm e with
    | (None, _) => is_notification_entry e = true
    | (Some o, _) =>
        is_notification_entry e = false
        /\ ((wellformed_entry e = false /\ exists msg, o = err_obj srvf (usable_id e) (-32600) msg)
            \/ (exists m, e = VDict m /\ wellformed_entry e = true
                /\ answer_shape (sv_jsonclass srv) (request_form srvf m) (usable_id e) o))
    end.
  Proof.
    unfold answer_entry. pose proof (validate_spec srvf e) as V.
    destruct (validate_request srvf e) as [ft|m s p].
    - destruct V as (Hw & Hc & Hf & Hi). split.
      + unfold is_notification_entry. now rewrite Hw.
      + left. split; [exact Hw|]. unfold fault_dump. rewrite Hc, Hf, Hi. eauto.
    - destruct V as (-> & Hw & Hm & Hs & Hp & Hd & Hi).
      pose proof (single_spec srvf srv dm m s p) as S.
      destruct (single_dispatch body sigs srvf srv dm m s p) as [[o|] log].
      + destruct S as [Hn Sh]. split.
        * rewrite notification_entry_dict; auto.
        * right. exists m. rewrite <- Hi. auto.
      + rewrite notification_entry_dict; auto.
  Qed.

  Lemma answer_entry_none_iff srvf srv dm e :
    fst (answer_entry body sigs srvf srv dm e) = None <-> is_notification_entry e = true.
  Proof.
    pose proof (answer_entry_spec srvf srv dm e) as A.
    destruct (answer_entry body sigs srvf srv dm e) as [[o|] log]; cbn.
    - destruct A as [A _]. rewrite A. split; discriminate.
    - tauto.
  Qed.

  Lemma answer_shape_id jc f i o : answer_shape jc f i o -> reply_id o = Some i.
  Proof.
    intros [(v & v' & _ & _ & ->)|(c & msg & ->)]; [apply reply_id_resp|apply reply_id_err].
  Qed.

  Lemma answer_shape_wf jc f i o : answer_shape jc f i o -> wf_obj o = true.
  Proof.
    intros [(v & v' & _ & _ & ->)|(c & msg & ->)]; [apply wf_resp_obj|apply wf_err_obj].
  Qed.

  Lemma answer_shape_form jc f i o : answer_shape jc f i o -> reply_form o = Some f.
  Proof.
    intros [(v & v' & _ & _ & ->)|(c & msg & ->)]; [apply reply_form_resp|apply reply_form_err].
  Qed.

  Lemma answer_shape_dumpable jc f i o :
    results_dumpable jc -> dumpable i = true -> answer_shape jc f i o -> dumpable o = true.
  Proof.
    intros R Hi [(v & v' & (c & a & Hb) & Hc & ->)|(c & msg & ->)].
    - apply dumpable_resp_obj; auto. eapply R; eauto.
    - now apply dumpable_err_obj.
  Qed.

  Lemma usable_id_dumpable e : dumpable (usable_id e) = true.
  Proof.
    destruct e; try reflexivity. cbn. destruct (dget m "id") as [i|]; [|reflexivity].
    destruct (dumpable i) eqn:E; auto.
  Qed.

  (** every answer echoes the entry's usable id *)
  Lemma id_echo srvf srv dm e o log :
    answer_entry body sigs srvf srv dm e = (Some o, log) -> reply_id o = Some (usable_id e).
  Proof.
    intros H. pose proof (answer_entry_spec srvf srv dm e) as A. rewrite H in A.
    destruct A as [_ [(_ & msg & ->)|(m & _ & _ & Sh)]].
    - apply reply_id_err.
    - eapply answer_shape_id; eauto.
  Qed.

  Lemma answer_wf srvf srv dm e o log :
    answer_entry body sigs srvf srv dm e = (Some o, log) -> wf_obj o = true.
  Proof.
    intros H. pose proof (answer_entry_spec srvf srv dm e) as A. rewrite H in A.
    destruct A as [_ [(_ & msg & ->)|(m & _ & _ & Sh)]].
    - apply wf_err_obj.
    - eapply answer_shape_wf; eauto.
  Qed.

  Lemma answer_dumpable srvf srv dm e o log :
    results_dumpable (sv_jsonclass srv) ->
    answer_entry body sigs srvf srv dm e = (Some o, log) -> dumpable o = true.
  Proof.
    intros R H. pose proof (answer_entry_spec srvf srv dm e) as A. rewrite H in A.
    destruct A as [_ [(_ & msg & ->)|(m & _ & _ & Sh)]].
    - apply dumpable_err_obj, usable_id_dumpable.
    - eapply answer_shape_dumpable; eauto. apply usable_id_dumpable.
  Qed.

  (** *** Batches: induction over the entry list *)

  Lemma batch_cons srvf srv dm e r :
    batch body sigs srvf srv dm (e :: r) =
    ((opt_list (fst (answer_entry body sigs srvf srv dm e)) ++ fst (batch body sigs srvf srv dm r))%list,
     (snd (answer_entry body sigs srvf srv dm e) ++ snd (batch body sigs srvf srv dm r))%list).
  Proof.
    cbn [batch]. destruct (answer_entry body sigs srvf srv dm e) as [o l].
    destruct (batch body sigs srvf srv dm r) as [os ls]. reflexivity.
  Qed.

  Lemma batch_answers srvf srv dm es :
    fst (batch body sigs srvf srv dm es)
    = flat_map (fun e => opt_list (fst (answer_entry body sigs srvf srv dm e))) es.
  Proof.
    induction es as [|e r IH]; [reflexivity|].
    rewrite batch_cons. cbn [fst flat_map]. now rewrite IH.
  Qed.

  Lemma batch_log srvf srv dm es :
    snd (batch body sigs srvf srv dm es)
    = flat_map (fun e => snd (answer_entry body sigs srvf srv dm e)) es.
  Proof.
    induction es as [|e r IH]; [reflexivity|].
    rewrite batch_cons. cbn [snd flat_map]. now rewrite IH.
  Qed.

  Lemma batch_app srvf srv dm es1 es2 :
    batch body sigs srvf srv dm (es1 ++ es2) =
    ((fst (batch body sigs srvf srv dm es1) ++ fst (batch body sigs srvf srv dm es2))%list,
     (snd (batch body sigs srvf srv dm es1) ++ snd (batch body sigs srvf srv dm es2))%list).
  Proof.
    induction es1 as [|e r IH].
    - cbn. now destruct (batch body sigs srvf srv dm es2).
    - change ((e :: r) ++ es2)%list with (e :: (r ++ es2))%list.
      rewrite !batch_cons, IH. cbn [fst snd]. now rewrite !app_assoc.
  Qed.

  (** one response per entry that expects one, in entry order, each with its entry's id *)
  Lemma batch_one_to_one srvf srv dm es :
    map reply_id (fst (batch body sigs srvf srv dm es))
    = map (fun e => Some (usable_id e)) (filter expects_answer es).
  Proof.
    induction es as [|e r IH]; [reflexivity|].
    rewrite batch_cons. cbn [fst filter]. rewrite map_app, IH.
    pose proof (answer_entry_spec srvf srv dm e) as A.
    destruct (answer_entry body sigs srvf srv dm e) as [[o|] l] eqn:E; cbn [fst opt_list].
    - destruct A as [A _]. unfold expects_answer. rewrite A. cbn [negb map app].
      now rewrite (id_echo _ _ _ _ _ _ E).
    - unfold expects_answer. rewrite A. reflexivity.
  Qed.

  Lemma batch_length srvf srv dm es :
    length (fst (batch body sigs srvf srv dm es)) = length (filter expects_answer es).
  Proof.
    pose proof (batch_one_to_one srvf srv dm es) as H.
    apply (f_equal (@length _)) in H. now rewrite !map_length in H.
  Qed.

  Lemma batch_wf srvf srv dm es :
    forallb wf_obj (fst (batch body sigs srvf srv dm es)) = true.
  Proof.
    induction es as [|e r IH]; [reflexivity|].
    rewrite batch_cons. cbn [fst]. rewrite forallb_app, IH, andb_true_r.
    destruct (answer_entry body sigs srvf srv dm e) as [[o|] l] eqn:E; cbn; [|reflexivity].
    now rewrite (answer_wf _ _ _ _ _ _ E).
  Qed.

  Lemma batch_dumpable srvf srv dm es :
    results_dumpable (sv_jsonclass srv) ->
    forallb dumpable (fst (batch body sigs srvf srv dm es)) = true.
  Proof.
    intros R. induction es as [|e r IH]; [reflexivity|].
    rewrite batch_cons. cbn [fst]. rewrite forallb_app, IH, andb_true_r.
    destruct (answer_entry body sigs srvf srv dm e) as [[o|] l] eqn:E; cbn; [|reflexivity].
    now rewrite (answer_dumpable _ _ _ _ _ _ R E).
  Qed.

  (** the i-th answerable entry is answered by the i-th response *)
  Lemma batch_positions srvf srv dm es i :
    option_map reply_id (nth_error (fst (batch body sigs srvf srv dm es)) i)
    = option_map (fun e => Some (usable_id e)) (nth_error (filter expects_answer es) i).
  Proof.
    rewrite <- !nth_error_map. now rewrite batch_one_to_one.
  Qed.

End Proofs.
