(** Preservation: task placement invariants I_once, I_fresh, I_place. *)
From JR Require Import PoolInvDefs PoolInvA PoolInvB.

Ltac eqb_cases :=
  repeat match goal with
  | |- context [Nat.eqb ?a ?b] => let E := fresh "Eq" in destruct (Nat.eqb a b) eqn:E; [apply Nat.eqb_eq in E; try subst | apply Nat.eqb_neq in E]
  | H : context [Nat.eqb ?a ?b] |- _ => let E := fresh "Eq" in destruct (Nat.eqb a b) eqn:E; [apply Nat.eqb_eq in E; try subst | apply Nat.eqb_neq in E]
  end.

Ltac pred_simp :=
  cbn [holds_pre holds_any holding serving held_is item_eqb qocc wpc wheld wclean b2n negb andb length] in *.

Lemma holds_pre_any t x : holds_pre t x = true -> holds_any t x = true.
Proof. unfold holds_pre, holds_any. destruct (wpc x); auto; discriminate. Qed.

Definition I_done (s : st) : Prop :=
  forall w t, wpc (ws s w) = WTaskDone -> held_is t (ws s w) = true -> tdone s t = true.

Ltac tstart_cases :=
  repeat match goal with
  | |- context [upd ?f ?i ?a ?j] => destruct (Nat.eq_dec j i); [subst; rewrite !upd_same | rewrite !upd_other by assumption]
  | H : context [upd ?f ?i ?a ?j] |- _ => destruct (Nat.eq_dec j i); [subst; rewrite !upd_same in H | rewrite !upd_other in H by assumption]
  end.

Lemma P_once s t f s' : I_created s -> I_wf s -> I_fresh s -> I_once s -> step s t f = Some s' -> I_once s'.
Proof.
  intros Hcr Hwf Hfr Honce H. pose proof Hcr as [Hcr1 Hcr2]. unfold I_once in *.
  open_step2 H; use_lockop; simp; worker_lt Hcr; use_wf Hwf.
  all: try (match goal with Ec : cs ?s1 ?c = mkC (CSTStart ?k ?w) _ _ |- _ =>
              let X := fresh "Hwlt" in let Y := fresh "Hwnew" in destruct (Hcr2 c k w) as [X Y]; [rewrite Ec; reflexivity|] end).
  all: intros t'; pose proof (Honce t') as Hx; rewrite ?count_new, ?qocc_app.
  all: try solve [count_goal; rew_recs; try rewrite Hwnew in *; pred_simp;
                  try match goal with E : q _ = _ |- _ => rewrite E in *; pred_simp end;
                  try (destruct held as [[?|]|]; pred_simp; try discriminate);
                  tstart_cases; eqb_cases; pred_simp; try lia].
  (* CEPut: the new task id is fresh *)
  pred_simp. eqb_cases; pred_simp; [|lia].
  destruct (Hfr (next_task s) (le_n _)) as (F1 & F2 & F3).
  assert (count (holds_pre (next_task s)) (ws s) (next_w s) <= count (holds_any (next_task s)) (ws s) (next_w s))%nat
    by (apply count_le; intros; now apply holds_pre_any).
  lia.
Qed.

Lemma P_fresh s t f s' : I_created s -> I_wf s -> I_fresh s -> step s t f = Some s' -> I_fresh s'.
Proof.
  intros Hcr Hwf Hfr H. pose proof Hcr as [Hcr1 Hcr2]. unfold I_fresh in *.
  open_step2 H; use_lockop; simp; worker_lt Hcr; use_wf Hwf.
  all: try (match goal with Ec : cs ?s1 ?c = mkC (CSTStart ?k ?w) _ _ |- _ =>
              let X := fresh "Hwlt" in let Y := fresh "Hwnew" in destruct (Hcr2 c k w) as [X Y]; [rewrite Ec; reflexivity|] end).
  all: intros t' Ht'; pose proof (Hfr t' ltac:(lia)) as (F1 & F2 & F3); rewrite ?count_new, ?qocc_app.
  all: try solve [count_goal; rew_recs; try rewrite Hwnew in *; pred_simp;
                  try match goal with E : q _ = _ |- _ => rewrite E in *; pred_simp end;
                  try (destruct held as [[?|]|]; pred_simp; try discriminate);
                  tstart_cases; eqb_cases; pred_simp; repeat split; try lia].
  (* WBegin: the task whose body begins is not a fresh id *)
  pose proof (count_zero _ _ _ w F2 H) as Hz. rewrite Ew in Hz. pred_simp.
  apply Nat.eqb_neq in Hz.
  count_goal; rew_recs; pred_simp. rewrite upd_other by congruence.
  eqb_cases; pred_simp; repeat split; try lia.
Qed.

Lemma P_done s t f s' : I_done s -> step s t f = Some s' -> I_done s'.
Proof.
  intros Hd H. unfold I_done in *.
  open_step2 H; use_lockop; simp.
  all: intros w' t' Hpc Hh; pose proof (Hd w' t') as Hx; simp; split_upd; rew_recs; simp; try discriminate;
       unfold held_is in *; simp; tstart_cases; eqb_cases; auto; try congruence.
Qed.

Ltac settled_simp := unfold settled in *; simp.

Lemma P_place s t f s' : I_created s -> I_wf s -> I_done s -> I_place s -> step s t f = Some s' -> I_place s'.
Proof.
  intros Hcr Hwf Hdn Hpl H. pose proof Hcr as [Hcr1 Hcr2]. unfold I_place in *.
  open_step2 H; use_lockop; simp; worker_lt Hcr; use_wf Hwf.
  all: try (match goal with Ec : cs ?s1 ?c = mkC (CSTStart ?k ?w) _ _ |- _ =>
              let X := fresh "Hwlt" in let Y := fresh "Hwnew" in destruct (Hcr2 c k w) as [X Y]; [rewrite Ec; reflexivity|] end).
  all: intros t' Ht'; try (pose proof (Hpl t' ltac:(lia)) as Hx); rewrite ?count_new, ?qocc_app; settled_simp.
  all: try solve [count_goal; rew_recs; try rewrite Hwnew in *; pred_simp;
                  try match goal with E : q _ = _ |- _ => rewrite E in *; pred_simp end;
                  try (destruct held as [[?|]|]; pred_simp; try discriminate);
                  tstart_cases; eqb_cases; pred_simp;
                  try (destruct (tdone s t'); destruct (tdropped s t'); pred_simp); try lia].
  - (* WBody: the future is completed *)
    count_goal; rew_recs; pred_simp. tstart_cases; eqb_cases; pred_simp; try lia.
    cbn [orb b2n]. lia.
  - (* WTaskDone: leaves the holding range; the task is done (I_done) *)
    destruct held as [[t0|]|]; cbn in Hwfm; try (rewrite andb_false_r in Hwfm; discriminate).
    pose proof (Hdn w t0) as Hd0. rewrite Ew in Hd0. cbn in Hd0. rewrite Nat.eqb_refl in Hd0.
    specialize (Hd0 eq_refl eq_refl).
    count_goal; rew_recs; pred_simp. eqb_cases; pred_simp; try lia.
    rewrite Hd0. cbn. lia.
  - (* CEPut *)
    pred_simp. eqb_cases; pred_simp; try lia.
    pose proof (Hpl t' ltac:(lia)). lia.
  - (* CCLGet dropping a task *)
    pred_simp. tstart_cases; eqb_cases; pred_simp; try lia; try congruence.
    + rewrite orb_true_r. cbn. lia.
Qed.
