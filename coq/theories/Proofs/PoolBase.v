(** Counting machinery and proof tactics for the pool model. *)
From JR Require Export Pool.
From Coq Require Export Lia.

Definition b2n (b : bool) : nat := if b then 1%nat else 0%nat.

Fixpoint count {A} (g : A -> bool) (f : nat -> A) (n : nat) : nat :=
  match n with
  | O => 0%nat
  | S k => (count g f k + b2n (g (f k)))%nat
  end.

Lemma upd_same {A} (f : nat -> A) i a : upd f i a i = a.
Proof. unfold upd. now rewrite Nat.eqb_refl. Qed.
Lemma upd_other {A} (f : nat -> A) i a j : j <> i -> upd f i a j = f j.
Proof. unfold upd. intros H. apply Nat.eqb_neq in H. now rewrite H. Qed.

Lemma count_upd_ge {A} (g : A -> bool) f w x n : (n <= w)%nat -> count g (upd f w x) n = count g f n.
Proof.
  induction n as [|k IH]; intros H; cbn [count]; [reflexivity|].
  rewrite IH by lia. rewrite upd_other by lia. reflexivity.
Qed.

Lemma count_upd_lt {A} (g : A -> bool) f w x n :
  (w < n)%nat -> (count g (upd f w x) n + b2n (g (f w)) = count g f n + b2n (g x))%nat.
Proof.
  induction n as [|k IH]; intros H; [lia|]. cbn [count].
  destruct (Nat.eq_dec w k) as [->|Hne].
  - rewrite count_upd_ge by lia. rewrite upd_same. lia.
  - rewrite upd_other by lia. specialize (IH ltac:(lia)). lia.
Qed.

Lemma count_S {A} (g : A -> bool) f n : count g f (S n) = (count g f n + b2n (g (f n)))%nat.
Proof. reflexivity. Qed.

Lemma count_le {A} (g h : A -> bool) f n :
  (forall i, (i < n)%nat -> g (f i) = true -> h (f i) = true) -> (count g f n <= count h f n)%nat.
Proof.
  induction n as [|k IH]; intros H; cbn [count]; [lia|].
  specialize (IH (fun i Hi => H i ltac:(lia))).
  specialize (H k ltac:(lia)). destruct (g (f k)); cbn [b2n]; [rewrite (H eq_refl); cbn [b2n]; lia | lia].
Qed.

Lemma count_zero {A} (g : A -> bool) f n i : count g f n = 0%nat -> (i < n)%nat -> g (f i) = false.
Proof.
  induction n as [|k IH]; intros H Hi; [lia|]. cbn [count] in H.
  destruct (Nat.eq_dec i k) as [->|]; [destruct (g (f k)); cbn in H; [lia|reflexivity] | apply IH; lia].
Qed.

Lemma count_pos {A} (g : A -> bool) f n i : (i < n)%nat -> g (f i) = true -> (1 <= count g f n)%nat.
Proof.
  intros Hi Hg. destruct (count g f n) eqn:E; [|lia].
  rewrite (count_zero g f n i E Hi) in Hg. discriminate.
Qed.

Lemma count_le1 {A} (g : A -> bool) f n i j :
  (count g f n <= 1)%nat -> (i < n)%nat -> (j < n)%nat -> g (f i) = true -> g (f j) = true -> i = j.
Proof.
  induction n as [|k IH]; intros H Hi Hj Gi Gj; [lia|]. cbn [count] in H.
  destruct (Nat.eq_dec i k) as [->|Ni], (Nat.eq_dec j k) as [->|Nj]; try reflexivity.
  - rewrite Gi in H. cbn in H. pose proof (count_pos g f k j ltac:(lia) Gj). lia.
  - rewrite Gj in H. cbn in H. pose proof (count_pos g f k i ltac:(lia) Gi). lia.
  - apply IH; try lia; assumption.
Qed.

(** depth at which a thread holds the pool lock *)
Definition lockd (s : st) (t : thr) : nat :=
  match lock s with
  | Some (o, d) => if thr_eqb o t then d else 0%nat
  | None => 0%nat
  end.

Lemma thr_eqb_eq a b : thr_eqb a b = true <-> a = b.
Proof.
  destruct a, b; cbn; split; intros H; try discriminate; try (apply Nat.eqb_eq in H; congruence);
    inversion H; apply Nat.eqb_refl.
Qed.
Lemma thr_eqb_refl a : thr_eqb a a = true.
Proof. now apply thr_eqb_eq. Qed.
Lemma thr_eqb_neq a b : a <> b -> thr_eqb a b = false.
Proof. intros H. destruct (thr_eqb a b) eqn:E; [apply thr_eqb_eq in E; contradiction | reflexivity]. Qed.

(** projections / setters whitelist for [cbn] *)
Ltac simp :=
  cbn [maxT minT stopped q unfinished qmutex epoch lock threads next_w nb_threads nb_active nb_pending next_task
       ws cs tstarts tdone tdropped start_log stop_done start_done join_bad joinf_bad late_start
       set_w set_c set_lock set_queue set_qmutex set_counters set_threads set_stopped set_next_task set_hist set_jmon
       wgo cgo task_done wpc wheld wclean cpc cprog cjcall] in *.
