(** Lifecycle invariants, part 3: no sentinel while running, retirement, the minimum bound. *)
From JR Require Import PoolInvDefs PoolInvA PoolInvB PoolInvE PoolInvF.

Definition nonclean_exit (x : wst) : bool :=
  match wpc x with
  | WSentDone => true
  | WFLock | WFRemove | WFNbDec => negb (wclean x)
  | _ => false
  end.

Definition I_nosent (s : st) : Prop :=
  stopped s = false ->
  (forall i, In i (q s) -> is_task i = true) /\ (forall w, nonclean_exit (ws s w) = false).

Lemma P_nosent s t f s' :
  I_ctl s -> I_wf s -> I_flag s -> I_quiet s -> I_nosent s -> step s t f = Some s' -> I_nosent s'.
Proof.
  intros Hctl Hwf Hfl Hq Hns H. unfold I_nosent, I_quiet, ctl in *.
  open_step2 H; use_lockop; simp; use_wf Hwf.
  all: try solve [intros Hst; try discriminate; try congruence;
                  destruct (Hns ltac:(assumption || congruence)) as [Hk Hd];
                  (split; [ intros i Hi; try (apply in_app_or in Hi as [Hi|[<-|[]]]); auto; try reflexivity;
                            try (apply Hk; rewrite ?Em; try (right; assumption); assumption)
                          | intros w'; pose proof (Hd w') as Hx; revert Hx; split_upd; simp; auto;
                            rewrite ?Ew; unfold nonclean_exit; simp; auto; try discriminate;
                            try (destruct clean; cbn in *; auto; discriminate) ])].
  all: repeat match goal with E : q ?s1 = _ |- context [q ?s1] => rewrite E end.
  all: try solve [intros Hst; try discriminate; try congruence;
                  destruct (Hns ltac:(assumption || congruence)) as [Hk Hd];
                  (split; [ let i := fresh "i" in let Hi := fresh "Hi" in
                            intros i Hi; try (destruct Hi; fail); try (apply Hk; right; assumption); try (apply Hk; assumption)
                          | intros w'; pose proof (Hd w') as Hx; revert Hx; split_upd; simp; auto;
                            rewrite ?Ew; unfold nonclean_exit; simp; auto; try discriminate;
                            try (exfalso; specialize (Hk ISent ltac:(left; reflexivity)); discriminate) ])].
  - (* CSTClear: start() finds a quiet pool *)
    intros _. ctl_cases Hctl. destruct Hfl as (_ & _ & _ & _ & F5 & _). unfold ctl in F5.
    rewrite Ec in *. simp. destruct (Hq (F5 eq_refl) eq_refl) as [Hd Hk]. split; [exact Hk|].
    intros w'. specialize (Hd w'). unfold alive, nonclean_exit in *. destruct (wpc (ws s w')); try discriminate; reflexivity.
  - (* CSPPut: only while stopped *)
    intros Hst. exfalso. ctl_cases Hctl. destruct Hfl as (F1 & _). unfold ctl in F1. rewrite Ec in F1.
    destruct (F1 eq_refl) as [F _]. congruence.
  - intros Hst. exfalso. ctl_cases Hctl. destruct Hfl as (F1 & _). unfold ctl in F1. rewrite Ec in F1.
    destruct (F1 eq_refl) as [F _]. congruence.
Qed.

Definition I_retire (s : st) : Prop := forall w, wpc (ws s w) = WNbDec -> minT s < nb_threads s.

Lemma P_retire s t f s' : I_lock s -> I_retire s -> step s t f = Some s' -> I_retire s'.
Proof.
  intros Hlk Hr H. unfold I_retire in *.
  open_step2 H; use_lockop; simp.
  all: intros w' Hw'; pose proof (Hr w') as Hx; revert Hw'; split_upd; simp; try discriminate; intros Hw'; try (specialize (Hx Hw')); try lia.
  all: try solve [apply andb_true_iff in Eg as [Eg _]; apply Z.ltb_lt in Eg; exact Eg].
  all: try solve [exfalso; match goal with Ew : ws ?s1 ?w = mkW _ _ _, Hn : ?w2 <> ?w |- _ =>
                    apply (two_wlockers s1 w2 w Hlk Hn); [rewrite Hw' | rewrite Ew]; cbn; lia end].
Qed.

Definition kneed_pre (k : kont) : Z :=
  match k with KStartA a b => Z.of_nat a + Z.of_nat b + 1 | KStartB b => Z.of_nat b + 1 | KEnq => 0 end.
Definition kneed_post (k : kont) : Z :=
  match k with KStartA a b => Z.of_nat a + Z.of_nat b | KStartB b => Z.of_nat b | KEnq => 0 end.
Definition need (mn : Z) (l : clabel) : Z :=
  match l with
  | CSTQsize => mn
  | CSTLoopA a b => Z.of_nat a + Z.of_nat b
  | CSTLoopB b => Z.of_nat b
  | CSLock k | CSTest k | CSNbInc k => kneed_pre k
  | CSTStart k _ | CSAppend k _ | CSUnlock k => kneed_post k
  | _ => 0
  end.

Definition I_min (s : st) : Prop :=
  (start_region (ctl s) = true -> minT s <= nb_threads s + need (minT s) (ctl s)) /\
  (start_done s = true -> minT s <= nb_threads s).

Lemma P_min s t f s' :
  I_ctl s -> I_cfg s -> I_nb s -> I_wf s -> I_flag s -> I_nosent s -> I_retire s -> I_min s ->
  step s t f = Some s' -> I_min s'.
Proof.
  intros Hctl Hcfg Hnb Hwf Hfl Hns Hrt [M1 M2] H. unfold I_min, ctl in *.
  assert (Hnn : 0 <= nb_threads s) by (unfold I_nb in Hnb; lia).
  destruct Hcfg as (Hc1 & Hc2 & Hc3).
  open_step2 H; use_lockop; simp; use_wf Hwf.
  all: try match goal with He : is_entry ?l = true |- _ => destruct l; try discriminate He end.
  all: try match goal with k : jkont |- _ => destruct k; try discriminate end.
  all: try match goal with k : kont |- _ => destruct k end; cbn [kret] in *.
  all: ctl_cases Hctl; simp; try (rewrite Ec in * ); simp; cbn [start_region lifecycle_k need kneed_pre kneed_post] in *.
  all: try solve [split; [intros Hs; try discriminate; try (specialize (M1 Hs)); try (specialize (M1 eq_refl)); try lia
                         |intros Hs; try discriminate; try (specialize (M2 Hs)); try lia]].
  - (* WNbDec: retirement only above the minimum *)
    pose proof (Hrt w ltac:(rewrite Ew; reflexivity)).
    split; intros Hs; [specialize (M1 Hs) | specialize (M2 Hs)]; try lia.
    assert (0 <= need (minT s) (cpc (cs s 0%nat))); [|lia].
    destruct (cpc (cs s 0%nat)); cbn; try lia; destruct k; cbn; lia.
  - (* WFNbDec without the clean flag: impossible while the pool runs *)
    assert (Hno : stopped s = false -> False).
    { intros Hst. destruct (Hns Hst) as [_ Hd]. specialize (Hd w). rewrite Ew in Hd. discriminate. }
    destruct Hfl as (_ & F2 & _ & F4 & _). unfold ctl in *.
    split; intros Hs; exfalso; apply Hno; [destruct (F2 Hs) as [? _] | destruct (F4 Hs) as [? _]]; assumption.
  - (* CSTest refuses: only because max_threads is reached (the pool is not stopped inside start()) *)
    destruct Hfl as (_ & F2 & _). unfold ctl in F2. rewrite Ec in F2. destruct (F2 eq_refl) as [Hst _].
    rewrite Hst, orb_false_r in Eg. apply Z.leb_le in Eg.
    split; intros Hs; try discriminate; try (specialize (M2 Hs)); lia.
  - destruct Hfl as (_ & F2 & _). unfold ctl in F2. rewrite Ec in F2. destruct (F2 eq_refl) as [Hst _].
    rewrite Hst, orb_false_r in Eg. apply Z.leb_le in Eg.
    split; intros Hs; try discriminate; try (specialize (M2 Hs)); lia.
  - (* CSTQsize: the two loop bounds add up to at least min_threads *)
    split; [intros _ | intros Hs; specialize (M2 Hs); lia].
    destruct (maxT s <? Z.of_nat (length (q s))) eqn:E1; [injection Em as <- <-; lia|].
    destruct (Z.of_nat (length (q s)) <? minT s) eqn:E2; injection Em as <- <-;
      [apply Z.ltb_lt in E2 | apply Z.ltb_ge in E2]; lia.
Qed.
