(** Proofs about Model/JsonClass.v for property C07: load (dump v) = normi v for every supported
    object graph, by nested induction over [val]. *)
From JR Require Import JsonClass JsonClassProofs JsonClassC08Proofs.
From Coq Require Import Lia.

(** ** Generic facts about the traversal combinators *)

Lemma mapM_Forall2 {A B} (f : A -> res B) (Q : A -> B -> Prop) l :
  Forall (fun x => exists d, f x = Ok d /\ Q x d) l ->
  exists ds, mapM f l = Ok ds /\ Forall2 Q l ds.
Proof.
  intros H. induction H as [|x xs [d [Hd HQ]] _ [ds [Hds HF]]].
  - exists []. split; [reflexivity | constructor].
  - exists (d :: ds). split; [|constructor; assumption].
    cbn [mapM]. rewrite Hd. cbn [bind]. fold (mapM f). rewrite Hds. reflexivity.
Qed.

Lemma load_seq_ok (g : val -> lres) (h : val -> val) l ds :
  Forall2 (fun x d => lres_val (g d) = Ok (h x)) l ds ->
  fst (fst (load_seq g ds)) = Ok (map h l).
Proof.
  intros H. induction H as [|x d xs ds Hx _ IH]; [reflexivity|].
  cbn [load_seq map]. fold (load_seq g). unfold lres_val in Hx.
  destruct (g d) as [[r x'] ev]. cbn [fst] in Hx. subst r.
  destruct (load_seq g ds) as [[rs xs'] evs]. cbn [fst] in *. now rewrite IH.
Qed.

Lemma load_items_ok (g : val -> lres) (h : val -> val) (m ds : list (val * val)) :
  Forall2 (fun kx kd => fst kd = fst kx /\ lres_val (g (snd kd)) = Ok (h (snd kx))) m ds ->
  fst (fst (load_items g ds)) = Ok (map (fun kv => (fst kv, h (snd kv))) m).
Proof.
  intros H. induction H as [|[k x] [k' d] xs ds [Hk Hx] _ IH]; [reflexivity|].
  cbn [fst snd] in *. subst k'. cbn [load_items map fst snd]. fold (load_items g). unfold lres_val in Hx.
  destruct (g d) as [[r x'] ev]. cbn [fst] in Hx. subst r.
  destruct (load_items g ds) as [[rs xs'] evs]. cbn [fst] in *. now rewrite IH.
Qed.

Lemma dhas_same_keys (m ds : list (val * val)) (P : val -> val -> Prop) k :
  Forall2 (fun kx kd => fst kd = fst kx /\ P (snd kx) (snd kd)) m ds -> dhas ds k = dhas m k.
Proof.
  intros H. unfold dhas, dget. induction H as [|[k1 x] [k2 d] xs ds [Hk _] _ IH]; [reflexivity|].
  cbn [fst snd] in *. subst k2. cbn [assoc]. destruct (py_eq (VStr k) k1); [reflexivity | exact IH].
Qed.

(** ** Building and taking apart the descriptor dict *)

Lemma py_eq_str a b : py_eq (VStr a) (VStr b) = String.eqb a b.
Proof. reflexivity. Qed.

Definition skey (kd : str * val) : val * val := (VStr (fst kd), snd kd).

Lemma dset_fresh acc k y :
  forallb (fun kv => negb (py_eq (VStr k) (fst kv))) acc = true ->
  dset acc (VStr k) y = (acc ++ [(VStr k, y)])%list.
Proof.
  induction acc as [|[k' v'] r IH]; cbn [forallb dset app fst]; [reflexivity|].
  intros H. apply andb_true_iff in H as [H1 H2]. apply negb_true_iff in H1. rewrite H1. now rewrite IH.
Qed.

Lemma dupdate_fresh sds : forall acc,
  nodup_str (map fst sds) = true ->
  forallb (fun kd => forallb (fun kv => negb (py_eq (VStr (fst kd)) (fst kv))) acc) sds = true ->
  dupdate acc (map skey sds) = (acc ++ map skey sds)%list.
Proof.
  unfold dupdate. induction sds as [|[k y] r IH]; intros acc Hnd Hacc; cbn [map fold_left].
  - now rewrite app_nil_r.
  - cbn [map fst nodup_str forallb] in *. apply andb_true_iff in Hnd as [Hk Hnd].
    apply andb_true_iff in Hacc as [Hka Hacc]. change (skey (k, y)) with (VStr k, y). cbn [fst snd].
    rewrite (dset_fresh acc k y Hka). rewrite IH; [now rewrite <- app_assoc | exact Hnd |].
    clear IH Hnd. induction r as [|[k2 y2] r IHr]; [reflexivity|].
    cbn [forallb map fst mem_str existsb] in *. apply andb_true_iff in Hacc as [H1 H2].
    apply negb_true_iff in Hk. apply orb_false_iff in Hk as [Hk1 Hk2].
    rewrite forallb_app, H1. cbn [forallb fst]. rewrite py_eq_str.
    replace (String.eqb k2 k) with false by (symmetry; rewrite String.eqb_sym; exact Hk1).
    cbn [negb andb]. apply IHr; [|exact H2].
    apply negb_true_iff. exact Hk2.
Qed.

Lemma not_dunder_not_jc k : dunder k = false -> String.eqb "__jsonclass__" k = false.
Proof.
  intros H. destruct (String.eqb "__jsonclass__" k) eqn:E; [|reflexivity].
  apply String.eqb_eq in E. subst k. discriminate H.
Qed.

Lemma descriptor_dict_fresh name params sds :
  nodup_str (map fst sds) = true -> forallb (fun kd => negb (dunder (fst kd))) sds = true ->
  descriptor_dict name params (map skey sds) = VDict ((jsonclass_key, VList [name; params]) :: map skey sds).
Proof.
  intros Hnd Hdu. unfold descriptor_dict. rewrite dupdate_fresh; [reflexivity | exact Hnd |].
  induction sds as [|[k y] r IH]; [reflexivity|]. cbn [forallb map fst nodup_str] in *.
  apply andb_true_iff in Hdu as [H1 H2]. apply andb_true_iff in Hnd as [_ Hnd].
  rewrite (IH Hnd H2). unfold jsonclass_key. rewrite py_eq_str, String.eqb_sym.
  apply negb_true_iff in H1. now rewrite (not_dunder_not_jc k H1).
Qed.

Lemma head_ok E cl d c params attrs :
  resolves E cl d c = true ->
  match params with VList _ | VDict _ => true | _ => false end = true ->
  descriptor_head E cl ((jsonclass_key, VList [VStr (dump_name d); params]) :: attrs) =
  (construct E c params, (snd (resolve_name E cl (dump_name d)) ++ [EvConstruct c])%list).
Proof.
  intros Hres Hp. unfold resolves in Hres. apply andb_true_iff in Hres as [Hname Hres].
  unfold descriptor_head.
  replace (py_getitem (VDict ((jsonclass_key, VList [VStr (dump_name d); params]) :: attrs)) jsonclass_key)
    with (Ok (VList [VStr (dump_name d); params])) by reflexivity.
  cbn [py_getitem index_of]. rewrite nth_py_0, nth_py_1.
  unfold name_ok in Hname. apply andb_true_iff in Hname as [Hne Hv].
  cbn [truthy]. rewrite Hne, Hv. cbn [negb].
  destruct (resolve_name E cl (dump_name d)) as [rc ev]. cbn [fst snd] in *.
  destruct rc as [c'|]; [|discriminate Hres]. apply String.eqb_eq in Hres. subst c'.
  destruct params; try discriminate Hp; reflexivity.
Qed.

(** ** The setattr loop over freshly dumped attributes *)

Lemma setattr_loop_ok E (g : val -> lres) c d sds : forall kzs fields0,
  find_class (e_ctab E) c = Some d ->
  Forall2 (fun kd kz => fst kz = fst kd /\ lres_val (g (snd kd)) = Ok (snd kz)) sds kzs ->
  forallb (fun kz => negb (dunder (fst kz)) && (has_dict d || mem_str (fst kz) (real_slots (e_ctab E) c))) kzs = true ->
  fst (fst (setattr_loop E g (map skey sds) (VInst c fields0))) = Ok (VInst c (fset_all fields0 kzs)).
Proof.
  intros kzs fields0 Hd H. revert fields0.
  induction H as [|[k y] [k' z] sds kzs [Hk Hy] _ IH]; intros fields0 Hok; [reflexivity|].
  cbn [fst snd] in *. subst k'. cbn [forallb fst] in Hok. apply andb_true_iff in Hok as [H1 H2].
  apply andb_true_iff in H1 as [Hdu Hset]. apply negb_true_iff in Hdu.
  cbn [map setattr_loop]. fold (setattr_loop E g). change (skey (k, y)) with (VStr k, y). cbn [fst snd].
  unfold jsonclass_key at 1. rewrite py_eq_str, (not_dunder_not_jc k Hdu).
  unfold lres_val in Hy. destruct (g y) as [[r y'] ev]. cbn [fst] in Hy. subst r.
  unfold py_setattr. rewrite Hdu, Hd.
  assert (Hs : (if has_dict d then Ok (VInst c (fset fields0 k z))
                else if mem_str k (real_slots (e_ctab E) c) then Ok (VInst c (fset fields0 k z)) else Raise EAttr)
               = Ok (VInst c (fset fields0 k z))).
  { destruct (has_dict d); [reflexivity|]. cbn [orb] in Hset. now rewrite Hset. }
  rewrite Hs. specialize (IH (fset fields0 k z) H2).
  destruct (setattr_loop E g (map skey sds) (VInst c (fset fields0 k z))) as [[r2 more'] ev2].
  cbn [fst] in *. rewrite IH. reflexivity.
Qed.

Lemma fields_eqb_eq a b : fields_eqb a b = true -> a = b.
Proof.
  unfold fields_eqb. revert b. induction a as [|[k x] r IH]; intros [|[k' y] r']; cbn [list_eqb fst snd]; intros H;
    try discriminate H; [reflexivity|].
  apply andb_true_iff in H as [H1 H2]. apply andb_true_iff in H1 as [Hk Hx].
  apply String.eqb_eq in Hk. apply val_eqb_eq in Hx. subst. f_equal. now apply IH.
Qed.

Lemma dhas_jc_head J r : dhas ((jsonclass_key, J) :: r) "__jsonclass__" = true.
Proof. reflexivity. Qed.

Lemma setattr_loop_skip_head E g J r obj :
  setattr_loop E g ((jsonclass_key, J) :: r) obj = setattr_loop E g r obj.
Proof. reflexivity. Qed.

(** load of a freshly dumped descriptor: construct, then assign the dumped attributes *)
Lemma load_descriptor_inst E cl d c params sds kzs fields0 :
  resolves E cl d c = true ->
  match params with VList _ | VDict _ => true | _ => false end = true ->
  construct E c params = Ok (VInst c fields0) ->
  find_class (e_ctab E) c = Some d ->
  Forall2 (fun kd kz => fst kz = fst kd /\ lres_val (jc_load_m fixed E cl (snd kd)) = Ok (snd kz)) sds kzs ->
  forallb (fun kz => negb (dunder (fst kz)) && (has_dict d || mem_str (fst kz) (real_slots (e_ctab E) c))) kzs = true ->
  lres_val (jc_load_m fixed E cl (VDict ((jsonclass_key, VList [VStr (dump_name d); params]) :: map skey sds)))
  = Ok (VInst c (fset_all fields0 kzs)).
Proof.
  intros Hres Hp Hc Hd HF Hok. cbn [jc_load_m]. rewrite dhas_jc_head. cbn [negb].
  rewrite (head_ok E cl d c params (map skey sds) Hres Hp), Hc.
  rewrite setattr_loop_skip_head.
  pose proof (setattr_loop_ok E (jc_load_m fixed E cl) c d sds kzs fields0 Hd HF Hok) as HL.
  destruct (setattr_loop E (jc_load_m fixed E cl) (map skey sds) (VInst c fields0)) as [[r rest'] ev2].
  unfold lres_val. cbn [fst] in *. exact HL.
Qed.

Lemma load_descriptor_noattrs E cl d c params obj :
  resolves E cl d c = true ->
  match params with VList _ | VDict _ => true | _ => false end = true ->
  construct E c params = Ok obj ->
  lres_val (jc_load_m fixed E cl (VDict [(jsonclass_key, VList [VStr (dump_name d); params])])) = Ok obj.
Proof.
  intros Hres Hp Hc. cbn [jc_load_m]. rewrite dhas_jc_head. cbn [negb].
  rewrite (head_ok E cl d c params [] Hres Hp), Hc. reflexivity.
Qed.

Lemma forallb_ext_eq {A} (f g : A -> bool) l : (forall x, f x = g x) -> forallb f l = forallb g l.
Proof. intros H. induction l as [|x r IH]; [reflexivity|]. cbn [forallb]. now rewrite H, IH. Qed.

Lemma list_eqb_str_eq (a b : list str) : list_eqb String.eqb a b = true -> a = b.
Proof.
  revert b. induction a as [|x r IH]; intros [|y r'] H; try discriminate H; [reflexivity|].
  cbn [list_eqb] in H. apply andb_true_iff in H as [H1 H2]. apply String.eqb_eq in H1. subst. f_equal. auto.
Qed.

Definition lookup_or_none (fs : list (str * val)) (p : str) : str * val :=
  (p, match flookup p fs with Some x => x | None => VNone end).

Lemma get_params_ok fs ps :
  forallb (fun p => is_some (flookup p fs)) ps = true ->
  get_params fs ps = Ok (map (lookup_or_none fs) ps).
Proof.
  induction ps as [|p r IH]; intros H; [reflexivity|]. cbn [forallb] in H. apply andb_true_iff in H as [H1 H2].
  cbn [get_params map]. unfold lookup_or_none at 1. destruct (flookup p fs); [|discriminate H1].
  rewrite (IH H2). reflexivity.
Qed.

Lemma combine_lookup fs ps : combine ps (map snd (map (lookup_or_none fs) ps)) = map (lookup_or_none fs) ps.
Proof. induction ps as [|p r IH]; [reflexivity|]. cbn [map combine]. rewrite IH. reflexivity. Qed.

Lemma dget_kw fs ps p :
  mem_str p ps = true ->
  dget (map (fun px => (VStr (fst px), snd px)) (map (lookup_or_none fs) ps)) p = Some (snd (lookup_or_none fs p)).
Proof.
  unfold dget. induction ps as [|q r IH]; intros H; [discriminate H|].
  cbn [map assoc fst snd]. unfold lookup_or_none at 1. cbn [fst]. rewrite py_eq_str.
  cbn [mem_str existsb] in H. destruct (String.eqb p q) eqn:Hpq.
  - apply String.eqb_eq in Hpq. subst q. reflexivity.
  - cbn [orb] in H. exact (IH H).
Qed.

Lemma bind_params_list fs ps :
  bind_params ps (VList (map snd (map (lookup_or_none fs) ps))) = Ok (map (lookup_or_none fs) ps).
Proof.
  unfold bind_params. rewrite !map_length, Nat.eqb_refl. now rewrite combine_lookup.
Qed.

Lemma mem_str_refl_in p ps : In p ps -> mem_str p ps = true.
Proof.
  unfold mem_str. intros H. apply existsb_exists. exists p. split; [exact H | apply String.eqb_refl].
Qed.

Lemma bind_params_dict fs ps :
  bind_params ps (VDict (map (fun px => (VStr (fst px), snd px)) (map (lookup_or_none fs) ps)))
  = Ok (map (lookup_or_none fs) ps).
Proof.
  unfold bind_params.
  assert (H1 : forallb (fun kx : val * val => is_string (fst kx))
                 (map (fun px => (VStr (fst px), snd px)) (map (lookup_or_none fs) ps)) = true).
  { rewrite !forallb_map. apply forallb_forall. reflexivity. }
  rewrite H1. cbn [negb]. rewrite !map_length, Nat.eqb_refl. cbn [andb].
  assert (H2 : forall p, In p ps ->
             dget (map (fun px => (VStr (fst px), snd px)) (map (lookup_or_none fs) ps)) p
             = Some (snd (lookup_or_none fs p))).
  { intros p Hp. apply dget_kw. now apply mem_str_refl_in. }
  assert (H3 : forallb (fun n => dhas (map (fun px => (VStr (fst px), snd px)) (map (lookup_or_none fs) ps)) n) ps = true).
  { apply forallb_forall. intros p Hp. unfold dhas. now rewrite (H2 p Hp). }
  rewrite H3. f_equal. apply map_ext_in. intros p Hp. rewrite (H2 p Hp). reflexivity.
Qed.

Lemma nodup_str_filter (p : str * val -> bool) fs :
  nodup_str (map fst fs) = true -> nodup_str (map fst (filter p fs)) = true.
Proof.
  induction fs as [|[k x] r IH]; [reflexivity|]. cbn [map fst nodup_str filter]. intros H.
  apply andb_true_iff in H as [H1 H2]. destruct (p (k, x)); [|auto].
  cbn [map fst nodup_str]. rewrite (IH H2), andb_true_r.
  apply negb_true_iff. apply negb_true_iff in H1. unfold mem_str in *.
  destruct (existsb (String.eqb k) (map fst (filter p r))) eqn:Hex; [|reflexivity].
  apply existsb_exists in Hex as [y [Hy1 Hy2]]. rewrite <- H1. symmetry. apply existsb_exists. exists y. split; [|exact Hy2].
  apply in_map_iff in Hy1 as [[k' x'] [Hk Hin]]. apply filter_In in Hin as [Hin _]. apply in_map_iff. exists (k', x'). auto.
Qed.

Lemma forallb_filter {A} (p q : A -> bool) l : forallb q l = true -> forallb q (filter p l) = true.
Proof.
  induction l as [|x r IH]; [reflexivity|]. cbn [forallb filter]. intros H. apply andb_true_iff in H as [H1 H2].
  destruct (p x); [cbn [forallb]; now rewrite H1, IH | auto].
Qed.

Lemma is_json_shape : forall v, is_json v = true -> json_shape v = true.
Proof.
  induction v using val_ind'; intros Hj; try discriminate Hj; try reflexivity; simpl in *.
  - revert Hj. apply forallb_Forall_impl with (1 := H). auto.
  - revert Hj. apply forallb_Forall_impl with (1 := H). intros [k x] [_ Hx] Hk. simpl in *.
    destruct k; try discriminate Hk. auto.
Qed.

Lemma is_json_normi : forall v, is_json v = true -> normi v = v.
Proof.
  induction v using val_ind'; intros Hj; try discriminate Hj; try reflexivity; simpl in *.
  - f_equal. induction H as [|x xs Hx _ IH]; [reflexivity|]. simpl in *.
    apply andb_true_iff in Hj as [H1 H2]. now rewrite (Hx H1), (IH H2).
  - f_equal. induction H as [|[k x] xs [_ Hx] _ IH]; [reflexivity|]. simpl in *.
    apply andb_true_iff in Hj as [H1 H2]. destruct k; try discriminate H1. now rewrite (Hx H1), (IH H2).
Qed.

Section Roundtrip.
  Variable hfun : N -> val -> res val.
  Variable E : pyenv.
  Variable cfg : config.
  Variable sm ia : str.
  Hypothesis Hnh : no_handlers cfg = true.

  Definition RT (v : val) : Prop :=
    exists d, jc_dump hfun fixed E cfg sm ia [] v = Ok d /\
              lres_val (jc_load_m fixed E (cf_classes cfg) d) = Ok (normi v).

  Lemma known_type_nohandlers x : known_type E cfg x = supported_ty (type_of x).
  Proof.
    unfold known_type, no_handlers in *. destruct (cf_handlers cfg); [|discriminate Hnh].
    cbn [existsb]. apply orb_false_r.
  Qed.

  Lemma dump_fields_all fields :
    Forall (fun kx => supported_ty (type_of (snd kx)) = true /\ RT (snd kx)) fields ->
    exists sds, dump_fields E cfg (jc_dump hfun fixed E cfg sm ia []) [] fields = Ok (map skey sds) /\
                Forall2 (fun kx kd => fst kd = fst kx /\
                                      lres_val (jc_load_m fixed E (cf_classes cfg) (snd kd)) = Ok (normi (snd kx)))
                        fields sds.
  Proof.
    intros H. induction H as [|[k x] r [Hty [d [Hd Hl]]] _ [sds [Hs HF]]].
    - exists []. split; [reflexivity | constructor].
    - exists ((k, d) :: sds). cbn [fst snd] in *. split; [|constructor; [split; [reflexivity | exact Hl] | exact HF]].
      cbn [dump_fields fst snd]. fold (dump_fields E cfg (jc_dump hfun fixed E cfg sm ia []) []).
      unfold name_ignored. cbn [existsb negb andb]. rewrite known_type_nohandlers, Hty, Hd. cbn [bind andb].
      rewrite Hs. reflexivity.
  Qed.

  Lemma Forall_supported (P : val -> Prop) l :
    Forall (fun x => supported E (cf_classes cfg) sm ia x = true -> P x) l ->
    forallb (supported E (cf_classes cfg) sm ia) l = true -> Forall P l.
  Proof.
    intros H. induction H as [|x xs Hx _ IH]; intros Hs; constructor;
      cbn [forallb] in Hs; apply andb_true_iff in Hs as [H1 H2]; auto.
  Qed.

  Lemma roundtrip_seq (wrap : list val -> val) l :
    (forall ds, jc_load_m fixed E (cf_classes cfg) (VList ds) =
                (let '(r, l', ev) := load_seq (jc_load_m fixed E (cf_classes cfg)) ds in
                 (do ys <- r; Ok (VList ys), VList l', ev))) ->
    Forall RT l ->
    exists ds, mapM (jc_dump hfun fixed E cfg sm ia []) l = Ok ds /\
               lres_val (jc_load_m fixed E (cf_classes cfg) (VList ds)) = Ok (VList (map normi l)).
  Proof.
    intros Hunf HF.
    destruct (mapM_Forall2 (jc_dump hfun fixed E cfg sm ia [])
                (fun x d => lres_val (jc_load_m fixed E (cf_classes cfg) d) = Ok (normi x)) l HF) as [ds [Hds H2]].
    exists ds. split; [exact Hds|]. rewrite Hunf.
    pose proof (load_seq_ok (jc_load_m fixed E (cf_classes cfg)) normi l ds H2) as HL.
    destruct (load_seq (jc_load_m fixed E (cf_classes cfg)) ds) as [[r l'] ev].
    unfold lres_val. cbn [fst] in *. now rewrite HL.
  Qed.

  Theorem roundtrip_supported : forall v, supported E (cf_classes cfg) sm ia v = true -> RT v.
  Proof.
    pose proof (no_handlers_none cfg Hnh) as Hf.
    induction v using val_ind'; intros Hs; try discriminate Hs.
    1-5: eexists; split; [simpl; rewrite Hf; reflexivity | reflexivity].
    1-4: cbn [supported] in Hs; pose proof (Forall_supported RT l H Hs) as HF;
         destruct (roundtrip_seq VList l (fun ds => eq_refl) HF) as [ds [Hds Hl]];
         exists (VList ds); split; [simpl; rewrite Hf, Hds; reflexivity | exact Hl].
    - (* dict *)
      cbn [supported] in Hs. apply andb_true_iff in Hs as [Hd Hs]. apply negb_true_iff in Hd.
      assert (HF : Forall (fun kx => exists kd, (do y <- jc_dump hfun fixed E cfg sm ia [] (snd kx); Ok (fst kx, y)) = Ok kd /\
                                        (fst kd = fst kx /\ lres_val (jc_load_m fixed E (cf_classes cfg) (snd kd)) = Ok (normi (snd kx)))) m).
      { clear Hd. induction H as [|[k x] r [_ Hx] _ IH]; constructor; cbn [forallb fst snd] in *;
          apply andb_true_iff in Hs as [H1 H2]; [|auto].
        destruct (Hx H1) as [d [Hd Hl]]. exists (k, d). rewrite Hd. auto. }
      destruct (mapM_Forall2 _ (fun kx kd => fst kd = fst kx /\ lres_val (jc_load_m fixed E (cf_classes cfg) (snd kd)) = Ok (normi (snd kx))) m HF)
        as [ds [Hds H2]].
      exists (VDict ds). split; [simpl; rewrite Hf; unfold mapM_values; rewrite Hds; reflexivity|].
      cbn [jc_load_m v_forward fixed]. rewrite (dhas_same_keys m ds (fun x d => lres_val (jc_load_m fixed E (cf_classes cfg) d) = Ok (normi x)) "__jsonclass__" H2), Hd. cbn [negb].
      pose proof (load_items_ok (jc_load_m fixed E (cf_classes cfg)) normi m ds H2) as HL.
      destruct (load_items (jc_load_m fixed E (cf_classes cfg)) ds) as [[r l'] ev].
      unfold lres_val. cbn [fst] in *. now rewrite HL.
    - (* instance *)
      cbn [supported] in Hs. destruct (find_class (e_ctab E) c) as [d|] eqn:Hd; [|discriminate Hs].
      apply andb_true_iff in Hs as [Hs Hkind]. apply andb_true_iff in Hs as [Hs Hnames].
      apply andb_true_iff in Hs as [Hres Hsm]. apply negb_true_iff in Hsm.
      unfold field_names_ok in Hnames. apply andb_true_iff in Hnames as [Hnd Hset].
      assert (Hsm' : flookup sm fs = None) by (destruct (flookup sm fs); [discriminate Hsm | reflexivity]).
      destruct (mro_find (e_ctab E) c (ser_pred sm)) as [ds|] eqn:Hser.
      + (* serialisation method *)
        apply andb_true_iff in Hkind as [Hk Hreload]. apply andb_true_iff in Hk as [Hk Hpres].
        apply andb_true_iff in Hk as [Hk Hjson]. apply andb_true_iff in Hk as [Hk Hpar].
        apply list_eqb_str_eq in Hpar.
        fold (lookup_or_none fs) in Hreload.
        set (args := map (lookup_or_none fs) (c_params d)) in *.
        set (attrs := filter (fun kx => negb (mem_str (fst kx) (c_params d))) fs) in *.
        set (pv := match c_kind ds with
                   | KSer true => VDict (map (fun px => (VStr (fst px), snd px)) args)
                   | _ => VList (map snd args)
                   end).
        assert (Hpv : match pv with VList _ | VDict _ => true | _ => false end = true).
        { subst pv. destruct (c_kind ds) as [| |[|]| |]; reflexivity. }
        assert (Hc : construct E c pv = Ok (VInst c (ctor_fields (e_ctab E) c args))).
        { unfold construct. assert (Hb : bind_params (c_params d) pv = Ok args).
          { subst pv args. destruct (c_kind ds) as [| |[|]| |]; first [apply bind_params_dict | apply bind_params_list]. }
          destruct pv; try discriminate Hpv; rewrite Hd; destruct (c_kind d); try discriminate Hk; rewrite Hb; reflexivity. }
        exists (VDict ((jsonclass_key, VList [VStr (dump_name d); pv]) :: map skey attrs)). split.
        * simpl. rewrite Hf, Hd, Hsm', Hser. unfold serialize_call. rewrite Hpar, (get_params_ok fs (c_params d) Hpres).
          cbn [bind fst snd]. f_equal. fold args. fold attrs. fold pv.
          change (map (fun kx : str * val => (VStr (fst kx), snd kx)) attrs) with (map skey attrs).
          apply descriptor_dict_fresh.
          -- subst attrs. now apply nodup_str_filter.
          -- subst attrs. apply forallb_filter. clear - Hset. induction fs as [|[k x] r IH]; [reflexivity|].
             cbn [forallb fst] in *. apply andb_true_iff in Hset as [H1 H2]. apply andb_true_iff in H1 as [H1 _]. now rewrite H1, IH.
        * assert (H2' : Forall2 (fun kd kz => fst kz = fst kd /\ lres_val (jc_load_m fixed E (cf_classes cfg) (snd kd)) = Ok (snd kz)) attrs attrs).
          { subst attrs. clear - Hjson. induction fs as [|[k x] r IH]; [constructor|]. cbn [forallb snd filter] in *.
            apply andb_true_iff in Hjson as [H1 H2]. apply andb_true_iff in H1 as [Hj Hn].
            destruct (negb (mem_str (fst (k, x)) (c_params d))); [|auto].
            constructor; [|auto]. split; [reflexivity|]. cbn [snd].
            rewrite (load_json_id fixed E x (is_json_shape x Hj) Hn). reflexivity. }
          assert (Hok : forallb (fun kz => negb (dunder (fst kz)) && (has_dict d || mem_str (fst kz) (real_slots (e_ctab E) c))) attrs = true).
          { subst attrs. now apply forallb_filter. }
          rewrite (load_descriptor_inst E (cf_classes cfg) d c pv attrs attrs _ Hres Hpv Hc Hd H2' Hok).
          apply fields_eqb_eq in Hreload. rewrite Hreload. cbn [normi]. do 2 f_equal.
          clear - Hjson. induction fs as [|[k x] r IH]; [reflexivity|]. cbn [forallb map fst snd] in *.
          apply andb_true_iff in Hjson as [H1 H2]. apply andb_true_iff in H1 as [Hj _].
          now rewrite (is_json_normi x Hj), <- (IH H2).
      + (* automatic fields *)
        apply andb_true_iff in Hkind as [Hk Hreload]. apply andb_true_iff in Hk as [Hk Hfields].
        apply andb_true_iff in Hk as [Hk Hslots]. apply andb_true_iff in Hk as [Hk Hnoign].
        apply andb_true_iff in Hk as [Hk Hia]. apply andb_true_iff in Hk as [Hkd Hpar].
        apply negb_true_iff in Hia. apply negb_true_iff in Hnoign.
        assert (HF : Forall (fun kx => supported_ty (type_of (snd kx)) = true /\ RT (snd kx)) fs).
        { clear - H Hfields. induction H as [|[k x] r Hx _ IH]; constructor; cbn [forallb fst snd] in *;
            apply andb_true_iff in Hfields as [H1 H2]; [|auto].
          apply andb_true_iff in H1 as [Hty Hsx]. auto. }
        destruct (dump_fields_all fs HF) as [sds [Hdump H2]].
        assert (Hparams : c_params d = []) by (destruct (c_params d); [reflexivity | discriminate Hpar]).
        assert (Hign : ignore_list E ia [] c fs = Ok []).
        { unfold ignore_list. destruct (flookup ia fs); [discriminate Hia|].
          destruct (mro_find (e_ctab E) c (ign_pred ia)); [discriminate Hnoign | reflexivity]. }
        exists (VDict ((jsonclass_key, VList [VStr (dump_name d); VList []]) :: map skey sds)). split.
        * simpl. rewrite Hf, Hd, Hsm', Hser, Hign. cbn [bind forallb negb]. rewrite Hdump. cbn [bind].
          assert (Hsl : forallb (fun s => match flookup s fs with Some _ => true | None => name_ignored s [] end)
                                (slots_finder fixed (e_ctab E) c) = true).
          { rewrite (forallb_ext_eq _ (fun s => is_some (flookup s fs))); [exact Hslots|].
            intros s. unfold is_some, name_ignored. destruct (flookup s fs); reflexivity. }
          rewrite Hsl. f_equal. apply descriptor_dict_fresh.
          -- replace (map fst sds) with (map fst fs); [exact Hnd|].
             clear - H2. induction H2 as [|[k x] [k' y] r r' [Hk _] _ IH]; [reflexivity|]. cbn [map fst] in *. now rewrite IH, Hk.
          -- clear - H2 Hset. induction H2 as [|[k x] [k' y] r r' [Hk _] _ IH]; [reflexivity|]. cbn [forallb fst] in *.
             apply andb_true_iff in Hset as [H1 Hrest]. apply andb_true_iff in H1 as [H1 _]. subst k'. now rewrite H1, IH.
        * assert (Hc : construct E c (VList []) = Ok (VInst c (ctor_fields (e_ctab E) c []))).
          { unfold construct. rewrite Hd. destruct (c_kind d); try discriminate Hkd; rewrite Hparams; reflexivity. }
          set (kzs := map (fun kv => (fst kv, normi (snd kv))) fs).
          assert (H2' : Forall2 (fun kd kz => fst kz = fst kd /\ lres_val (jc_load_m fixed E (cf_classes cfg) (snd kd)) = Ok (snd kz)) sds kzs).
          { subst kzs. clear - H2. induction H2 as [|[k x] [k' y] r r' [Hk Hl] _ IH]; [constructor|].
            cbn [map fst snd] in *. constructor; [split; [now symmetry | exact Hl] | exact IH]. }
          assert (Hok : forallb (fun kz => negb (dunder (fst kz)) && (has_dict d || mem_str (fst kz) (real_slots (e_ctab E) c))) kzs = true).
          { subst kzs. rewrite forallb_map. exact Hset. }
          rewrite (load_descriptor_inst E (cf_classes cfg) d c (VList []) sds kzs _ Hres eq_refl Hc Hd H2' Hok).
          subst kzs. apply fields_eqb_eq in Hreload. rewrite Hreload. reflexivity.
    - (* Decimal *)
      cbn [supported] in Hs. destruct (find_class (e_ctab E) "decimal.Decimal") as [d|] eqn:Hd; [|discriminate Hs].
      apply andb_true_iff in Hs as [Hs Hres]. apply andb_true_iff in Hs as [Hk Hdec].
      exists (VDict [(jsonclass_key, VList [VStr (dump_name d); VList [VStr s]])]). split.
      + simpl. rewrite Hf, Hd. reflexivity.
      + apply load_descriptor_noattrs with (c := "decimal.Decimal"); [exact Hres | reflexivity|].
        unfold construct. rewrite Hd. destruct (c_kind d); try discriminate Hk. now rewrite Hdec.
    - (* enum member *)
      cbn [supported] in Hs. destruct (find_class (e_ctab E) c) as [d|] eqn:Hd; [|discriminate Hs].
      apply andb_true_iff in Hs as [Hs Hres]. apply andb_true_iff in Hs as [Hk Hmem].
      exists (VDict [(jsonclass_key, VList [VStr (dump_name d); VList [v]])]). split.
      + simpl. rewrite Hf, Hd. reflexivity.
      + apply load_descriptor_noattrs with (c := c); [exact Hres | reflexivity|].
        unfold construct. rewrite Hd. destruct (c_kind d); try discriminate Hk.
        destruct (find (py_eq v) (c_members d)) as [m'|]; [|discriminate Hmem].
        apply val_eqb_eq in Hmem. now subst m'.
  Qed.
End Roundtrip.

(** ** The C07 statements *)

Theorem c07_roundtrip hfun E cfg sm ia v :
  no_handlers cfg = true -> supported E (cf_classes cfg) sm ia v = true ->
  exists d, jc_dump hfun fixed E cfg sm ia [] v = Ok d /\
            lres_val (jc_load_m fixed E (cf_classes cfg) d) = Ok (normi v).
Proof. intros Hnh Hs. exact (roundtrip_supported hfun E cfg sm ia Hnh v Hs). Qed.

Theorem c07_same_class hfun E cfg sm ia c fs :
  no_handlers cfg = true -> supported E (cf_classes cfg) sm ia (VInst c fs) = true ->
  exists d fs', jc_dump hfun fixed E cfg sm ia [] (VInst c fs) = Ok d /\
                lres_val (jc_load_m fixed E (cf_classes cfg) d) = Ok (VInst c fs') /\
                map fst fs' = map fst fs.
Proof.
  intros Hnh Hs. destruct (c07_roundtrip hfun E cfg sm ia _ Hnh Hs) as [d [Hd Hl]].
  exists d, (map (fun kv => (fst kv, normi (snd kv))) fs). split; [exact Hd|]. split; [exact Hl|].
  rewrite map_map. reflexivity.
Qed.

(** through the gates of jsonrpc.dump / jsonrpc.load (parameter or result of a remote call) *)
Theorem c07_rpc hfun E cfg v :
  cf_use cfg = true -> no_handlers cfg = true ->
  supported E (cf_classes cfg) (norm_name None (cf_ser cfg)) (norm_name None (cf_ign cfg)) v = true ->
  exists d, rpc_dump_params hfun fixed E cfg v = Ok d /\
            lres_val (rpc_load fixed E cfg d) = Ok (normi v).
Proof.
  intros Hu Hnh Hs. destruct (c07_roundtrip hfun E cfg _ _ v Hnh Hs) as [d [Hd Hl]].
  exists d. unfold rpc_dump_params, jc_dump_top, rpc_load. rewrite Hu. split; [exact Hd|].
  destruct d; exact Hl.
Qed.

(** normalisation keeps every class identity and every field name; tuples and sets become lists *)
Lemma normi_plain : forall v, plain v = true -> normi v = norm v.
Proof.
  induction v using val_ind'; intros Hp; try discriminate Hp; try reflexivity; simpl in *.
  1-4: f_equal; induction H as [|x xs Hx _ IH]; [reflexivity|]; simpl in *;
       apply andb_true_iff in Hp as [H1 H2]; now rewrite (Hx H1), (IH H2).
  f_equal. induction H as [|[k x] xs [_ Hx] _ IH]; [reflexivity|]. simpl in *.
  apply andb_true_iff in Hp as [H1 H2]. now rewrite (Hx H1), (IH H2).
Qed.
