(** After stop() has set the stop flag, every step of a worker brings it strictly closer to its exit:
    a worker takes at most 22 more steps of its own (one of them the rest of the task body it may be
    running).  With PoolProgress (a live worker can always step, or the holder of what it waits for can)
    this is "every worker thread terminates on its own" up to fair scheduling. *)
From JR Require Import PoolInvDefs PoolInvA PoolInvB PoolInvE.

Definition wrank (l : wlabel) : nat :=
  match l with
  | WGet => 22 | WLock1 => 21 | WActInc => 20 | WUnlock1 => 19 | WBegin => 18 | WBody => 17 | WTaskDone => 16
  | WLock2 => 15 | WPendDec => 14 | WActDec => 13 | WUnlock2 => 12 | WLock3 => 11 | WTest => 10
  | WNbDec => 9 | WUnlock3R => 8 | WUnlock3 => 7 | WLoop => 6 | WSentDone => 6
  | WFLock => 5 | WFRemove => 4 | WFNbDec => 3 | WFUnlock => 2
  | WNew => 7 | WNone => 0 | WDead => 0
  end.

Lemma worker_rank_decreases s w f s' :
  stopped s = true -> step s (TW w) f = Some s' ->
  (wrank (wpc (ws s' w)) < wrank (wpc (ws s w)))%nat /\ stopped s' = true.
Proof.
  intros Hst H. cbn [step] in H. unfold wstep in H.
  destruct (ws s w) as [pc held clean] eqn:Ew; cbn [wpc wheld wclean] in H.
  destruct pc; destruct f; try discriminate H.
  all: try split_lockop H; try (break_ifs H; try inv_some H); use_lockop; simp.
  all: rewrite ?upd_same; cbn [wpc wrank]; try rewrite Hst; cbn [wpc wrank]; split; try lia; try assumption.
  - destruct i; cbn [wrank]; lia.
  - destruct ((minT s <? nb_threads s)%Z && (unfinished s <? nb_threads s)%Z); cbn [wrank]; lia.
  - destruct clean; simp; assumption.
Qed.

(** a bound on the remaining own steps of a worker once the stop flag is set: any sequence of n of its
    steps (each one a real step, the flag staying set) has n <= its rank <= 22 *)
Fixpoint wsteps (s : st) (w : nat) (fs : list bool) : option st :=
  match fs with
  | [] => Some s
  | f :: r => match step s (TW w) f with Some s' => wsteps s' w r | None => None end
  end.

Theorem worker_exits_within_rank : forall fs s w s',
  stopped s = true -> wsteps s w fs = Some s' -> (length fs + wrank (wpc (ws s' w)) <= wrank (wpc (ws s w)))%nat.
Proof.
  induction fs as [|f r IH]; intros s w s' Hst H; cbn [wsteps length] in *.
  - inversion H; subst. lia.
  - destruct (step s (TW w) f) as [s1|] eqn:E; [|discriminate].
    destruct (worker_rank_decreases _ _ _ _ Hst E) as [Hlt Hst1]. specialize (IH _ _ _ Hst1 H). lia.
Qed.

Lemma wrank_le l : (wrank l <= 22)%nat.
Proof. destruct l; cbn; lia. Qed.


Lemma wstep_other s w' f s' w : step s (TW w') f = Some s' -> w <> w' -> ws s' w = ws s w.
Proof.
  intros H Hne. cbn [step] in H. unfold wstep in H.
  destruct (ws s w') as [pc held clean] eqn:Ew; cbn [wpc wheld wclean] in H.
  destruct pc; destruct f; try discriminate H.
  all: try split_lockop H; try (break_ifs H; try inv_some H); use_lockop; simp.
  all: rewrite ?upd_other by exact Hne; try reflexivity.
  all: destruct clean; simp; reflexivity.
Qed.

(** no step of any other thread moves a created worker away from its exit while the flag is set *)
Theorem worker_rank_monotone s t f s' w :
  I_created s -> stopped s = true -> step s t f = Some s' -> wpc (ws s w) <> WNone ->
  (wrank (wpc (ws s' w)) <= wrank (wpc (ws s w)))%nat.
Proof.
  intros Hcr Hst H Hn.
  destruct t as [w'|c].
  - destruct (Nat.eq_dec w w') as [->|Hne].
    + destruct (worker_rank_decreases _ _ _ _ Hst H). lia.
    + rewrite (wstep_other _ _ _ _ _ H Hne). lia.
  - pose proof Hcr as [Hcr1 Hcr2].
    assert (Hlt : (w < next_w s)%nat).
    { destruct (le_lt_dec (next_w s) w) as [Hle|Hlt]; [|exact Hlt]. rewrite (Hcr1 w Hle) in Hn. exfalso. apply Hn. reflexivity. }
    cbn [step] in H. unfold cstep in H.
    destruct (cs s c) as [pc prog jc] eqn:Ec; cbn [cpc cprog cjcall] in H.
    destruct pc; destruct f; try discriminate H; cbn [orb negb] in H.
    all: try split_lockop H; try (break_ifs H; try inv_some H); unfold jreturn, jnext in *; use_cret2.
    all: repeat match goal with |- context [if ?b then _ else _] => let E := fresh "Eg" in destruct b eqn:E end.
    all: repeat match goal with |- context [match ?i with ITask _ => _ | ISent => _ end] => destruct i end.
    all: repeat match goal with |- context [spput ?n] => destruct n; cbn [spput] end.
    all: repeat match goal with |- context [spalive ?l] => destruct l; cbn [spalive] end.
    all: repeat match goal with |- context [match wpc ?x with WDead => _ | _ => _ end] => let E := fresh "Epc" in destruct (wpc x) eqn:E end.
    all: use_lockop; simp.
    all: try (match goal with Ec : cs ?s1 ?c = mkC (CSTStart ?k ?w) _ _ |- _ =>
              let X := fresh "Hwlt" in let Y := fresh "Hwnew" in destruct (Hcr2 c k w) as [X Y]; [rewrite Ec; reflexivity|] end).
    all: try lia.
    all: try (split_upd; simp; cbn [wrank wpc]; try lia; try (rewrite ?Hwnew; cbn [wrank wpc]; lia)).
Qed.

(** the controlling thread inside stop(): phase and position inside the phase *)
Definition cphase (l : clabel) : nat :=
  match l with
  | CSPSet => 12 | CSPLock => 11 | CSPPut _ => 10 | CSPCopy => 9 | CSPUnlock _ => 8
  | CSPAlive _ | CSPJoin _ | CSPAlive2 _ => 7
  | CSPDel => 6 | CCLLock => 5 | CCLGet | CCLDone => 4
  | CJTest _ JClear => 3 | CJQJoin JClear => 2 | CCLUnlock => 1
  | _ => 0
  end.
Definition cinner (s : st) (l : clabel) : nat :=
  match l with
  | CSPPut n => n
  | CSPAlive ths => 3 * length ths + 2
  | CSPJoin ths => 3 * length ths + 1
  | CSPAlive2 ths => 3 * length ths
  | CCLGet => 2 * length (q s) + 1
  | CCLDone => 2 * length (q s) + 2
  | _ => 0
  end.
Definition crank (s : st) : nat * nat := (cphase (ctl s), cinner s (ctl s)).
Definition lex_lt (a b : nat * nat) : Prop := (fst a < fst b)%nat \/ (fst a = fst b /\ (snd a < snd b)%nat).

Lemma entry_phase l : is_entry l = true -> cphase l = 0%nat.
Proof. destruct l; cbn; try discriminate; try reflexivity. destruct k; [reflexivity | discriminate]. Qed.

(** every step of stop() itself strictly decreases (phase, position), except the edge that goes back to poll
    the same worker again after thread.join(3) returned *)
Theorem stop_step_decreases s f s' :
  stop_region (ctl s) = true \/ ctl s = CSPSet -> step s (TC 0%nat) f = Some s' ->
  lex_lt (crank s') (crank s) \/ (exists ths, ctl s = CSPAlive2 ths /\ ctl s' = CSPAlive ths).
Proof.
  intros Hr H. unfold crank, ctl in *.
  cbn [step] in H. unfold cstep in H.
  destruct (cs s 0%nat) as [pc prog jc] eqn:Ec; cbn [cpc cprog cjcall] in H, Hr.
  destruct pc; cbn [stop_region] in Hr; try (destruct Hr as [Hr|Hr]; discriminate Hr).
  all: destruct f; try discriminate H; cbn [orb negb] in H.
  all: try split_lockop H; try (break_ifs H; try inv_some H); unfold jreturn, jnext in *; use_cret2.
  all: repeat match goal with |- context [spput ?n] => destruct n; cbn [spput] end.
  all: repeat match goal with |- context [spalive ?l] => destruct l; cbn [spalive] end.
  all: repeat match goal with |- context [match wpc ?x with WDead => _ | _ => _ end] => let E := fresh "Epc" in destruct (wpc x) eqn:E end.
  all: repeat match goal with |- context [match ?i with ITask _ => _ | ISent => _ end] => destruct i end.
  all: use_lockop; simp; rewrite ?upd_same; simp.
  all: try (left; unfold lex_lt; cbn [fst snd cphase cinner length]; rewrite ?(entry_phase _ Hentry); simp; cbn [length]; lia).
  - right. eexists; split; reflexivity.
  - left. unfold lex_lt. cbn [fst snd cphase cinner]. simp. rewrite Em. cbn [length]. lia.
  - left. unfold lex_lt. cbn [fst snd cphase cinner]. simp. rewrite Em. cbn [length]. lia.
  - destruct k; [destruct Hr as [Hr|Hr]; discriminate Hr|]. left. unfold lex_lt. simp. rewrite ?upd_same. cbn [fst snd cphase cinner cpc]. lia.
  - destruct k; [destruct Hr as [Hr|Hr]; discriminate Hr|]. left. unfold lex_lt. cbn [fst snd cphase cinner]. lia.
  - destruct k; [destruct Hr as [Hr|Hr]; discriminate Hr|]. left. unfold lex_lt. simp. rewrite ?upd_same. cbn [fst snd cphase cinner cpc]. lia.
Qed.
