(** Proofs about Model/Wire.v (property C17). *)
From JR Require Import Wire.
From Coq Require Import Lia ZifyN ZifyNat ZifyBool DecimalString Decimal DecimalN Ascii.
Local Open Scope N_scope.
Local Open Scope list_scope.

(** ** 1. UTF-8 round trip *)

Ltac if_true := match goal with |- context[if ?b then _ else _] =>
  let H := fresh in assert (H : b = true) by lia; rewrite H; clear H end.
Ltac if_false := match goal with |- context[if ?b then _ else _] =>
  let H := fresh in assert (H : b = false) by lia; rewrite H; clear H end.
Ltac step_if := first [if_true | if_false].

(** the hard lemma: one encoded character in front of anything decodes to that character
    (four length classes; every range test of the decoder is settled by linear arithmetic over the
    quotients and remainders of the divisions by 64) *)
Lemma dec_enc1 c rest : is_scalar c = true ->
  utf8_dec (enc1 c ++ rest) = cons_ok c (utf8_dec rest).
Proof.
  intros Hs. unfold is_scalar in Hs. unfold enc1.
  destruct (c <? 128) eqn:H1.
  { cbn [List.app utf8_dec]. rewrite H1. reflexivity. }
  destruct (c <? 2048) eqn:H2.
  { cbn [List.app utf8_dec]. unfold contb. repeat step_if.
    match goal with |- cons_ok ?e _ = _ => replace e with c by lia end. reflexivity. }
  destruct (c <? 65536) eqn:H3.
  { cbn [List.app utf8_dec]. unfold contb. repeat step_if.
    match goal with |- cons_ok ?e _ = _ => replace e with c by lia end. reflexivity. }
  { cbn [List.app utf8_dec]. unfold contb. repeat step_if.
    match goal with |- cons_ok ?e _ = _ => replace e with c by lia end. reflexivity. }
Qed.

Lemma dec_enc_app s rest : forallb is_scalar s = true ->
  utf8_dec (utf8_enc s ++ rest) = match utf8_dec rest with Ok t => Ok (s ++ t) | Raise e => Raise e end.
Proof.
  induction s as [|c s IH]; intros Hs.
  - cbn. now destruct (utf8_dec rest).
  - cbn [forallb] in Hs. apply andb_true_iff in Hs as [Hc Hs].
    unfold utf8_enc. cbn [flat_map]. rewrite <- app_assoc. rewrite (dec_enc1 _ _ Hc).
    fold (utf8_enc s). rewrite (IH Hs). now destruct (utf8_dec rest).
Qed.

Theorem utf8_roundtrip s : forallb is_scalar s = true -> utf8_dec (utf8_enc s) = Ok s.
Proof.
  intros Hs. rewrite <- (app_nil_r (utf8_enc s)). rewrite (dec_enc_app _ _ Hs). cbn. now rewrite app_nil_r.
Qed.

Theorem to_from_bytes s b : to_bytes (PStr s) = Ok b -> from_bytes (PBytes b) = Ok s.
Proof.
  cbn. destruct (forallb is_scalar s) eqn:Hs; [|discriminate]. intros [= <-]. now apply utf8_roundtrip.
Qed.

(** encoding raises exactly on non-scalars, and never produces anything else *)
Lemma to_bytes_str s : to_bytes (PStr s) = if forallb is_scalar s then Ok (utf8_enc s) else Raise enc_err.
Proof. reflexivity. Qed.

(** ** 2. decimal rendering of the length *)

Lemma N_of_str_of_N n : N_of_str (str_of_N n) = Some n.
Proof.
  unfold N_of_str, str_of_N. rewrite NilEmpty.usu. cbn. now rewrite DecimalN.Unsigned.of_to.
Qed.

(** ** 3. client reassembly *)

Lemma fold_feed chunks acc : fold_left target_feed chunks acc = acc ++ chunks.
Proof.
  revert acc. induction chunks as [|c r IH]; intros acc; cbn.
  - now rewrite app_nil_r.
  - rewrite IH. unfold target_feed. now rewrite <- app_assoc.
Qed.

Lemma target_close_whole data : target_close data = decode_whole (concat data).
Proof. destruct data; reflexivity. Qed.

Theorem client_reassembly chunks :
  target_close (fold_left target_feed chunks target_init) = decode_whole (concat chunks).
Proof. now rewrite fold_feed, target_close_whole. Qed.

Corollary client_reassembly_valid chunks s :
  utf8_dec (concat chunks) = Ok s ->
  target_close (fold_left target_feed chunks target_init) = PStr s.
Proof. intros H. rewrite client_reassembly. unfold decode_whole. cbn. now rewrite H. Qed.

(** ** 4. takeN / dropN *)

Lemma takeN_firstn {A} (l : list A) : forall n, takeN n l = firstn (N.to_nat n) l.
Proof.
  induction l as [|x r IH]; intros n; cbn [takeN].
  - now rewrite firstn_nil.
  - destruct (n =? 0) eqn:E.
    + apply N.eqb_eq in E. subst. reflexivity.
    + replace (N.to_nat n) with (S (N.to_nat (N.pred n))) by lia. cbn [firstn]. now rewrite IH.
Qed.

Lemma dropN_skipn {A} (l : list A) : forall n, dropN n l = skipn (N.to_nat n) l.
Proof.
  induction l as [|x r IH]; intros n; cbn [dropN].
  - now rewrite skipn_nil.
  - destruct (n =? 0) eqn:E.
    + apply N.eqb_eq in E. subst. reflexivity.
    + replace (N.to_nat n) with (S (N.to_nat (N.pred n))) by lia. cbn [skipn]. now rewrite IH.
Qed.

Lemma takeN_dropN {A} n (l : list A) : takeN n l ++ dropN n l = l.
Proof. rewrite takeN_firstn, dropN_skipn. apply firstn_skipn. Qed.

Lemma firstn_plus {A} : forall a b (l : list A), firstn (a + b) l = firstn a l ++ firstn b (skipn a l).
Proof.
  induction a as [|a IH]; intros b l; [reflexivity|].
  destruct l as [|x r]; cbn.
  - now rewrite firstn_nil.
  - now rewrite IH.
Qed.

Lemma takeN_add {A} a b (l : list A) : takeN (a + b) l = takeN a l ++ takeN b (dropN a l).
Proof.
  rewrite !takeN_firstn, dropN_skipn. replace (N.to_nat (a + b)) with (N.to_nat a + N.to_nat b)%nat by lia.
  apply firstn_plus.
Qed.

Lemma blen_takeN n (l : bytes) : blen (takeN n l) = N.min n (blen l).
Proof. unfold blen. rewrite takeN_firstn, firstn_length. lia. Qed.

Lemma blen_dropN n (l : bytes) : blen (dropN n l) = blen l - n.
Proof. unfold blen. rewrite dropN_skipn, skipn_length. lia. Qed.

Lemma takeN_all (l : bytes) : takeN (blen l) l = l.
Proof. unfold blen. rewrite takeN_firstn. replace (N.to_nat (N.of_nat (length l))) with (length l) by lia. apply firstn_all. Qed.

Lemma takeN_min n (l : bytes) : takeN (N.min n (blen l)) l = takeN n l.
Proof.
  destruct (N.le_gt_cases n (blen l)) as [H|H].
  - now rewrite N.min_l.
  - rewrite N.min_r by lia. rewrite takeN_all, takeN_firstn, firstn_all2; [reflexivity|]. unfold blen in H. lia.
Qed.

Lemma dropN_min n (l : bytes) : dropN (N.min n (blen l)) l = dropN n l.
Proof.
  destruct (N.le_gt_cases n (blen l)) as [H|H].
  - now rewrite N.min_l.
  - rewrite N.min_r by lia. rewrite !dropN_skipn, !skipn_all2; [reflexivity| |]; unfold blen in *; lia.
Qed.

Lemma takeN_0 {A} (l : list A) : takeN 0 l = [].
Proof. destruct l; reflexivity. Qed.

(** ** 5. reads of a response: any script of read sizes delivers the whole body *)

Lemma read_all_concat : forall fuel amt sizes s,
  (length s <= length fuel)%nat -> concat (read_all fuel amt sizes s) = s.
Proof.
  induction fuel as [|f fuel IH]; intros amt sizes s Hl.
  - destruct s; [reflexivity | cbn in Hl; lia].
  - destruct s as [|x r]; [reflexivity|].
    cbn [read_all]. set (want := N.max 1 _). cbn [concat].
    rewrite IH.
    + apply takeN_dropN.
    + assert (Hw : 1 <= want) by (unfold want; lia).
      rewrite dropN_skipn, skipn_length. cbn [length] in *. lia.
Qed.

Theorem parse_stream_whole sizes b : parse_stream sizes (Ok b) = Ok (decode_whole (concat [b])).
Proof.
  unfold parse_stream. cbn [bind]. rewrite client_reassembly, read_all_concat by lia.
  cbn [concat]. now rewrite app_nil_r.
Qed.

Theorem parse_stream_independent sizes sizes' b :
  parse_stream sizes (Ok b) = parse_stream sizes' (Ok b).
Proof. now rewrite !parse_stream_whole. Qed.

Section GzipProofs.
  Variable gz : bytes -> bytes.
  Variable gunz : bytes -> res bytes.
  Hypothesis gunz_gz : forall b, gunz (gz b) = Ok b.

  Theorem gzip_same sizes sizes' b :
    parse_response gunz true sizes (gz b) = parse_response gunz false sizes' b.
  Proof. unfold parse_response. rewrite gunz_gz. apply parse_stream_independent. Qed.

  Theorem gzip_decodes sizes b s :
    utf8_dec b = Ok s -> parse_response gunz true sizes (gz b) = Ok (PStr s).
  Proof.
    intros H. unfold parse_response. rewrite gunz_gz, parse_stream_whole. cbn [concat]. rewrite app_nil_r.
    unfold decode_whole. cbn. now rewrite H.
  Qed.
End GzipProofs.

Theorem identity_decodes gunz sizes b s :
  utf8_dec b = Ok s -> parse_response gunz false sizes b = Ok (PStr s).
Proof.
  intros H. unfold parse_response. rewrite parse_stream_whole. cbn [concat]. rewrite app_nil_r.
  unfold decode_whole. cbn. now rewrite H.
Qed.

(** ** 6. header framing *)

Lemma hdr_values_app n a b : hdr_values n (a ++ b) = hdr_values n a ++ hdr_values n b.
Proof. unfold hdr_values. now rewrite filter_app, map_app. Qed.

Lemma hdr_values_cons n k v r :
  hdr_values n ((k, v) :: r) = if String.eqb (ascii_lower k) n then v :: hdr_values n r else hdr_values n r.
Proof. unfold hdr_values. cbn [filter fst snd]. destruct (String.eqb (ascii_lower k) n); reflexivity. Qed.

Lemma lower_char_idem a : ascii_lower_char (ascii_lower_char a) = ascii_lower_char a.
Proof. destruct a as [[] [] [] [] [] [] [] []]; reflexivity. Qed.

Lemma lower_idem s : ascii_lower (ascii_lower s) = ascii_lower s.
Proof. induction s as [|a s IH]; cbn; [reflexivity|]. now rewrite lower_char_idem, IH. Qed.

Lemma emit_additional_no_readonly custom name :
  readonly name = true -> hdr_values name (emit_additional custom) = [].
Proof.
  intros Hn. unfold hdr_values, emit_additional.
  induction custom as [|[k v] r IH]; [reflexivity|].
  cbn [map filter fst snd].
  destruct (readonly (ascii_lower k)) eqn:Hr; cbn [negb].
  - exact IH.
  - cbn [filter fst snd]. rewrite lower_idem.
    destruct (String.eqb (ascii_lower k) name) eqn:E.
    + apply String.eqb_eq in E. congruence.
    + exact IH.
Qed.

(** client request: exactly one Content-Length, the byte length of what is sent; exactly one
    Content-Type, the configured one — whatever custom headers are pushed *)
Theorem send_content_framing ct ua custom body hs b :
  send_content ct ua custom body = Ok (hs, b) ->
  to_bytes body = Ok b
  /\ hdr_values "content-length" hs = [str_of_N (blen b)]
  /\ N_of_str (str_of_N (blen b)) = Some (blen b)
  /\ hdr_values "content-type" hs = [ct].
Proof.
  unfold send_content. destruct (to_bytes body) as [b'|e]; cbn [bind]; [|discriminate].
  intros [= <- <-]. split; [reflexivity|].
  set (tail := emit_additional custom ++ _).
  assert (H1 : hdr_values "content-length" tail = []).
  { unfold tail. rewrite hdr_values_app, emit_additional_no_readonly by reflexivity. destruct (existsb _ _); reflexivity. }
  assert (H2 : hdr_values "content-type" tail = []).
  { unfold tail. rewrite hdr_values_app, emit_additional_no_readonly by reflexivity. destruct (existsb _ _); reflexivity. }
  clearbody tail. rewrite !hdr_values_cons.
  change (String.eqb (ascii_lower "Content-Type") "content-length") with false.
  change (String.eqb (ascii_lower "Content-Length") "content-length") with true.
  change (String.eqb (ascii_lower "Content-Type") "content-type") with true.
  change (String.eqb (ascii_lower "Content-Length") "content-type") with false.
  cbv iota. rewrite H1, H2. repeat split. apply N_of_str_of_N.
Qed.

Theorem reply_framing status ct response r :
  reply_of status ct response = Ok r ->
  to_bytes (PStr response) = Ok (rp_body r)
  /\ hdr_values "content-length" (rp_headers r) = [str_of_N (blen (rp_body r))]
  /\ N_of_str (str_of_N (blen (rp_body r))) = Some (blen (rp_body r))
  /\ hdr_values "content-type" (rp_headers r) = [ct].
Proof.
  unfold reply_of. destruct (to_bytes (PStr response)) as [b|e]; cbn [bind]; [|discriminate].
  intros [= <-]. cbn. repeat split. apply N_of_str_of_N.
Qed.

(** every reply of do_POST (200 and 500 alike) is framed by [reply_of] with the configured content type *)
Theorem do_post_framing M ct clen f dispatch fault seen r :
  do_post M ct clen f dispatch fault = (seen, Ok r) ->
  hdr_values "content-length" (rp_headers r) = [str_of_N (blen (rp_body r))]
  /\ hdr_values "content-type" (rp_headers r) = [ct].
Proof.
  unfold do_post. intros H.
  assert (exists st t, reply_of st ct t = Ok r) as (st & t & Hr).
  { destruct (server_body M clen f) as [data|e].
    - destruct (dispatch data) as [[x|]|e].
      + exists 200, x. congruence.
      + exists 200, []. congruence.
      + exists 500, fault. congruence.
    - exists 500, fault. congruence. }
  apply reply_framing in Hr. tauto.
Qed.

Theorem cgi_framing ct response hs b :
  cgi_reply ct response = Ok (hs, b) ->
  to_bytes (PStr response) = Ok b
  /\ hdr_values "content-length" hs = [str_of_N (blen b)]
  /\ N_of_str (str_of_N (blen b)) = Some (blen b)
  /\ hdr_values "content-type" hs = [ct].
Proof.
  unfold cgi_reply. destruct (to_bytes (PStr response)) as [b'|e]; cbn [bind]; [|discriminate].
  intros [= <- <-]. cbn. repeat split. apply N_of_str_of_N.
Qed.

(** ** 7. request target and schemes *)

Lemma append_nil_r (s : string) : (s ++ "")%string = s.
Proof. induction s; cbn; congruence. Qed.

Theorem request_target_spec scheme path query tr p :
  proxy_init scheme path query tr = Ok p ->
  request_target p =
  ((if prefixb "unix+" scheme then "/" else if String.eqb path "" then "/" else path)
     ++ (if String.eqb query "" then "" else "?" ++ query))%string.
Proof.
  unfold proxy_init.
  set (schema := if prefixb "unix+" scheme then _ else _).
  set (handler := if prefixb "unix+" scheme then "/"%string else _).
  intros H.
  assert (Hp : px_handler p = handler /\ px_query p = query).
  { destruct (negb _); [discriminate|].
    destruct tr; [injection H as <-; now split|].
    destruct (prefixb "unix+" scheme).
    - destruct (String.eqb schema "http"); [injection H as <-; now split | discriminate].
    - destruct (String.eqb schema "https"); injection H as <-; now split. }
  destruct Hp as [Hh Hq]. unfold request_target. rewrite Hh, Hq.
  destruct (String.eqb query ""); [now rewrite append_nil_r | reflexivity].
Qed.

Lemma prefix_unix scheme : prefixb "unix+" scheme = true -> scheme = ("unix+" ++ drop_chars 5 scheme)%string.
Proof.
  destruct scheme as [|a1 [|a2 [|a3 [|a4 [|a5 r]]]]]; cbn [prefixb drop_chars append]; try discriminate;
    try (intros H; repeat (apply andb_true_iff in H as [? H]); discriminate).
  intros H. repeat (apply andb_true_iff in H as [? H]).
  repeat match goal with E : Ascii.eqb _ _ = true |- _ => apply Ascii.eqb_eq in E end. now subst.
Qed.

Theorem scheme_acceptance scheme path query tr :
  (accepted scheme tr = true -> exists p, proxy_init scheme path query tr = Ok p)
  /\ (accepted scheme tr = false -> proxy_init scheme path query tr = Raise EOS).
Proof.
  unfold accepted, proxy_init.
  destruct (prefixb "unix+" scheme) eqn:Hp.
  - apply prefix_unix in Hp. set (r := drop_chars 5 scheme) in *. rewrite Hp. clearbody r. clear Hp.
    cbn [String.eqb append Ascii.eqb Bool.eqb orb andb].
    destruct (String.eqb r "http") eqn:E1; cbn [orb negb andb].
    + split; [intros _ | discriminate]. destruct tr; eauto.
    + destruct (String.eqb r "https") eqn:E2; cbn [orb negb andb].
      * destruct tr; split; try discriminate; eauto.
      * split; [discriminate | reflexivity].
  - assert (E3 : String.eqb scheme "unix+http" = false).
    { destruct (String.eqb_spec scheme "unix+http"); [subst; discriminate | reflexivity]. }
    assert (E4 : String.eqb scheme "unix+https" = false).
    { destruct (String.eqb_spec scheme "unix+https"); [subst; discriminate | reflexivity]. }
    rewrite E3, E4. cbn [andb]. rewrite !orb_false_r.
    destruct (String.eqb scheme "http" || String.eqb scheme "https") eqn:E; cbn [negb].
    + split; [intros _ | discriminate]. destruct tr; [eauto|]. destruct (String.eqb scheme "https"); eauto.
    + split; [discriminate | reflexivity].
Qed.

(** the accepted set, spelled out *)
Lemma accepted_iff scheme tr :
  accepted scheme tr = true <->
  (scheme = "http" \/ scheme = "https" \/ scheme = "unix+http" \/ (scheme = "unix+https" /\ tr = true))%string.
Proof.
  unfold accepted. rewrite !orb_true_iff, andb_true_iff, !String.eqb_eq. tauto.
Qed.

(** ** 8. the server's body loop *)

Lemma concat_snoc (l : list bytes) (x : bytes) : concat (l ++ [x]) = concat l ++ x.
Proof. rewrite concat_app. cbn. now rewrite app_nil_r. Qed.

(** every read script: the loop never runs out of fuel and has read a prefix of the stream, no longer
    than the declared length *)
Lemma body_loop_prefix : forall fuel M rem (s : bytes) caps chunks,
  (length s < length fuel)%nat ->
  exists chunks' n, body_loop fuel M rem (s, caps) chunks = Ok chunks'
                    /\ concat chunks' = concat chunks ++ takeN n s /\ n <= rem.
Proof.
  induction fuel as [|x fuel IH]; intros M rem s caps chunks Hf; [cbn in Hf; lia|].
  cbn [body_loop]. destruct (rem =? 0) eqn:E.
  { exists chunks, 0. rewrite takeN_0, app_nil_r. repeat split; lia. }
  unfold rfile_read.
  set (n := match caps with [] => N.min rem M | c :: _ => N.min (N.min rem M) c end).
  destruct (takeN n s) as [|y raw'] eqn:Hraw.
  { exists chunks, 0. rewrite takeN_0, app_nil_r. repeat split; lia. }
  rewrite <- Hraw.
  assert (Hlen : blen (takeN n s) = N.min n (blen s)) by apply blen_takeN.
  assert (Hpos : 0 < blen (takeN n s)) by (rewrite Hraw; unfold blen; cbn [length]; lia).
  destruct (IH M (rem - blen (takeN n s)) (dropN n s) (tl caps) (chunks ++ [takeN n s])) as (c' & k & H1 & H2 & H3).
  { rewrite dropN_skipn, skipn_length. cbn [length] in Hf. unfold blen in *. lia. }
  exists c', (N.min n (blen s) + k). split; [exact H1|]. split.
  - rewrite H2, concat_snoc, takeN_add, takeN_min, dropN_min. now rewrite app_assoc.
  - assert (n <= rem) by (unfold n; destruct caps; lia). unfold blen in *. lia.
Qed.

(** complete delivery (every scripted read size positive, the stream holds at least the declared
    length): the loop has read exactly the first [rem] bytes *)
Lemma body_loop_complete : forall fuel M rem s caps chunks,
  0 < M -> forallb (fun c => 0 <? c) caps = true -> rem <= blen s -> (length s < length fuel)%nat ->
  exists chunks', body_loop fuel M rem (s, caps) chunks = Ok chunks'
                  /\ concat chunks' = concat chunks ++ takeN rem s.
Proof.
  induction fuel as [|x fuel IH]; intros M rem s caps chunks HM Hcaps Hrem Hf; [cbn in Hf; lia|].
  cbn [body_loop]. destruct (rem =? 0) eqn:E.
  { exists chunks. apply N.eqb_eq in E. subst. now rewrite takeN_0, app_nil_r. }
  unfold rfile_read.
  set (n := match caps with [] => N.min rem M | c :: _ => N.min (N.min rem M) c end).
  assert (Hn : 0 < n /\ n <= rem).
  { unfold n. destruct caps as [|c caps']; [lia|]. cbn [forallb] in Hcaps. apply andb_true_iff in Hcaps as [Hc _]. lia. }
  assert (Hlen : blen (takeN n s) = n) by (rewrite blen_takeN; lia).
  destruct (takeN n s) as [|y raw'] eqn:Hraw.
  { unfold blen in Hlen. cbn in Hlen. lia. }
  rewrite <- Hraw in *.
  destruct (IH M (rem - blen (takeN n s)) (dropN n s) (tl caps) (chunks ++ [takeN n s])) as (c' & H1 & H2).
  - exact HM.
  - destruct caps as [|c caps']; [reflexivity|]. cbn [forallb] in Hcaps. apply andb_true_iff in Hcaps as [_ Hc]. exact Hc.
  - rewrite blen_dropN. lia.
  - rewrite dropN_skipn, skipn_length. cbn [length] in Hf. unfold blen in *. lia.
  - exists c'. split; [exact H1|].
    rewrite H2, concat_snoc, Hlen. replace rem with (n + (rem - n)) at 2 by lia.
    rewrite takeN_add. now rewrite app_assoc.
Qed.

(** C17, server side: for every chunk size, every script of short reads and every body, the text handed
    to the dispatcher is the decoding of the whole declared body *)
Theorem server_reassembly_prefix M clen s caps :
  0 < M -> forallb (fun c => 0 <? c) caps = true -> clen <= blen s ->
  server_body M clen (s, caps) = utf8_dec (takeN clen s).
Proof.
  intros HM Hcaps Hlen. unfold server_body. cbn [fst].
  destruct (body_loop_complete (0 :: s) M clen s caps [] HM Hcaps Hlen) as (c' & H1 & H2); [cbn; lia|].
  rewrite H1. cbn [bind from_bytes]. now rewrite H2.
Qed.

Theorem server_reassembly M s caps :
  0 < M -> forallb (fun c => 0 <? c) caps = true ->
  server_body M (blen s) (s, caps) = utf8_dec s.
Proof.
  intros HM Hcaps. rewrite server_reassembly_prefix by (auto; lia). now rewrite takeN_all.
Qed.

(** in particular for bodies that are the encoding of a text: the dispatcher sees that text *)
Corollary server_reassembly_text M t caps :
  0 < M -> forallb (fun c => 0 <? c) caps = true -> forallb is_scalar t = true ->
  server_body M (blen (utf8_enc t)) (utf8_enc t, caps) = Ok t.
Proof. intros HM Hcaps Ht. rewrite server_reassembly by assumption. now apply utf8_roundtrip. Qed.

(** with arbitrary scripts (including end of file before the declared length) the loop still terminates
    within its fuel and decodes a prefix of the stream *)
Theorem server_body_total M clen s caps :
  exists n, n <= clen /\ server_body M clen (s, caps) = utf8_dec (takeN n s).
Proof.
  unfold server_body. cbn [fst].
  destruct (body_loop_prefix (0 :: s) M clen s caps []) as (c' & n & H1 & H2 & H3); [cbn; lia|].
  exists n. split; [exact H3|]. rewrite H1. cbn [bind from_bytes]. now rewrite H2.
Qed.

(** do_POST hands the dispatcher exactly that text *)
Theorem do_post_sees M ct s caps dispatch fault :
  0 < M -> forallb (fun c => 0 <? c) caps = true ->
  fst (do_post M ct (blen s) (s, caps) dispatch fault) =
  match utf8_dec s with Ok t => Some t | Raise _ => None end.
Proof.
  intros HM Hcaps. unfold do_post. rewrite server_reassembly by assumption.
  destruct (utf8_dec s) as [t|e]; [|reflexivity]. destruct (dispatch t) as [[r|]|e]; reflexivity.
Qed.
