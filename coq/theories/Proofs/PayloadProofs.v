(** * PayloadProofs — property C14 proved about Model/Payload.v for all inputs. *)

From JR Require Import Payload.
From Coq Require Import Lia.

(** ** Specification vocabulary (pure functions of the inputs) *)

(** the version the Payload ends up with: explicit, else the config's, else the global default's *)
Definition resolved_version (dv : val) (cfg : pcfg) (version : val) : res rat :=
  let v := if truthy version then version else pc_version cfg in
  let v := if truthy v then v else dv in
  version_float v.

(** [if not is_response and params is None: params = []] *)
Definition default_params (is_response pv : val) : val :=
  match pv with
  | VNone => if truthy is_response then VNone else VList []
  | _ => pv
  end.

(** non-empty string or number: the caller-supplied ids of the statement *)
Definition supplied_id (i : val) : bool := is_number i || (is_string i && truthy i).

(** members of a request / notification dictionary *)
Definition params_member (r : rat) (p' : val) : list (val * val) :=
  if truthy p' || lt11 r then [(VStr "params", params_or_empty p')] else [].
Definition jsonrpc_member (r : rat) (s : str) : list (val * val) :=
  if ge2 r then [(VStr "jsonrpc", VStr s)] else [].

Definition request_members (r : rat) (s : str) (i m p' : val) : list (val * val) :=
  ([(VStr "id", i); (VStr "method", m)] ++ params_member r p' ++ jsonrpc_member r s)%list.

Definition notify_members (r : rat) (s : str) (m p' : val) : list (val * val) :=
  if ge2 r then ([(VStr "method", m)] ++ params_member r p' ++ jsonrpc_member r s)%list
  else ([(VStr "id", VNone); (VStr "method", m)] ++ params_member r p')%list.

Definition response_members (r : rat) (s : str) (i result : val) : list (val * val) :=
  if ge2 r then [(VStr "result", result); (VStr "id", i); (VStr "jsonrpc", VStr s)]
  else [(VStr "result", result); (VStr "id", i); (VStr "error", VNone)].

Definition error_members (r : rat) (s : str) (i code msg data : val) : list (val * val) :=
  if ge2 r then [(VStr "id", i); (VStr "jsonrpc", VStr s); (VStr "error", error_object code msg data)]
  else [(VStr "result", VNone); (VStr "id", i); (VStr "error", error_object code msg data)].

(** the version text is needed only from 2.0 on *)
Definition version_text (r : rat) (s : str) : Prop := ge2 r = true -> float_str r = Ok s.

(** one dump call, as data (for statements about sequences of calls) *)
Record call := mkCall {
  c_cfg : pcfg; c_params : dparams; c_method : val; c_rpcid : val; c_version : val;
  c_response : val; c_notify : val
}.

Section Proofs.
  Variable fresh : nat -> str.
  Variable jc : val -> res val.
  Hypothesis fresh_inj : forall a b, fresh a = fresh b -> a = b.
  Hypothesis fresh_nonempty : forall n, fresh n <> "".

  Definition translated (cfg : pcfg) (pv : val) : res val := if pc_jsonclass cfg then jc pv else Ok pv.

  (** the id a request carries and the counter afterwards *)
  Definition id_used (rpcid : val) (n : nat) : val * nat :=
    if needs_fresh_id rpcid then (VStr (fresh n), S n) else (rpcid, n).

  (** *** dump_plan, unfolded once for each kind of [params] *)

  Lemma plan_pval dv cfg pv m rpcid version resp notify :
    dump_plan jc dv cfg (PVal pv) m rpcid version resp notify =
    let pv0 := default_params resp pv in
    if is_string m && negb (valid_params (truthy resp) (PVal pv0)) then Raise EType
    else
      do r <- resolved_version dv cfg version;
      if negb (is_string m) && negb (truthy resp) then Raise EValue
      else
        do p' <- translated cfg pv0;
        if truthy resp then
          match rpcid with
          | VNone => Raise EValue
          | _ => do d <- payload_response (mkPayload rpcid r) p'; Ok (DoneMsg d)
          end
        else if truthy notify then Ok (DoNotify (mkPayload rpcid r) m p')
        else Ok (DoRequest (mkPayload rpcid r) m p').
  Proof.
    unfold dump_plan, resolved_version, payload_init, translated, default_params.
    assert (E : (match pv with VNone => if truthy resp then PVal pv else PVal (VList []) | _ => PVal pv end)
                = PVal (match pv with VNone => if truthy resp then VNone else VList [] | _ => pv end)).
    { destruct pv; try reflexivity. destruct (truthy resp); reflexivity. }
    cbv zeta. rewrite E. clear E.
    set (pv0 := match pv with VNone => if truthy resp then VNone else VList [] | _ => pv end).
    destruct (is_string m && negb (valid_params (truthy resp) (PVal pv0))); [reflexivity|].
    set (v := if truthy version then version else pc_version cfg).
    destruct (version_float (if truthy v then v else dv)) as [r|e]; cbn [bind]; [|reflexivity].
    destruct (negb (is_string m) && negb (truthy resp)); [reflexivity|].
    destruct (if pc_jsonclass cfg then jc pv0 else Ok pv0) as [p'|e]; cbn [bind]; reflexivity.
  Qed.

  Lemma plan_fault dv cfg c ms d m rpcid version resp notify :
    dump_plan jc dv cfg (PFault c ms d) m rpcid version resp notify =
    do r <- resolved_version dv cfg version;
    do e <- payload_error (mkPayload rpcid r) c ms d;
    Ok (DoneMsg e).
  Proof.
    unfold dump_plan, resolved_version, payload_init. cbn [valid_params negb].
    rewrite andb_false_r.
    set (v := if truthy version then version else pc_version cfg).
    destruct (version_float (if truthy v then v else dv)) as [r|e]; cbn [bind]; reflexivity.
  Qed.

  (** *** The Payload builders in closed form *)

  Lemma response_spec i r s result :
    version_text r s ->
    payload_response (mkPayload i r) result = Ok (VDict (response_members r s i result)).
  Proof.
    intros Hs. unfold payload_response, response_members. cbn [p_version p_id].
    destruct (ge2 r) eqn:G.
    - rewrite (Hs G). reflexivity.
    - reflexivity.
  Qed.

  Lemma error_spec i r s c m d :
    version_text r s ->
    payload_error (mkPayload i r) c m d = Ok (VDict (error_members r s i c m d)).
  Proof.
    intros Hs. unfold payload_error. rewrite (response_spec _ _ s) by assumption.
    unfold response_members, error_members. cbn [bind p_version].
    destruct (ge2 r); reflexivity.
  Qed.

  Lemma request_spec i r s m p' n :
    is_string m = true -> version_text r s ->
    payload_request fresh (mkPayload i r) m p' n =
    Ok (VDict (request_members r s (fst (id_used i n)) m p'), mkPayload (fst (id_used i n)) r, snd (id_used i n)).
  Proof.
    intros Hm Hs. unfold payload_request, id_used, request_members, params_member, jsonrpc_member.
    rewrite Hm. cbn [negb p_id p_version].
    destruct (needs_fresh_id i); cbn [fst snd p_id p_version];
      (destruct (truthy p' || lt11 r); destruct (ge2 r) eqn:G;
       [ rewrite (Hs G) | | rewrite (Hs G) | ]; reflexivity).
  Qed.

  Lemma notify_spec i r s m p' n :
    is_string m = true -> version_text r s ->
    payload_notify fresh (mkPayload i r) m p' n =
    Ok (VDict (notify_members r s m p'), mkPayload (fst (id_used i n)) r, snd (id_used i n)).
  Proof.
    intros Hm Hs. unfold payload_notify. rewrite (request_spec _ _ s) by assumption.
    cbn [bind p_version]. unfold request_members, notify_members, params_member, jsonrpc_member.
    destruct (ge2 r); destruct (truthy p' || lt11 r); reflexivity.
  Qed.

  (** *** dump in closed form, one lemma per message kind *)

  Lemma dump_request_spec dv cfg pv m rpcid version resp notify n r s p' :
    is_string m = true -> truthy resp = false -> truthy notify = false ->
    valid_params false (PVal (default_params resp pv)) = true ->
    resolved_version dv cfg version = Ok r -> version_text r s ->
    translated cfg (default_params resp pv) = Ok p' ->
    dump jc fresh dv cfg (PVal pv) m rpcid version resp notify n =
    Ok (VDict (request_members r s (fst (id_used rpcid n)) m p'), snd (id_used rpcid n)).
  Proof.
    intros Hm Hr Hn Hv Hver Hs Ht. unfold dump. rewrite plan_pval. cbv zeta.
    rewrite Hr, Hm, Hv, Hver, Ht, Hn. cbn [negb andb bind dump_finish].
    rewrite (request_spec _ _ s) by assumption. reflexivity.
  Qed.

  Lemma dump_notify_spec dv cfg pv m rpcid version resp notify n r s p' :
    is_string m = true -> truthy resp = false -> truthy notify = true ->
    valid_params false (PVal (default_params resp pv)) = true ->
    resolved_version dv cfg version = Ok r -> version_text r s ->
    translated cfg (default_params resp pv) = Ok p' ->
    dump jc fresh dv cfg (PVal pv) m rpcid version resp notify n =
    Ok (VDict (notify_members r s m p'), snd (id_used rpcid n)).
  Proof.
    intros Hm Hr Hn Hv Hver Hs Ht. unfold dump. rewrite plan_pval. cbv zeta.
    rewrite Hr, Hm, Hv, Hver, Ht, Hn. cbn [negb andb bind dump_finish].
    rewrite (notify_spec _ _ s) by assumption. reflexivity.
  Qed.

  Lemma dump_response_spec dv cfg pv m rpcid version resp notify n r s p' :
    truthy resp = true -> rpcid <> VNone ->
    (is_string m = true -> valid_params true (PVal pv) = true) ->
    resolved_version dv cfg version = Ok r -> version_text r s ->
    translated cfg pv = Ok p' ->
    dump jc fresh dv cfg (PVal pv) m rpcid version resp notify n =
    Ok (VDict (response_members r s rpcid p'), n).
  Proof.
    intros Hr Hid Hv Hver Hs Ht. unfold dump. rewrite plan_pval. cbv zeta.
    assert (D : default_params resp pv = pv) by (unfold default_params; destruct pv; rewrite ?Hr; reflexivity).
    rewrite D, Hr, Hver, Ht.
    destruct (is_string m) eqn:Hm; [rewrite (Hv eq_refl)|]; cbn [negb andb bind];
      (destruct rpcid; try congruence; rewrite (response_spec _ _ s) by assumption; reflexivity).
  Qed.

  Lemma dump_error_spec dv cfg c ms d m rpcid version resp notify n r s :
    resolved_version dv cfg version = Ok r -> version_text r s ->
    dump jc fresh dv cfg (PFault c ms d) m rpcid version resp notify n =
    Ok (VDict (error_members r s rpcid c ms d), n).
  Proof.
    intros Hver Hs. unfold dump. rewrite plan_fault, Hver. cbn [bind].
    rewrite (error_spec _ _ s) by assumption. reflexivity.
  Qed.

  (** *** Rejections *)

  (** a string method with params that are neither container nor Fault: TypeError, before anything else *)
  Lemma reject_params dv cfg pv m rpcid version resp notify n :
    is_string m = true -> valid_params (truthy resp) (PVal (default_params resp pv)) = false ->
    dump jc fresh dv cfg (PVal pv) m rpcid version resp notify n = Raise EType.
  Proof.
    intros Hm Hv. unfold dump. rewrite plan_pval. cbv zeta. rewrite Hm, Hv. reflexivity.
  Qed.

  (** a non-string method that is not a response: ValueError *)
  Lemma reject_method dv cfg pv m rpcid version resp notify n r :
    is_string m = false -> truthy resp = false ->
    resolved_version dv cfg version = Ok r ->
    dump jc fresh dv cfg (PVal pv) m rpcid version resp notify n = Raise EValue.
  Proof.
    intros Hm Hr Hver. unfold dump. rewrite plan_pval. cbv zeta. rewrite Hm, Hr, Hver. reflexivity.
  Qed.

  (** a result response without an id: ValueError *)
  Lemma reject_response_without_id dv cfg pv m version resp notify n r p' :
    truthy resp = true ->
    (is_string m = true -> valid_params true (PVal pv) = true) ->
    resolved_version dv cfg version = Ok r -> translated cfg pv = Ok p' ->
    dump jc fresh dv cfg (PVal pv) m VNone version resp notify n = Raise EValue.
  Proof.
    intros Hr Hv Hver Ht. unfold dump. rewrite plan_pval. cbv zeta.
    assert (D : default_params resp pv = pv) by (unfold default_params; destruct pv; rewrite ?Hr; reflexivity).
    rewrite D, Hr, Hver, Ht.
    destruct (is_string m) eqn:Hm; [rewrite (Hv eq_refl)|]; reflexivity.
  Qed.

  (** the three invalid combinations never produce a message, whatever the other arguments are *)
  Definition invalid_combination (pv m rpcid resp : val) : bool :=
    (negb (is_string m) && negb (truthy resp))                                        (* non-string method for a request *)
    || (is_string m && negb (valid_params (truthy resp) (PVal (default_params resp pv)))) (* non-container params with a method *)
    || (truthy resp && match rpcid with VNone => true | _ => false end).               (* response without id *)

  Lemma invalid_never_emits dv cfg pv m rpcid version resp notify n :
    invalid_combination pv m rpcid resp = true ->
    exists e, dump jc fresh dv cfg (PVal pv) m rpcid version resp notify n = Raise e.
  Proof.
    unfold invalid_combination. intros H. unfold dump. rewrite plan_pval. cbv zeta.
    destruct (is_string m && negb (valid_params (truthy resp) (PVal (default_params resp pv)))) eqn:B1;
      [eexists; reflexivity|].
    destruct (resolved_version dv cfg version) as [r|e]; cbn [bind]; [|eexists; reflexivity].
    destruct (negb (is_string m) && negb (truthy resp)) eqn:B2; [eexists; reflexivity|].
    cbn [orb] in H.
    destruct (translated cfg (default_params resp pv)) as [p'|e]; cbn [bind]; [|eexists; reflexivity].
    apply andb_true_iff in H as [H1 H2]. rewrite H1. destruct rpcid; try discriminate. eexists; reflexivity.
  Qed.

  (** the rejections raise TypeError or ValueError when the version is usable and the
      class translation succeeds (otherwise the error of that step is raised) *)
  Lemma invalid_raises_type_or_value dv cfg pv m rpcid version resp notify n r p' :
    invalid_combination pv m rpcid resp = true ->
    resolved_version dv cfg version = Ok r -> translated cfg (default_params resp pv) = Ok p' ->
    dump jc fresh dv cfg (PVal pv) m rpcid version resp notify n = Raise EType \/
    dump jc fresh dv cfg (PVal pv) m rpcid version resp notify n = Raise EValue.
  Proof.
    unfold invalid_combination. intros H Hver Ht. unfold dump. rewrite plan_pval. cbv zeta.
    destruct (is_string m && negb (valid_params (truthy resp) (PVal (default_params resp pv)))) eqn:B1; [left; reflexivity|].
    rewrite Hver. cbn [bind].
    destruct (negb (is_string m) && negb (truthy resp)) eqn:B2; [right; reflexivity|].
    cbn [orb] in H. rewrite Ht. cbn [bind].
    apply andb_true_iff in H as [H1 H2]. rewrite H1. destruct rpcid; try discriminate. right; reflexivity.
  Qed.

  (** *** Ids *)

  Lemma supplied_id_used i n : supplied_id i = true -> id_used i n = (i, n).
  Proof.
    unfold supplied_id, id_used, needs_fresh_id. intros H.
    destruct (is_number i) eqn:N; [rewrite andb_false_r; reflexivity|].
    cbn [orb] in H. apply andb_true_iff in H as [_ H]. rewrite H. reflexivity.
  Qed.

  Lemma dget_request_id r s i m p' : dget (request_members r s i m p') "id" = Some i.
  Proof. reflexivity. Qed.

  Lemma dget_notify_v2_id r s m p' : ge2 r = true -> dget (notify_members r s m p') "id" = None.
  Proof.
    intros G. unfold notify_members, params_member, jsonrpc_member. rewrite G.
    destruct (truthy p' || lt11 r); reflexivity.
  Qed.

  Lemma dget_notify_v1_id r s m p' : ge2 r = false -> dget (notify_members r s m p') "id" = Some VNone.
  Proof. intros G. unfold notify_members. rewrite G. reflexivity. Qed.

  (** *** Inversion of the two id-generating builders (no assumption on the version text) *)

  Lemma request_inv p m pv n d p' n' :
    payload_request fresh p m pv n = Ok (d, p', n') ->
    is_string m = true /\
    exists s, d = VDict (request_members (p_version p) s (fst (id_used (p_id p) n)) m pv)
              /\ p' = mkPayload (fst (id_used (p_id p) n)) (p_version p)
              /\ n' = snd (id_used (p_id p) n).
  Proof.
    unfold payload_request, id_used, request_members, params_member, jsonrpc_member.
    destruct (is_string m); cbn [negb]; [|discriminate]. intros E0. split; [reflexivity|]. revert E0.
    destruct p as [i r]. cbn [p_id p_version].
    destruct (needs_fresh_id i); cbn [fst snd p_id p_version]; destruct (ge2 r).
    all: try (destruct (float_str r) as [s|e]; cbn [bind]; [|discriminate]).
    all: cbn [bind]; intros E; inversion E; subst.
    all: first [exists s | exists ""]; destruct (truthy pv || lt11 r); repeat split; reflexivity.
  Qed.

  Lemma notify_inv p m pv n d p' n' :
    payload_notify fresh p m pv n = Ok (d, p', n') ->
    is_string m = true /\
    exists s, d = VDict (notify_members (p_version p) s m pv) /\ n' = snd (id_used (p_id p) n).
  Proof.
    unfold payload_notify.
    destruct (payload_request fresh p m pv n) as [[[d0 p0] n0]|e] eqn:E; cbn [bind]; [|discriminate].
    apply request_inv in E as [Hm [s [-> [-> ->]]]]. intros E. split; [exact Hm|]. revert E.
    cbn [p_version]. unfold request_members, notify_members, params_member, jsonrpc_member.
    destruct (ge2 (p_version p)); destruct (truthy pv || lt11 (p_version p)); cbn;
      intros E; inversion E; subst; exists s; split; reflexivity.
  Qed.

  (** a successful dump of plain params is a response, a request or a notification *)
  Lemma dump_pval_inv dv cfg pv m rpcid version resp notify n d n' :
    dump jc fresh dv cfg (PVal pv) m rpcid version resp notify n = Ok (d, n') ->
    exists r p', resolved_version dv cfg version = Ok r /\ translated cfg (default_params resp pv) = Ok p' /\
      ((truthy resp = true /\ rpcid <> VNone /\ payload_response (mkPayload rpcid r) p' = Ok d /\ n' = n) \/
       (truthy resp = false /\ is_string m = true /\ exists s,
          n' = snd (id_used rpcid n) /\
          ((truthy notify = false /\ d = VDict (request_members r s (fst (id_used rpcid n)) m p')) \/
           (truthy notify = true /\ d = VDict (notify_members r s m p'))))).
  Proof.
    unfold dump. rewrite plan_pval. cbv zeta.
    destruct (is_string m && negb (valid_params (truthy resp) (PVal (default_params resp pv)))); [discriminate|].
    destruct (resolved_version dv cfg version) as [r|e]; cbn [bind]; [|discriminate].
    destruct (negb (is_string m) && negb (truthy resp)); [discriminate|].
    destruct (translated cfg (default_params resp pv)) as [p'|e]; cbn [bind]; [|discriminate].
    intros H. exists r, p'. split; [reflexivity|]. split; [reflexivity|].
    destruct (truthy resp).
    - left. destruct rpcid; try discriminate;
        (match type of H with context [payload_response ?p ?x] => destruct (payload_response p x) as [d0|e] eqn:E end;
         cbn [bind dump_finish] in H; [|discriminate]; inversion H; subst; repeat split; congruence).
    - right. destruct (truthy notify); cbn [bind dump_finish] in H.
      + destruct (payload_notify fresh (mkPayload rpcid r) m p' n) as [[[d0 p0] n0]|e] eqn:E; cbn [bind] in H; [|discriminate].
        inversion H; subst. apply notify_inv in E as [Hm [s [-> ->]]]. cbn [p_id p_version].
        split; [reflexivity|]. split; [exact Hm|]. exists s. split; [reflexivity|]. right. split; reflexivity.
      + destruct (payload_request fresh (mkPayload rpcid r) m p' n) as [[[d0 p0] n0]|e] eqn:E; cbn [bind] in H; [|discriminate].
        inversion H; subst. apply request_inv in E as [Hm [s [-> [_ ->]]]]. cbn [p_id p_version].
        split; [reflexivity|]. split; [exact Hm|]. exists s. split; [reflexivity|]. left. split; reflexivity.
  Qed.

  Lemma dump_fault_inv dv cfg c ms dt m rpcid version resp notify n d n' :
    dump jc fresh dv cfg (PFault c ms dt) m rpcid version resp notify n = Ok (d, n') ->
    n' = n /\ exists r, resolved_version dv cfg version = Ok r /\ payload_error (mkPayload rpcid r) c ms dt = Ok d.
  Proof.
    unfold dump. rewrite plan_fault.
    destruct (resolved_version dv cfg version) as [r|e]; cbn [bind]; [|discriminate].
    destruct (payload_error (mkPayload rpcid r) c ms dt) as [d0|e] eqn:E; cbn [bind dump_finish]; [|discriminate].
    intros H; inversion H; subst. split; [reflexivity|]. exists r. split; [reflexivity|exact E].
  Qed.

  (** a caller-supplied id is used verbatim and no id is generated *)
  Lemma id_verbatim dv cfg pv m rpcid version resp notify n d n' :
    supplied_id rpcid = true -> truthy resp = false -> truthy notify = false ->
    dump jc fresh dv cfg (PVal pv) m rpcid version resp notify n = Ok (VDict d, n') ->
    dget d "id" = Some rpcid /\ n' = n.
  Proof.
    intros Hid Hr Hn H. apply dump_pval_inv in H as [r [p' [_ [_ [[T _]|[_ [_ [s [-> [[_ E]|[T _]]]]]]]]]]]; try congruence.
    inversion E; subst. rewrite (supplied_id_used _ _ Hid). split; reflexivity.
  Qed.

  (** a falsy non-number id is replaced by the next fresh id *)
  Lemma id_fresh dv cfg pv m rpcid version resp notify n d n' :
    needs_fresh_id rpcid = true -> truthy resp = false -> truthy notify = false ->
    dump jc fresh dv cfg (PVal pv) m rpcid version resp notify n = Ok (VDict d, n') ->
    dget d "id" = Some (VStr (fresh n)) /\ n' = S n.
  Proof.
    intros F Hr Hn H. apply dump_pval_inv in H as [r [p' [_ [_ [[T _]|[_ [_ [s [-> [[_ E]|[T _]]]]]]]]]]]; try congruence.
    inversion E; subst. unfold id_used. rewrite F. split; reflexivity.
  Qed.

  (** every id is a supplied one, or one to replace, or a truthy non-string non-number (unconstrained) *)
  Lemma id_classes i :
    supplied_id i = true \/ needs_fresh_id i = true \/
    (truthy i = true /\ is_number i = false /\ is_string i = false).
  Proof.
    unfold supplied_id, needs_fresh_id.
    destruct (is_number i) eqn:N; [left; reflexivity|].
    destruct (truthy i) eqn:T; [|right; left; reflexivity].
    destruct (is_string i) eqn:S; [left; reflexivity|]. right; right; auto.
  Qed.

  Lemma id_used_counter i n : snd (id_used i n) = n \/ snd (id_used i n) = S n.
  Proof. unfold id_used. destruct (needs_fresh_id i); auto. Qed.

  (** the counter moves by at most one per call, and never backwards *)
  Lemma dump_counter dv cfg p m rpcid version resp notify n d n' :
    dump jc fresh dv cfg p m rpcid version resp notify n = Ok (d, n') -> n' = n \/ n' = S n.
  Proof.
    destruct p as [pv|c ms dt]; intros H.
    - apply dump_pval_inv in H as [r [p' [_ [_ [[_ [_ [_ ->]]]|[_ [_ [s [-> _]]]]]]]]]; auto using id_used_counter.
    - apply dump_fault_inv in H as [-> _]. auto.
  Qed.

  (** *** Uniqueness of generated ids across any sequence of calls *)

  Definition run_call (dv : val) (c : call) (n : nat) : res (val * nat) :=
    dump jc fresh dv (c_cfg c) (c_params c) (c_method c) (c_rpcid c) (c_version c) (c_response c) (c_notify c) n.

  (** the id member of the message a call produced, when this call had to generate it *)
  Definition generated_id (c : call) (out : res (val * nat)) (n : nat) : list val :=
    match out with
    | Ok (VDict d, n') => if Nat.eqb n' (S n) then match dget d "id" with Some i => [i] | None => [] end else []
    | _ => []
    end.

  (** run the calls one after the other, threading the counter; collect the generated ids that are visible *)
  Fixpoint run_calls (dv : val) (cs : list call) (n : nat) : list val * nat :=
    match cs with
    | [] => ([], n)
    | c :: rest =>
        let out := run_call dv c n in
        let n1 := match out with Ok (_, n') => n' | Raise _ => n end in
        let '(ids, nf) := run_calls dv rest n1 in
        ((generated_id c out n ++ ids)%list, nf)
    end.

  Lemma id_used_fresh i n : snd (id_used i n) = S n -> fst (id_used i n) = VStr (fresh n).
  Proof. unfold id_used. destruct (needs_fresh_id i); cbn; [reflexivity|lia]. Qed.

  (** every visible generated id of a call starting at counter n is [fresh n] or the null of a 1.0 notification *)
  Lemma generated_id_shape dv c n :
    forall i, In i (generated_id c (run_call dv c n) n) -> i = VStr (fresh n) \/ i = VNone.
  Proof.
    intros i. unfold generated_id.
    destruct (run_call dv c n) as [[d n']|e] eqn:H; [|intros []].
    destruct d; try (intros []). destruct (Nat.eqb n' (S n)) eqn:E; [|intros []].
    apply Nat.eqb_eq in E. subst n'. unfold run_call in H.
    destruct (c_params c) as [pv|cc ms dt].
    - apply dump_pval_inv in H as [r [p' [_ [_ [[_ [_ [_ Hn]]]|[_ [_ [s [Hn [[_ D]|[_ D]]]]]]]]]]]; [lia| |].
      + inversion D; subst. rewrite dget_request_id. intros [<-|[]]. left. apply id_used_fresh. congruence.
      + inversion D; subst. destruct (ge2 r) eqn:G.
        * rewrite dget_notify_v2_id by assumption. intros [].
        * rewrite dget_notify_v1_id by assumption. intros [<-|[]]. right; reflexivity.
    - apply dump_fault_inv in H as [Hn _]. lia.
  Qed.

  Lemma run_call_counter dv c n d n' : run_call dv c n = Ok (d, n') -> n' = n \/ n' = S n.
  Proof. apply dump_counter. Qed.

  (** generated string ids of a run starting at n are [fresh k] with k >= n *)
  Lemma run_calls_ids dv cs : forall n i,
    In i (fst (run_calls dv cs n)) -> i = VNone \/ exists k, (n <= k)%nat /\ i = VStr (fresh k).
  Proof.
    induction cs as [|c rest IH]; intros n i; cbn [run_calls fst]; [intros []|].
    destruct (run_calls dv rest _) as [ids nf] eqn:R. cbn [fst].
    intros Hin. apply in_app_or in Hin as [Hin|Hin].
    - apply generated_id_shape in Hin as [->| ->]; [right; exists n; split; [lia|reflexivity] | left; reflexivity].
    - assert (Hn : (n <= match run_call dv c n with Ok (_, n') => n' | Raise _ => n end)%nat).
      { destruct (run_call dv c n) as [[d n']|e] eqn:E; [|lia]. apply run_call_counter in E. lia. }
      specialize (IH (match run_call dv c n with Ok (_, n') => n' | Raise _ => n end) i). rewrite R in IH. cbn [fst] in IH.
      destruct (IH Hin) as [->|[k [Hk ->]]]; [left; reflexivity|]. right. exists k. split; [lia|reflexivity].
  Qed.

  Definition is_str_val (v : val) : Prop := match v with VStr _ => True | _ => False end.

  (** the generated string ids of any sequence of calls are pairwise distinct *)
  Lemma generated_ids_distinct dv cs : forall n,
    NoDup (filter is_string (fst (run_calls dv cs n))).
  Proof.
    induction cs as [|c rest IH]; intros n; cbn [run_calls fst]; [constructor|].
    destruct (run_calls dv rest _) as [ids nf] eqn:R. cbn [fst].
    rewrite filter_app.
    set (n1 := match run_call dv c n with Ok (_, n') => n' | Raise _ => n end) in *.
    pose proof (IH n1) as IH1. rewrite R in IH1. cbn [fst] in IH1.
    (* the head call contributes at most one id *)
    assert (Hhead : generated_id c (run_call dv c n) n = [] \/ exists i, generated_id c (run_call dv c n) n = [i]).
    { unfold generated_id. destruct (run_call dv c n) as [[d n']|e]; auto. destruct d; auto.
      destruct (Nat.eqb n' (S n)); auto. destruct (dget m "id"); eauto. }
    destruct Hhead as [->|[i Hi]]; [exact IH1|].
    rewrite Hi. cbn [filter]. destruct (is_string i) eqn:Si; [|exact IH1].
    cbn [app]. constructor; [|exact IH1].
    intros Hin. apply filter_In in Hin as [Hin _].
    assert (Hi' : In i (generated_id c (run_call dv c n) n)) by (rewrite Hi; left; reflexivity).
    apply generated_id_shape in Hi' as [->| ->]; [|discriminate].
    (* the head id was generated, hence the counter advanced *)
    assert (Hn1 : n1 = S n).
    { unfold n1. unfold generated_id in Hi. destruct (run_call dv c n) as [[d n']|e]; [|discriminate].
      destruct d; try discriminate. destruct (Nat.eqb n' (S n)) eqn:E; [|discriminate].
      apply Nat.eqb_eq in E. exact E. }
    pose proof (run_calls_ids dv rest n1 (VStr (fresh n))) as Hk. rewrite R in Hk. cbn [fst] in Hk.
    destruct (Hk Hin) as [Habs|[k [Hle Heq]]]; [discriminate|].
    inversion Heq as [Hf]. apply fresh_inj in Hf. lia.
  Qed.

  (** a generated id is never empty *)
  Lemma generated_ids_nonempty dv cs n i :
    In i (fst (run_calls dv cs n)) -> i <> VStr "".
  Proof.
    intros Hin. apply run_calls_ids in Hin as [->|[k [_ ->]]]; [discriminate|].
    intros E. inversion E as [Hf]. exact (fresh_nonempty k Hf).
  Qed.

  (** *** Fault.dump *)

  Lemma fault_dump_spec dv f rpcid version r s :
    resolved_version dv (f_cfg f) (if truthy version then version else pc_version (f_cfg f)) = Ok r ->
    version_text r s ->
    fault_dump dv f rpcid version =
    (Ok (VDict (error_members r s (if truthy rpcid then rpcid else f_rpcid f) (f_code f) (f_msg f) (f_data f))),
     fault_set_rpcid f rpcid).
  Proof.
    intros Hver Hs. unfold fault_dump. f_equal.
    assert (C : f_cfg (fault_set_rpcid f rpcid) = f_cfg f) by (unfold fault_set_rpcid; destruct (truthy rpcid); reflexivity).
    unfold dump_plan. rewrite C. unfold fault_params. cbn [valid_params negb is_string andb].
    unfold resolved_version in Hver. unfold payload_init.
    set (v := if truthy version then version else pc_version (f_cfg f)) in *.
    assert (V : (if truthy v then v else pc_version (f_cfg f)) = v).
    { unfold v. destruct (truthy version) eqn:T; [rewrite T; reflexivity|].
      destruct (truthy (pc_version (f_cfg f))); reflexivity. }
    rewrite V in *. rewrite Hver. cbn [bind].
    rewrite (error_spec _ _ s) by assumption. cbn [bind].
    unfold fault_set_rpcid. destruct (truthy rpcid); reflexivity.
  Qed.

  (** *** The error object *)

  Lemma error_object_members c m d :
    exists e, error_object c m d = VDict e /\
      dget e "code" = Some c /\ dget e "message" = Some m /\
      (d <> VNone -> dget e "data" = Some d /\ map fst e = [VStr "code"; VStr "message"; VStr "data"]) /\
      (d = VNone -> dget e "data" = None /\ map fst e = [VStr "code"; VStr "message"]).
  Proof.
    unfold error_object. destruct d; (eexists; split; [reflexivity|]);
      repeat split; try reflexivity; try congruence; intros; congruence.
  Qed.

  (** *** The codec: dumps is the encoded dump, loads inverts it up to JSON normalisation *)

  Context {text : Type}.
  Variable is_empty : text -> bool.
  Variable enc : val -> res text.
  Variable dec : text -> res val.
  Variable jl : val -> res val.
  Hypothesis enc_dec : forall v, json_ok v = true ->
    exists t, enc v = Ok t /\ is_empty t = false /\ dec t = Ok (norm v).

  Lemma dumps_is_encoded_dump dv cfg p m resp rpcid version notify n :
    dumps jc fresh enc dv cfg p m resp rpcid version notify n =
    (do dn <- dump jc fresh dv cfg p m rpcid version resp notify n;
     do t <- enc (fst dn); Ok (t, snd dn)).
  Proof.
    unfold dumps. destruct (dump jc fresh dv cfg p m rpcid version resp notify n) as [[d n']|e]; reflexivity.
  Qed.

  Lemma loads_dumps dv cfg cfg' p m resp rpcid version notify n d n' :
    dump jc fresh dv cfg p m rpcid version resp notify n = Ok (d, n') ->
    json_ok d = true ->
    (pc_jsonclass cfg' = false \/ jl (norm d) = Ok (norm d)) ->
    exists t, dumps jc fresh enc dv cfg p m resp rpcid version notify n = Ok (t, n')
              /\ loads is_empty dec jl cfg' t = Ok (norm d).
  Proof.
    intros Hd Hj Hl. destruct (enc_dec d Hj) as [t [He [Hne Hdec]]].
    exists t. split.
    - unfold dumps. rewrite Hd. cbn [bind]. rewrite He. reflexivity.
    - unfold loads. rewrite Hne, Hdec. cbn [bind]. unfold load.
      destruct (norm d) eqn:N; try reflexivity;
        (destruct Hl as [Hl|Hl]; [rewrite Hl; reflexivity | destruct (pc_jsonclass cfg'); [exact Hl|reflexivity]]).
  Qed.

  Lemma loads_value cfg' x :
    json_ok x = true -> (pc_jsonclass cfg' = false \/ jl (norm x) = Ok (norm x)) ->
    exists t, enc x = Ok t /\ loads is_empty dec jl cfg' t = Ok (norm x).
  Proof.
    intros Hj Hl. destruct (enc_dec x Hj) as [t [He [Hne Hdec]]]. exists t. split; [exact He|].
    unfold loads. rewrite Hne, Hdec. cbn [bind]. unfold load.
    destruct (norm x) eqn:N; try reflexivity;
      (destruct Hl as [Hl|Hl]; [rewrite Hl; reflexivity | destruct (pc_jsonclass cfg'); [exact Hl|reflexivity]]).
  Qed.

  Lemma loads_empty cfg' t : is_empty t = true -> loads is_empty dec jl cfg' t = Ok VNone.
  Proof. intros H. unfold loads. rewrite H. reflexivity. Qed.

End Proofs.

(** *** The five listed version spellings under a default / 1.0 / 2.0 configuration *)

Definition listed_config_version (v : val) : bool :=
  val_eqb v (VFlt (F 1 1)) || val_eqb v (VFlt (F 2 1)).

Definition listed_version (v : val) : bool :=
  val_eqb v VNone || listed_config_version v || val_eqb v (VStr "1.0") || val_eqb v (VStr "2.0").

(** 2 or 1, as the spelling (or, for None, the configuration) says *)
Definition version_number (cfg : pcfg) (v : val) : Z :=
  let w := if truthy v then v else pc_version cfg in
  match w with
  | VFlt (F n _) => n
  | VStr s => if String.eqb s "2.0" then 2 else 1
  | _ => 0
  end.

Lemma listed_config_version_inv v :
  listed_config_version v = true -> v = VFlt (F 1 1) \/ v = VFlt (F 2 1).
Proof.
  unfold listed_config_version. intros H. apply orb_true_iff in H as [H|H]; apply val_eqb_eq in H; auto.
Qed.

Lemma listed_version_inv v :
  listed_version v = true ->
  v = VNone \/ v = VFlt (F 1 1) \/ v = VFlt (F 2 1) \/ v = VStr "1.0" \/ v = VStr "2.0".
Proof.
  unfold listed_version. intros H.
  apply orb_true_iff in H as [H|H]; [|apply val_eqb_eq in H; auto 6].
  apply orb_true_iff in H as [H|H]; [|apply val_eqb_eq in H; auto 6].
  apply orb_true_iff in H as [H|H]; [apply val_eqb_eq in H; auto|].
  apply listed_config_version_inv in H as [H|H]; auto.
Qed.

Lemma listed_versions_resolve dv cfg v :
  listed_version v = true -> listed_config_version (pc_version cfg) = true ->
  exists r, resolved_version dv cfg v = Ok r /\
            ge2 r = Z.eqb (version_number cfg v) 2 /\ lt11 r = Z.eqb (version_number cfg v) 1 /\
            (version_number cfg v = 1 \/ version_number cfg v = 2) /\
            version_text r "2.0".
Proof.
  intros Hv Hc. unfold resolved_version, version_number, version_text.
  apply listed_version_inv in Hv. apply listed_config_version_inv in Hc.
  destruct Hv as [->|[->|[->|[->| ->]]]]; destruct Hc as [->| ->]; cbn [truthy];
    (eexists; split; [vm_compute; reflexivity|]; vm_compute; repeat split; auto; intros; discriminate).
Qed.

(** *** The statement's four request forms and four reply forms, for the listed versions *)

Section Listed.
  Variable fresh : nat -> str.
  Variable jc : val -> res val.
  Variables (dv : val) (cfg : pcfg) (version : val).
  Hypothesis Hv : listed_version version = true.
  Hypothesis Hc : listed_config_version (pc_version cfg) = true.

  Definition opt_params (p' : val) : list (val * val) := if truthy p' then [(VStr "params", p')] else [].

  Lemma request_v2 pv m rpcid resp notify n p' :
    version_number cfg version = 2 ->
    is_string m = true -> truthy resp = false -> truthy notify = false ->
    valid_params false (PVal (default_params resp pv)) = true ->
    translated jc cfg (default_params resp pv) = Ok p' ->
    dump jc fresh dv cfg (PVal pv) m rpcid version resp notify n =
    Ok (VDict ([(VStr "id", fst (id_used fresh rpcid n)); (VStr "method", m)] ++ opt_params p'
               ++ [(VStr "jsonrpc", VStr "2.0")])%list, snd (id_used fresh rpcid n)).
  Proof.
    intros Hn Hm Hr Hno Hva Ht.
    destruct (listed_versions_resolve dv cfg version Hv Hc) as [r [Hres [G [L [_ Htx]]]]].
    rewrite (dump_request_spec fresh jc dv cfg pv m rpcid version resp notify n r "2.0" p') by assumption.
    unfold request_members, params_member, jsonrpc_member, opt_params, params_or_empty. rewrite G, L, Hn. cbn [Z.eqb Pos.eqb].
    rewrite orb_false_r. destruct (truthy p'); reflexivity.
  Qed.

  Lemma request_v1 pv m rpcid resp notify n p' :
    version_number cfg version = 1 ->
    is_string m = true -> truthy resp = false -> truthy notify = false ->
    valid_params false (PVal (default_params resp pv)) = true ->
    translated jc cfg (default_params resp pv) = Ok p' ->
    dump jc fresh dv cfg (PVal pv) m rpcid version resp notify n =
    Ok (VDict [(VStr "id", fst (id_used fresh rpcid n)); (VStr "method", m); (VStr "params", params_or_empty p')],
        snd (id_used fresh rpcid n)).
  Proof.
    intros Hn Hm Hr Hno Hva Ht.
    destruct (listed_versions_resolve dv cfg version Hv Hc) as [r [Hres [G [L [_ Htx]]]]].
    rewrite (dump_request_spec fresh jc dv cfg pv m rpcid version resp notify n r "2.0" p') by assumption.
    unfold request_members, params_member, jsonrpc_member. rewrite G, L, Hn. cbn [Z.eqb Pos.eqb].
    rewrite orb_true_r. reflexivity.
  Qed.

  Lemma notification_v2 pv m rpcid resp notify n p' :
    version_number cfg version = 2 ->
    is_string m = true -> truthy resp = false -> truthy notify = true ->
    valid_params false (PVal (default_params resp pv)) = true ->
    translated jc cfg (default_params resp pv) = Ok p' ->
    dump jc fresh dv cfg (PVal pv) m rpcid version resp notify n =
    Ok (VDict ([(VStr "method", m)] ++ opt_params p' ++ [(VStr "jsonrpc", VStr "2.0")])%list, snd (id_used fresh rpcid n))
    /\ dget ([(VStr "method", m)] ++ opt_params p' ++ [(VStr "jsonrpc", VStr "2.0")])%list "id" = None.
  Proof.
    intros Hn Hm Hr Hno Hva Ht.
    destruct (listed_versions_resolve dv cfg version Hv Hc) as [r [Hres [G [L [_ Htx]]]]].
    rewrite (dump_notify_spec fresh jc dv cfg pv m rpcid version resp notify n r "2.0" p') by assumption.
    unfold notify_members, params_member, jsonrpc_member, opt_params, params_or_empty. rewrite G, L, Hn. cbn [Z.eqb Pos.eqb].
    rewrite orb_false_r. destruct (truthy p'); split; reflexivity.
  Qed.

  Lemma notification_v1 pv m rpcid resp notify n p' :
    version_number cfg version = 1 ->
    is_string m = true -> truthy resp = false -> truthy notify = true ->
    valid_params false (PVal (default_params resp pv)) = true ->
    translated jc cfg (default_params resp pv) = Ok p' ->
    dump jc fresh dv cfg (PVal pv) m rpcid version resp notify n =
    Ok (VDict [(VStr "id", VNone); (VStr "method", m); (VStr "params", params_or_empty p')], snd (id_used fresh rpcid n)).
  Proof.
    intros Hn Hm Hr Hno Hva Ht.
    destruct (listed_versions_resolve dv cfg version Hv Hc) as [r [Hres [G [L [_ Htx]]]]].
    rewrite (dump_notify_spec fresh jc dv cfg pv m rpcid version resp notify n r "2.0" p') by assumption.
    unfold notify_members, params_member, jsonrpc_member. rewrite G, L, Hn. cbn [Z.eqb Pos.eqb].
    rewrite orb_true_r. reflexivity.
  Qed.

  Lemma response_listed pv m rpcid resp notify n p' :
    truthy resp = true -> rpcid <> VNone ->
    (is_string m = true -> valid_params true (PVal pv) = true) ->
    translated jc cfg pv = Ok p' ->
    dump jc fresh dv cfg (PVal pv) m rpcid version resp notify n =
    Ok (VDict (if version_number cfg version =? 2
               then [(VStr "result", p'); (VStr "id", rpcid); (VStr "jsonrpc", VStr "2.0")]
               else [(VStr "result", p'); (VStr "id", rpcid); (VStr "error", VNone)]), n).
  Proof.
    intros Hr Hid Hva Ht.
    destruct (listed_versions_resolve dv cfg version Hv Hc) as [r [Hres [G [L [_ Htx]]]]].
    rewrite (dump_response_spec fresh jc dv cfg pv m rpcid version resp notify n r "2.0" p') by assumption.
    unfold response_members. rewrite G. reflexivity.
  Qed.

  Lemma error_listed c ms d m rpcid resp notify n :
    dump jc fresh dv cfg (PFault c ms d) m rpcid version resp notify n =
    Ok (VDict (if version_number cfg version =? 2
               then [(VStr "id", rpcid); (VStr "jsonrpc", VStr "2.0"); (VStr "error", error_object c ms d)]
               else [(VStr "result", VNone); (VStr "id", rpcid); (VStr "error", error_object c ms d)]), n).
  Proof.
    destruct (listed_versions_resolve dv cfg version Hv Hc) as [r [Hres [G [L [_ Htx]]]]].
    rewrite (dump_error_spec fresh jc dv cfg c ms d m rpcid version resp notify n r "2.0") by assumption.
    unfold error_members. rewrite G. reflexivity.
  Qed.
End Listed.
