(** The first group of invariants holds in every reachable state; consequences for C09–C11. *)
From JR Require Import PoolInvDefs PoolInvA PoolInvB PoolInvC PoolInvD.

Record Inv1 (s : st) : Prop := {
  i_ctl : I_ctl s; i_created : I_created s; i_cfg : I_cfg s; i_lock : I_lock s; i_wf : I_wf s;
  i_nb : I_nb s; i_bound : I_bound s; i_unf : I_unf s; i_once : I_once s; i_fresh : I_fresh s;
  i_done : I_done s; i_place : I_place s; i_jexit : I_jexit s; i_jcall : I_jcall s; i_mon : I_mon s }.

Definition valid_cfg (mx mn : Z) : Prop := 1 <= mx /\ 0 <= mn <= mx.

Lemma init_entry c progs : exists l r, cs (init 1 0 progs) c = mkC l r 0%nat /\ is_entry l = true /\ (c <> 0%nat -> lifecycle l = false).
Proof.
  cbn [init cs]. pose proof (next_call_entry c (progs c)). pose proof (next_call_ctl c (progs c)).
  destruct (next_call c (progs c)) as [l r]. cbn in *. eauto 6.
Qed.

Lemma cs_init mx mn progs c : cs (init mx mn progs) c = cs (init 1 0 progs) c.
Proof. reflexivity. Qed.

Lemma Inv1_init mx mn progs : valid_cfg mx mn -> Inv1 (init mx mn progs).
Proof.
  intros Hv. constructor.
  - intros c Hc. rewrite cs_init. destruct (init_entry c progs) as (l & r & -> & _ & Hl). cbn. auto.
  - split; [reflexivity|]. intros c k w Hc. rewrite cs_init in Hc.
    destruct (init_entry c progs) as (l & r & E & He & _). rewrite E in Hc. cbn in Hc. subst. discriminate.
  - exact Hv.
  - split; [reflexivity|]. intros c. rewrite cs_init. destruct (init_entry c progs) as (l & r & -> & He & _).
    cbn [cpc]. now rewrite (entry_depth l He).
  - intros w. reflexivity.
  - reflexivity.
  - destruct Hv. split; [cbn; lia|]. intros c k Hc. rewrite cs_init in Hc.
    destruct (init_entry c progs) as (l & r & E & He & _). rewrite E in Hc. cbn in Hc. subst. discriminate.
  - unfold I_unf, clear_pending. rewrite cs_init. destruct (init_entry 0%nat progs) as (l & r & -> & He & _).
    cbn. destruct l; try discriminate He; reflexivity.
  - intros t. cbn. lia.
  - intros t _. cbn. auto.
  - intros w t Hpc. cbn in Hpc. discriminate.
  - intros t Ht. cbn in Ht. lia.
  - intros c. rewrite cs_init. destruct (init_entry c progs) as (l & r & -> & He & _).
    cbn [cpc qmutex init]. destruct l; try discriminate He; try discriminate; destruct k; try discriminate He; discriminate.
  - intros c. rewrite cs_init. destruct (init_entry c progs) as (l & r & -> & _ & _). cbn. lia.
  - split; reflexivity.
Qed.

Lemma Inv1_step s t f s' : Inv1 s -> step s t f = Some s' -> Inv1 s'.
Proof.
  intros I H.
  pose proof (i_ctl _ I). pose proof (i_created _ I). pose proof (i_cfg _ I). pose proof (i_lock _ I).
  pose proof (i_wf _ I). pose proof (i_nb _ I). pose proof (i_bound _ I). pose proof (i_unf _ I).
  pose proof (i_once _ I). pose proof (i_fresh _ I). pose proof (i_done _ I). pose proof (i_place _ I).
  pose proof (i_jexit _ I). pose proof (i_jcall _ I). pose proof (i_mon _ I).
  constructor.
  - eapply P_ctl; eauto.
  - eapply P_created; eauto.
  - eapply P_cfg; eauto.
  - eapply P_lock; eauto.
  - eapply P_wf; eauto.
  - eapply P_nb; eauto.
  - eapply P_bound; eauto.
  - eapply P_unf; eauto.
  - eapply P_once; eauto.
  - eapply P_fresh; eauto.
  - eapply P_done; eauto.
  - eapply P_place; eauto.
  - eapply P_jexit; eauto.
  - eapply P_jcall; eauto.
  - eapply P_mon; eauto.
Qed.

Lemma Inv1_run sched : forall s, Inv1 s -> Inv1 (run sched s).
Proof.
  induction sched as [|[t f] r IH]; intros s H; cbn [run]; [exact H|].
  apply IH. destruct (step s t f) eqn:E; [eapply Inv1_step; eauto | exact H].
Qed.

Theorem reachable_inv1 mx mn progs sched : valid_cfg mx mn -> Inv1 (run sched (init mx mn progs)).
Proof. intros Hv. apply Inv1_run, Inv1_init, Hv. Qed.

(** *** consequences *)

(** C09: no task body begins twice, under any schedule, program and pool size *)
Theorem at_most_once mx mn progs sched t :
  valid_cfg mx mn -> (tstarts (run sched (init mx mn progs)) t <= 1)%nat.
Proof. intros Hv. pose proof (i_once _ (reachable_inv1 mx mn progs sched Hv) t). lia. Qed.

Lemma cfg_step s t f s' : step s t f = Some s' -> maxT s' = maxT s /\ minT s' = minT s.
Proof. intros H. open_step2 H; use_lockop; split; reflexivity. Qed.
Lemma cfg_run sched : forall s, maxT (run sched s) = maxT s /\ minT (run sched s) = minT s.
Proof.
  induction sched as [|[t f] r IH]; intros s; cbn [run]; [split; reflexivity|].
  destruct (step s t f) eqn:E; [|apply IH].
  destruct (IH s0) as [-> ->]. eapply cfg_step; eauto.
Qed.

(** C10: bodies running <= workers serving = the thread counter <= max_threads *)
Theorem max_bound mx mn progs sched :
  valid_cfg mx mn ->
  let s := run sched (init mx mn progs) in
  (count in_body (ws s) (next_w s) <= count serving (ws s) (next_w s))%nat /\
  Z.of_nat (count serving (ws s) (next_w s)) = nb_threads s /\ nb_threads s <= mx.
Proof.
  intros Hv s. pose proof (reachable_inv1 mx mn progs sched Hv) as I. fold s in I.
  split; [|split].
  - apply count_le. intros i _. unfold in_body, serving. destruct (wpc (ws s i)); auto; discriminate.
  - symmetry. apply (i_nb _ I).
  - destruct (i_bound _ I) as [Hb _]. destruct (cfg_run sched (init mx mn progs)) as [Hm _].
    fold s in Hm. rewrite Hm in Hb. exact Hb.
Qed.

(** C10: constructor validation and clamping *)
Theorem ctor_spec mx mn :
  (pool_ctor mx mn = None <-> mx < 1) /\
  (forall a b, pool_ctor mx mn = Some (a, b) -> a = mx /\ valid_cfg a b /\
               b = (if mn <? 0 then 0 else if mx <? mn then mx else mn)).
Proof.
  unfold pool_ctor, valid_cfg. destruct (mx <? 1) eqn:E.
  - apply Z.ltb_lt in E. split; [split; auto|]. intros a b H; discriminate.
  - apply Z.ltb_ge in E. split; [split; [discriminate | lia]|].
    intros a b H. injection H as <- <-. split; [reflexivity|]. split; [|reflexivity].
    destruct (mn <? 0) eqn:E1; [lia|]. apply Z.ltb_ge in E1.
    destruct (mx <? mn) eqn:E2; [apply Z.ltb_lt in E2 | apply Z.ltb_ge in E2]; lia.
Qed.

(** C11: join() never returns True while a task enqueued before the call is unsettled,
    and never returns False unless it was timed and work was outstanding at the return *)
Theorem join_sound mx mn progs sched :
  valid_cfg mx mn ->
  join_bad (run sched (init mx mn progs)) = false /\ joinf_bad (run sched (init mx mn progs)) = false.
Proof. intros Hv. apply (i_mon _ (reachable_inv1 mx mn progs sched Hv)). Qed.

(** C11/C09: when unfinished_tasks is 0 every accepted task is settled (done or dropped by clear) *)
Theorem drained_means_settled mx mn progs sched :
  valid_cfg mx mn ->
  let s := run sched (init mx mn progs) in
  unfinished s <= 0 -> forall t, (t < next_task s)%nat -> settled s t = true.
Proof.
  intros Hv s Hz t Ht. pose proof (reachable_inv1 mx mn progs sched Hv) as I. fold s in I.
  apply unf_zero_settled; auto using i_unf, i_place.
Qed.
