(** * DispatchTheorems — the statements of C02, C03, C04, C05 and the form part of C13,
    proved from the lemmas of DispatchProofs.v. *)
From JR Require Import Client Dispatch DispatchProofs.
From Coq Require Import Lia.

Section Theorems.
  Variable body : cid -> val -> outcome.
  Variable sigs : cid -> signature.

  Notation answer_entry := (answer_entry body sigs).
  Notation batch := (batch body sigs).
  Notation unmarshaled_dispatch := (unmarshaled_dispatch body sigs).
  Notation marshaled_dispatch := (marshaled_dispatch body sigs).
  Notation single_dispatch := (single_dispatch body sigs).
  Notation dispatch := (dispatch body sigs).
  Notation run_target := (run_target body sigs).
  Notation call_func := (call_func body sigs).

  (** ** C02 *)

  Theorem total_wellformed srvf srv dm p :
    results_dumpable body (sv_jsonclass srv) ->
    exists r log, marshaled_dispatch srvf srv dm p = Ok (r, log) /\ wf_reply r = true.
  Proof.
    intros R. unfold Dispatch.marshaled_dispatch.
    destruct (loads_m p) as [req|x].
    2:{ eexists _, _. split; [reflexivity|]. apply wf_err_obj. }
    unfold Dispatch.unmarshaled_dispatch.
    destruct (truthy req) eqn:Ht; cbn [negb].
    2:{ rewrite dumpable_err_obj by reflexivity. eexists _, _. split; [reflexivity|]. apply wf_err_obj. }
    assert (Hone : forall e,
      exists r log,
        (let '(u, l) := (let '(o, l) := answer_entry srvf srv dm e in
                         (match o with Some x => UObj x | None => UNone end, l)) in
         match u with
         | UNone | UNoMulticall => Ok (REmpty, l)
         | UObj o => if dumpable o then Ok (ROne o, l) else Raise EType
         | UList os => if forallb dumpable os then Ok (RMany os, l) else Raise EType
         end) = Ok (r, log) /\ wf_reply r = true).
    { intros e. destruct (answer_entry srvf srv dm e) as [[o|] l] eqn:E.
      - rewrite (answer_dumpable _ _ _ _ _ _ _ _ R E). eexists _, _. split; [reflexivity|].
        cbn. eapply answer_wf; eauto.
      - eexists _, _. split; reflexivity. }
    destruct req; try apply Hone.
    pose proof (batch_wf body sigs srvf srv dm l) as W.
    pose proof (batch_dumpable body sigs srvf srv dm l R) as D.
    destruct (batch srvf srv dm l) as [os lg]. cbn [fst] in W, D.
    destruct os as [|o os].
    - eexists _, _. split; reflexivity.
    - rewrite D. eexists _, _. split; [reflexivity|]. exact W.
  Qed.

  Theorem http_status srvf srv dm p :
    results_dumpable body (sv_jsonclass srv) ->
    exists r, do_post body sigs srvf srv dm p = (200, r) /\ wf_reply r = true.
  Proof.
    intros R. destruct (total_wellformed srvf srv dm p R) as (r & log & E & W).
    exists r. unfold do_post. now rewrite E.
  Qed.

  (** even on the 500 path the body is a well-formed reply *)
  Theorem http_body_always_wellformed srvf srv dm p :
    wf_reply (snd (do_post body sigs srvf srv dm p)) = true.
  Proof.
    unfold do_post. destruct (marshaled_dispatch srvf srv dm p) as [[r log]|x] eqn:E.
    2:{ apply wf_err_obj. }
    cbn [snd]. revert E. unfold Dispatch.marshaled_dispatch.
    destruct (loads_m p) as [req|y].
    2:{ intros H. inversion H; subst. apply wf_err_obj. }
    unfold Dispatch.unmarshaled_dispatch.
    destruct (truthy req); cbn [negb].
    2:{ destruct (dumpable _); intros H; inversion H; subst. apply wf_err_obj. }
    assert (Hone : forall e,
      (let '(u, l) := (let '(o, l) := answer_entry srvf srv dm e in
                       (match o with Some x => UObj x | None => UNone end, l)) in
       match u with
       | UNone | UNoMulticall => Ok (REmpty, l)
       | UObj o => if dumpable o then Ok (ROne o, l) else Raise EType
       | UList os => if forallb dumpable os then Ok (RMany os, l) else Raise EType
       end) = Ok (r, log) -> wf_reply r = true).
    { intros e. destruct (answer_entry srvf srv dm e) as [[o|] l] eqn:E.
      - destruct (dumpable o); intros H; inversion H; subst. cbn. eapply answer_wf; eauto.
      - intros H; inversion H; subst. reflexivity. }
    destruct req; try apply Hone.
    pose proof (batch_wf body sigs srvf srv dm l) as W.
    destruct (batch srvf srv dm l) as [os lg]. cbn [fst] in W.
    destruct os as [|o os].
    - intros H; inversion H; subst. reflexivity.
    - destruct (forallb dumpable (o :: os)); intros H; inversion H; subst. exact W.
  Qed.

  (** ** C03 *)

  Theorem empty_batch_body srvf srv dm es :
    es <> [] -> forallb is_notification_entry es = true ->
    exists log, marshaled_dispatch srvf srv dm (PValue (VList es)) = Ok (REmpty, log).
  Proof.
    intros Hne Hall. unfold Dispatch.marshaled_dispatch, Dispatch.unmarshaled_dispatch. cbn [loads_m].
    assert (Ht : truthy (VList es) = true) by (destruct es; [congruence|reflexivity]).
    rewrite Ht. cbn [negb].
    pose proof (batch_length body sigs srvf srv dm es) as L.
    assert (F : filter expects_answer es = []).
    { clear -Hall. induction es as [|e r IH]; [reflexivity|].
      cbn in Hall. apply andb_true_iff in Hall as [H1 H2].
      cbn. unfold expects_answer at 1. rewrite H1. cbn. auto. }
    rewrite F in L. destruct (batch srvf srv dm es) as [os lg]. cbn [fst] in L.
    destruct os; [|discriminate]. eauto.
  Qed.

  (** a batch with at least one answerable entry is answered by an array of exactly the answers *)
  Theorem batch_reply srvf srv dm es :
    results_dumpable body (sv_jsonclass srv) ->
    filter expects_answer es <> [] ->
    marshaled_dispatch srvf srv dm (PValue (VList es))
    = Ok (RMany (fst (batch srvf srv dm es)), snd (batch srvf srv dm es)).
  Proof.
    intros R Hne. unfold Dispatch.marshaled_dispatch, Dispatch.unmarshaled_dispatch. cbn [loads_m].
    assert (Ht : truthy (VList es) = true) by (destruct es; [cbn in Hne; congruence|reflexivity]).
    rewrite Ht. cbn [negb].
    pose proof (batch_length body sigs srvf srv dm es) as L.
    pose proof (batch_dumpable body sigs srvf srv dm es R) as D.
    destruct (batch srvf srv dm es) as [os lg]. cbn [fst snd] in *.
    destruct os as [|o os].
    - destruct (filter expects_answer es); [congruence|discriminate].
    - now rewrite D.
  Qed.

  (** a single (non-batch) request that expects an answer gets one object with its id *)
  Theorem single_reply srvf srv dm e :
    results_dumpable body (sv_jsonclass srv) ->
    truthy e = true -> is_list e = false -> expects_answer e = true ->
    exists o log, marshaled_dispatch srvf srv dm (PValue e) = Ok (ROne o, log)
                  /\ reply_id o = Some (usable_id e) /\ wf_obj o = true.
  Proof.
    intros R Ht Hl He. unfold Dispatch.marshaled_dispatch, Dispatch.unmarshaled_dispatch. cbn [loads_m].
    rewrite Ht. cbn [negb].
    assert (A : exists o log, answer_entry srvf srv dm e = (Some o, log)).
    { destruct (answer_entry srvf srv dm e) as [[o|] log] eqn:E; [eauto|].
      pose proof (proj1 (answer_entry_none_iff body sigs srvf srv dm e)) as N.
      rewrite E in N. specialize (N eq_refl). unfold expects_answer in He. rewrite N in He. discriminate. }
    destruct A as (o & log & E).
    assert (G : (let '(u, l) := (let '(o, l) := answer_entry srvf srv dm e in
                                 (match o with Some x => UObj x | None => UNone end, l)) in
                 match u with
                 | UNone | UNoMulticall => Ok (REmpty, l)
                 | UObj o => if dumpable o then Ok (ROne o, l) else Raise EType
                 | UList os => if forallb dumpable os then Ok (RMany os, l) else Raise EType
                 end) = Ok (ROne o, log)).
    { rewrite E. now rewrite (answer_dumpable _ _ _ _ _ _ _ _ R E). }
    exists o, log. split.
    - destruct e; try exact G. discriminate.
    - split; [eapply id_echo; eauto|eapply answer_wf; eauto].
  Qed.

  (** ** C04 *)

  Lemma call_func_log_aux c p :
    snd (call_func c p) = if call_binds (sigs c) p then [EvCall c p] else [].
  Proof.
    unfold Dispatch.call_func. destruct (call_binds (sigs c) p); [|reflexivity].
    destruct (body c p); try reflexivity. destruct (String.eqb cls "TypeError"); reflexivity.
  Qed.

  Lemma target_custom_once_aux reg d s p :
    snd (run_target reg (Some d) s p) = [EvCall d (dispatch_args s p)].
  Proof. cbn. unfold call_dispatcher. destruct (body d (dispatch_args s p)); reflexivity. Qed.

  Theorem notification_inline srvf srv dm e m s :
    e = VDict m -> is_notification_entry e = true -> method_of e = Some s -> sv_pool srv = false ->
    answer_entry srvf srv dm e = (None, snd (run_target (sv_reg srv) dm s (params_of e))).
  Proof.
    intros -> Hn Hm Hp. unfold Dispatch.answer_entry.
    pose proof (validate_spec srvf (VDict m)) as V.
    unfold is_notification_entry in Hn. apply andb_true_iff in Hn as [Hw Hno].
    destruct (validate_request srvf (VDict m)) as [ft|m' s' p'].
    { destruct V as (Hw' & _). congruence. }
    destruct V as (E & _ & Hm' & _ & -> & _). inversion E; subst m'. clear E.
    assert (s' = s) by congruence. subst s'.
    unfold Dispatch.single_dispatch, single_dispatch_with. rewrite is_notification_no_id, Hno, Hp. cbn [andb].
    destruct (run_target (sv_reg srv) dm s (params_of (VDict m))) as [[] log]; reflexivity.
  Qed.

  Theorem notification_pooled srvf srv dm e m s :
    e = VDict m -> is_notification_entry e = true -> method_of e = Some s -> sv_pool srv = true ->
    answer_entry srvf srv dm e
    = (None, [EvEnqueue dm s (params_of e)
                        (match dm with Some _ => None | None => Some (request_form srvf m) end)]).
  Proof.
    intros -> Hn Hm Hp. unfold Dispatch.answer_entry.
    pose proof (validate_spec srvf (VDict m)) as V.
    unfold is_notification_entry in Hn. apply andb_true_iff in Hn as [Hw Hno].
    destruct (validate_request srvf (VDict m)) as [ft|m' s' p'].
    { destruct V as (Hw' & _). congruence. }
    destruct V as (E & _ & Hm' & _ & -> & _). inversion E; subst m'. clear E.
    assert (s' = s) by congruence. subst s'.
    unfold Dispatch.single_dispatch, single_dispatch_with. rewrite is_notification_no_id, Hno, Hp. reflexivity.
  Qed.

  (** a notification arriving alone: the body of the reply is empty *)
  Theorem notification_alone_empty_body srvf srv dm e :
    is_notification_entry e = true ->
    exists log, marshaled_dispatch srvf srv dm (PValue e) = Ok (REmpty, log).
  Proof.
    intros Hn. unfold Dispatch.marshaled_dispatch, Dispatch.unmarshaled_dispatch. cbn [loads_m].
    pose proof (proj2 (answer_entry_none_iff body sigs srvf srv dm e) Hn) as A.
    assert (Hd : exists m, e = VDict m /\ m <> []).
    { unfold is_notification_entry in Hn. apply andb_true_iff in Hn as [Hw _].
      destruct e; try discriminate. exists m. split; [reflexivity|]. intros ->. discriminate. }
    destruct Hd as (m & -> & Hm).
    assert (Ht : truthy (VDict m) = true) by (destruct m; [congruence|reflexivity]).
    rewrite Ht. cbn [negb].
    destruct (answer_entry srvf srv dm (VDict m)) as [[o|] l]; cbn in A; [discriminate|]. eauto.
  Qed.

  (** one execution of the target enters at most two callables, each once: nothing; the function;
      the dispatch function; or a declining instance-level _dispatch followed by the resolved function *)
  Theorem target_log_shape reg dm s p :
    let log := snd (run_target reg dm s p) in
    log = [] \/ (exists c a, log = [EvCall c a])
    \/ (exists d c, log = [EvCall d (dispatch_args s p); EvCall c p]).
  Proof.
    cbn zeta. destruct dm as [d|].
    { right; left. rewrite target_custom_once_aux. eauto. }
    cbn [Dispatch.run_target]. unfold Dispatch.dispatch.
    destruct (lookup s (r_funcs reg)) as [c|].
    { rewrite call_func_log_aux. destruct (call_binds (sigs c) p); eauto. }
    destruct (r_instance reg) as [inst|]; [|left; reflexivity].
    assert (R : snd (dispatch_resolved body sigs inst s p) = []
                \/ exists c, snd (dispatch_resolved body sigs inst s p) = [EvCall c p]).
    { unfold dispatch_resolved, unknown_method.
      destruct (resolve_segs _ _) as [[c| |]|]; try (left; reflexivity).
      rewrite call_func_log_aux. destruct (call_binds (sigs c) p); eauto. }
    destruct (i_dispatch inst) as [d|].
    2:{ destruct R as [R|[c R]]; rewrite R; eauto. }
    unfold call_dispatcher. destruct (body d (dispatch_args s p)) as [v|cls m|m|code m].
    - right; left. cbn [snd]. eauto.
    - destruct (String.eqb cls "AttributeError"); [|right; left; cbn [snd]; eauto].
      destruct (dispatch_resolved body sigs inst s p) as [r ev'] eqn:E. cbn [snd] in *.
      destruct R as [->|[c ->]]; [right; left|right; right]; cbn [app]; eauto.
    - right; left. cbn. eauto.
    - right; left. cbn. eauto.
  Qed.

  (** executing the enqueued task once is one execution of the dispatch target *)
  Theorem drain_enqueued reg dm s p cfg :
    drain body sigs reg [EvEnqueue dm s p cfg] = snd (run_target reg dm s p).
  Proof. unfold drain. cbn. apply app_nil_r. Qed.

  (** one execution of the target enters each callable as the statement says *)
  Theorem target_custom_once reg d s p :
    snd (run_target reg (Some d) s p) = [EvCall d (dispatch_args s p)].
  Proof. cbn. unfold call_dispatcher. destruct (body d (dispatch_args s p)); reflexivity. Qed.

  Lemma call_func_log c p :
    snd (call_func c p) = if call_binds (sigs c) p then [EvCall c p] else [].
  Proof.
    unfold Dispatch.call_func. destruct (call_binds (sigs c) p); [|reflexivity].
    destruct (body c p); try reflexivity. destruct (String.eqb cls "TypeError"); reflexivity.
  Qed.

  Theorem target_function_once reg s p c :
    lookup s (r_funcs reg) = Some c ->
    snd (run_target reg None s p) = if call_binds (sigs c) p then [EvCall c p] else [].
  Proof. intros H. cbn. unfold Dispatch.dispatch. rewrite H. apply call_func_log. Qed.

  Theorem target_unknown_nothing reg s p :
    lookup s (r_funcs reg) = None -> r_instance reg = None ->
    run_target reg None s p = unknown_method s.
  Proof. intros H1 H2. cbn. unfold Dispatch.dispatch. now rewrite H1, H2. Qed.

  (** no callable is entered twice by one execution of the target, whatever the registry *)
  Lemma dispatch_resolved_log inst s p :
    snd (dispatch_resolved body sigs inst s p) = []
    \/ exists c, snd (dispatch_resolved body sigs inst s p) = [EvCall c p].
  Proof.
    unfold dispatch_resolved, unknown_method.
    destruct (resolve_segs _ _) as [[c| |]|]; try (left; reflexivity).
    rewrite call_func_log. destruct (call_binds (sigs c) p); eauto.
  Qed.

  (** ** C05 *)

  Theorem parse_error srvf srv dm :
    exists o, marshaled_dispatch srvf srv dm PError = Ok (ROne o, [])
              /\ reply_code o = Some (VInt (-32700)) /\ reply_id o = Some VNone.
  Proof. eexists. split; [reflexivity|]. split; [apply reply_code_err|apply reply_id_err]. Qed.

  Theorem invalid_request srvf srv dm e :
    wellformed_entry e = false ->
    exists o, answer_entry srvf srv dm e = (Some o, [])
              /\ reply_code o = Some (VInt (-32600)) /\ reply_id o = Some (usable_id e).
  Proof.
    intros Hw. unfold Dispatch.answer_entry. pose proof (validate_spec srvf e) as V.
    destruct (validate_request srvf e) as [ft|m s p].
    - destruct V as (_ & Hc & Hf & Hi). eexists. split; [reflexivity|].
      unfold fault_dump. rewrite Hc, Hi. split; [apply reply_code_err|apply reply_id_err].
    - destruct V as (_ & Hw' & _). congruence.
  Qed.

  Theorem falsy_request srvf srv dm v :
    truthy v = false ->
    exists o, marshaled_dispatch srvf srv dm (PValue v) = Ok (ROne o, [])
              /\ reply_code o = Some (VInt (-32600)).
  Proof.
    intros H. unfold Dispatch.marshaled_dispatch, Dispatch.unmarshaled_dispatch. cbn [loads_m].
    rewrite H. cbn [negb]. rewrite dumpable_err_obj by reflexivity.
    eexists. split; [reflexivity|apply reply_code_err].
  Qed.

  Theorem empty_body srvf srv dm :
    exists o, marshaled_dispatch srvf srv dm PEmpty = Ok (ROne o, [])
              /\ reply_code o = Some (VInt (-32600)).
  Proof. destruct srvf; eexists; split; reflexivity. Qed.

  (** a well-formed call (not a notification) is answered by what the dispatch target yields *)
  Theorem call_answer srvf srv e m s :
    e = VDict m -> wellformed_entry e = true -> no_id e = false -> method_of e = Some s ->
    forall r log, run_target (sv_reg srv) None s (params_of e) = (r, log) ->
    match r with
    | DFault c msg =>
        answer_entry srvf srv None e = (Some (err_obj (request_form srvf m) (usable_id e) c msg), log)
    | DExn cls msg =>
        answer_entry srvf srv None e
        = (Some (err_obj (request_form srvf m) (usable_id e) (-32603) (cls ++ ":" ++ msg)), log)
    | DVal v =>
        exists o, answer_entry srvf srv None e = (Some o, log)
                  /\ (reply_code o = None \/ reply_code o = Some (VInt (-32603)))
    end.
  Proof.
    intros -> Hw Hno Hm r log Hr. unfold Dispatch.answer_entry.
    pose proof (validate_spec srvf (VDict m)) as V.
    destruct (validate_request srvf (VDict m)) as [ft|m' s' p'].
    { destruct V as (Hw' & _). congruence. }
    destruct V as (E & _ & Hm' & _ & -> & _ & Hi). inversion E; subst m'. clear E.
    assert (s' = s) by congruence. subst s'.
    unfold Dispatch.single_dispatch, single_dispatch_with. rewrite is_notification_no_id, Hno. cbn [andb].
    rewrite Hr, Hi. destruct r; try reflexivity.
    destruct (if sv_jsonclass srv then convert v else Ok v).
    - eexists. split; [reflexivity|]. left. apply reply_code_resp.
    - eexists. split; [reflexivity|]. right. apply reply_code_err.
  Qed.

  (** the code of a Fault returned by the default dispatch is the code of the reply, with the
      request's id, and the reply's log is the dispatch's log *)
  Theorem fault_code_surfaces srvf srv e m s c msg log :
    e = VDict m -> wellformed_entry e = true -> no_id e = false -> method_of e = Some s ->
    dispatch (sv_reg srv) s (params_of e) = (DFault c msg, log) ->
    exists o, answer_entry srvf srv None e = (Some o, log)
              /\ reply_code o = Some (VInt c) /\ reply_message o = Some (VStr msg)
              /\ reply_id o = Some (usable_id e).
  Proof.
    intros He Hw Hno Hm Hd.
    pose proof (call_answer srvf srv e m s He Hw Hno Hm (DFault c msg) log Hd) as A. cbn in A.
    eexists. split; [exact A|].
    split; [apply reply_code_err|split; [apply reply_message_err|apply reply_id_err]].
  Qed.

  Theorem unknown_method_no_instance reg s p :
    lookup s (r_funcs reg) = None -> r_instance reg = None ->
    exists msg, dispatch reg s p = (DFault (-32601) msg, []).
  Proof. intros H1 H2. unfold Dispatch.dispatch. rewrite H1, H2. unfold unknown_method. eauto. Qed.

  Theorem unknown_method_instance reg inst s p :
    lookup s (r_funcs reg) = None -> r_instance reg = Some inst -> i_dispatch inst = None ->
    resolve_segs (AObj (i_attrs inst)) (split_dot s) = None ->
    exists msg, dispatch reg s p = (DFault (-32601) msg, []).
  Proof.
    intros H1 H2 H3 H4. unfold Dispatch.dispatch. rewrite H1, H2, H3.
    unfold dispatch_resolved. rewrite H4. unfold unknown_method. eauto.
  Qed.

  Theorem private_segment reg inst s p :
    has_underscore_segment s = true ->
    lookup s (r_funcs reg) = None -> r_instance reg = Some inst -> i_dispatch inst = None ->
    exists msg, dispatch reg s p = (DFault (-32601) msg, []).
  Proof.
    intros Hu H1 H2 H3. eapply unknown_method_instance; eauto. now apply resolve_private.
  Qed.

  (** with an instance-level _dispatch that declines (AttributeError), only that function ran *)
  Theorem private_segment_declined reg inst d s p m :
    has_underscore_segment s = true ->
    lookup s (r_funcs reg) = None -> r_instance reg = Some inst -> i_dispatch inst = Some d ->
    body d (dispatch_args s p) = RaiseExn "AttributeError" m ->
    exists msg, dispatch reg s p = (DFault (-32601) msg, [EvCall d (dispatch_args s p)]).
  Proof.
    intros Hu H1 H2 H3 Hb. unfold Dispatch.dispatch. rewrite H1, H2, H3.
    unfold call_dispatcher. rewrite Hb. cbn.
    unfold dispatch_resolved. rewrite (resolve_private _ _ Hu). unfold unknown_method. eauto.
  Qed.

  Theorem bad_arity reg s p c :
    lookup s (r_funcs reg) = Some c -> call_binds (sigs c) p = false ->
    exists msg, dispatch reg s p = (DFault (-32602) msg, []).
  Proof.
    intros H1 H2. unfold Dispatch.dispatch. rewrite H1. unfold Dispatch.call_func. rewrite H2. eauto.
  Qed.

  Theorem bad_arity_resolved reg inst s p c :
    lookup s (r_funcs reg) = None -> r_instance reg = Some inst -> i_dispatch inst = None ->
    resolve_segs (AObj (i_attrs inst)) (split_dot s) = Some (ACallable c) ->
    call_binds (sigs c) p = false ->
    exists msg, dispatch reg s p = (DFault (-32602) msg, []).
  Proof.
    intros H1 H2 H3 H4 H5. unfold Dispatch.dispatch. rewrite H1, H2, H3.
    unfold dispatch_resolved. rewrite H4. unfold Dispatch.call_func. rewrite H5. eauto.
  Qed.

  Theorem method_exception reg s p c cls t :
    lookup s (r_funcs reg) = Some c -> call_binds (sigs c) p = true ->
    body c p = RaiseExn cls t -> cls <> "TypeError" ->
    exists msg, dispatch reg s p = (DFault (-32603) msg, [EvCall c p])
                /\ substrb cls msg = true /\ substrb t msg = true.
  Proof.
    intros H1 H2 H3 H4. unfold Dispatch.dispatch. rewrite H1. unfold Dispatch.call_func. rewrite H2, H3.
    apply String.eqb_neq in H4. rewrite H4.
    eexists. split; [reflexivity|]. split.
    - apply (substrb_mid "Server error: raise | " cls (": " ++ t)).
    - apply substrb_app_r, substrb_app_r, substrb_end.
  Qed.

  Theorem method_exception_resolved reg inst s p c cls t :
    lookup s (r_funcs reg) = None -> r_instance reg = Some inst -> i_dispatch inst = None ->
    resolve_segs (AObj (i_attrs inst)) (split_dot s) = Some (ACallable c) ->
    call_binds (sigs c) p = true -> body c p = RaiseExn cls t -> cls <> "TypeError" ->
    exists msg, dispatch reg s p = (DFault (-32603) msg, [EvCall c p])
                /\ substrb cls msg = true /\ substrb t msg = true.
  Proof.
    intros H1 H2 H3 H4 H5 H6 H7. unfold Dispatch.dispatch. rewrite H1, H2, H3.
    unfold dispatch_resolved. rewrite H4. unfold Dispatch.call_func. rewrite H5, H6.
    apply String.eqb_neq in H7. rewrite H7.
    eexists. split; [reflexivity|]. split.
    - apply (substrb_mid "Server error: raise | " cls (": " ++ t)).
    - apply substrb_app_r, substrb_app_r, substrb_end.
  Qed.

  (** finding F13, as the model has it: a TypeError raised by the body is reported as -32602 *)
  Theorem type_error_in_body_is_32602 reg s p c t :
    lookup s (r_funcs reg) = Some c -> call_binds (sigs c) p = true ->
    body c p = RaiseTypeErrorInBody t ->
    exists msg, dispatch reg s p = (DFault (-32602) msg, [EvCall c p]).
  Proof.
    intros H1 H2 H3. unfold Dispatch.dispatch. rewrite H1. unfold Dispatch.call_func. rewrite H2, H3. eauto.
  Qed.

  (** a failing custom dispatch function: -32603 naming type and text, with the request's id *)
  Theorem custom_dispatch_exception srvf srv d e m s cls t :
    e = VDict m -> wellformed_entry e = true -> no_id e = false -> method_of e = Some s ->
    body d (dispatch_args s (params_of e)) = RaiseExn cls t ->
    exists msg, Dispatch.answer_entry body sigs srvf srv (Some d) e
                = (Some (err_obj (request_form srvf m) (usable_id e) (-32603) msg),
                   [EvCall d (dispatch_args s (params_of e))])
                /\ substrb cls msg = true /\ substrb t msg = true.
  Proof.
    intros -> Hw Hno Hm Hb. unfold Dispatch.answer_entry.
    pose proof (validate_spec srvf (VDict m)) as V.
    destruct (validate_request srvf (VDict m)) as [ft|m' s' p'].
    { destruct V as (Hw' & _). congruence. }
    destruct V as (E & _ & Hm' & _ & -> & _ & Hi). inversion E; subst m'. clear E.
    assert (s' = s) by congruence. subst s'.
    unfold Dispatch.single_dispatch, single_dispatch_with. rewrite is_notification_no_id, Hno. cbn [andb].
    cbn [Dispatch.run_target]. unfold call_dispatcher. rewrite Hb, Hi.
    eexists. split; [reflexivity|]. split.
    - apply (substrb_mid "" cls (":" ++ t)).
    - apply substrb_app_r, substrb_end.
  Qed.

  (** ** C13 (form of the replies) *)

  Theorem reply_form_valid srvf srv dm e m o log :
    e = VDict m -> wellformed_entry e = true ->
    answer_entry srvf srv dm e = (Some o, log) ->
    reply_form o = Some (if dhas m "jsonrpc" then srvf else V1).
  Proof.
    intros -> Hw H. pose proof (answer_entry_spec body sigs srvf srv dm (VDict m)) as A. rewrite H in A.
    destruct A as [_ [(Hw' & _)|(m' & E & _ & Sh)]]; [congruence|].
    inversion E; subst m'. rewrite (answer_shape_form _ _ _ _ _ Sh).
    unfold request_form. destruct (dhas m "jsonrpc"); cbn; [reflexivity|]. now destruct srvf.
  Qed.

  Theorem reply_form_invalid srvf srv dm e o log :
    wellformed_entry e = false ->
    answer_entry srvf srv dm e = (Some o, log) -> reply_form o = Some srvf.
  Proof.
    intros Hw H. destruct (invalid_request srvf srv dm e Hw) as (o' & E & _).
    rewrite H in E. inversion E; subst.
    pose proof (answer_entry_spec body sigs srvf srv dm e) as A. rewrite H in A.
    destruct A as [_ [(_ & msg & ->)|(m' & _ & Hw' & _)]]; [apply reply_form_err|congruence].
  Qed.

End Theorems.

(** ** C05, client side: each standard code surfaces as ProtocolError((code, message)) *)

Theorem client_surfaces f i c msg :
  In c [-32700; -32600; -32601; -32602; -32603] ->
  check_for_errors (err_obj f i c msg) = Raise (EProtocol (VTuple [VInt c; VStr msg])).
Proof.
  intros H. cbn in H.
  destruct H as [<-|[<-|[<-|[<-|[<-|[]]]]]]; destruct f; reflexivity.
Qed.
