(** Proofs about Model/JsonClass.v for property C08: the use_jsonclass gates, name validation
    ahead of every import / construction, propagation of a rejection from any depth, and the
    -32700 conversion of the server. *)
From JR Require Import JsonClass.
From Coq Require Import Lia ZifyBool.

(** ** The gates *)

Theorem inert_load V E cfg v :
  cf_use cfg = false -> rpc_load V E cfg v = (Ok v, v, []).
Proof. intros H. unfold rpc_load. rewrite H. destruct v; reflexivity. Qed.

Theorem inert_loads (dec : str -> res val) V E cfg data :
  cf_use cfg = false ->
  rpc_loads dec V E cfg data = (if String.eqb data "" then Ok VNone else dec data, []).
Proof.
  intros H. unfold rpc_loads. destruct (String.eqb data ""); [reflexivity|].
  destruct (dec data) as [v|e]; [|reflexivity]. rewrite (inert_load V E cfg v H). reflexivity.
Qed.

Theorem inert_dump hfun V E cfg params :
  cf_use cfg = false -> rpc_dump_params hfun V E cfg params = Ok params.
Proof. intros H. unfold rpc_dump_params. now rewrite H. Qed.

(** ** Name validation comes first *)

Lemma nth_py_0 {A} (x : A) r : nth_py (x :: r) 0 = Some x.
Proof.
  unfold nth_py. cbn [length]. replace (0 <? 0) with false by reflexivity.
  destruct (Z.of_nat (S (length r)) <=? 0) eqn:Hn; [lia|]. reflexivity.
Qed.

Lemma nth_py_1 {A} (x y : A) r : nth_py (x :: y :: r) 1 = Some y.
Proof.
  unfold nth_py. cbn [length]. replace (1 <? 0) with false by reflexivity.
  destruct (Z.of_nat (S (S (length r))) <=? 1) eqn:Hn; [lia|]. reflexivity.
Qed.

Lemma getitem_jc m jc : dget m "__jsonclass__" = Some jc -> py_getitem (VDict m) jsonclass_key = Ok jc.
Proof. unfold dget, py_getitem, jsonclass_key. cbn [hashable]. now intros ->. Qed.

(** whatever the "__jsonclass__" member is: unless its element 0 is an acceptable name, the
    descriptor is rejected before any import or construction *)
Lemma head_rejects_bad_name E cl m jc :
  dget m "__jsonclass__" = Some jc ->
  (forall name, py_getitem jc (VInt 0) = Ok name -> name_ok name = false) ->
  exists e, descriptor_head E cl m = (Raise e, []).
Proof.
  intros Hjc Hname. unfold descriptor_head. rewrite (getitem_jc m jc Hjc).
  destruct (py_getitem jc (VInt 0)) as [name|e]; [|eauto].
  destruct (py_getitem jc (VInt 1)) as [params|e]; [|eauto].
  specialize (Hname name eq_refl).
  destruct (truthy name) eqn:Ht; cbn [negb]; [|eauto].
  destruct name; eauto.
  unfold name_ok in Hname. cbn [truthy] in Ht. rewrite Ht in Hname. cbn [andb] in Hname.
  rewrite Hname. cbn [negb]. eauto.
Qed.

Lemma head_rejects_translation E cl m jc name params :
  dget m "__jsonclass__" = Some jc -> descriptor_shape jc = Some (name, params) ->
  name_ok name = false -> (is_string name = true \/ truthy name = false) ->
  descriptor_head E cl m = (Raise ETranslation, []).
Proof.
  intros Hjc Hshape Hname Hstr. unfold descriptor_head. rewrite (getitem_jc m jc Hjc).
  destruct jc as [| | | | |[|n [|p r]]| | | | | | | |]; try discriminate Hshape.
  assert (n = name /\ p = params) as [-> ->].
  { cbn [descriptor_shape] in Hshape. destruct p; inversion Hshape; auto. }
  cbn [py_getitem index_of]. rewrite nth_py_0, nth_py_1.
  destruct (truthy name) eqn:Ht; cbn [negb]; [|reflexivity].
  destruct Hstr as [Hs|Hs]; [|discriminate Hs].
  destruct name; try discriminate Hs.
  unfold name_ok in Hname. cbn [truthy] in Ht. rewrite Ht in Hname. cbn [andb] in Hname.
  rewrite Hname. reflexivity.
Qed.

Lemma load_descriptor_head_raise V E cl m e ev :
  dhas m "__jsonclass__" = true -> descriptor_head E cl m = (Raise e, ev) ->
  jc_load_m V E cl (VDict m) = (Raise e, VDict m, ev).
Proof. intros Hd Hh. cbn [jc_load_m]. rewrite Hd. cbn [negb]. rewrite Hh. reflexivity. Qed.

Lemma dhas_of_dget m k v : dget m k = Some v -> dhas m k = true.
Proof. unfold dhas. now intros ->. Qed.

Theorem invalid_name_rejected V E cl m jc name params :
  dget m "__jsonclass__" = Some jc -> descriptor_shape jc = Some (name, params) ->
  name_ok name = false -> (is_string name = true \/ truthy name = false) ->
  jc_load_m V E cl (VDict m) = (Raise ETranslation, VDict m, []).
Proof.
  intros Hjc Hshape Hname Hstr. apply load_descriptor_head_raise; [eapply dhas_of_dget; eauto|].
  eapply head_rejects_translation; eauto.
Qed.

Theorem malformed_rejected V E cl m jc :
  dget m "__jsonclass__" = Some jc ->
  (forall name, py_getitem jc (VInt 0) = Ok name -> name_ok name = false) ->
  exists e, jc_load_m V E cl (VDict m) = (Raise e, VDict m, []).
Proof.
  intros Hjc Hname. destruct (head_rejects_bad_name E cl m jc Hjc Hname) as [e He].
  exists e. apply load_descriptor_head_raise; [eapply dhas_of_dget; eauto | exact He].
Qed.

(** a member that is no list / tuple / string / dict has no element 0 at all *)
Lemma unsubscriptable_has_no_name jc :
  match jc with VList _ | VTuple _ | VStr _ | VDict _ => false | _ => true end = true ->
  forall name, py_getitem jc (VInt 0) = Ok name -> name_ok name = false.
Proof. destruct jc; intros H name Hg; try discriminate H; discriminate Hg. Qed.

(** every import / construction event of a descriptor comes after its name was accepted *)
Theorem events_need_valid_name E cl m jc name r ev :
  dget m "__jsonclass__" = Some jc -> py_getitem jc (VInt 0) = Ok name ->
  descriptor_head E cl m = (r, ev) -> ev <> [] -> name_ok name = true.
Proof.
  intros Hjc Hn Hh Hev. destruct (name_ok name) eqn:Hok; [reflexivity|].
  destruct (head_rejects_bad_name E cl m jc Hjc) as [e He].
  - intros name' Hn'. rewrite Hn in Hn'. now injection Hn' as <-.
  - rewrite He in Hh. injection Hh as _ <-. now contradiction Hev.
Qed.

(** ** A rejection at any depth propagates; only members visited earlier leave events *)

Lemma load_seq_reject (f : val -> lres) pre x post e :
  forallb (fun y => match lres_val (f y) with Ok _ => true | Raise _ => false end) pre = true ->
  lres_val (f x) = Raise e ->
  fst (fst (load_seq f (pre ++ x :: post))) = Raise e /\
  snd (load_seq f (pre ++ x :: post)) = (flat_map (fun y => lres_events (f y)) pre ++ lres_events (f x))%list.
Proof.
  intros Hpre Hx. induction pre as [|y ys IH]; cbn [app load_seq flat_map]; fold (load_seq f).
  - unfold lres_val, lres_events in *. destruct (f x) as [[r x'] ev]. cbn [fst snd] in *. subst r. auto.
  - cbn [forallb] in Hpre. apply andb_true_iff in Hpre as [Hy Hys]. specialize (IH Hys).
    unfold lres_val, lres_events in *. destruct (f y) as [[r y'] ev]. cbn [fst snd] in *.
    destruct r as [z|]; [|discriminate Hy].
    destruct (load_seq f (ys ++ x :: post)) as [[rs xs'] evs]. cbn [fst snd] in *.
    destruct IH as [-> ->]. split; [reflexivity|]. now rewrite app_assoc.
Qed.

Lemma load_items_reject (f : val -> lres) pre k x post e :
  forallb (fun kv => match lres_val (f (snd kv)) with Ok _ => true | Raise _ => false end) pre = true ->
  lres_val (f x) = Raise e ->
  fst (fst (load_items f (pre ++ (k, x) :: post))) = Raise e /\
  snd (load_items f (pre ++ (k, x) :: post)) =
    (flat_map (fun kv => lres_events (f (snd kv))) pre ++ lres_events (f x))%list.
Proof.
  intros Hpre Hx. induction pre as [|[k' y] ys IH]; cbn [app load_items flat_map fst snd]; fold (load_items f).
  - unfold lres_val, lres_events in *. destruct (f x) as [[r x'] ev]. cbn [fst snd] in *. subst r. auto.
  - cbn [forallb snd] in Hpre. apply andb_true_iff in Hpre as [Hy Hys]. specialize (IH Hys).
    unfold lres_val, lres_events in *. destruct (f y) as [[r y'] ev]. cbn [fst snd] in *.
    destruct r as [z|]; [|discriminate Hy].
    destruct (load_items f (ys ++ (k, x) :: post)) as [[rs xs'] evs]. cbn [fst snd] in *.
    destruct IH as [-> ->]. split; [reflexivity|]. now rewrite app_assoc.
Qed.

Lemma dhas_hole_irrelevant pre k x y post s :
  dhas (pre ++ (k, x) :: post) s = dhas (pre ++ (k, y) :: post) s.
Proof.
  unfold dhas, dget. induction pre as [|[k' z] r IH]; cbn [app assoc].
  - destruct (py_eq (VStr s) k); reflexivity.
  - destruct (py_eq (VStr s) k'); [reflexivity | exact IH].
Qed.

Lemma reject_in_frame E cl f x e :
  frame_ok fixed E cl f = true -> lres_val (jc_load_m fixed E cl x) = Raise e ->
  lres_val (jc_load_m fixed E cl (plug f x)) = Raise e /\
  lres_events (jc_load_m fixed E cl (plug f x)) =
    (frame_events fixed E cl f ++ lres_events (jc_load_m fixed E cl x))%list.
Proof.
  intros Hok Hx. destruct f as [pre post|pre post|pre post|pre post|pre k post];
    cbn [plug jc_load_m frame_events frame_ok v_forward fixed] in *.
  1-4: destruct (load_seq_reject (jc_load_m fixed E cl) pre x post e Hok Hx) as [H1 H2];
       destruct (load_seq (jc_load_m fixed E cl) (pre ++ x :: post)) as [[r l'] ev];
       unfold lres_val, lres_events; cbn [fst snd] in *; subst r ev; auto.
  apply andb_true_iff in Hok as [Hpre Hd].
  rewrite (dhas_hole_irrelevant pre k x VNone post), Hd.
  destruct (load_items_reject (jc_load_m fixed E cl) pre k x post e Hpre Hx) as [H1 H2].
  destruct (load_items (jc_load_m fixed E cl) (pre ++ (k, x) :: post)) as [[r l'] ev].
  unfold lres_val, lres_events. cbn [fst snd] in *. subst r ev. auto.
Qed.

Theorem reject_at_depth E cl fs x e :
  forallb (frame_ok fixed E cl) fs = true -> lres_val (jc_load_m fixed E cl x) = Raise e ->
  lres_val (jc_load_m fixed E cl (plugs fs x)) = Raise e /\
  lres_events (jc_load_m fixed E cl (plugs fs x)) =
    (flat_map (frame_events fixed E cl) fs ++ lres_events (jc_load_m fixed E cl x))%list.
Proof.
  intros Hok Hx. induction fs as [|f fs IH]; cbn [plugs fold_right flat_map]; [auto|].
  cbn [forallb] in Hok. apply andb_true_iff in Hok as [Hf Hfs]. destruct (IH Hfs) as [IH1 IH2].
  fold (plugs fs x). destruct (reject_in_frame E cl f (plugs fs x) e Hf IH1) as [H1 H2].
  split; [exact H1|]. rewrite H2, IH2. now rewrite app_assoc.
Qed.

(** ** The server answers every rejected payload with -32700 and calls nothing *)

Theorem server_32700 (dec : str -> res val) (call : Type) (dispatch : val -> val * list call) V E cfg v2 data e ev :
  rpc_loads dec V E cfg data = (Raise e, ev) ->
  marshaled_dispatch dec call dispatch V E cfg v2 data = (parse_error_reply v2, [], ev).
Proof. intros H. unfold marshaled_dispatch. now rewrite H. Qed.

Lemma parse_error_reply_code v2 :
  exists m em, parse_error_reply v2 = VDict m /\ dget m "error" = Some (VDict em) /\
               dget em "code" = Some (VInt (-32700)) /\ dget m "id" = Some VNone.
Proof. destruct v2; cbn [parse_error_reply]; eexists; eexists; repeat split; reflexivity. Qed.

(** the translator's rejection reaches the server: jsonclass.load raising makes loads raise *)
Lemma loads_raises (dec : str -> res val) V E cfg data v e :
  String.eqb data "" = false -> dec data = Ok v -> cf_use cfg = true -> v <> VNone ->
  lres_val (jc_load_m V E (cf_classes cfg) v) = Raise e ->
  rpc_loads dec V E cfg data = (Raise e, lres_events (jc_load_m V E (cf_classes cfg) v)).
Proof.
  intros Hd Hdec Hu Hv Hl. unfold rpc_loads. rewrite Hd, Hdec. unfold rpc_load. rewrite Hu.
  destruct v; try (now rewrite Hl); now contradiction Hv.
Qed.
