(** The invariants of the pool model (definitions) and generic helpers. *)
From JR Require Export PoolInv1.

(** *** worker classes (functions of the worker record) *)
Definition serving (x : wst) : bool :=      (* counted in __nb_threads: may still take a task *)
  match wpc x with
  | WNone | WDead | WUnlock3R | WFUnlock => false
  | WFLock | WFRemove | WFNbDec => negb (wclean x)
  | _ => true
  end.
Definition holding (x : wst) : bool :=      (* has taken an item and not yet called task_done for it *)
  match wpc x with
  | WSentDone | WLock1 | WActInc | WUnlock1 | WBegin | WBody | WTaskDone => true
  | _ => false
  end.
Definition in_body (x : wst) : bool := match wpc x with WBody => true | _ => false end.
Definition held_is (t : nat) (x : wst) : bool :=
  match wheld x with Some (ITask t') => Nat.eqb t' t | _ => false end.
Definition holds_pre (t : nat) (x : wst) : bool :=   (* holds task t, body not begun *)
  match wpc x with WLock1 | WActInc | WUnlock1 | WBegin => held_is t x | _ => false end.
Definition holds_any (t : nat) (x : wst) : bool :=
  match wpc x with WLock1 | WActInc | WUnlock1 | WBegin | WBody | WTaskDone => held_is t x | _ => false end.
Definition alive (x : wst) : bool := match wpc x with WNone | WDead => false | _ => true end.

Fixpoint qocc (t : nat) (l : list item) : nat :=
  match l with
  | [] => 0%nat
  | i :: r => (b2n (item_eqb i (ITask t)) + qocc t r)%nat
  end.
Lemma qocc_app t l1 l2 : qocc t (l1 ++ l2) = (qocc t l1 + qocc t l2)%nat.
Proof. induction l1 as [|i r IH]; cbn [qocc app]; [reflexivity | rewrite IH; lia]. Qed.
Lemma qocc_le_length t l : (qocc t l <= length l)%nat.
Proof. induction l as [|i r IH]; cbn [qocc length]; [lia | destruct (item_eqb i (ITask t)); cbn [b2n]; lia]. Qed.

(** lifecycle labels: only the controlling thread (client 0) is ever at one of them *)
Definition lifecycle_k (k : kont) : bool := match k with KEnq => false | _ => true end.
Definition lifecycle (l : clabel) : bool :=
  match l with
  | CSLock k | CSTest k | CSNbInc k | CSTStart k _ | CSAppend k _ | CSUnlock k => lifecycle_k k
  | CSTTest | CSTClear | CSTQsize | CSTLoopA _ _ | CSTLoopB _
  | CSPTest | CSPSet | CSPLock | CSPPut _ | CSPCopy | CSPUnlock _ | CSPAlive _ | CSPJoin _ | CSPAlive2 _ | CSPDel
  | CCLLock | CCLGet | CCLDone | CCLUnlock => true
  | CJTest _ JClear | CJQJoin JClear => true
  | _ => false
  end.

Definition clear_pending (s : st) : Z := match cpc (cs s 0%nat) with CCLDone => 1 | _ => 0 end.

(** *** the invariants *)
Definition I_ctl (s : st) : Prop := forall c, c <> 0%nat -> lifecycle (cpc (cs s c)) = false.
Definition I_created (s : st) : Prop :=
  (forall w, (next_w s <= w)%nat -> ws s w = w0) /\
  (forall c k w, cpc (cs s c) = CSTStart k w -> (w < next_w s)%nat /\ ws s w = mkW WNew None false).
Definition I_cfg (s : st) : Prop := 1 <= maxT s /\ 0 <= minT s <= maxT s.
Definition I_nb (s : st) : Prop := nb_threads s = Z.of_nat (count serving (ws s) (next_w s)).
Definition I_bound (s : st) : Prop :=
  nb_threads s <= maxT s /\ forall c k, cpc (cs s c) = CSNbInc k -> nb_threads s < maxT s.
Definition I_unf (s : st) : Prop :=
  unfinished s = Z.of_nat (length (q s)) + Z.of_nat (count holding (ws s) (next_w s)) + clear_pending s.
Definition I_once (s : st) : Prop :=
  forall t, (qocc t (q s) + count (holds_pre t) (ws s) (next_w s) + tstarts s t <= 1)%nat.
Definition I_fresh (s : st) : Prop :=
  forall t, (next_task s <= t)%nat ->
            qocc t (q s) = 0%nat /\ count (holds_any t) (ws s) (next_w s) = 0%nat /\ tstarts s t = 0%nat.
Definition I_place (s : st) : Prop :=
  forall t, (t < next_task s)%nat ->
            (1 <= qocc t (q s) + count (holds_any t) (ws s) (next_w s) + b2n (settled s t))%nat.
Definition I_mon (s : st) : Prop := join_bad s = false /\ joinf_bad s = false.
Definition I_jexit (s : st) : Prop :=
  forall c, match cpc (cs s c) with
            | CJExit r => qmutex s = Some c /\ r = (unfinished s <=? 0)
            | CJWait | CJRet => qmutex s = Some c
            | _ => qmutex s <> Some c
            end.

(** per-worker well-formedness: the clean flag is set exactly on the retirement tail, and the
    worker holds what its label says *)
Definition held_task (x : wst) : bool := match wheld x with Some (ITask _) => true | _ => false end.
Definition held_sent (x : wst) : bool := match wheld x with Some ISent => true | _ => false end.
Definition wf_w (x : wst) : bool :=
  match wpc x with
  | WUnlock3R => wclean x
  | WFLock | WFRemove | WFNbDec | WFUnlock | WDead => true
  | WSentDone => negb (wclean x) && held_sent x
  | WLock1 | WActInc | WUnlock1 | WBegin | WBody | WTaskDone => negb (wclean x) && held_task x
  | _ => negb (wclean x)
  end.
Definition I_wf (s : st) : Prop := forall w, wf_w (ws s w) = true.

Lemma created_lt s w pc h c : I_created s -> ws s w = mkW pc h c -> pc <> WNone -> (w < next_w s)%nat.
Proof.
  intros [Hc _] E Hn. destruct (Nat.lt_ge_cases w (next_w s)) as [|Hge]; [assumption|].
  rewrite (Hc w Hge) in E. unfold w0 in E. inversion E. congruence.
Qed.

Lemma cdepth_kret k : cdepth (kret k) = kdepth k.
Proof. destruct k; reflexivity. Qed.
Lemma lifecycle_kret k : lifecycle (kret k) = lifecycle_k k.
Proof. destruct k; reflexivity. Qed.

(** the standard opening of a preservation proof *)
Ltac open_step H :=
  step_cases H;
  try split_lockop H;
  try (break_ifs H; try inv_some H);
  unfold jreturn, jnext in *; use_cret;
  repeat match goal with |- context [if ?b then _ else _] => let E := fresh "Eg" in destruct b eqn:E end;
  repeat match goal with |- context [match ?i with ITask _ => _ | ISent => _ end] => destruct i end.
