(** The growth invariants (PoolInvH) hold in every reachable state; consequences for C09 / C10:
    a task accepted by a running pool is never stranded. *)
From JR Require Import PoolInvDefs PoolInvA PoolInvB PoolInvC PoolInvD PoolInvE PoolInvF PoolInvG PoolInvH PoolSafety PoolLifecycle.

Record Inv3 (s : st) : Prop := { k_inv2 : Inv2 s; k_pend : I_pend s; k_ret : I_ret s; k_growth : I_growth s }.

Lemma Inv3_init mx mn progs : valid_cfg mx mn -> Inv3 (init mx mn progs).
Proof.
  intros Hv. constructor.
  - apply Inv2_init, Hv.
  - split; [intros c _ | intros _]; cbn; lia.
  - intros w Hw. discriminate Hw.
  - intros Hst. discriminate Hst.
Qed.

Lemma Inv3_step s t f s' : Inv3 s -> step s t f = Some s' -> Inv3 s'.
Proof.
  intros K H. pose proof (k_inv2 _ K) as J. pose proof (j_inv1 _ J) as I.
  pose proof (i_ctl _ I). pose proof (i_created _ I). pose proof (i_cfg _ I). pose proof (i_lock _ I).
  pose proof (i_wf _ I). pose proof (i_nb _ I). pose proof (i_unf _ I).
  pose proof (j_flag _ J). pose proof (j_nosent _ J).
  pose proof (k_pend _ K). pose proof (k_ret _ K). pose proof (k_growth _ K).
  constructor.
  - eapply Inv2_step; eauto.
  - eapply P_pend; eauto.
  - eapply P_ret; eauto.
  - eapply P_growth; eauto.
Qed.

Lemma Inv3_run sched : forall s, Inv3 s -> Inv3 (run sched s).
Proof.
  induction sched as [|[t f] r IH]; intros s H; cbn [run]; [exact H|].
  apply IH. destruct (step s t f) eqn:E; [eapply Inv3_step; eauto | exact H].
Qed.

Theorem reachable_inv3 mx mn progs sched : valid_cfg mx mn -> Inv3 (run sched (init mx mn progs)).
Proof. intros Hv. apply Inv3_run, Inv3_init, Hv. Qed.

Lemma need_zero l : start_region l = false -> need 0 l = 0.
Proof. destruct l; cbn; try reflexivity; try discriminate; destruct k; cbn; try reflexivity; discriminate. Qed.

(** C10, growth clause, at every instant of a running pool outside the lines of start() between the
    read of the backlog and its use: the items not yet finished (queued, or taken and not yet marked
    done) never exceed the workers that will still take an item (serving, not retiring) plus the
    threads the controller is still committed to create (need) — minus one while an enqueue() is
    between its put() and the thread it is about to start — unless max_threads workers exist. *)
Theorem growth_general mx mn progs sched :
  valid_cfg mx mn ->
  let s := run sched (init mx mn progs) in
  stopped s = false -> ctl s <> CSTQsize ->
  let backlog := Z.of_nat (length (q s)) + Z.of_nat (count holding (ws s) (next_w s)) in
  let takers := Z.of_nat (count serving (ws s) (next_w s)) - Z.of_nat (count retiring (ws s) (next_w s)) in
  ((forall c, ewin (cpc (cs s c)) = false) ->
     backlog <= takers + need 0 (ctl s) \/ mx <= nb_threads s + need 0 (ctl s)) /\
  (forall c, ewin (cpc (cs s c)) = true ->
     backlog - 1 <= takers + need 0 (ctl s) \/ mx <= nb_threads s + need 0 (ctl s)).
Proof.
  intros Hv s Hst Hq backlog takers.
  pose proof (reachable_inv3 mx mn progs sched Hv) as K. fold s in K.
  pose proof (k_inv2 _ K) as J. pose proof (j_inv1 _ J) as I.
  destruct (k_growth _ K Hst Hq) as (G1 & G0 & _).
  destruct (cfg_run sched (init mx mn progs)) as [Hmx _]. fold s in Hmx. cbn in Hmx.
  pose proof (i_unf _ I) as Hu. pose proof (i_nb _ I) as Hn. unfold I_unf in Hu. unfold I_nb in Hn.
  assert (Hcp : 0 <= clear_pending s) by (unfold clear_pending; destruct (cpc (cs s 0%nat)); lia).
  split.
  - intros Hall. specialize (G0 Hall). unfold gclaim, nb_eff in G0. subst backlog takers. lia.
  - intros c Hc. specialize (G1 c Hc). unfold gclaim, nb_eff in G1. subst backlog takers. lia.
Qed.

(** C09 / C10 at rest: between the return of start() and the call of stop(), when no enqueue() is between
    its put() and its thread start, every queued item has its own idle worker that will take it, or
    max_threads workers exist; in particular a queued task always has at least one live worker serving
    the queue: it is never stranded. *)
Theorem growth_at_rest mx mn progs sched :
  valid_cfg mx mn ->
  let s := run sched (init mx mn progs) in
  start_done s = true -> (forall c, ewin (cpc (cs s c)) = false) ->
  let idle := Z.of_nat (count serving (ws s) (next_w s)) - Z.of_nat (count retiring (ws s) (next_w s))
              - Z.of_nat (count holding (ws s) (next_w s)) in
  (Z.of_nat (length (q s)) <= idle \/ nb_threads s = mx) /\
  (q s <> [] -> 1 <= nb_threads s).
Proof.
  intros Hv s Hsd Hall idle.
  pose proof (reachable_inv3 mx mn progs sched Hv) as K. fold s in K.
  pose proof (k_inv2 _ K) as J. pose proof (j_inv1 _ J) as I.
  destruct (j_flag _ J) as (_ & _ & _ & F4 & _). destruct (F4 Hsd) as (Hst & _ & Hsr).
  assert (Hq : ctl s <> CSTQsize) by (intros E; rewrite E in Hsr; discriminate).
  destruct (growth_general mx mn progs sched Hv Hst Hq) as [G _]. fold s in G. specialize (G Hall).
  rewrite (need_zero _ Hsr) in G.
  destruct (cfg_run sched (init mx mn progs)) as [Hmx _]. fold s in Hmx. cbn in Hmx.
  destruct (i_bound _ I) as [Hb _]. rewrite Hmx in Hb.
  pose proof (i_nb _ I) as Hn. unfold I_nb in Hn.
  destruct Hv as [Hv1 Hv2].
  split.
  - subst idle. lia.
  - intros Hne. destruct (q s) as [|x l] eqn:Eq; [congruence|]. cbn [length] in G. lia.
Qed.

Lemma count_imp_le {A} (g h : A -> bool) f n :
  (forall i, (i < n)%nat -> g (f i) = true -> h (f i) = true) -> (count g f n <= count h f n)%nat.
Proof.
  induction n as [|k IH]; intros H; cbn [count]; [lia|].
  specialize (IH (fun i Hi => H i ltac:(lia))). specialize (H k ltac:(lia)).
  destruct (g (f k)); destruct (h (f k)); cbn [b2n]; try lia; try (specialize (H eq_refl); discriminate).
Qed.

Lemma count_lt_witness {A} (g h : A -> bool) f n :
  (count g f n < count h f n)%nat -> exists i, (i < n)%nat /\ h (f i) = true /\ g (f i) = false.
Proof.
  induction n as [|k IH]; cbn [count]; intros H; [lia|].
  destruct (h (f k)) eqn:Eh; destruct (g (f k)) eqn:Eg; cbn [b2n] in H.
  - destruct IH as (i & Hi & ?); [lia|]. exists i. split; [lia|assumption].
  - exists k. repeat split; [lia|assumption|assumption].
  - destruct IH as (i & Hi & ?); [lia|]. exists i. split; [lia|assumption].
  - destruct IH as (i & Hi & ?); [lia|]. exists i. split; [lia|assumption].
Qed.

(** the growth clause as stated in DESIGN 4/C10: at rest, if a task is waiting then some worker that
    serves the queue is not inside a task body, or max_threads task bodies are running *)
Theorem growth_progress mx mn progs sched :
  valid_cfg mx mn ->
  let s := run sched (init mx mn progs) in
  start_done s = true -> (forall c, ewin (cpc (cs s c)) = false) -> q s <> [] ->
  (exists w, (w < next_w s)%nat /\ serving (ws s w) = true /\ in_body (ws s w) = false) \/
  Z.of_nat (count in_body (ws s) (next_w s)) = mx.
Proof.
  intros Hv s Hsd Hall Hq.
  destruct (growth_at_rest mx mn progs sched Hv Hsd Hall) as [G _]. fold s in G.
  pose proof (reachable_inv1 mx mn progs sched Hv) as I. fold s in I.
  pose proof (i_nb _ I) as Hn. unfold I_nb in Hn.
  assert (Hbh : (count in_body (ws s) (next_w s) <= count holding (ws s) (next_w s))%nat).
  { apply count_imp_le. intros i _. unfold in_body, holding. destruct (wpc (ws s i)); try discriminate; reflexivity. }
  assert (Hbs : (count in_body (ws s) (next_w s) <= count serving (ws s) (next_w s))%nat).
  { apply count_imp_le. intros i _. unfold in_body, serving. destruct (wpc (ws s i)); try discriminate; reflexivity. }
  assert (Hlen : (1 <= length (q s))%nat) by (destruct (q s); [congruence | cbn; lia]).
  destruct (Nat.eq_dec (count in_body (ws s) (next_w s)) (count serving (ws s) (next_w s))) as [E|Hne].
  - destruct G as [G|G].
    + exfalso. lia.
    + right. rewrite E. lia.
  - left. apply (count_lt_witness in_body serving). lia.
Qed.
