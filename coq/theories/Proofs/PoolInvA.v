(** Preservation: I_ctl, I_created, I_cfg, I_lock. *)
From JR Require Import PoolInvDefs.

Lemma next_call_ctl c p : c <> 0%nat -> lifecycle (fst (next_call c p)) = false.
Proof.
  intros Hc. apply Nat.eqb_neq in Hc.
  induction p as [|o r IH]; cbn; [reflexivity|]. destruct o; cbn; rewrite ?Hc; auto.
Qed.

Lemma cret_spec2 s c : exists l r j, cret s c = set_c s c (mkC l r j) /\ is_entry l = true /\ (c <> 0%nat -> lifecycle l = false).
Proof.
  unfold cret. pose proof (next_call_entry c (cprog (cs s c))) as H. pose proof (next_call_ctl c (cprog (cs s c))) as H2.
  destruct (next_call c (cprog (cs s c))) as [l r]. cbn in H, H2. eauto 8.
Qed.

Ltac use_cret2 :=
  repeat match goal with
  | |- context [cret ?s ?c] =>
      let l := fresh "l" in let r := fresh "r" in let j := fresh "j" in let E := fresh "Ecret" in
      let En := fresh "Hentry" in let Hl := fresh "Hlife" in
      destruct (cret_spec2 s c) as (l & r & j & E & En & Hl); rewrite E; clear E
  end.

Ltac open_step2 H :=
  step_cases H;
  try split_lockop H;
  try (break_ifs H; try inv_some H);
  unfold jreturn, jnext in *; use_cret2;
  repeat match goal with |- context [if ?b then _ else _] => let E := fresh "Eg" in destruct b eqn:E end;
  repeat match goal with |- context [match ?i with ITask _ => _ | ISent => _ end] => destruct i end;
  repeat match goal with |- context [spput ?n] => destruct n; cbn [spput] end;
  repeat match goal with |- context [spalive ?l] => destruct l; cbn [spalive] end;
  repeat match goal with |- context [match wpc ?x with WDead => _ | _ => _ end] => let E := fresh "Epc" in destruct (wpc x) eqn:E end.

Lemma P_ctl s t f s' : I_ctl s -> step s t f = Some s' -> I_ctl s'.
Proof.
  intros Hctl H. open_step2 H; use_lockop.
  all: intros c' Hc'; pose proof (Hctl c' Hc') as Hx; simp; split_upd; rew_recs; simp;
       cbn [lifecycle lifecycle_k] in *; rewrite ?lifecycle_kret; try assumption; try congruence; auto.
Qed.

Lemma two_lockers s c1 c2 : I_lock s -> c1 <> c2 ->
  (0 < cdepth (cpc (cs s c1)))%nat -> (0 < cdepth (cpc (cs s c2)))%nat -> False.
Proof.
  intros [_ Hc] Hne H1 H2. rewrite <- Hc in H1, H2.
  pose proof (lockd_excl s (TC c1) (TC c2) ltac:(congruence) H1). lia.
Qed.
Lemma wc_lockers s w c : I_lock s ->
  (0 < wdepth (wpc (ws s w)))%nat -> (0 < cdepth (cpc (cs s c)))%nat -> False.
Proof.
  intros [Hw Hc] H1 H2. rewrite <- Hw in H1. rewrite <- Hc in H2.
  pose proof (lockd_excl s (TW w) (TC c) ltac:(congruence) H1). lia.
Qed.
Lemma two_wlockers s w1 w2 : I_lock s -> w1 <> w2 ->
  (0 < wdepth (wpc (ws s w1)))%nat -> (0 < wdepth (wpc (ws s w2)))%nat -> False.
Proof.
  intros [Hw _] Hne H1 H2. rewrite <- Hw in H1, H2.
  pose proof (lockd_excl s (TW w1) (TW w2) ltac:(congruence) H1). lia.
Qed.

Lemma P_created s t f s' : I_lock s -> I_created s -> step s t f = Some s' -> I_created s'.
Proof.
  intros Hlk Hcr H. pose proof Hcr as [Hcr1 Hcr2].
  open_step2 H; use_lockop.
  all: split; [ intros w' Hw'; simp; pose proof (Hcr1 w') as Hx;
       try (match goal with Ew : ws ?s1 ?w = mkW ?pc _ _ |- _ =>
              assert (w < next_w s1)%nat by (apply (created_lt s1 w pc _ _ Hcr Ew); discriminate) end);
       try (match goal with Ec : cs ?s1 ?c = mkC (CSTStart ?k ?w) _ _ |- _ =>
              let X := fresh in destruct (Hcr2 c k w) as [X _]; [rewrite Ec; reflexivity|] end);
       split_upd; try lia; auto; apply Hx; lia
     | intros c' k' w' Hc'; simp; pose proof (Hcr2 c' k' w') as Hx;
       try (match goal with Ew : ws ?s1 ?w = mkW ?pc _ _ |- _ =>
              assert (w < next_w s1)%nat by (apply (created_lt s1 w pc _ _ Hcr Ew); discriminate) end);
       split_upd; rew_recs; simp; try discriminate;
       try solve [destruct (Hx Hc') as [? ?]; split; [lia | congruence]];
       try solve [inversion Hc'; subst; split; [lia | reflexivity]];
       try solve [subst; discriminate];
       try solve [exfalso; congruence];
       try solve [match goal with k : kont |- _ => destruct k; discriminate end];
       try solve [exfalso; match goal with Ec : cs ?s1 ?c = mkC _ _ _, Hn : ?c' <> ?c |- _ =>
                    apply (two_lockers s1 c' c Hlk Hn); [rewrite Hc' | rewrite Ec]; cbn; lia end] ].
Qed.

Lemma P_cfg s t f s' : I_cfg s -> step s t f = Some s' -> I_cfg s'.
Proof.
  intros Hcfg H. open_step2 H; use_lockop; unfold I_cfg in *; simp; exact Hcfg.
Qed.

Ltac lock_side Hw Hc Hcr1 :=
  let x := fresh "x" in intros x; pose proof (Hw x); pose proof (Hc x);
  autorewrite with lockd_rw in *;
  split_upd; rew_recs; simp; cbn [wdepth cdepth kdepth] in *;
  rewrite ?cdepth_kret in *;
  try match goal with He : is_entry ?l = true |- _ => rewrite (entry_depth l He) in * end;
  try other_thread;
  try assumption; try congruence; try lia.

Lemma P_lock s t f s' : I_created s -> I_lock s -> step s t f = Some s' -> I_lock s'.
Proof.
  intros [Hcr1 Hcr2] [Hw Hc] H. open_step2 H; use_lockop.
  all: unfold I_lock; simp;
       try match goal with Ew : ws ?s ?w = _ |- _ => let Hm := fresh "Hm" in pose proof (Hw w) as Hm; rewrite Ew in Hm; simp end;
       try match goal with Ec : cs ?s ?c = _ |- _ => let Hm := fresh "Hm" in pose proof (Hc c) as Hm; rewrite Ec in Hm; simp end;
       cbn [wdepth cdepth kdepth] in *.
  all: try solve [split; lock_side Hw Hc Hcr1].
  - (* CSNbInc: the new worker record *)
    pose proof (Hw (next_w s)) as Hn. rewrite (Hcr1 (next_w s) (le_n _)) in Hn. cbn in Hn.
    split; lock_side Hw Hc Hcr1.
  - (* CSTStart *)
    destruct (Hcr2 c k w) as [_ Hnew]; [rewrite Ec; reflexivity|].
    pose proof (Hw w) as Hn. rewrite Hnew in Hn. cbn in Hn.
    split; lock_side Hw Hc Hcr1.
Qed.

Lemma P_wf s t f s' : I_created s -> I_wf s -> step s t f = Some s' -> I_wf s'.
Proof.
  intros [Hcr1 Hcr2] Hwf H. open_step2 H; use_lockop.
  all: intros w'; pose proof (Hwf w') as Hx; simp;
       try match goal with Ew : ws ?s1 ?w = _ |- _ => let Hm := fresh "Hm" in pose proof (Hwf w) as Hm; rewrite Ew in Hm end;
       split_upd; rew_recs; simp; unfold wf_w, held_task, held_sent in *; simp;
       try assumption; try reflexivity;
       try (destruct clean; cbn in *; try discriminate; try assumption; try reflexivity).
Qed.
