(** Attribute maps: constructing an object anew and assigning all attributes of a well-formed
    instance (one that carries the constructor's attributes first, each name once) gives the
    instance's attribute map back.  Pure list facts about [fset] / [fset_all]. *)
From JR Require Import JsonClass.
From Coq Require Import Lia.

Lemma flookup_fset fs k v k' :
  flookup k' (fset fs k v) = if String.eqb k' k then Some v else flookup k' fs.
Proof.
  induction fs as [|[k0 v0] r IH]; cbn [fset flookup].
  - destruct (String.eqb k' k); reflexivity.
  - destruct (String.eqb k k0) eqn:E0; cbn [flookup].
    + apply String.eqb_eq in E0. subst k0. destruct (String.eqb k' k); reflexivity.
    + destruct (String.eqb k' k0) eqn:E1; [|exact IH].
      apply String.eqb_eq in E1. subst k0. rewrite String.eqb_sym in E0. now rewrite E0.
Qed.

Lemma flookup_none_of_not_mem k fs : mem_str k (map fst fs) = false -> flookup k fs = None.
Proof.
  induction fs as [|[k0 v0] r IH]; [reflexivity|]. cbn [map fst mem_str existsb flookup]. intros H.
  apply orb_false_iff in H as [H1 H2]. rewrite H1. exact (IH H2).
Qed.

Lemma flookup_some_mem k fs v : flookup k fs = Some v -> mem_str k (map fst fs) = true.
Proof.
  destruct (mem_str k (map fst fs)) eqn:E; [reflexivity|]. now rewrite (flookup_none_of_not_mem k fs E).
Qed.

(** lookups after assigning every item: the item's value if there is one, the old value otherwise *)
Lemma flookup_fset_all items : forall init k,
  nodup_str (map fst items) = true ->
  flookup k (fset_all init items) = match flookup k items with Some v => Some v | None => flookup k init end.
Proof.
  unfold fset_all. induction items as [|[k1 v1] r IH]; intros init k Hnd; [reflexivity|].
  cbn [fold_left fst snd map nodup_str flookup] in *. apply andb_true_iff in Hnd as [H1 H2].
  rewrite (IH _ k H2), flookup_fset. destruct (String.eqb k k1) eqn:E; [|reflexivity].
  apply String.eqb_eq in E. subst k1. apply negb_true_iff in H1. now rewrite (flookup_none_of_not_mem k r H1).
Qed.

(** key order *)
Lemma keys_fset fs k v :
  map fst (fset fs k v) = if mem_str k (map fst fs) then map fst fs else (map fst fs ++ [k])%list.
Proof.
  induction fs as [|[k0 v0] r IH]; [reflexivity|]. cbn [fset map fst mem_str existsb].
  destruct (String.eqb k k0) eqn:E; cbn [map fst orb]; [reflexivity|].
  rewrite IH. unfold mem_str. destruct (existsb (String.eqb k) (map fst r)); reflexivity.
Qed.

Lemma mem_str_app k a b : mem_str k (a ++ b) = mem_str k a || mem_str k b.
Proof. unfold mem_str. apply existsb_app. Qed.

(** assigning items whose names are all present keeps the key list *)
Lemma keys_fset_all_present items : forall init,
  forallb (fun kv => mem_str (fst kv) (map fst init)) items = true ->
  map fst (fset_all init items) = map fst init.
Proof.
  unfold fset_all. induction items as [|[k v] r IH]; intros init H; [reflexivity|].
  cbn [fold_left forallb fst snd] in *. apply andb_true_iff in H as [H1 H2].
  assert (Hk : map fst (fset init k v) = map fst init) by (rewrite keys_fset; now rewrite H1).
  rewrite IH; [exact Hk|]. now rewrite Hk.
Qed.

(** assigning items with new, pairwise distinct names appends them in order *)
Lemma keys_fset_all_new items : forall init,
  nodup_str (map fst items) = true ->
  forallb (fun kv => negb (mem_str (fst kv) (map fst init))) items = true ->
  map fst (fset_all init items) = (map fst init ++ map fst items)%list.
Proof.
  unfold fset_all. induction items as [|[k v] r IH]; intros init Hnd H; cbn [fold_left map fst snd].
  - now rewrite app_nil_r.
  - cbn [forallb fst nodup_str map] in *. apply andb_true_iff in H as [H1 H2]. apply andb_true_iff in Hnd as [Hk Hnd].
    apply negb_true_iff in H1.
    assert (Hkeys : map fst (fset init k v) = (map fst init ++ [k])%list) by (rewrite keys_fset; now rewrite H1).
    rewrite IH; [rewrite Hkeys; now rewrite <- app_assoc | exact Hnd |].
    rewrite Hkeys. clear IH Hkeys. induction r as [|[k2 v2] r IHr]; [reflexivity|].
    cbn [forallb fst map mem_str existsb] in *. apply andb_true_iff in H2 as [H3 H4].
    apply negb_true_iff in Hk. apply orb_false_iff in Hk as [Hk1 Hk2]. apply andb_true_iff in Hnd as [_ Hnd].
    rewrite mem_str_app. apply negb_true_iff in H3. rewrite H3. cbn [mem_str existsb orb].
    rewrite String.eqb_sym, Hk1. cbn [negb andb]. apply IHr; [now apply negb_true_iff | exact Hnd | exact H4].
Qed.

Lemma fset_all_app init a b : fset_all init (a ++ b) = fset_all (fset_all init a) b.
Proof. unfold fset_all. apply fold_left_app. Qed.

(** extensionality: same key list without repetition and same lookups *)
Lemma fields_ext : forall a b,
  map fst a = map fst b -> nodup_str (map fst a) = true ->
  (forall k, flookup k a = flookup k b) -> a = b.
Proof.
  induction a as [|[k x] r IH]; intros [|[k' y] r'] Hk Hnd Hl; try discriminate Hk; [reflexivity|].
  cbn [map fst] in Hk. injection Hk as -> Hk. cbn [map fst nodup_str] in Hnd. apply andb_true_iff in Hnd as [H1 H2].
  pose proof (Hl k') as Hh. cbn [flookup] in Hh. rewrite String.eqb_refl in Hh. injection Hh as ->.
  f_equal. apply IH; [exact Hk | exact H2|]. intros k. specialize (Hl k). cbn [flookup] in Hl.
  destruct (String.eqb k k') eqn:E; [|exact Hl]. apply String.eqb_eq in E. subst k.
  apply negb_true_iff in H1. rewrite (flookup_none_of_not_mem k' r H1).
  rewrite Hk in H1. now rewrite (flookup_none_of_not_mem k' r' H1).
Qed.

Lemma nodup_str_app_l a b : nodup_str (a ++ b) = true -> nodup_str a = true.
Proof.
  induction a as [|x r IH]; [reflexivity|]. cbn [app nodup_str]. intros H. apply andb_true_iff in H as [H1 H2].
  rewrite (IH H2), andb_true_r. apply negb_true_iff. apply negb_true_iff in H1. rewrite mem_str_app in H1.
  now apply orb_false_iff in H1 as [H1 _].
Qed.

Lemma nodup_str_app_r a b : nodup_str (a ++ b) = true -> nodup_str b = true.
Proof. induction a as [|x r IH]; [auto|]. cbn [app nodup_str]. intros H. apply andb_true_iff in H as [_ H2]. auto. Qed.

Lemma nodup_str_app_disj a b k : nodup_str (a ++ b) = true -> mem_str k b = true -> mem_str k a = false.
Proof.
  induction a as [|x r IH]; [reflexivity|]. cbn [app nodup_str]. intros H Hb.
  apply andb_true_iff in H as [H1 H2].
  change (mem_str k (x :: r)) with (String.eqb k x || mem_str k r). rewrite (IH H2 Hb), orb_false_r.
  destruct (String.eqb k x) eqn:E; [|reflexivity]. apply String.eqb_eq in E. subst x.
  apply negb_true_iff in H1. rewrite mem_str_app, Hb, orb_true_r in H1. discriminate H1.
Qed.

(** the statement: [fields] = the constructor's attributes (in the constructor's order, with any
    values) followed by further attributes, no name twice *)
Theorem reload_of_wf_instance init head tail :
  map fst init = map fst head -> nodup_str (map fst (head ++ tail)) = true ->
  fset_all init (head ++ tail) = (head ++ tail)%list.
Proof.
  intros Hkeys Hnd. rewrite map_app in Hnd.
  assert (Hndh : nodup_str (map fst head) = true) by exact (nodup_str_app_l _ _ Hnd).
  assert (Hndt : nodup_str (map fst tail) = true) by exact (nodup_str_app_r _ _ Hnd).
  assert (Hk1 : map fst (fset_all init head) = map fst init).
  { apply keys_fset_all_present. rewrite Hkeys. apply forallb_forall. intros [k v] Hin. cbn [fst].
    unfold mem_str. apply existsb_exists. exists k. split; [|apply String.eqb_refl].
    apply in_map_iff. exists (k, v). auto. }
  assert (Hk2 : map fst (fset_all init (head ++ tail)) = map fst (head ++ tail)).
  { rewrite fset_all_app, keys_fset_all_new; [now rewrite Hk1, Hkeys, map_app | exact Hndt |].
    rewrite Hk1, Hkeys. apply forallb_forall. intros [k v] Hin. cbn [fst]. apply negb_true_iff.
    apply (nodup_str_app_disj _ (map fst tail) k Hnd). unfold mem_str. apply existsb_exists. exists k.
    split; [|apply String.eqb_refl]. apply in_map_iff. exists (k, v). auto. }
  apply fields_ext; [exact Hk2 | rewrite Hk2, map_app; exact Hnd |].
  intros k. rewrite flookup_fset_all by (rewrite map_app; exact Hnd).
  destruct (flookup k (head ++ tail)) eqn:E; [reflexivity|].
  destruct (flookup k init) eqn:Ei; [|reflexivity]. exfalso.
  apply flookup_some_mem in Ei. rewrite Hkeys in Ei.
  assert (Hm : mem_str k (map fst (head ++ tail)) = true) by (rewrite map_app, mem_str_app, Ei; reflexivity).
  clear - E Hm. remember (head ++ tail)%list as l eqn:Hl. clear Hl. induction l as [|[k0 v0] r IH]; [discriminate Hm|].
  cbn [flookup map fst mem_str existsb] in *. destruct (String.eqb k k0); [discriminate E | auto].
Qed.
