(** * DispatchBridge — the reply objects of Model/Dispatch.v are the ones the general
    message-construction model (Model/Payload.v, property C14) builds for versions 1.0 and 2.0. *)
From JR Require Import Payload Dispatch.

Definition ver_of (f : form) : val := match f with V1 => VFlt (F 1 1) | V2 => VFlt (F 2 1) end.
Definition rat_ver (f : form) : rat := match f with V1 => (1, 1%positive) | V2 => (2, 1%positive) end.

Lemma bridge_form f : form_of_version (ver_of f) = Some f.
Proof. destruct f; reflexivity. Qed.

Lemma bridge_payload_init dv f i : payload_init dv i (ver_of f) = Ok (mkPayload i (rat_ver f)).
Proof. destruct f; reflexivity. Qed.

(** Payload.response *)
Lemma bridge_response f i v : payload_response (mkPayload i (rat_ver f)) v = Ok (resp_obj f i v).
Proof. destruct f; reflexivity. Qed.

(** Payload.error (no data) *)
Lemma bridge_error f i c m :
  payload_error (mkPayload i (rat_ver f)) (VInt c) (VStr m) VNone = Ok (err_obj f i c m).
Proof. destruct f; reflexivity. Qed.

(** Fault.dump() without forced id / version, for any use_jsonclass flag and any DEFAULT version *)
Lemma bridge_fault_dump dv jc f i c m :
  fst (Payload.fault_dump dv (Payload.mkFault (VInt c) (VStr m) i (mkPcfg (ver_of f) jc) VNone) VNone VNone)
  = Ok (Dispatch.fault_dump (Dispatch.mkFault c m i f)).
Proof. destruct f; reflexivity. Qed.

(** ** C04, client side: what Payload.notify builds is a notification for the dispatcher
    (composition of the C14 client model with the dispatcher's specification vocabulary) *)
Theorem client_notify_is_notification fresh f i method params n req p' n' :
  String.eqb method "" = false -> is_param_container params = true ->
  payload_notify fresh (mkPayload i (rat_ver f)) (VStr method) params n = Ok (req, p', n') ->
  is_notification_entry req = true /\ method_of req = Some method
  /\ (truthy params = true -> params_of req = params).
Proof.
  intros Hm Hp H. unfold is_param_container in Hp.
  unfold payload_notify, payload_request, params_or_empty in H.
  cbn [is_string negb p_id p_version] in H.
  destruct (needs_fresh_id i); destruct (truthy params) eqn:Ht; destruct f;
    cbn in H; inversion H; subst; clear H;
    unfold is_notification_entry, wellformed_entry, no_id, method_of, params_of;
    cbn; rewrite ?Hm, ?Hp; cbn; repeat split; auto; intros; discriminate.
Qed.
