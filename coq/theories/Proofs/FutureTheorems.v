(** * FutureTheorems — the C16 theorems, for ALL schedules, from the invariants of
    FutureInv / FutureInvC / FutureInvN / FutureInvO *)
From Coq Require Import List Bool Arith Lia.
From RecordUpdate Require Import RecordSet.
From JR Require Import Sched Future FutureInv FutureInvC FutureInvN FutureInvO.
Import ListNotations RecordSetNotations.

Section Thm.
Variable c : cfg.

Definition Inv (s : st) : Prop := InvA c s /\ InvB s /\ InvG s /\ InvN c s /\ InvO c s.

Lemma Inv_init : Inv init.
Proof.
  unfold Inv, InvA, InvB, InvG, InvN, InvO. repeat split; try (intro; intros); try discriminate; try reflexivity;
    try (cbn in *; congruence); try constructor.
Qed.

Lemma Inv_step : forall s m s', Inv s -> step c s m = Some s' -> Inv s'.
Proof.
  intros s m s' (A & B & G & N & O) H. split; [|split; [|split; [|split]]].
  - eapply A_step; eauto.
  - eapply B_step; eauto.
  - eapply G_step; eauto.
  - eapply N_step; eauto.
  - eapply O_step; eauto.
Qed.

Theorem Inv_run : forall sched, Inv (run_future c sched).
Proof. intros sched. unfold run_future. apply invariant_rule; [exact Inv_init | exact Inv_step]. Qed.

Theorem Inv_run_from : forall sched s, Inv s -> Inv (run (step c) sched s).
Proof. intros sched s H. apply run_invariant with (step := step c); [exact Inv_step | exact H]. Qed.

(** ** done() / result() *)

(** data before event: whenever done() can return True the outcome is already stored *)
Theorem outcome_visible_when_done : forall sched,
  let s := run_future c sched in
  done s = true -> data s = out_data (body c) /\ exc s = out_exc (body c).
Proof.
  intros sched s Hd. destruct (Inv_run sched) as ((_ & _ & _ & D1' & D2' & D3' & _) & _).
  fold s in D1', D2', D3'. unfold D1, D2, D3, done in *. rewrite D3' in Hd.
  destruct (xp s); try discriminate Hd; cbn in D1', D2'; auto.
Qed.

(** while the task has not finished: done() is False, no call has seen anything but
    "not done" / "timed out", a done() made now returns False, a result(timeout) made now raises
    OSError once its timeout expires, and a result() made now blocks *)
Theorem not_done_before_finish : forall sched,
  let s := run_future c sched in
  body_finished s = false ->
  done s = false /\
  (forall j o, oobs s j = Some o -> o = ObsDone false \/ o = ObsTimeout) /\
  (forall j, op s j = O_start ->
     match obsk c j with
     | ODone => exists s1, step c s (Go (TO j)) = Some s1 /\ oobs s1 j = Some (ObsDone false)
     | OResultT => step c s (Go (TO j)) = None /\
                   exists s1 s2, step c s (Fire (TO j)) = Some s1 /\ step c s1 (Go (TO j)) = Some s2 /\
                                 oobs s2 j = Some ObsTimeout
     | OResult => step c s (Go (TO j)) = None /\ step c s (Fire (TO j)) = None
     end).
Proof.
  intros sched s Hb. destruct (Inv_run sched) as ((_ & _ & _ & _ & D2' & D3' & _) & _ & _ & _ & (O1' & O2' & O3')).
  fold s in D2', D3', O1', O2', O3'. unfold body_finished in Hb. destruct (xp s) eqn:Ex; try discriminate Hb.
  unfold D2, D3, done in *. rewrite Ex in *. cbn in D2', D3'.
  split; [exact D3'|]. split.
  - intros j o Ho. specialize (O2' Ex j). unfold pre_ok in O2'. specialize (O1' j). unfold O1 in O1'.
    destruct (op s j) eqn:Eo; try contradiction;
      try (rewrite O1' in Ho by congruence; discriminate Ho).
    destruct O2' as [E|E]; rewrite E in Ho; inversion Ho; auto.
  - intros j Hj. unfold step, step_o, o_start, o_fire. rewrite !Hj, !D3'.
    destruct (obsk c j) eqn:Ek.
    + eexists; split; [reflexivity|]. cbn [oobs set]. apply upd_same.
    + split; [reflexivity|]. eexists; eexists. split; [reflexivity|].
      cbn [step step_o op set]. rewrite upd_same. unfold o_read_exc. cbn [exc owaited set]. rewrite D2', upd_same.
      split; [reflexivity|]. cbn [oobs set]. apply upd_same.
    + split; reflexivity.
Qed.

(** every value ever returned by done()/result() is either the final one or "not done yet"/"timed out";
    `raise None` (ObsTypeErr) never happens *)
Theorem observations_classified : forall sched j o,
  oobs (run_future c sched) j = Some o ->
  o = expected_obs c (obsk c j) \/ (o = ObsDone false /\ obsk c j = ODone) \/ (o = ObsTimeout /\ obsk c j = OResultT).
Proof.
  intros sched j o Ho. destruct (Inv_run sched) as (_ & _ & _ & _ & (O1' & _ & O3')). specialize (O3' j). unfold cls in O3'. specialize (O1' j).
  destruct (op (run_future c sched) j) eqn:Eo; try (rewrite O1' in Ho by congruence; discriminate Ho).
  destruct O3' as (o' & E & Hc). rewrite E in Ho. inversion Ho; subst. exact Hc.
Qed.

(** a call started once the future is done gives the final outcome, whatever happens later *)
Definition later_ok (s : st) (j : nat) : Prop :=
  ev s = true /\
  match op s j with
  | O_start => True
  | O_read_exc => owaited s j = true
  | O_reraise | O_read_data => True
  | O_end => oobs s j = Some (expected_obs c (obsk c j))
  end.

Lemma later_step : forall j s m s', Inv s -> later_ok s j -> step c s m = Some s' -> later_ok s' j.
Proof.
  intros j s m s' ((H1 & H2 & H3 & H4 & H5 & H6 & H7 & H8 & H9) & _ & _ & _ & (_ & _ & O3')) (Hev & Hl) H.
  unfold L1, L2, L3, D1, D2, D3, D4, D5, D6, holds, later_ok, O3, cls in *.
  pose proof (O3' j) as Oj.
  assert (Hfin : data s = out_data (body c) /\ exc s = out_exc (body c)).
  { rewrite H6 in Hev. destruct (xp s); try discriminate Hev; cbn in H4, H5; auto. }
  destruct Hfin as (Hdat & Hexc).
  unstep H; simp.
  all: try (split; [first [assumption | reflexivity | congruence]|]).
  all: cheap.
  all: try congruence.
  all: try solve [rewrite ?upd_same; cbn; congruence].
  all: repeat match goal with E : op _ _ = _ |- _ => rewrite ?E in *; revert E end; intros.
  all: repeat match goal with E : obsk _ _ = _ |- _ => rewrite ?E in *; revert E end; intros.
  all: unfold expected_obs; try congruence.
  all: try solve [destruct (body c); cbn [out_exc out_data] in *; intuition congruence].
  all: try solve [repeat match goal with HH : _ /\ _ |- _ => destruct HH end; match goal with |- context [obsk c ?k] => destruct (obsk c k) end; try congruence;
                  destruct (body c); cbn [out_exc out_data] in *; congruence].
Qed.

Theorem result_consistent : forall p q j,
  let s := run_future c p in
  done s = true -> op s j = O_start ->
  forall o, oobs (run (step c) q s) j = Some o -> o = expected_obs c (obsk c j).
Proof.
  intros p q j s Hd Hj o Ho.
  assert (K : Inv (run (step c) q s) /\ later_ok (run (step c) q s) j).
  { apply run_invariant with (step := step c) (Inv := fun s => Inv s /\ later_ok s j).
    - intros s0 m s1 (I & L) Hs. split; [eapply Inv_step; eauto | eapply later_step; eauto].
    - split; [apply Inv_run|]. unfold later_ok. rewrite Hj. split; [exact Hd | exact I]. }
  destruct K as ((_ & _ & _ & _ & (O1' & _ & _)) & (_ & L)). specialize (O1' j).
  destruct (op (run (step c) q s) j) eqn:Eo; try (rewrite O1' in Ho by congruence; discriminate Ho). congruence.
Qed.

(** ** callbacks *)

(** all calls of execute() and set_callback() that were started have returned *)
Definition settled (s : st) : Prop := xp s = X_end /\ forall i, rp s i = R_end \/ rp s i = R_lock.

Lemma opt_is_hd1 : forall l i, opt_is (hd1 l) i = match l with j :: _ => Nat.eqb j i | [] => false end.
Proof. intros [|j l] i; reflexivity. Qed.

Theorem callback_exactly_once : forall sched,
  let s := run_future c sched in
  settled s ->
  forall i,
    ncalls s i = (if owed s i then 1 else 0) /\
    (rp s i = R_lock -> owed s i = false) /\
    (forall k, In k (calls s) -> c_cb k = i ->
       c_res k = out_data (body c) /\ c_exc k = out_exc (body c) /\ c_extra k = Some i).
Proof.
  intros sched s (Hx & Hr) i.
  destruct (Inv_run sched) as (_ & (_ & _ & _ & _ & _ & Jsaved' & _) & (_ & _ & _ & G3' & G4' & G5' & G6' & _) & (N1' & N2' & N3' & _) & _).
  fold s in Jsaved', G3', G4', G5', G6', N1', N2', N3'.
  unfold Jsaved, G3, G4, G5, G6, N1, N2, N3 in *.
  rewrite ncalls_split, N1', N2', Hx. cbn [x_end andb]. rewrite Hx in G3'. specialize (G3' eq_refl).
  unfold owed. fold (inpost s i). rewrite <- opt_is_hd1, <- G3'.
  assert (Hxcb : opt_is (xcb s) i = true -> r_past (rp s i) = true /\ rcomp s i = false).
  { intros E. apply Jsaved'. destruct (xcb s) as [k|]; cbn in E; [|discriminate]. apply Nat.eqb_eq in E; subst; reflexivity. }
  split; [|split].
  - destruct (Hr i) as [E|E]; rewrite E in *; cbn [r_end andb].
    + pose proof (G5' i) as G5i. rewrite E in G5i. cbn [r_read] in G5i.
      destruct (inpost s i) eqn:Ep.
      * rewrite (G5i eq_refl eq_refl). destruct (opt_is (xcb s) i); [|reflexivity].
        destruct (Hxcb eq_refl) as (_ & F). rewrite (G5i eq_refl eq_refl) in F. discriminate F.
      * rewrite (G6' i Ep). destruct (opt_is (xcb s) i); reflexivity.
    + destruct (inpost s i) eqn:Ep; [exfalso; apply (G4' i Ep); exact E|].
      destruct (opt_is (xcb s) i); [|reflexivity]. destruct (Hxcb eq_refl) as (F & _). discriminate F.
  - intros E. destruct (inpost s i) eqn:Ep; [exfalso; apply (G4' i Ep); exact E|].
    destruct (opt_is (xcb s) i); [|reflexivity]. destruct (Hxcb eq_refl) as (F & _). rewrite E in F. discriminate F.
  - intros k Hk Ek. rewrite Forall_forall in N3'. destruct (N3' k Hk) as (A & B & C & _). subst i. auto.
Qed.

(** in EVERY state: no callback is called twice, none before the outcome is stored and visible *)
Theorem callback_at_most_once : forall sched i, ncalls (run_future c sched) i <= 1.
Proof.
  intros sched i. set (s := run_future c sched).
  destruct (Inv_run sched) as (_ & (_ & _ & _ & _ & _ & Jsaved' & _) & _ & (N1' & N2' & _) & _). fold s in Jsaved', N1', N2'.
  rewrite ncalls_split, N1', N2'.
  destruct (x_end (xp s) && opt_is (xcb s) i) eqn:E1; destruct (r_end (rp s i) && rcomp s i) eqn:E2; try lia.
  apply andb_true_iff in E1, E2. destruct E1 as (_ & E1), E2 as (_ & E2).
  destruct (xcb s) as [k|] eqn:Ek; cbn in E1; [|discriminate]. apply Nat.eqb_eq in E1; subst k.
  destruct (Jsaved' i Ek) as (_ & F). congruence.
Qed.

Theorem callback_only_after_done : forall sched i,
  let s := run_future c sched in
  0 < ncalls s i -> done s = true /\ data s = out_data (body c) /\ exc s = out_exc (body c).
Proof.
  intros sched i s Hn.
  destruct (Inv_run sched) as ((_ & _ & _ & D1' & D2' & D3' & _) & (Jrc' & _) & _ & (N1' & N2' & _) & _).
  fold s in D1', D2', D3', Jrc', N1', N2'. unfold D1, D2, D3, Jrc, done in *.
  rewrite ncalls_split, N1', N2' in Hn.
  assert (Hout : x_out (xp s) = true).
  { destruct (x_end (xp s) && opt_is (xcb s) i) eqn:E1.
    - apply andb_true_iff in E1. destruct E1 as (E1 & _). destruct (xp s); try discriminate E1; reflexivity.
    - destruct (r_end (rp s i) && rcomp s i) eqn:E2; [|lia]. apply andb_true_iff in E2. destruct E2 as (_ & E2). eauto. }
  rewrite D1', D2', D3'. destruct (xp s); try discriminate Hout; auto.
Qed.

(** a raising / ill-typed callback changes neither the stored outcome nor how execute() ends;
    every such failure is logged and nothing else happens *)
Theorem callback_exception_contained : forall sched,
  let s := run_future c sched in
  logged s = length (filter (fun k => raises (rkind c (c_cb k))) (calls s)) /\
  (xp s = X_end -> xout s = Some (xcont (body c)) /\ data s = out_data (body c) /\ exc s = out_exc (body c)) /\
  (forall i, rp s i = R_notify \/ rp s i = R_end -> done s = true \/ rcomp s i = false).
Proof.
  intros sched s.
  destruct (Inv_run sched) as ((_ & _ & _ & D1' & D2' & D3' & _ & _ & D6') & (Jrc' & _) & _ & (_ & _ & _ & N4') & _).
  fold s in D1', D2', D3', D6', Jrc', N4'. unfold D1, D2, D3, D6, Jrc, N4, done in *.
  split; [exact N4'|]. split.
  - intros E. rewrite E in *. cbn in D1', D2', D6'. auto.
  - intros i _. destruct (rcomp s i) eqn:Er; [left|right; reflexivity].
    rewrite D3'. pose proof (Jrc' i Er) as Ho. destruct (xp s); try discriminate Ho; reflexivity.
Qed.
End Thm.
