(** * FutureInvN — counting the notification attempts and their arguments *)
From Coq Require Import List Bool Arith Lia.
From RecordUpdate Require Import RecordSet.
From JR Require Import Sched Future FutureInv.
Import ListNotations RecordSetNotations.

Definition is_tx (t : thread) : bool := match t with TX => true | _ => false end.
Definition fx (i : nat) (k : call) : bool := Nat.eqb (c_cb k) i && is_tx (c_by k).
Definition fr (i : nat) (k : call) : bool := Nat.eqb (c_cb k) i && negb (is_tx (c_by k)).
Definition nx (s : st) (i : nat) : nat := length (filter (fx i) (calls s)).
Definition nr (s : st) (i : nat) : nat := length (filter (fr i) (calls s)).

Lemma ncalls_split : forall s i, ncalls s i = nx s i + nr s i.
Proof.
  intros s i; unfold ncalls, nx, nr. induction (calls s) as [|k l IH]; [reflexivity|].
  unfold fx, fr in *. simpl. destruct (Nat.eqb (c_cb k) i); simpl; [|exact IH].
  destruct (is_tx (c_by k)); simpl; lia.
Qed.

Lemma nf_calls_some : forall c t i x s, calls (notify c t (Some i) x s) = mkCall i t (data s) (exc s) x :: calls s.
Proof. reflexivity. Qed.
Lemma nf_calls_none : forall c t x s, calls (notify c t None x s) = calls s.
Proof. reflexivity. Qed.
Lemma nf_logged_some : forall c t i x s, logged (notify c t (Some i) x s) = if raises (rkind c i) then S (logged s) else logged s.
Proof. reflexivity. Qed.
Lemma nf_logged_none : forall c t x s, logged (notify c t None x s) = logged s.
Proof. reflexivity. Qed.

Lemma len_if : forall (b : bool) (k : call) l, length (if b then k :: l else l) = (if b then 1 else 0) + length l.
Proof. intros [|] k l; reflexivity. Qed.

Section Inv.
Variable c : cfg.

Definition good_call (k : call) : Prop :=
  c_res k = out_data (body c) /\ c_exc k = out_exc (body c) /\ c_extra k = Some (c_cb k) /\
  (c_by k = TX \/ c_by k = TR (c_cb k)).

Definition N1 s := forall i, nx s i = if x_end (xp s) && opt_is (xcb s) i then 1 else 0.
Definition N2 s := forall i, nr s i = if r_end (rp s i) && rcomp s i then 1 else 0.
Definition N3 s := Forall good_call (calls s).
Definition N4 s := logged s = length (filter (fun k => raises (rkind c (c_cb k))) (calls s)).
Definition InvN s := N1 s /\ N2 s /\ N3 s /\ N4 s.

Ltac nfc := rewrite ?nf_calls_some, ?nf_calls_none, ?nf_logged_some, ?nf_logged_none in *.
Ltac cnt := cbn [filter fx fr c_cb c_by is_tx negb andb length] in *.

Lemma N_step : forall s m s', InvA c s -> InvB s -> InvN s -> step c s m = Some s' -> InvN s'.
Proof.
  intros s m s' (H1 & H2 & H3 & H4 & H5 & H6 & H7 & H8 & H9) (B1 & B2 & B3 & B4 & B5 & B6 & B7 & B8 & B9) (M1 & M2 & M3 & M4) H.
  unfold InvN in *; unfold L1, L2, L3, D1, D2, D3, D4, D5, D6, holds in *.
  unfold Jrc, Jcb, Jmine, Jmine2, Jpair, Jsaved, Jxsync, Jxpair, Jnotify in *.
  unfold N1, N2, N3, N4, nx, nr in *.
  unstep H; simp.
  all: try match goal with |- context [notify _ _ (xcb ?s) _ _] => destruct (xcb s) eqn:Excb end.
  all: nfc.
  all: repeat split; cheap.
  all: cnt; rewrite ?M1, ?M2, <- ?M4; rw; pcs; simp; try solve [fin0].
  all: try solve [eqbs; cnt; rewrite ?M1, ?M2; rw; pcs; simp; fin0].
  all: try solve [constructor; [unfold good_call; cbn [c_cb c_by c_res c_exc c_extra]; prep; intuition (eauto; fin0) | exact M3]].
  all: try solve [destruct (raises _); reflexivity].
  all: try solve [rewrite ?Excb; repeat match goal with E : rcomp _ _ = _ |- _ => rewrite E end; reflexivity].
  all: try solve [unfold fx, fr in *; cbn [c_cb c_by is_tx negb andb] in *; rewrite ?andb_false_r, ?andb_true_r; eqbs; cbn [length opt_is];
                  rewrite ?Nat.eqb_refl; rewrite ?M1, ?M2; rw; pcs; simp; prep;
                  repeat match goal with E : _ <> _ |- _ => apply Nat.eqb_neq in E; rewrite ?E end;
                  try reflexivity; fin0].
  all: try solve [destruct (raises _); cbn [length]; rewrite ?M4; reflexivity].
  all: try solve [rewrite len_if, ?M1, ?M2; unfold fx, fr; cbn [c_cb c_by is_tx negb andb]; rewrite ?andb_true_r, ?andb_false_r, ?Excb;
                  cbn [opt_is]; rw; pcs; simp; prep; repeat match goal with E : rcomp _ _ = _ |- _ => rewrite E end;
                  eqbs; rewrite ?Nat.eqb_refl; try reflexivity; fin0].
  constructor; [|exact M3]. unfold good_call; cbn [c_cb c_by c_res c_exc c_extra].
  pose proof (B1 i (B9 i Heqr)) as Hx. destruct (xp s); try discriminate Hx; pcs; repeat split; auto.
Qed.
End Inv.
