(** * EndToEndProofs *)
From Coq Require Import List ZArith String Bool.
From JR Require Import Val PyOps Payload Client Dispatch EndToEnd.
Import ListNotations.
