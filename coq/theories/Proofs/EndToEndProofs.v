(** * EndToEndProofs — C01: a proxy call is transparent (for all registered functions, names,
    JSON arguments that bind, versions and class-translation settings) *)
From Coq Require Import List ZArith String Bool Lia.
From JR Require Import Val PyOps Payload Client Dispatch DispatchProofs EndToEnd.
Import ListNotations.
Open Scope string_scope.

(** ** Values: conversion and the wire on JSON data *)

Lemma dumpable_ind' (P : val -> Prop) :
  P VNone -> (forall b, P (VBool b)) -> (forall z, P (VInt z)) -> (forall f, P (VFlt f)) -> (forall s, P (VStr s)) ->
  (forall l, Forall P l -> P (VList l)) -> (forall l, Forall P l -> P (VTuple l)) ->
  (forall m, Forall (fun kv => P (snd kv)) m -> P (VDict m)) ->
  forall v, dumpable v = true -> P v.
Proof.
  intros HN HB HI HF HS HL HT HD. induction v using val_ind'; intros Hd; cbn in Hd; try discriminate Hd; auto.
  - apply HL. rewrite forallb_forall in Hd. rewrite Forall_forall in *. intros x Hx. apply H; auto.
  - apply HT. rewrite forallb_forall in Hd. rewrite Forall_forall in *. intros x Hx. apply H; auto.
  - apply HD. rewrite forallb_forall in Hd. rewrite Forall_forall in *. intros kv Hkv.
    specialize (H kv Hkv). specialize (Hd kv Hkv). destruct (fst kv); try discriminate Hd. apply H; exact Hd.
Qed.

Lemma norm_idem : forall v, norm (norm v) = norm v.
Proof.
  induction v using val_ind'; cbn [norm]; auto.
  1-4: f_equal; rewrite map_map; apply map_ext_in; intros x Hx; rewrite Forall_forall in H; auto.
  f_equal. rewrite map_map. apply map_ext_in. intros kv Hkv. rewrite Forall_forall in H. cbn [fst snd]. f_equal. apply H; auto.
Qed.

Lemma dumpable_norm : forall v, dumpable v = true -> dumpable (norm v) = true.
Proof.
  induction v using val_ind'; cbn [norm dumpable]; auto; intros Hd; try discriminate Hd.
  1-2: rewrite forallb_forall in *; intros x Hx; apply in_map_iff in Hx; destruct Hx as (y & <- & Hy);
       rewrite Forall_forall in H; auto.
  rewrite forallb_forall in *. intros kv Hkv. apply in_map_iff in Hkv. destruct Hkv as (y & <- & Hy).
  cbn [fst snd]. rewrite Forall_forall in H. specialize (Hd y Hy). destruct (fst y); try discriminate Hd. apply H; auto.
Qed.

Lemma is_json_norm : forall v, dumpable v = true -> is_json (norm v) = true.
Proof.
  induction v using val_ind'; cbn [norm dumpable is_json]; auto; intros Hd; try discriminate Hd.
  1-2: rewrite forallb_forall in *; intros x Hx; apply in_map_iff in Hx; destruct Hx as (y & <- & Hy);
       rewrite Forall_forall in H; auto.
  rewrite forallb_forall in *. intros kv Hkv. apply in_map_iff in Hkv. destruct Hkv as (y & <- & Hy).
  cbn [fst snd]. rewrite Forall_forall in H. specialize (Hd y Hy). destruct (fst y); try discriminate Hd. apply H; auto.
Qed.

Lemma is_json_dumpable : forall v, is_json v = true -> dumpable v = true.
Proof.
  induction v using val_ind'; cbn [dumpable is_json]; auto; intros Hd; try discriminate Hd.
  - rewrite forallb_forall in *. intros x Hx. rewrite Forall_forall in H. auto.
  - rewrite forallb_forall in *. intros kv Hkv. rewrite Forall_forall in H. specialize (Hd kv Hkv).
    destruct (fst kv); try discriminate Hd. apply H; auto.
Qed.

Lemma norm_json : forall v, is_json v = true -> norm v = v.
Proof.
  induction v using val_ind'; cbn [norm is_json]; auto; intros Hd; try discriminate Hd.
  - f_equal. rewrite forallb_forall in Hd. rewrite Forall_forall in H. rewrite <- (map_id l) at 2. apply map_ext_in. auto.
  - f_equal. rewrite forallb_forall in Hd. rewrite Forall_forall in H. rewrite <- (map_id m) at 2. apply map_ext_in.
    intros kv Hkv. specialize (Hd kv Hkv). destruct kv as [k x]. cbn [fst snd] in *. destruct k; try discriminate Hd.
    f_equal. apply (H _ Hkv); auto.
Qed.

Lemma convert_dumpable : forall v, dumpable v = true -> convert v = Ok (norm v).
Proof.
  induction v using val_ind'; cbn [dumpable]; intros Hd; try discriminate Hd; try reflexivity.
  - cbn [convert norm].
    assert (E : (fix go (l : list val) : res (list val) :=
                   match l with [] => Ok [] | x :: r => do x' <- convert x; do r' <- go r; Ok (x' :: r') end) l
                = Ok (map norm l)).
    { induction l as [|x l IH]; [reflexivity|]. cbn [forallb] in Hd. apply andb_true_iff in Hd. destruct Hd as (Hx & Hl).
      inversion H; subst. rewrite (H2 Hx). cbn [bind]. rewrite (IH H3 Hl). reflexivity. }
    rewrite E. reflexivity.
  - cbn [convert norm].
    assert (E : (fix go (l : list val) : res (list val) :=
                   match l with [] => Ok [] | x :: r => do x' <- convert x; do r' <- go r; Ok (x' :: r') end) l
                = Ok (map norm l)).
    { induction l as [|x l IH]; [reflexivity|]. cbn [forallb] in Hd. apply andb_true_iff in Hd. destruct Hd as (Hx & Hl).
      inversion H; subst. rewrite (H2 Hx). cbn [bind]. rewrite (IH H3 Hl). reflexivity. }
    rewrite E. reflexivity.
  - cbn [convert norm].
    assert (E : (fix go (m : list (val * val)) : res (list (val * val)) :=
                   match m with [] => Ok [] | kv :: r => do x' <- convert (snd kv); do r' <- go r; Ok ((fst kv, x') :: r') end) m
                = Ok (map (fun kv => (fst kv, norm (snd kv))) m)).
    { induction m as [|kv m IH]; [reflexivity|]. cbn [forallb] in Hd. apply andb_true_iff in Hd. destruct Hd as (Hx & Hl).
      inversion H; subst. destruct H2 as (_ & Hs). destruct (fst kv) eqn:Ek; try discriminate Hx.
      rewrite (Hs Hx). cbn [bind]. rewrite (IH H3 Hl). cbn [map]. rewrite Ek. reflexivity. }
    rewrite E. reflexivity.
Qed.

Lemma norm_list_json : forall l, forallb is_json l = true -> map norm l = l.
Proof.
  induction l as [|x l IH]; [reflexivity|]. cbn [forallb map]. intros H. apply andb_true_iff in H. destruct H as (Hx & Hl).
  rewrite (norm_json _ Hx), (IH Hl). reflexivity.
Qed.

Lemma dumpable_list_json : forall l, forallb is_json l = true -> forallb dumpable l = true.
Proof.
  intros l H. rewrite forallb_forall in *. intros x Hx. apply is_json_dumpable. auto.
Qed.

Lemma dumpable_dict_cons : forall k v m, dumpable (VDict ((VStr k, v) :: m)) = dumpable v && dumpable (VDict m).
Proof. reflexivity. Qed.
Lemma dumpable_dict_nil : dumpable (VDict []) = true.
Proof. reflexivity. Qed.
Lemma norm_dict_cons : forall k v m, norm (VDict ((k, v) :: m)) =
  match norm (VDict m) with VDict m' => VDict ((k, norm v) :: m') | x => x end.
Proof. reflexivity. Qed.

(** ** The single call *)

Definition f10 : val := VFlt (F 1 1).
Definition f20 : val := VFlt (F 2 1).
Definition ver_ok (v : val) : Prop := v = f10 \/ v = f20.
Definition carg_ok (v : val) : Prop := v = VNone \/ ver_ok v.

(** JSON arguments: a list of JSON values, or a map from strings to JSON values *)
Definition args_json (a : call_args) : bool :=
  match a with Positional l => forallb is_json l | Keyword m => is_json (VDict m) end.

(** what the dispatcher hands to the callable: f( *l ), f( **m ), f() *)
Definition entered (a : call_args) : val :=
  match a with
  | Positional [] | Keyword [] => VList []
  | Positional l => VList l
  | Keyword m => VDict m
  end.

(** the version the request is written in: the proxy's version argument, else its Config's version *)
Definition req_v2 (c : client) : bool :=
  match cl_version c with
  | VNone => match pc_version (cl_cfg c) with VFlt (F 2 1) => true | _ => false end
  | VFlt (F 2 1) => true
  | _ => false
  end.

(** the request object as the server parses it *)
Definition request_value (v2 : bool) (m : str) (a : call_args) (id : str) : val :=
  let base := [(VStr "id", VStr id); (VStr "method", VStr m)] in
  VDict (match a, v2 with
         | (Positional [] | Keyword []), false => base ++ [(VStr "params", VList [])]
         | (Positional [] | Keyword []), true => base ++ [(VStr "jsonrpc", VStr "2.0")]
         | _, false => base ++ [(VStr "params", entered a)]
         | _, true => base ++ [(VStr "params", entered a); (VStr "jsonrpc", VStr "2.0")]
         end).

(** the form of the reply: a request without "jsonrpc" is answered in 1.0 form, one with it in the server's *)
Definition reply_form (v2 : bool) (srvf : form) : form := if v2 then srvf else V1.

Section Single.
  Variable body : cid -> val -> outcome.
  Variable sigs : cid -> signature.
  Variable fresh : nat -> str.
  Variable dv : val.
  Hypothesis fresh_nonempty : forall n, fresh n <> "".

  (** from the request dictionary on: the wire, the server, the reply, the client's reading of it.
      [P0]: the "params" member as the client wrote it; [P]: as the server parses it *)
  Definition req_dict (v2 with_params : bool) (m : str) (p : val) (id : str) : val :=
    VDict ([(VStr "id", VStr id); (VStr "method", VStr m)]
           ++ (if with_params then [(VStr "params", p)] else [])
           ++ (if v2 then [(VStr "jsonrpc", VStr "2.0")] else [])).

  Lemma core : forall (v2 wp : bool) srvf reg pool sjc c m f n h v (P0 P : val),
    m <> "" -> lookup m (r_funcs reg) = Some f ->
    dumpable P0 = true -> norm P0 = P -> is_param_container P = true ->
    (wp = false -> v2 = true) ->
    call_binds (sigs f) (if wp then P else VList []) = true ->
    body f (if wp then P else VList []) = Return v -> dumpable v = true ->
    match wire (req_dict v2 wp m P0 (fresh n)) with
    | Ok w =>
        let '(r, log, h') := run_request body sigs srvf (mkSrv reg pool sjc) None c w h in
        (match r with Ok resp => proxy_result resp | Raise e => Raise e end, log, h', S n)
    | Raise e => (Raise e, [], h, S n)
    end
    = (Ok (norm v), [EvCall f (if wp then P else VList [])],
       add_response (add_request h (req_dict v2 wp m P (fresh n)))
                    (Some (resp_obj (reply_form v2 srvf) (VStr (fresh n)) (norm v))),
       S n).
  Proof.
    intros v2 wp srvf reg pool sjc c m f n h v P0 P Hm Hf HP0 HPn HPc Hwp Hb Hbody Hv.
    pose proof (dumpable_norm _ Hv) as Hnv. pose proof (norm_idem v) as Hnn. pose proof (convert_dumpable _ Hv) as Hcv'.
    assert (Hme : String.eqb m "" = false) by (apply String.eqb_neq; exact Hm).
    assert (Hie : String.eqb (fresh n) "" = false) by (apply String.eqb_neq; apply fresh_nonempty).
    assert (HPd : dumpable P = true) by (rewrite <- HPn; apply dumpable_norm; exact HP0).
    remember (norm v) as nv eqn:Env.
    destruct wp; [|rewrite (Hwp eq_refl)]; [destruct v2|]; destruct srvf; destruct sjc.
    all: unfold wire, req_dict; cbn [app dumpable forallb fst snd andb]; rewrite ?HP0; cbn [andb norm map fst snd]; rewrite ?HPn.
    all: unfold run_request, marshaled_dispatch, loads_m, unmarshaled_dispatch.
    all: cbn in Hb, Hbody.
    all: repeat (progress (unfold answer_entry, validate_request, single_dispatch, single_dispatch_with, run_target, dispatch, call_func,
                                  request_form, request_id, is_notification, has_version, proxy_result, check_for_errors, load, jl;
                           cbn; rewrite ?Hme, ?Hie, ?Hf, ?Hb, ?Hbody, ?Hcv', ?HPc, ?HPd, ?Hnv, ?Hnn, ?Hv, <- ?Env)).
    all: destruct (pc_jsonclass (cl_cfg c)); cbn; reflexivity.
  Qed.

  Theorem single_call : forall srvf reg pool sjc c m f a n h v,
    ver_ok (pc_version (cl_cfg c)) -> carg_ok (cl_version c) ->
    m <> "" -> lookup m (r_funcs reg) = Some f ->
    args_json a = true ->
    call_binds (sigs f) (entered a) = true ->
    body f (entered a) = Return v -> dumpable v = true ->
    proxy_call body sigs fresh dv srvf (mkSrv reg pool sjc) None c m a n h
    = (Ok (norm v), [EvCall f (entered a)],
       add_response (add_request h (request_value (req_v2 c) m a (fresh n)))
                    (Some (resp_obj (reply_form (req_v2 c) srvf) (VStr (fresh n)) (norm v))),
       S n).
  Proof.
    intros srvf reg pool sjc [[cv cjc] carg] m f a n h v Hcv Hca Hm Hf Ha Hb Hbody Hv.
    cbn [cl_cfg cl_version pc_version] in *.
    unfold ver_ok, carg_ok, ver_ok, f10, f20 in *.
    destruct a as [[|x l]|[|kv mm]].
    all: cbn [args_json entered] in *.
    all: destruct Hcv as [-> | ->]; destruct Hca as [-> | [-> | ->]]; destruct cjc.
    all: unfold proxy_call, proxy_request, call_params, Payload.dump, dump_plan.
    all: cbn [truthy pc_version pc_jsonclass cl_cfg cl_version valid_params is_string negb andb orb req_v2 request_value reply_form].
    all: unfold jc.
    all: try (rewrite convert_dumpable
                by first [apply is_json_dumpable; exact Ha | cbn [dumpable]; apply dumpable_list_json; exact Ha | reflexivity]).
    all: try (assert (Hnd : norm (VDict (kv :: mm)) = VDict (kv :: mm)) by (apply norm_json; exact Ha); rewrite ?Hnd).
    all: try (cbn [norm]; rewrite ?(norm_list_json _ Ha)).
    all: cbn -[norm convert dumpable wire run_request].
    all: pose proof (is_json_dumpable _ (eq_refl : is_json (VList []) = true)) as HdE.
    (* empty argument lists: "params": [] under 1.0, no member under 2.0 *)
    all: try match goal with
         | |- match wire (VDict [_; _; (VStr "params", VList [])]) with _ => _ end = _ =>
             apply (core false true) with (P0 := VList []) (P := VList []); auto; discriminate
         | |- match wire (VDict [_; _; (VStr "jsonrpc", _)]) with _ => _ end = _ =>
             apply (core true false) with (P0 := VList []) (P := VList []); auto
         end.
    all: try match goal with
         | |- match wire (VDict [_; _; (VStr "params", ?pp); _]) with _ => _ end = (_, [EvCall _ ?qq], _, _) =>
             apply (core true true) with (P0 := pp) (P := qq)
         | |- match wire (VDict [_; _; (VStr "params", ?pp)]) with _ => _ end = (_, [EvCall _ ?qq], _, _) =>
             apply (core false true) with (P0 := pp) (P := qq)
         end; auto; try discriminate; try reflexivity.

    all: try solve [apply is_json_dumpable; exact Ha | cbn [dumpable]; apply dumpable_list_json; exact Ha].
    all: try solve [apply norm_json; exact Ha | cbn [norm]; f_equal; apply norm_list_json; exact Ha].
  Qed.

End Single.

(** ** The notification *)

(** the notification object as the server parses it: no "id" member under 2.0, "id": null under 1.0 *)
Definition notify_value (v2 : bool) (m : str) (a : call_args) : val :=
  VDict (match a, v2 with
         | (Positional [] | Keyword []), false => [(VStr "id", VNone); (VStr "method", VStr m); (VStr "params", VList [])]
         | (Positional [] | Keyword []), true => [(VStr "method", VStr m); (VStr "jsonrpc", VStr "2.0")]
         | _, false => [(VStr "id", VNone); (VStr "method", VStr m); (VStr "params", entered a)]
         | _, true => [(VStr "method", VStr m); (VStr "params", entered a); (VStr "jsonrpc", VStr "2.0")]
         end).

Section Notify.
  Variable body : cid -> val -> outcome.
  Variable sigs : cid -> signature.
  Variable fresh : nat -> str.
  Variable dv : val.

  Definition notif_dict (v2 wp : bool) (m : str) (p : val) : val :=
    VDict ((if v2 then [] else [(VStr "id", VNone)]) ++ [(VStr "method", VStr m)]
           ++ (if wp then [(VStr "params", p)] else [])
           ++ (if v2 then [(VStr "jsonrpc", VStr "2.0")] else [])).

  (** inline (no notification pool): the callable runs once, whatever it does (returns or raises), and
      nothing is answered; with a pool: exactly one task is enqueued (its execution is C04 / C09) *)
  Lemma core_notify : forall (v2 wp : bool) srvf reg pool sjc c m f n h (P0 P : val),
    m <> "" -> lookup m (r_funcs reg) = Some f ->
    dumpable P0 = true -> norm P0 = P -> is_param_container P = true ->
    (wp = false -> v2 = true) ->
    call_binds (sigs f) (if wp then P else VList []) = true ->
    match wire (notif_dict v2 wp m P0) with
    | Ok w =>
        let '(r, log, h') := run_request body sigs srvf (mkSrv reg pool sjc) None c w h in
        (match r with Ok resp => (do _ <- check_for_errors resp; Ok VNone) | Raise e => Raise e end, log, h', S n)
    | Raise e => (Raise e, [], h, S n)
    end
    = (Ok VNone,
       (if pool then [EvEnqueue None m (if wp then P else VList []) (Some (reply_form v2 srvf))]
        else [EvCall f (if wp then P else VList [])]),
       add_response (add_request h (notif_dict v2 wp m P)) None,
       S n).
  Proof.
    intros v2 wp srvf reg pool sjc c m f n h P0 P Hm Hf HP0 HPn HPc Hwp Hb.
    assert (Hme : String.eqb m "" = false) by (apply String.eqb_neq; exact Hm).
    assert (HPd : dumpable P = true) by (rewrite <- HPn; apply dumpable_norm; exact HP0).
    destruct wp; [|rewrite (Hwp eq_refl)]; [destruct v2|]; destruct srvf; destruct pool.
    all: unfold wire, notif_dict; cbn [app dumpable forallb fst snd andb]; rewrite ?HP0; cbn [andb norm map fst snd]; rewrite ?HPn.
    all: unfold run_request, marshaled_dispatch, loads_m, unmarshaled_dispatch.
    all: cbn in Hb.
    all: repeat (progress (unfold answer_entry, validate_request, single_dispatch, single_dispatch_with, run_target, dispatch, call_func,
                                  request_form, request_id, is_notification, has_version, proxy_result, check_for_errors, load, jl;
                           cbn; rewrite ?Hme, ?Hf, ?Hb, ?HPc, ?HPd)).
    all: try reflexivity.
    all: destruct (body f _) as [v|cls msg|msg|code msg]; try reflexivity.
    all: destruct (String.eqb cls "TypeError"); cbn; try reflexivity.
    all: destruct (convert v); reflexivity.
  Qed.
End Notify.

Section SingleNotify.
  Variable body : cid -> val -> outcome.
  Variable sigs : cid -> signature.
  Variable fresh : nat -> str.
  Variable dv : val.

  Theorem single_notify : forall srvf reg pool sjc c m f a n h,
    ver_ok (pc_version (cl_cfg c)) -> carg_ok (cl_version c) ->
    m <> "" -> lookup m (r_funcs reg) = Some f ->
    args_json a = true ->
    call_binds (sigs f) (entered a) = true ->
    proxy_notify body sigs fresh dv srvf (mkSrv reg pool sjc) None c m a n h
    = (Ok VNone,
       (if pool then [EvEnqueue None m (entered a) (Some (reply_form (req_v2 c) srvf))] else [EvCall f (entered a)]),
       add_response (add_request h (notify_value (req_v2 c) m a)) None,
       S n).
  Proof.
    intros srvf reg pool sjc [[cv cjc] carg] m f a n h Hcv Hca Hm Hf Ha Hb.
    cbn [cl_cfg cl_version pc_version] in *.
    unfold ver_ok, carg_ok, ver_ok, f10, f20 in *.
    destruct a as [[|x l]|[|kv mm]].
    all: cbn [args_json entered] in *.
    all: destruct Hcv as [-> | ->]; destruct Hca as [-> | [-> | ->]]; destruct cjc.
    all: unfold proxy_notify, proxy_request, call_params, Payload.dump, dump_plan.
    all: cbn [truthy pc_version pc_jsonclass cl_cfg cl_version valid_params is_string negb andb orb req_v2 notify_value reply_form].
    all: unfold jc.
    all: try (rewrite convert_dumpable
                by first [apply is_json_dumpable; exact Ha | cbn [dumpable]; apply dumpable_list_json; exact Ha | reflexivity]).
    all: try (assert (Hnd : norm (VDict (kv :: mm)) = VDict (kv :: mm)) by (apply norm_json; exact Ha); rewrite ?Hnd).
    all: try (cbn [norm]; rewrite ?(norm_list_json _ Ha)).
    all: cbn -[norm convert dumpable wire run_request].
    all: pose proof (is_json_dumpable _ (eq_refl : is_json (VList []) = true)) as HdE.
    all: try match goal with
         | |- match wire (VDict [_; _; (VStr "params", VList [])]) with _ => _ end = _ =>
             apply (core_notify body sigs false true) with (P0 := VList []) (P := VList []); auto; discriminate
         | |- match wire (VDict [_; (VStr "jsonrpc", _)]) with _ => _ end = _ =>
             apply (core_notify body sigs true false) with (P0 := VList []) (P := VList []); auto
         end.
    all: try match goal with
         | |- match wire (VDict [_; (VStr "params", ?pp); _]) with _ => _ end = (_, (if _ then _ else [EvCall _ ?qq]), _, _) =>
             apply (core_notify body sigs true true) with (P0 := pp) (P := qq)
         | |- match wire (VDict [_; _; (VStr "params", ?pp)]) with _ => _ end = (_, (if _ then _ else [EvCall _ ?qq]), _, _) =>
             apply (core_notify body sigs false true) with (P0 := pp) (P := qq)
         end; auto; try discriminate; try reflexivity.
    all: try solve [apply is_json_dumpable; exact Ha | cbn [dumpable]; apply dumpable_list_json; exact Ha].
    all: try solve [apply norm_json; exact Ha | cbn [norm]; f_equal; apply norm_list_json; exact Ha].
  Qed.
End SingleNotify.

(** ** Sequences of calls: the History is exactly the exchanged texts, in order *)

Record call_spec := mkCS { cs_m : str; cs_a : call_args; cs_f : cid; cs_v : val }.

Section Sequence.
  Variable body : cid -> val -> outcome.
  Variable sigs : cid -> signature.
  Variable fresh : nat -> str.
  Variable dv : val.
  Hypothesis fresh_nonempty : forall n, fresh n <> "".
  Variable srvf : form.
  Variable srv : server.
  Variable c : client.

  Definition good (s : call_spec) : Prop :=
    cs_m s <> "" /\ lookup (cs_m s) (r_funcs (sv_reg srv)) = Some (cs_f s) /\ args_json (cs_a s) = true /\
    call_binds (sigs (cs_f s)) (entered (cs_a s)) = true /\
    body (cs_f s) (entered (cs_a s)) = Return (cs_v s) /\ dumpable (cs_v s) = true.

  Fixpoint run_calls (cs : list call_spec) (n : nat) (h : history) : list (res val) * list event * history * nat :=
    match cs with
    | [] => ([], [], h, n)
    | s :: r =>
        let '(x, l, h1, n1) := proxy_call body sigs fresh dv srvf srv None c (cs_m s) (cs_a s) n h in
        let '(xs, ls, h2, n2) := run_calls r n1 h1 in
        (x :: xs, (l ++ ls)%list, h2, n2)
    end.

  Fixpoint expected_history (cs : list call_spec) (n : nat) (h : history) : history :=
    match cs with
    | [] => h
    | s :: r =>
        expected_history r (S n)
          (add_response (add_request h (request_value (req_v2 c) (cs_m s) (cs_a s) (fresh n)))
                        (Some (resp_obj (reply_form (req_v2 c) srvf) (VStr (fresh n)) (norm (cs_v s)))))
    end.

  Theorem call_sequence : forall cs n h,
    ver_ok (pc_version (cl_cfg c)) -> carg_ok (cl_version c) ->
    Forall good cs ->
    run_calls cs n h
    = (map (fun s => Ok (norm (cs_v s))) cs,
       map (fun s => EvCall (cs_f s) (entered (cs_a s))) cs,
       expected_history cs n h,
       (n + length cs)%nat).
  Proof.
    intros cs n h Hv Ha Hg. revert n h. induction Hg as [|s r (H1 & H2 & H3 & H4 & H5 & H6) Hr IH]; intros n h.
    - cbn. rewrite Nat.add_0_r. reflexivity.
    - cbn [run_calls]. destruct srv as [reg pool sjc]. cbn [sv_reg] in *.
      rewrite (single_call body sigs fresh dv fresh_nonempty srvf reg pool sjc c (cs_m s) (cs_f s) (cs_a s) n h (cs_v s)); auto.
      rewrite IH. cbn [map app length expected_history]. rewrite Nat.add_succ_r. reflexivity.
  Qed.

  (** every call adds exactly one request text and one response text *)
  Corollary history_lengths : forall cs n h,
    ver_ok (pc_version (cl_cfg c)) -> carg_ok (cl_version c) -> Forall good cs ->
    let h' := snd (fst (run_calls cs n h)) in
    length (h_requests h') = (length (h_requests h) + length cs)%nat /\
    length (h_responses h') = (length (h_responses h) + length cs)%nat.
  Proof.
    intros cs n h Hv Ha Hg. cbn zeta. rewrite call_sequence by assumption. cbn [fst snd]. clear Hg.
    revert n h. induction cs as [|s r IH]; intros n h; cbn [expected_history length].
    - lia.
    - destruct (IH (S n) (add_response (add_request h (request_value (req_v2 c) (cs_m s) (cs_a s) (fresh n)))
                                      (Some (resp_obj (reply_form (req_v2 c) srvf) (VStr (fresh n)) (norm (cs_v s)))))) as (A & B).
      rewrite A, B. unfold add_response, add_request. cbn [h_requests h_responses]. rewrite !app_length. cbn [length]. lia.
  Qed.
End Sequence.

(** ** MultiCall batches *)

Section Batch.
  Variable body : cid -> val -> outcome.
  Variable sigs : cid -> signature.
  Variable fresh : nat -> str.
  Variable dv : val.
  Hypothesis fresh_nonempty : forall n, fresh n <> "".

  (** MultiCallMethod.request(): always written in 2.0 form, whatever the configurations say *)
  Lemma job_request_value : forall mcfg m a notify n,
    args_json a = true ->
    job_request fresh dv mcfg (mkJob m a notify) n
    = Ok ((if notify then notify_value true m a else request_value true m a (fresh n)), S n).
  Proof.
    intros [mv mjc] m a notify n Ha.
    destruct a as [[|x l]|[|kv mm]]; destruct notify; destruct mjc.
    all: cbn [args_json] in Ha.
    all: unfold job_request, job_params, j_args, j_method, j_notify, Payload.dump, dump_plan, two_point_zero.
    all: cbn [truthy pc_version pc_jsonclass valid_params is_string negb andb orb notify_value request_value entered].
    all: unfold jc.
    all: try (rewrite convert_dumpable
                by first [apply is_json_dumpable; exact Ha | cbn [dumpable]; apply dumpable_list_json; exact Ha | reflexivity]).
    all: try (assert (Hnd : norm (VDict (kv :: mm)) = VDict (kv :: mm)) by (apply norm_json; exact Ha); rewrite ?Hnd).
    all: try (cbn [norm]; rewrite ?(norm_list_json _ Ha)).
    all: cbn -[norm convert dumpable wire].
    all: unfold wire.
    all: rewrite !dumpable_dict_cons, ?dumpable_dict_nil.
    all: try (assert (Hd1 : dumpable (VList (x :: l)) = true) by (cbn [dumpable]; apply dumpable_list_json; exact Ha);
              assert (Hd2 : dumpable (VTuple (x :: l)) = true) by (cbn [dumpable]; apply dumpable_list_json; exact Ha);
              rewrite ?Hd1, ?Hd2).
    all: try (rewrite (is_json_dumpable _ Ha)).
    all: cbn [dumpable andb bind].
    all: try reflexivity.
    all: f_equal; f_equal; cbn [norm map fst snd].
    all: try (change (norm x :: map norm l) with (map norm (x :: l)); rewrite (norm_list_json _ Ha)).
    all: try (cbn [norm map fst snd] in Hnd; rewrite Hnd).
    all: reflexivity.
  Qed.

  (** the server's answer to one 2.0 entry *)
  Lemma server_call : forall srvf reg pool sjc m f a id v,
    m <> "" -> id <> "" -> lookup m (r_funcs reg) = Some f -> args_json a = true ->
    call_binds (sigs f) (entered a) = true -> body f (entered a) = Return v -> dumpable v = true ->
    answer_entry body sigs srvf (mkSrv reg pool sjc) None (request_value true m a id)
    = (Some (resp_obj srvf (VStr id) (if sjc then norm v else v)), [EvCall f (entered a)]).
  Proof.
    intros srvf reg pool sjc m f a id v Hm Hid Hf Ha Hb Hbody Hv.
    assert (Hme : String.eqb m "" = false) by (apply String.eqb_neq; exact Hm).
    assert (Hie : String.eqb id "" = false) by (apply String.eqb_neq; exact Hid).
    pose proof (convert_dumpable _ Hv) as Hcv.
    assert (HPc : is_param_container (entered a) = true) by (destruct a as [[|x l]|[|kv mm]]; reflexivity).
    assert (HPd : dumpable (entered a) = true).
    { destruct a as [[|x l]|[|kv mm]]; cbn [entered args_json] in *; try reflexivity.
      - cbn [dumpable]. apply dumpable_list_json; exact Ha.
      - apply is_json_dumpable; exact Ha. }
    remember (entered a) as P eqn:EP.
    assert (Hreq : request_value true m a id
                   = VDict ([(VStr "id", VStr id); (VStr "method", VStr m)]
                            ++ (match a with Positional [] | Keyword [] => [] | _ => [(VStr "params", P)] end)
                            ++ [(VStr "jsonrpc", VStr "2.0")])).
    { subst P. destruct a as [[|x l]|[|kv mm]]; reflexivity. }
    rewrite Hreq. clear Hreq.
    assert (HP' : match a with Positional [] | Keyword [] => P = VList [] | _ => True end)
      by (subst P; destruct a as [[|x l]|[|kv mm]]; exact I || reflexivity).
    destruct srvf; destruct sjc; destruct a as [[|x l]|[|kv mm]]; try (rewrite HP' in * ); cbn [app].
    all: cbn in Hb.
    all: repeat (progress (unfold answer_entry, validate_request, single_dispatch, single_dispatch_with, run_target, dispatch, call_func,
                                  request_form, request_id, is_notification, has_version;
                           cbn; rewrite ?Hme, ?Hie, ?Hf, ?Hb, ?Hbody, ?Hcv, ?HPc, ?HPd, ?Hv)).
    all: reflexivity.
  Qed.

  Definition notify_event (pool : bool) (srvf : form) (m : str) (f : cid) (a : call_args) : event :=
    if pool then EvEnqueue None m (entered a) (Some srvf) else EvCall f (entered a).

  Lemma server_notify : forall srvf reg pool sjc m f a,
    m <> "" -> lookup m (r_funcs reg) = Some f -> args_json a = true ->
    call_binds (sigs f) (entered a) = true ->
    answer_entry body sigs srvf (mkSrv reg pool sjc) None (notify_value true m a)
    = (None, [notify_event pool srvf m f a]).
  Proof.
    intros srvf reg pool sjc m f a Hm Hf Ha Hb.
    assert (Hme : String.eqb m "" = false) by (apply String.eqb_neq; exact Hm).
    assert (HPc : is_param_container (entered a) = true) by (destruct a as [[|x l]|[|kv mm]]; reflexivity).
    remember (entered a) as P eqn:EP.
    assert (Hreq : notify_value true m a
                   = VDict ([(VStr "method", VStr m)]
                            ++ (match a with Positional [] | Keyword [] => [] | _ => [(VStr "params", P)] end)
                            ++ [(VStr "jsonrpc", VStr "2.0")])).
    { subst P. destruct a as [[|x l]|[|kv mm]]; reflexivity. }
    rewrite Hreq. clear Hreq. unfold notify_event. rewrite <- EP.
    assert (HP' : match a with Positional [] | Keyword [] => P = VList [] | _ => True end)
      by (subst P; destruct a as [[|x l]|[|kv mm]]; exact I || reflexivity).
    destruct srvf; destruct pool; destruct a as [[|x l]|[|kv mm]]; try (rewrite HP' in * ); cbn [app].
    all: cbn in Hb.
    all: repeat (progress (unfold answer_entry, validate_request, single_dispatch, single_dispatch_with, run_target, dispatch, call_func,
                                  request_form, request_id, is_notification, has_version;
                           cbn; rewrite ?Hme, ?Hf, ?Hb, ?HPc)).
    all: try reflexivity.
    all: destruct (body f _) as [v|cls msg|msg|code msg]; try reflexivity.
    all: destruct (String.eqb cls "TypeError"); cbn; try reflexivity.
    all: destruct (convert v); reflexivity.
  Qed.

  (** the client's reading of one response object *)
  Lemma client_result : forall fm id r, dumpable r = true ->
    proxy_result (norm (resp_obj fm (VStr id) r)) = Ok (norm r).
  Proof.
    intros fm id r Hr. destruct fm; cbn; reflexivity.
  Qed.

  (** *** the whole batch *)
  Record job_spec := mkJS { js_job : job; js_f : cid; js_v : val }.

  Variable srvf : form.
  Variable reg : registry.
  Variable pool sjc : bool.
  Let srv := mkSrv reg pool sjc.

  Definition good_job (s : job_spec) : Prop :=
    let j := js_job s in
    j_method j <> "" /\ lookup (j_method j) (r_funcs reg) = Some (js_f s) /\ args_json (j_args j) = true /\
    call_binds (sigs (js_f s)) (entered (j_args j)) = true /\
    (j_notify j = false -> body (js_f s) (entered (j_args j)) = Return (js_v s) /\ dumpable (js_v s) = true).

  Fixpoint job_values (js : list job_spec) (n : nat) : list val :=
    match js with
    | [] => []
    | s :: r =>
        let j := js_job s in
        (if j_notify j then notify_value true (j_method j) (j_args j)
         else request_value true (j_method j) (j_args j) (fresh n)) :: job_values r (S n)
    end.

  Fixpoint job_responses (js : list job_spec) (n : nat) : list val :=
    match js with
    | [] => []
    | s :: r =>
        ((if j_notify (js_job s) then []
          else [resp_obj srvf (VStr (fresh n)) (if sjc then norm (js_v s) else js_v s)]) ++ job_responses r (S n))%list
    end.

  Definition job_event (s : job_spec) : event :=
    let j := js_job s in
    if j_notify j then notify_event pool srvf (j_method j) (js_f s) (j_args j) else EvCall (js_f s) (entered (j_args j)).

  Definition job_results (js : list job_spec) : list (res val) :=
    map (fun s => Ok (norm (js_v s))) (filter (fun s => negb (j_notify (js_job s))) js).

  Lemma batch_requests : forall mcfg js n, Forall good_job js ->
    jobs_requests fresh dv mcfg (map js_job js) n = Ok (job_values js n, (n + length js)%nat).
  Proof.
    intros mcfg js n Hg. revert n. induction Hg as [|s r (H1 & H2 & H3 & H4 & H5) Hr IH]; intros n.
    - cbn. rewrite Nat.add_0_r. reflexivity.
    - cbn [map jobs_requests job_values length]. destruct (js_job s) as [m a nt] eqn:Ej. cbn [j_method j_args j_notify] in *.
      rewrite job_request_value by exact H3. cbn [bind]. rewrite IH. cbn [bind]. rewrite Nat.add_succ_r. reflexivity.
  Qed.

  Lemma batch_server : forall js n, Forall good_job js ->
    batch body sigs srvf srv None (job_values js n) = (job_responses js n, map job_event js).
  Proof.
    intros js n Hg. revert n. induction Hg as [|s r (H1 & H2 & H3 & H4 & H5) Hr IH]; intros n; [reflexivity|].
    cbn [job_values batch job_responses map]. unfold job_event at 1. destruct (js_job s) as [m a nt] eqn:Ej.
    cbn [j_method j_args j_notify] in *. unfold srv in *. destruct nt.
    - rewrite (server_notify srvf reg pool sjc m (js_f s) a) by assumption. rewrite IH. reflexivity.
    - destruct (H5 eq_refl) as (Hb & Hv). rewrite (server_call srvf reg pool sjc m (js_f s) a (fresh n) (js_v s)); auto.
      rewrite IH. reflexivity.
  Qed.

  Lemma batch_dumpable : forall js n, Forall good_job js -> forallb dumpable (job_responses js n) = true.
  Proof.
    intros js n Hg. revert n. induction Hg as [|s r (H1 & H2 & H3 & H4 & H5) Hr IH]; intros n; [reflexivity|].
    cbn [job_responses]. rewrite forallb_app, IH, andb_true_r. destruct (j_notify (js_job s)); [reflexivity|].
    destruct (H5 eq_refl) as (_ & Hv). cbn [forallb]. rewrite andb_true_r. apply dumpable_resp_obj; [reflexivity|].
    destruct sjc; [apply dumpable_norm|]; exact Hv.
  Qed.

  Lemma batch_client : forall js n, Forall good_job js ->
    multicall_iter (map norm (job_responses js n)) = job_results js.
  Proof.
    intros js n Hg. revert n. induction Hg as [|s r (H1 & H2 & H3 & H4 & H5) Hr IH]; intros n; [reflexivity|].
    cbn [job_responses]. unfold job_results. cbn [filter]. destruct (j_notify (js_job s)); cbn [negb app map]; [apply IH|].
    destruct (H5 eq_refl) as (_ & Hv). cbn [multicall_iter].
    rewrite client_result by (destruct sjc; [apply dumpable_norm|]; exact Hv).
    fold (job_results r). rewrite IH. destruct sjc; [rewrite norm_idem|]; reflexivity.
  Qed.

  Theorem batch_call : forall c mcfg js n h,
    js <> [] -> Forall good_job js ->
    multicall body sigs fresh dv srvf srv None c mcfg (map js_job js) n h
    = (Some (Ok (job_results js)), map job_event js,
       add_response (add_request h (VList (job_values js n)))
                    (match job_responses js n with [] => None | os => Some (VList (map norm os)) end),
       (n + length js)%nat).
  Proof.
    intros c mcfg js n h Hne Hg. unfold multicall.
    destruct (map js_job js) eqn:Em; [destruct js; [contradiction|discriminate]|]. rewrite <- Em. clear Em.
    rewrite batch_requests by exact Hg.
    unfold run_request, marshaled_dispatch, loads_m, unmarshaled_dispatch.
    assert (Ht : truthy (VList (job_values js n)) = true) by (destruct js; [contradiction|reflexivity]).
    rewrite Ht. cbn [negb]. rewrite batch_server by exact Hg.
    pose proof (batch_dumpable js n Hg) as Hd. pose proof (batch_client js n Hg) as Hc.
    destruct (job_responses js n) as [|o os] eqn:Er.
    - cbn. cbn in Hc. rewrite <- Hc. reflexivity.
    - rewrite Hd. cbn [reply_value]. unfold load, jl. destruct (pc_jsonclass (cl_cfg c)); rewrite Hc; reflexivity.
  Qed.
End Batch.
