(** Invariant definitions, lock lemmas and the case-split tactics for the pool model. *)
From JR Require Export PoolBase.

Definition wdepth (l : wlabel) : nat :=
  match l with
  | WActInc | WUnlock1 | WPendDec | WActDec | WUnlock2 | WTest | WNbDec | WUnlock3R | WUnlock3
  | WFRemove | WFNbDec | WFUnlock => 1
  | _ => 0
  end.
Definition kdepth (k : kont) : nat := match k with KEnq => 1 | _ => 0 end.
Definition cdepth (l : clabel) : nat :=
  match l with
  | CEPut | CEPend | CETest | CEUnlock => 1
  | CSLock k => kdepth k
  | CSTest k | CSNbInc k | CSTStart k _ | CSAppend k _ | CSUnlock k => S (kdepth k)
  | CSPPut _ | CSPCopy | CSPUnlock _ => 1
  | CCLGet | CCLDone | CCLUnlock | CJTest _ JClear | CJQJoin JClear => 1
  | _ => 0
  end.

Definition I_lock (s : st) : Prop :=
  (forall w, lockd s (TW w) = wdepth (wpc (ws s w))) /\
  (forall c, lockd s (TC c) = cdepth (cpc (cs s c))).

(** *** acquire / release characterisation *)
Lemma acquire_spec s t s' :
  acquire s t = Some s' ->
  s' = set_lock s (lock s') /\ lockd s' t = S (lockd s t) /\ (forall u, u <> t -> lockd s' u = 0%nat /\ lockd s u = 0%nat).
Proof.
  unfold acquire, lockd. destruct (lock s) as [[o d]|] eqn:E.
  - destruct (thr_eqb o t) eqn:Eo; [|discriminate]. apply thr_eqb_eq in Eo. subst o.
    intros H; inversion H; subst; clear H. cbn [lock set_lock]. rewrite thr_eqb_refl.
    repeat split; intros; rewrite thr_eqb_neq by congruence; reflexivity.
  - intros H; inversion H; subst; clear H. cbn [lock set_lock]. rewrite thr_eqb_refl.
    repeat split; intros; try rewrite thr_eqb_neq by congruence; reflexivity.
Qed.

Lemma release_spec s t s' :
  release s t = Some s' ->
  s' = set_lock s (lock s') /\ lockd s t = S (lockd s' t) /\ (forall u, u <> t -> lockd s' u = 0%nat /\ lockd s u = 0%nat).
Proof.
  unfold release, lockd. destruct (lock s) as [[o [|d]]|] eqn:E; try discriminate.
  destruct (thr_eqb o t) eqn:Eo; [|discriminate]. apply thr_eqb_eq in Eo. subst o.
  intros H; inversion H; subst; clear H. cbn [lock set_lock].
  destruct d; cbn; rewrite ?thr_eqb_refl; repeat split; intros; rewrite ?thr_eqb_neq by congruence; reflexivity.
Qed.

Lemma lockd_excl s t u : t <> u -> (0 < lockd s t)%nat -> lockd s u = 0%nat.
Proof.
  unfold lockd. destruct (lock s) as [[o d]|]; [|reflexivity]. intros Hne.
  destruct (thr_eqb o t) eqn:E1; [|lia]. apply thr_eqb_eq in E1. subst. intros _. now rewrite thr_eqb_neq.
Qed.

(** *** the generic case-split over one step

    [step_cases H] turns [H : step s t f = Some s'] into one goal per enabled (label, fire)
    pair, with [s'] replaced by the explicit successor state and the moving thread's
    record destructed ([Ew : ws s w = mkW .. ] or [Ec : cs s c = mkC ..]).  Lock operations
    leave [Hacq : acquire s _ = Some s0] / [Hrel : release s _ = Some s0]. *)
Ltac inv_some H := inversion H; subst; clear H.

Ltac split_lockop H :=
  match type of H with
  | option_map _ (acquire ?s ?t) = Some _ =>
      let s0 := fresh "s0" in let Hacq := fresh "Hacq" in
      destruct (acquire s t) as [s0|] eqn:Hacq; cbn [option_map] in H; [inv_some H | discriminate H]
  | option_map _ (release ?s ?t) = Some _ =>
      let s0 := fresh "s0" in let Hrel := fresh "Hrel" in
      destruct (release s t) as [s0|] eqn:Hrel; cbn [option_map] in H; [inv_some H | discriminate H]
  | _ => idtac
  end.

Ltac break_ifs H :=
  repeat match type of H with
         | (if ?b then _ else _) = Some _ => let E := fresh "Eb" in destruct b eqn:E; try discriminate H
         | (match ?x with _ => _ end) = Some _ => let E := fresh "Em" in destruct x eqn:E; try discriminate H
         | (let '(_, _) := ?x in _) = Some _ => let E := fresh "Ep" in destruct x eqn:E
         end.

Ltac step_cases H :=
  match type of H with
  | step ?s ?t ?f = Some ?s' =>
      destruct t as [?w|?c]; cbn [step] in H;
      [ unfold wstep in H;
        match type of H with context [ws s ?w] =>
          let pc := fresh "pc" in let held := fresh "held" in let clean := fresh "clean" in let Ew := fresh "Ew" in
          destruct (ws s w) as [pc held clean] eqn:Ew; cbn [wpc wheld wclean] in H;
          destruct pc; destruct f; try discriminate H end
      | unfold cstep in H;
        match type of H with context [cs s ?c] =>
          let pc := fresh "pc" in let prog := fresh "prog" in let jc := fresh "jc" in let Ec := fresh "Ec" in
          destruct (cs s c) as [pc prog jc] eqn:Ec; cbn [cpc cprog cjcall] in H;
          destruct pc; destruct f; try discriminate H end ];
      cbn [orb negb] in H
  end.

Definition is_entry (l : clabel) : bool :=
  match l with CDone | CELock | CJTest _ JOp | CSTTest | CSPTest => true | _ => false end.
Lemma next_call_entry c p : is_entry (fst (next_call c p)) = true.
Proof. induction p as [|o r IH]; cbn; [reflexivity|]. destruct o; cbn; try reflexivity; destruct (Nat.eqb c 0); cbn; auto. Qed.
Lemma entry_depth l : is_entry l = true -> cdepth l = 0%nat.
Proof. destruct l; cbn; try discriminate; try reflexivity. destruct k; [reflexivity|discriminate]. Qed.

Lemma cret_spec s c : exists l r j, cret s c = set_c s c (mkC l r j) /\ is_entry l = true.
Proof.
  unfold cret. pose proof (next_call_entry c (cprog (cs s c))) as H.
  destruct (next_call c (cprog (cs s c))) as [l r]. cbn in H. eauto.
Qed.

Lemma lockd_set_lock s L t : lockd (set_lock s L) t = match L with Some (o, d) => if thr_eqb o t then d else 0%nat | None => 0%nat end.
Proof. reflexivity. Qed.

Ltac use_cret :=
  repeat match goal with
  | |- context [cret ?s ?c] =>
      let l := fresh "l" in let r := fresh "r" in let j := fresh "j" in let E := fresh "Ecret" in let En := fresh "Hentry" in
      destruct (cret_spec s c) as (l & r & j & E & En); rewrite E; clear E
  end.


Lemma acquire_spec' s t s0 : acquire s t = Some s0 ->
  exists L, s0 = set_lock s L /\ lockd (set_lock s L) t = S (lockd s t) /\
            (forall u, u <> t -> lockd (set_lock s L) u = 0%nat /\ lockd s u = 0%nat).
Proof. intros H. destruct (acquire_spec _ _ _ H) as (E & A & B). exists (lock s0). rewrite <- E. auto. Qed.
Lemma release_spec' s t s0 : release s t = Some s0 ->
  exists L, s0 = set_lock s L /\ lockd s t = S (lockd (set_lock s L) t) /\
            (forall u, u <> t -> lockd (set_lock s L) u = 0%nat /\ lockd s u = 0%nat).
Proof. intros H. destruct (release_spec _ _ _ H) as (E & A & B). exists (lock s0). rewrite <- E. auto. Qed.

Lemma lockd_set_w s w x t : lockd (set_w s w x) t = lockd s t. Proof. reflexivity. Qed.
Lemma lockd_set_c s w x t : lockd (set_c s w x) t = lockd s t. Proof. reflexivity. Qed.
Lemma lockd_set_queue s a b c t : lockd (set_queue s a b c) t = lockd s t. Proof. reflexivity. Qed.
Lemma lockd_set_qmutex s a t : lockd (set_qmutex s a) t = lockd s t. Proof. reflexivity. Qed.
Lemma lockd_set_counters s a b c t : lockd (set_counters s a b c) t = lockd s t. Proof. reflexivity. Qed.
Lemma lockd_set_threads s a b t : lockd (set_threads s a b) t = lockd s t. Proof. reflexivity. Qed.
Lemma lockd_set_stopped s a b c t : lockd (set_stopped s a b c) t = lockd s t. Proof. reflexivity. Qed.
Lemma lockd_set_next_task s a t : lockd (set_next_task s a) t = lockd s t. Proof. reflexivity. Qed.
Lemma lockd_set_hist s a b c d e t : lockd (set_hist s a b c d e) t = lockd s t. Proof. reflexivity. Qed.
Lemma lockd_set_jmon s a b t : lockd (set_jmon s a b) t = lockd s t. Proof. reflexivity. Qed.
Lemma lockd_wgo s w l t : lockd (wgo s w l) t = lockd s t. Proof. reflexivity. Qed.
Lemma lockd_cgo s w l t : lockd (cgo s w l) t = lockd s t. Proof. reflexivity. Qed.
Lemma lockd_task_done s t : lockd (task_done s) t = lockd s t. Proof. reflexivity. Qed.
#[export] Hint Rewrite lockd_set_w lockd_set_c lockd_set_queue lockd_set_qmutex lockd_set_counters lockd_set_threads
  lockd_set_stopped lockd_set_next_task lockd_set_hist lockd_set_jmon lockd_wgo lockd_cgo lockd_task_done : lockd_rw.

Ltac use_lockop :=
  repeat match goal with
  | H : acquire ?s ?t = Some ?s0 |- _ =>
      let L := fresh "L" in let E := fresh "E" in let A := fresh "Hown" in let B := fresh "Hoth" in
      destruct (acquire_spec' _ _ _ H) as (L & E & A & B); clear H; subst s0
  | H : release ?s ?t = Some ?s0 |- _ =>
      let L := fresh "L" in let E := fresh "E" in let A := fresh "Hown" in let B := fresh "Hoth" in
      destruct (release_spec' _ _ _ H) as (L & E & A & B); clear H; subst s0
  end.

Ltac split_upd :=
  repeat match goal with
  | |- context [upd _ ?i _ ?j] => destruct (Nat.eq_dec j i); [subst; rewrite !upd_same | rewrite !upd_other by assumption]
  | H : context [upd _ ?i _ ?j] |- _ => destruct (Nat.eq_dec j i); [subst; rewrite !upd_same in H | rewrite !upd_other in H by assumption]
  end.
Ltac rew_recs :=
  repeat match goal with
  | E : ws _ _ = mkW _ _ _ |- _ => rewrite E in *; clear E
  | E : cs _ _ = mkC _ _ _ |- _ => rewrite E in *; clear E end.

Ltac other_thread :=
  match goal with
  | B : forall u, u <> ?t -> _ /\ _ |- context [lockd _ ?u] =>
      let X := fresh in let Y := fresh in
      destruct (B u ltac:(congruence)) as [X Y]; rewrite ?X, ?Y in *
  end.

Ltac lock_fin_old Hw Hc :=
  use_lockop; unfold I_lock; simp;
  try match goal with Ew : ws ?s ?w = _ |- _ => let Hm := fresh "Hm" in pose proof (Hw w) as Hm; rewrite Ew in Hm; simp end;
  try match goal with Ec : cs ?s ?c = _ |- _ => let Hm := fresh "Hm" in pose proof (Hc c) as Hm; rewrite Ec in Hm; simp end;
  split; (let x := fresh "x" in intros x; pose proof (Hw x); pose proof (Hc x));
  autorewrite with lockd_rw in *;
  split_upd; rew_recs; simp; cbn [wdepth cdepth kdepth] in *;
  try other_thread;
  try assumption; try congruence; try lia.




(** debugging aid: print the goal with its hypotheses *)
Ltac show_goal :=
  idtac "=====REMAIN";
  repeat match goal with H : ?T |- _ => match type of T with Prop => idtac "  " H ":" T; revert H | _ => fail 1 end end;
  match goal with |- ?G => idtac "  |-" G end.
