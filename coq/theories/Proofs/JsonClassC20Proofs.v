(** Proofs about Model/JsonClass.v for property C20: handlers, ignore lists, configured names,
    omission of unsupported fields — at every position dump traverses. *)
From JR Require Import JsonClass JsonClassProofs JsonClassC07Proofs JsonClassFieldsProofs.
From Coq Require Import Lia.

(** ** Handlers: exact type, first, verbatim *)

Theorem handler_verbatim hfun V E cfg sm ia ign v h :
  handler_for cfg (type_of v) = Some h -> jc_dump hfun V E cfg sm ia ign v = hfun h v.
Proof. intros H. destruct v; simpl in *; rewrite H; reflexivity. Qed.

Lemma tyid_eqb_eq a b : tyid_eqb a b = true -> a = b.
Proof.
  destruct a, b; cbn [tyid_eqb]; intros H; try discriminate H; try reflexivity.
  - apply String.eqb_eq in H. now subst.
  - apply N.eqb_eq in H. now subst.
Qed.

(** the handler applied to [v] is an entry of the table under exactly [type(v)]: the first such entry *)
Theorem handler_exact_type cfg t h :
  handler_for cfg t = Some h -> In (t, Some h) (cf_handlers cfg).
Proof.
  unfold handler_for. induction (cf_handlers cfg) as [|[t' e] r IH]; cbn [handler_entry]; [discriminate|].
  destruct (tyid_eqb t t') eqn:E.
  - apply tyid_eqb_eq in E. subst t'. destruct e as [h'|]; [|discriminate]. intros H. injection H as ->. now left.
  - intros H. right. exact (IH H).
Qed.

(** no entry under exactly type(v) (or a None entry): no handler is applied to v, whatever else is registered *)
Theorem no_entry_no_handler cfg t :
  (forall h, ~ In (t, Some h) (cf_handlers cfg)) -> handler_for cfg t = None.
Proof.
  intros H. destruct (handler_for cfg t) as [h|] eqn:E; [|reflexivity].
  exfalso. exact (H h (handler_exact_type cfg t h E)).
Qed.

(** ** One level of traversal: the members are dumped by the same function, same arguments *)

Lemma mapM_inv {A B} (f : A -> res B) l ys : mapM f l = Ok ys -> Forall2 (fun x y => f x = Ok y) l ys.
Proof.
  revert ys. induction l as [|x r IH]; intros ys H; cbn [mapM] in H.
  - injection H as <-. constructor.
  - fold (mapM f) in H. destruct (f x) as [y|] eqn:Hx; [|discriminate H]. cbn [bind] in H.
    destruct (mapM f r) as [ys'|] eqn:Hr; [|discriminate H]. cbn [bind] in H. injection H as <-.
    constructor; [exact Hx | now apply IH].
Qed.

Theorem items_dumped_recursively hfun V E cfg sm ia ign v l out :
  seq_items v = Some l -> handler_for cfg (type_of v) = None ->
  jc_dump hfun V E cfg sm ia ign v = Ok out ->
  exists ys, out = VList ys /\ Forall2 (fun x y => jc_dump hfun V E cfg sm ia ign x = Ok y) l ys.
Proof.
  intros Hs Hh Hd. destruct v; try discriminate Hs; injection Hs as ->; simpl in Hd, Hh; rewrite Hh in Hd;
    (destruct (mapM (jc_dump hfun V E cfg sm ia ign) l) as [ys|] eqn:Hm; [|discriminate Hd]);
    cbn [bind] in Hd; injection Hd as <-; exists ys; (split; [reflexivity | now apply mapM_inv]).
Qed.

Theorem dict_values_dumped_recursively hfun V E cfg sm ia ign m out :
  handler_for cfg TDict = None ->
  jc_dump hfun V E cfg sm ia ign (VDict m) = Ok out ->
  exists ys, out = VDict ys /\
             Forall2 (fun kx ky => fst ky = fst kx /\ jc_dump hfun V E cfg sm ia ign (snd kx) = Ok (snd ky)) m ys.
Proof.
  intros Hh Hd. simpl in Hd. rewrite Hh in Hd. unfold mapM_values in Hd.
  destruct (mapM _ m) as [ys|] eqn:Hm; [|discriminate Hd]. cbn [bind] in Hd. injection Hd as <-.
  exists ys. split; [reflexivity|]. apply mapM_inv in Hm.
  induction Hm as [|[k x] [k' y] r r' Hx _ IH]; constructor; [|exact IH]. cbn [fst snd] in *.
  destruct (jc_dump hfun V E cfg sm ia ign x) as [y'|]; [|discriminate Hx]. cbn [bind] in Hx.
  injection Hx as <- <-. auto.
Qed.

(** ** Automatically serialised objects: which fields become keys *)

Lemma dset_skey a k y : dset (map skey a) (VStr k) y = map skey (fset a k y).
Proof.
  induction a as [|[k0 v0] r IH]; [reflexivity|]. cbn [map]. change (skey (k0, v0)) with (VStr k0, v0). cbn [fset dset].
  rewrite py_eq_str. destruct (String.eqb k k0); cbn [map]; [reflexivity|]. now rewrite IH.
Qed.

Lemma dupdate_skey b : forall a, dupdate (map skey a) (map skey b) = map skey (fset_all a b).
Proof.
  unfold dupdate, fset_all. induction b as [|[k y] r IH]; intros a; [reflexivity|].
  cbn [map fold_left]. change (skey (k, y)) with (VStr k, y). cbn [fst snd]. rewrite dset_skey. apply IH.
Qed.

Lemma dget_skey a n : dget (map skey a) n = flookup n a.
Proof.
  unfold dget. induction a as [|[k0 v0] r IH]; [reflexivity|]. cbn [map]. change (skey (k0, v0)) with (VStr k0, v0). cbn [assoc flookup].
  rewrite py_eq_str. destruct (String.eqb n k0); [reflexivity | exact IH].
Qed.

Lemma flookup_fset_all_none b : forall a n,
  flookup n a = None -> flookup n b = None -> flookup n (fset_all a b) = None.
Proof.
  unfold fset_all. induction b as [|[k y] r IH]; intros a n Ha Hb; [exact Ha|].
  cbn [fold_left fst snd flookup] in *. destruct (String.eqb n k) eqn:E; [discriminate Hb|].
  apply IH; [|exact Hb]. rewrite flookup_fset, E. exact Ha.
Qed.

Lemma flookup_fset_all_some b : forall a n v,
  flookup n (fset_all a b) = Some v -> flookup n a = Some v \/ In (n, v) b.
Proof.
  unfold fset_all. induction b as [|[k y] r IH]; intros a n v H; [now left|].
  cbn [fold_left fst snd] in H. destruct (IH _ _ _ H) as [H1|H1]; [|right; now right].
  rewrite flookup_fset in H1. destruct (String.eqb n k) eqn:E; [|now left].
  apply String.eqb_eq in E. subst k. injection H1 as ->. right. now left.
Qed.

(** what the loop of lines 199-213 emits: string keys; each is a field that is not ignored by name,
    whose value is of a supported or handled type and does not coincide with an ignore entry, and
    whose dumped form comes from the same dump function *)
Lemma dump_fields_inv E cfg (f : val -> res val) ignl fields : forall attrs,
  dump_fields E cfg f ignl fields = Ok attrs ->
  exists sds, attrs = map skey sds /\
    Forall (fun kd => name_ignored (fst kd) ignl = false /\
                      exists x, In (fst kd, x) fields /\ known_type E cfg x = true /\
                                existsb (py_eq x) ignl = false /\ f x = Ok (snd kd)) sds.
Proof.
  induction fields as [|[k x] r IH]; intros attrs H; cbn [dump_fields fst snd] in H; fold (dump_fields E cfg f ignl) in H.
  - injection H as <-. exists []. split; [reflexivity | constructor].
  - destruct (name_ignored k ignl) eqn:Hn.
    + destruct (IH _ H) as [sds [-> HF]]. exists sds. split; [reflexivity|].
      eapply Forall_impl; [|exact HF]. intros kd [H1 [x' [Hin Hrest]]]. split; [exact H1|]. exists x'. split; [now right | exact Hrest].
    + destruct (known_type E cfg x && negb (existsb (py_eq x) ignl)) eqn:Hk.
      * destruct (f x) as [y|] eqn:Hx; [|discriminate H]. cbn [bind] in H.
        destruct (dump_fields E cfg f ignl r) as [ys|] eqn:Hr; [|discriminate H]. cbn [bind] in H. injection H as <-.
        destruct (IH _ eq_refl) as [sds [-> HF]]. exists ((k, y) :: sds). split; [reflexivity|].
        apply andb_true_iff in Hk as [Hk1 Hk2]. apply negb_true_iff in Hk2.
        constructor.
        -- cbn [fst snd]. split; [exact Hn|]. exists x. repeat split; auto. now left.
        -- eapply Forall_impl; [|exact HF]. intros kd [H1 [x' [Hin Hrest]]]. split; [exact H1|]. exists x'. split; [now right | exact Hrest].
      * destruct (IH _ H) as [sds [-> HF]]. exists sds. split; [reflexivity|].
        eapply Forall_impl; [|exact HF]. intros kd [H1 [x' [Hin Hrest]]]. split; [exact H1|]. exists x'. split; [now right | exact Hrest].
Qed.

(** the dumped form of an automatically serialised object *)
Theorem auto_bean_dump hfun V E cfg sm ia ign c fields d out :
  handler_for cfg (TClass c) = None -> find_class (e_ctab E) c = Some d ->
  flookup sm fields = None -> mro_find (e_ctab E) c (ser_pred sm) = None ->
  jc_dump hfun V E cfg sm ia ign (VInst c fields) = Ok out ->
  exists ignl sds,
    ignore_list E ia ign c fields = Ok ignl /\
    out = VDict (map skey (fset_all [("__jsonclass__", VList [VStr (dump_name d); VList []])] sds)) /\
    Forall (fun kd => name_ignored (fst kd) ignl = false /\
                      exists x, In (fst kd, x) fields /\ known_type E cfg x = true /\
                                existsb (py_eq x) ignl = false /\
                                jc_dump hfun V E cfg sm ia ign x = Ok (snd kd)) sds.
Proof.
  intros Hh Hd Hsm Hser H. simpl in H. change (handler_for cfg (TClass c)) with (handler_for cfg (TClass c)) in H.
  rewrite Hh, Hd, Hsm, Hser in H.
  destruct (ignore_list E ia ign c fields) as [ignl|] eqn:Hi; [|discriminate H]. cbn [bind] in H.
  destruct (negb (forallb hashable ignl)); [discriminate H|].
  destruct (dump_fields E cfg (jc_dump hfun V E cfg sm ia ign) ignl fields) as [attrs|] eqn:Hf; [|discriminate H].
  cbn [bind] in H. destruct (forallb _ (slots_finder V (e_ctab E) c)); [|discriminate H]. injection H as <-.
  destruct (dump_fields_inv E cfg _ ignl fields attrs Hf) as [sds [-> HF]].
  exists ignl, sds. split; [reflexivity|]. split; [|exact HF].
  unfold descriptor_dict. change [(jsonclass_key, VList [VStr (dump_name d); VList []])]
    with (map skey [("__jsonclass__", VList [VStr (dump_name d); VList []])]).
  now rewrite dupdate_skey.
Qed.

(** names in the object's ignore list or in the ignore argument never become keys *)
Theorem ignored_never_dumped hfun V E cfg sm ia ign c fields d out n :
  handler_for cfg (TClass c) = None -> find_class (e_ctab E) c = Some d ->
  flookup sm fields = None -> mro_find (e_ctab E) c (ser_pred sm) = None ->
  jc_dump hfun V E cfg sm ia ign (VInst c fields) = Ok out ->
  n <> "__jsonclass__" ->
  (forall ignl, ignore_list E ia ign c fields = Ok ignl -> name_ignored n ignl = true) ->
  exists m, out = VDict m /\ dhas m n = false.
Proof.
  intros Hh Hd Hsm Hser H Hn Hign.
  destruct (auto_bean_dump hfun V E cfg sm ia ign c fields d out Hh Hd Hsm Hser H) as [ignl [sds [Hi [-> HF]]]].
  eexists. split; [reflexivity|]. unfold dhas. rewrite dget_skey.
  rewrite flookup_fset_all_none; [reflexivity | |].
  - cbn [flookup]. destruct (String.eqb n "__jsonclass__") eqn:Ej; [|reflexivity].
    apply String.eqb_eq in Ej. contradiction.
  - specialize (Hign ignl Hi). clear - HF Hign. induction HF as [|[k y] r [Hk _] _ IH]; [reflexivity|].
    cbn [flookup fst] in *. destruct (String.eqb n k) eqn:Ek; [|exact IH].
    apply String.eqb_eq in Ek. subst k. rewrite Hign in Hk. discriminate Hk.
Qed.

(** the ignore argument and the object's own list both count (line 193: own ++ ignore) *)
Lemma ignore_list_contains E ia ign c fields ignl x :
  ignore_list E ia ign c fields = Ok ignl -> In x ign -> In x ignl.
Proof.
  unfold ignore_list. intros H Hin.
  destruct (match flookup ia fields with Some x0 => x0 | None => _ end); try discriminate H.
  injection H as <-. apply in_or_app. now right.
Qed.

Lemma name_ignored_in n ignl : In (VStr n) ignl -> name_ignored n ignl = true.
Proof.
  unfold name_ignored. intros H. apply existsb_exists. exists (VStr n). split; [exact H|]. rewrite py_eq_str. apply String.eqb_refl.
Qed.

Theorem ignore_argument_never_dumped hfun V E cfg sm ia ign c fields d out n :
  handler_for cfg (TClass c) = None -> find_class (e_ctab E) c = Some d ->
  flookup sm fields = None -> mro_find (e_ctab E) c (ser_pred sm) = None ->
  jc_dump hfun V E cfg sm ia ign (VInst c fields) = Ok out ->
  n <> "__jsonclass__" -> In (VStr n) ign ->
  exists m, out = VDict m /\ dhas m n = false.
Proof.
  intros Hh Hd Hsm Hser H Hn Hin. eapply ignored_never_dumped; eauto.
  intros ignl Hi. apply name_ignored_in. eapply ignore_list_contains; eauto.
Qed.

(** every key of the dumped form other than "__jsonclass__" is a field whose value is of a supported
    or handled type: a field of neither kind is omitted, and dump does not fail because of it
    (its value is never handed to dump) *)
Theorem only_known_fields_dumped hfun V E cfg sm ia ign c fields d out n y :
  handler_for cfg (TClass c) = None -> find_class (e_ctab E) c = Some d ->
  flookup sm fields = None -> mro_find (e_ctab E) c (ser_pred sm) = None ->
  jc_dump hfun V E cfg sm ia ign (VInst c fields) = Ok out ->
  n <> "__jsonclass__" ->
  (exists m, out = VDict m /\ dget m n = Some y) ->
  exists x, In (n, x) fields /\ known_type E cfg x = true /\ jc_dump hfun V E cfg sm ia ign x = Ok y.
Proof.
  intros Hh Hd Hsm Hser H Hn [m [Hm Hy]].
  destruct (auto_bean_dump hfun V E cfg sm ia ign c fields d out Hh Hd Hsm Hser H) as [ignl [sds [Hi [Ho HF]]]].
  rewrite Ho in Hm. injection Hm as <-. rewrite dget_skey in Hy.
  apply flookup_fset_all_some in Hy as [Hy|Hy].
  - cbn [flookup] in Hy. destruct (String.eqb n "__jsonclass__") eqn:Ej; [|discriminate Hy].
    apply String.eqb_eq in Ej. contradiction.
  - rewrite Forall_forall in HF. destruct (HF _ Hy) as [_ [x [Hin [Hk [_ Hx]]]]]. cbn [fst snd] in *. eauto.
Qed.

(** ** Configured names *)

(** lines 124-125: the explicit argument when it is given and non-empty, the Config's name otherwise *)
Theorem configured_names cfg arg :
  norm_name arg (cf_ser cfg) = match arg with Some s => if String.eqb s "" then cf_ser cfg else s | None => cf_ser cfg end.
Proof. reflexivity. Qed.

(** the serialisation method consulted is the one of that name: a class whose method has another
    name is serialised automatically; with the right name its (params, attrs) are emitted verbatim *)
Theorem method_consulted hfun V E cfg sm ia ign c fields d ds :
  handler_for cfg (TClass c) = None -> find_class (e_ctab E) c = Some d -> flookup sm fields = None ->
  mro_find (e_ctab E) c (ser_pred sm) = Some ds ->
  jc_dump hfun V E cfg sm ia ign (VInst c fields) =
  do pa <- serialize_call ds fields;
  Ok (descriptor_dict (VStr (dump_name d)) (fst pa) (map (fun kx => (VStr (fst kx), snd kx)) (snd pa))).
Proof. intros Hh Hd Hsm Hser. simpl. rewrite Hh, Hd, Hsm, Hser. reflexivity. Qed.

Lemma mro_find_pred tab c p d : mro_find tab c p = Some d -> p d = true.
Proof.
  unfold mro_find. induction (ancestors tab c) as [|a r IH]; [discriminate|].
  destruct (find_class tab a) as [d'|]; [|exact IH]. destruct (p d') eqn:E; [|exact IH].
  intros H. injection H as <-. exact E.
Qed.

Theorem method_has_configured_name E c sm ds :
  mro_find (e_ctab E) c (ser_pred sm) = Some ds -> c_ser_name ds = sm /\ sm <> "".
Proof.
  intros H. apply mro_find_pred in H. unfold ser_pred in H. apply andb_true_iff in H as [H1 H2].
  apply String.eqb_eq in H2. split; [exact H2|]. intros ->. discriminate H1.
Qed.

(** the ignore attribute consulted is the one of the configured name (instance attribute first, then the MRO) *)
Theorem ignore_attribute_consulted E ia ign c fields :
  ignore_list E ia ign c fields =
  match (match flookup ia fields with
         | Some x => x
         | None => match mro_find (e_ctab E) c (ign_pred ia) with
                   | Some d => match c_ign d with Some (_, x) => x | None => VList [] end
                   | None => VList []
                   end
         end) with
  | VList l => Ok (l ++ ign)%list
  | _ => Raise EType
  end.
Proof. reflexivity. Qed.

Theorem ignore_class_has_configured_name E c ia d :
  mro_find (e_ctab E) c (ign_pred ia) = Some d -> exists x, c_ign d = Some (ia, x).
Proof.
  intros H. apply mro_find_pred in H. unfold ign_pred in H. destruct (c_ign d) as [[n x]|]; [|discriminate H].
  apply String.eqb_eq in H. subst n. eauto.
Qed.

(** ** Every depth *)

Lemma dump_fields_filter E cfg (f : val -> res val) ignl fields :
  dump_fields E cfg f ignl fields =
  mapM (fun kx => do y <- f (snd kx); Ok (VStr (fst kx), y)) (filter (field_kept E cfg ignl) fields).
Proof.
  induction fields as [|[k x] r IH]; [reflexivity|].
  cbn [dump_fields filter fst snd]. fold (dump_fields E cfg f ignl). unfold field_kept at 1, name_ignored. cbn [fst snd].
  destruct (existsb (py_eq (VStr k)) ignl); cbn [negb andb]; [exact IH|].
  destruct (known_type E cfg x && negb (existsb (py_eq x) ignl)); [|exact IH].
  cbn [mapM]. fold (mapM (fun kx : str * val => do y <- f (snd kx); Ok (VStr (fst kx), y))).
  rewrite IH. cbn [fst snd]. destruct (f x) as [a|]; [|reflexivity]. cbn [bind].
  destruct (mapM (fun kx : str * val => do y <- f (snd kx); Ok (VStr (fst kx), y)) (filter (field_kept E cfg ignl) r)); reflexivity.
Qed.

Lemma Forall2_In_l {A B} (R : A -> B -> Prop) l l' x : Forall2 R l l' -> In x l -> exists y, In y l' /\ R x y.
Proof.
  intros H. induction H as [|a b r r' Hab _ IH]; intros Hin; [contradiction|].
  destruct Hin as [->|Hin]; [exists b; split; [now left | exact Hab]|].
  destruct (IH Hin) as [y [Hy HR]]. exists y. split; [now right | exact HR].
Qed.

Lemma flookup_of_In n o sds : nodup_str (map fst sds) = true -> In (n, o) sds -> flookup n sds = Some o.
Proof.
  induction sds as [|[k y] r IH]; intros Hnd Hin; [contradiction|]. cbn [map fst nodup_str flookup] in *.
  apply andb_true_iff in Hnd as [H1 H2]. destruct Hin as [Heq|Hin].
  - injection Heq as -> ->. now rewrite String.eqb_refl.
  - destruct (String.eqb n k) eqn:Ek; [|auto]. apply String.eqb_eq in Ek. subst k.
    apply negb_true_iff in H1. exfalso. unfold mem_str in H1.
    assert (Hex : existsb (String.eqb n) (map fst r) = true).
    { apply existsb_exists. exists n. split; [|apply String.eqb_refl]. apply in_map_iff. exists (n, o). auto. }
    rewrite Hex in H1. discriminate H1.
Qed.

Lemma In_of_assoc k m v : assoc k m = Some v -> exists k', In (k', v) m.
Proof.
  induction m as [|[k0 v0] r IH]; [discriminate|]. cbn [assoc]. destruct (py_eq k k0).
  - intros H. injection H as ->. exists k0. now left.
  - intros H. destruct (IH H) as [k' Hk]. exists k'. now right.
Qed.

(** a field that passes the filter is dumped by the same function and its dumped form is the value
    of the key of that name *)
Lemma field_emitted hfun V E cfg sm ia ign c fields d ignl n x out :
  handler_for cfg (TClass c) = None -> find_class (e_ctab E) c = Some d ->
  flookup sm fields = None -> mro_find (e_ctab E) c (ser_pred sm) = None ->
  ignore_list E ia ign c fields = Ok ignl ->
  nodup_str (map fst fields) = true -> n <> "__jsonclass__" ->
  In (n, x) fields -> field_kept E cfg ignl (n, x) = true ->
  jc_dump hfun V E cfg sm ia ign (VInst c fields) = Ok out ->
  exists o m, jc_dump hfun V E cfg sm ia ign x = Ok o /\ out = VDict m /\ dget m n = Some o.
Proof.
  intros Hh Hd Hsm Hser Hi Hnd Hn Hin Hkeep H. simpl in H. rewrite Hh, Hd, Hsm, Hser, Hi in H. cbn [bind] in H.
  destruct (negb (forallb hashable ignl)); [discriminate H|]. rewrite dump_fields_filter in H.
  destruct (mapM _ (filter (field_kept E cfg ignl) fields)) as [attrs|] eqn:Hm; [|discriminate H].
  cbn [bind] in H. destruct (forallb _ (slots_finder V (e_ctab E) c)); [|discriminate H]. injection H as <-.
  apply mapM_inv in Hm.
  assert (Hin' : In (n, x) (filter (field_kept E cfg ignl) fields)) by (apply filter_In; auto).
  destruct (Forall2_In_l _ _ _ _ Hm Hin') as [[k' o] [Ho HR]]. cbn [fst snd] in HR.
  destruct (jc_dump hfun V E cfg sm ia ign x) as [o'|] eqn:Hx; [|discriminate HR]. cbn [bind] in HR. injection HR as <- <-.
  assert (Hsds : exists sds, attrs = map skey sds /\ map fst sds = map fst (filter (field_kept E cfg ignl) fields)).
  { clear - Hm. induction Hm as [|[k x] [k' y] r r' HR _ [sds [-> Hk]]]; [exists []; auto|]. cbn [fst snd] in HR.
    destruct (jc_dump hfun V E cfg sm ia ign x) as [y'|]; [|discriminate HR]. cbn [bind] in HR. injection HR as <- <-.
    exists ((k, y') :: sds). split; [reflexivity|]. cbn [map fst filter]. now rewrite Hk. }
  destruct Hsds as [sds [-> Hkeys]].
  exists o', (map skey (fset_all [("__jsonclass__", VList [VStr (dump_name d); VList []])] sds)).
  split; [reflexivity|]. split.
  - unfold descriptor_dict. change [(jsonclass_key, VList [VStr (dump_name d); VList []])]
      with (map skey [("__jsonclass__", VList [VStr (dump_name d); VList []])]). now rewrite dupdate_skey.
  - rewrite dget_skey.
    assert (Hnds : nodup_str (map fst sds) = true) by (rewrite Hkeys; now apply nodup_str_filter).
    rewrite flookup_fset_all by exact Hnds.
    assert (Hino : In (n, o') sds).
    { apply in_map_iff in Ho as [[k2 y2] [Heq Hin2]]. unfold skey in Heq. cbn [fst snd] in Heq. injection Heq as -> ->. exact Hin2. }
    now rewrite (flookup_of_In n o' sds Hnds Hino).
Qed.

(** whatever sits at a traversed position is dumped by the same function, with the same names,
    ignore list and config, and its dumped form occurs in the result *)
Theorem traversed_dumped hfun V E cfg sm ia ign v y :
  reaches E cfg sm ia ign v y ->
  forall out, jc_dump hfun V E cfg sm ia ign v = Ok out ->
  exists o, jc_dump hfun V E cfg sm ia ign y = Ok o /\ occurs o out.
Proof.
  intros H. induction H as [v | v l x y Hs Hh Hin _ IH | m k x y Hh Hin _ IH
                            | c fields d ignl n x y Hh Hd Hsm Hser Hi Hnd Hn Hin Hkeep _ IH]; intros out Hd'.
  - exists out. split; [exact Hd' | constructor].
  - destruct (items_dumped_recursively hfun V E cfg sm ia ign v l out Hs Hh Hd') as [ys [-> HF]].
    destruct (Forall2_In_l _ _ _ _ HF Hin) as [o1 [Ho1 Hx]]. destruct (IH o1 Hx) as [o [Ho Hocc]].
    exists o. split; [exact Ho|]. eapply O_item; eauto.
  - destruct (dict_values_dumped_recursively hfun V E cfg sm ia ign m out Hh Hd') as [ys [-> HF]].
    destruct (Forall2_In_l _ _ _ _ HF Hin) as [[k1 o1] [Ho1 [_ Hx]]]. cbn [fst snd] in *. destruct (IH o1 Hx) as [o [Ho Hocc]].
    exists o. split; [exact Ho|]. eapply O_value; eauto.
  - destruct (field_emitted hfun V E cfg sm ia ign c fields d ignl n x out Hh Hd Hsm Hser Hi Hnd Hn Hin Hkeep Hd')
      as [o1 [m [Hx [-> Hget]]]].
    destruct (IH o1 Hx) as [o [Ho Hocc]]. exists o. split; [exact Ho|].
    unfold dget in Hget. destruct (In_of_assoc _ _ _ Hget) as [k' Hk']. eapply O_value; eauto.
Qed.

(** a handler registered for exactly type(y) is used for y wherever dump reaches it, and what it
    returns is in the result as it is *)
Theorem handler_every_depth hfun V E cfg sm ia ign v y h out :
  reaches E cfg sm ia ign v y -> handler_for cfg (type_of y) = Some h ->
  jc_dump hfun V E cfg sm ia ign v = Ok out ->
  exists o, hfun h y = Ok o /\ occurs o out.
Proof.
  intros Hr Hh Hd. destruct (traversed_dumped hfun V E cfg sm ia ign v y Hr out Hd) as [o [Ho Hocc]].
  rewrite (handler_verbatim hfun V E cfg sm ia ign y h Hh) in Ho. eauto.
Qed.
