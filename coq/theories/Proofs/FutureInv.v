(** * FutureInv — tactics and the first invariant groups (lock discipline, outcome, callback protocol)
    FutureProofs — invariants of the FutureResult model (Model/Future.v) for ALL schedules,
    and the C16 theorems derived from them.  Style of DESIGN.md Appendix A: one named
    transition per label, small invariant conjuncts grouped by topic, each group preserved by
    every step, assembled by the invariant rule of Base/Sched.v. *)
From Coq Require Import List Bool Arith Lia.
From RecordUpdate Require Import RecordSet.
From JR Require Import Sched Future.
Import ListNotations RecordSetNotations.

(** ** Regions of the program counters *)
Definition x_in (p : xpc) : bool := match p with X_set_completed | X_read_cb | X_read_extra | X_unlock => true | _ => false end.
Definition x_out (p : xpc) : bool := match p with X_notify | X_end => true | _ => false end.
Definition x_ge_data (p : xpc) : bool := match p with X_body | X_store_data => false | _ => true end.
Definition x_ge_exc (p : xpc) : bool := match p with X_body | X_store_data | X_store_exc => false | _ => true end.
Definition x_ge_ev (p : xpc) : bool := match p with X_body | X_store_data | X_store_exc | X_event_set => false | _ => true end.
Definition x_ge_lock (p : xpc) : bool := match p with X_body | X_store_data | X_store_exc | X_event_set | X_lock => false | _ => true end.
Definition x_ge_comp (p : xpc) : bool := match p with X_read_cb | X_read_extra | X_unlock | X_notify | X_end => true | _ => false end.
Definition x_ge_rcb (p : xpc) : bool := match p with X_read_extra | X_unlock | X_notify | X_end => true | _ => false end.
Definition x_ge_rex (p : xpc) : bool := match p with X_unlock | X_notify | X_end => true | _ => false end.
Definition x_end (p : xpc) : bool := match p with X_end => true | _ => false end.
Definition r_in (p : rpc) : bool := match p with R_store_cb | R_store_extra | R_read_completed | R_unlock => true | _ => false end.
Definition r_stored (p : rpc) : bool := match p with R_lock | R_store_cb => false | _ => true end.
Definition r_mine (p : rpc) : bool := match p with R_store_extra | R_read_completed | R_unlock => true | _ => false end.
Definition r_mine2 (p : rpc) : bool := match p with R_read_completed | R_unlock => true | _ => false end.
Definition r_past (p : rpc) : bool := match p with R_notify | R_end => true | _ => false end.
Definition r_end (p : rpc) : bool := match p with R_end => true | _ => false end.
Definition holds (s : st) (t : thread) : bool :=
  match lock s, t with Some TX, TX => true | Some (TR a), TR b => Nat.eqb a b | _, _ => false end.
Definition b2n (b : bool) : nat := if b then 1 else 0.
Definition opt_is (o : option nat) (i : nat) : bool := match o with Some j => Nat.eqb j i | None => false end.
Definition hd1 (l : list nat) : option nat := match l with [] => None | x :: _ => Some x end.

Ltac simp := cbn [ev data exc lock completed cb extra xp xcb xextra xout rp rcomp op owaited oobs calls logged hdone hpre hpost set] in *.
Ltac pcs := cbn [x_in x_out x_ge_data x_ge_exc x_ge_ev x_ge_lock x_ge_comp x_ge_rcb x_ge_rex x_end r_in r_stored r_mine r_mine2 r_past r_end
                 andb orb b2n hd1 opt_is] in *.

Ltac unstep H :=
  unfold step, step_x, step_r, step_o in H;
  repeat match type of H with
  | context [match ?x with _ => _ end] => destruct x eqn:?; try discriminate H
  end;
  unfold x_body, x_store_data, x_store_exc, x_event_set, x_lock, x_set_completed, x_read_cb, x_read_extra, x_unlock, x_notify,
         r_lock, r_store_cb, r_store_extra, r_read_completed, r_unlock, r_notify,
         o_start, o_fire, o_read_exc, o_reraise, o_read_data in H;
  repeat match type of H with
  | context [match ?x with _ => _ end] => destruct x eqn:?; try discriminate H
  end;
  inversion H; subst; clear H.

(** __notify only touches the call log *)
Lemma nf_ev : forall c t w x s, ev (notify c t w x s) = ev s. Proof. intros c t [i|] x s; reflexivity. Qed.
Lemma nf_data : forall c t w x s, data (notify c t w x s) = data s. Proof. intros c t [i|] x s; reflexivity. Qed.
Lemma nf_exc : forall c t w x s, exc (notify c t w x s) = exc s. Proof. intros c t [i|] x s; reflexivity. Qed.
Lemma nf_lock : forall c t w x s, lock (notify c t w x s) = lock s. Proof. intros c t [i|] x s; reflexivity. Qed.
Lemma nf_completed : forall c t w x s, completed (notify c t w x s) = completed s. Proof. intros c t [i|] x s; reflexivity. Qed.
Lemma nf_cb : forall c t w x s, cb (notify c t w x s) = cb s. Proof. intros c t [i|] x s; reflexivity. Qed.
Lemma nf_extra : forall c t w x s, extra (notify c t w x s) = extra s. Proof. intros c t [i|] x s; reflexivity. Qed.
Lemma nf_xp : forall c t w x s, xp (notify c t w x s) = xp s. Proof. intros c t [i|] x s; reflexivity. Qed.
Lemma nf_xcb : forall c t w x s, xcb (notify c t w x s) = xcb s. Proof. intros c t [i|] x s; reflexivity. Qed.
Lemma nf_xextra : forall c t w x s, xextra (notify c t w x s) = xextra s. Proof. intros c t [i|] x s; reflexivity. Qed.
Lemma nf_xout : forall c t w x s, xout (notify c t w x s) = xout s. Proof. intros c t [i|] x s; reflexivity. Qed.
Lemma nf_rp : forall c t w x s, rp (notify c t w x s) = rp s. Proof. intros c t [i|] x s; reflexivity. Qed.
Lemma nf_rcomp : forall c t w x s, rcomp (notify c t w x s) = rcomp s. Proof. intros c t [i|] x s; reflexivity. Qed.
Lemma nf_op : forall c t w x s, op (notify c t w x s) = op s. Proof. intros c t [i|] x s; reflexivity. Qed.
Lemma nf_owaited : forall c t w x s, owaited (notify c t w x s) = owaited s. Proof. intros c t [i|] x s; reflexivity. Qed.
Lemma nf_oobs : forall c t w x s, oobs (notify c t w x s) = oobs s. Proof. intros c t [i|] x s; reflexivity. Qed.
Lemma nf_hdone : forall c t w x s, hdone (notify c t w x s) = hdone s. Proof. intros c t [i|] x s; reflexivity. Qed.
Lemma nf_hpre : forall c t w x s, hpre (notify c t w x s) = hpre s. Proof. intros c t [i|] x s; reflexivity. Qed.
Lemma nf_hpost : forall c t w x s, hpost (notify c t w x s) = hpost s. Proof. intros c t [i|] x s; reflexivity. Qed.
#[export] Hint Rewrite nf_ev nf_data nf_exc nf_lock nf_completed nf_cb nf_extra nf_xp nf_xcb nf_xextra nf_xout nf_rp nf_rcomp nf_op nf_owaited nf_oobs nf_hdone nf_hpre nf_hpost : nfr.
Ltac nfr := autorewrite with nfr in *.

Ltac split_upd := repeat match goal with
  | |- context [upd _ ?i _ ?j] => destruct (Nat.eq_dec j i); [subst; rewrite !upd_same | rewrite !upd_other by assumption]
  | H : context [upd _ ?i _ ?j] |- _ => destruct (Nat.eq_dec j i); [subst; rewrite !upd_same in H | rewrite !upd_other in H by assumption] end.

Ltac sat H := repeat match goal with k : nat |- _ =>
  let T := type of (H k) in lazymatch goal with _ : T |- _ => fail | _ => pose proof (H k) end end.

Ltac rw := repeat match goal with
  | E : xp _ = _ |- _ => rewrite ?E in *; revert E
  | E : rp _ _ = _ |- _ => rewrite ?E in *; revert E
  | E : op _ _ = _ |- _ => rewrite ?E in *; revert E
  | E : lock _ = _ |- _ => rewrite ?E in *; revert E
  end; intros.

Ltac eqbs := repeat match goal with
  | H : context [Nat.eqb ?a ?b] |- _ =>
      let E := fresh "E" in destruct (Nat.eqb a b) eqn:E; rewrite ?E in *;
      [apply Nat.eqb_eq in E; subst; rewrite ?Nat.eqb_refl in * | apply Nat.eqb_neq in E]
  | |- context [Nat.eqb ?a ?b] =>
      let E := fresh "E" in destruct (Nat.eqb a b) eqn:E; rewrite ?E in *;
      [apply Nat.eqb_eq in E; subst; rewrite ?Nat.eqb_refl in * | apply Nat.eqb_neq in E]
  end.

Ltac dlock := match goal with
  | H : context [match lock ?s with _ => _ end] |- _ => destruct (lock s) as [[|?|?]|] eqn:?
  | |- context [match lock ?s with _ => _ end] => destruct (lock s) as [[|?|?]|] eqn:?
  end.
Ltac drp := match goal with
  | H : context [rp ?s ?i] |- _ => is_var i; lazymatch goal with E : rp s i = _ |- _ => fail | _ => destruct (rp s i) eqn:? end
  | |- context [rp ?s ?i] => is_var i; lazymatch goal with E : rp s i = _ |- _ => fail | _ => destruct (rp s i) eqn:? end
  end.
Ltac dxp := match goal with
  | H : context [xp ?s] |- _ => lazymatch goal with E : xp s = _ |- _ => fail | _ => destruct (xp s) eqn:? end
  | |- context [xp ?s] => lazymatch goal with E : xp s = _ |- _ => fail | _ => destruct (xp s) eqn:? end
  end.
Ltac dbool := match goal with
  | |- ?b = false => destruct b eqn:?
  | |- ?b = true => destruct b eqn:?
  end.
(* forward chaining on implications whose premise is provable at once *)
Ltac fwd := repeat match goal with
  | H : ?A -> ?B |- _ =>
      match type of A with Prop => idtac end;
      let HA := fresh in assert (HA : A) by (first [assumption | reflexivity | congruence]);
      specialize (H HA); clear HA
  end.
Ltac sat_all := repeat match goal with H : forall k : nat, _ |- _ => progress (sat H) end.
Ltac fin0 := first [ congruence | discriminate | tauto | (exfalso; congruence) | lia ].
Ltac djs := repeat match goal with H : _ /\ _ |- _ => destruct H | H : _ \/ _ |- _ => destruct H end.
Ltac base := pcs; simp; fwd; first [ fin0 | (djs; fin0) | intuition fin0 ].
Ltac fin := try solve [ base | eauto | eqbs; base | dlock; eqbs; base | drp; rw; base | dbool; base | drp; rw; dlock; eqbs; base
                      | dxp; rw; base | dxp; rw; dlock; eqbs; base | drp; rw; drp; rw; dlock; eqbs; base ].
Ltac cheap := intros; simp; nfr; split_upd; rw; pcs; simp; try solve [fin0 | eauto].
Ltac prep := fwd; sat_all; rw; pcs; simp; fwd.

Section Inv.
Variable c : cfg.

(** ** Group A: lock discipline; the outcome fields, the event, the completion flags are functions of the executor's pc *)
Definition L1 s := holds s TX = x_in (xp s).
Definition L2 s := forall i, holds s (TR i) = r_in (rp s i).
Definition L3 s := forall j, lock s <> Some (TO j).
Definition D1 s := data s = if x_ge_data (xp s) then out_data (body c) else None.
Definition D2 s := exc s = if x_ge_exc (xp s) then out_exc (body c) else None.
Definition D3 s := ev s = x_ge_ev (xp s).
Definition D4 s := completed s = x_ge_comp (xp s).
Definition D5 s := hdone s = x_ge_lock (xp s).
Definition D6 s := xout s = if x_end (xp s) then Some (xcont (body c)) else None.
Definition InvA s := L1 s /\ L2 s /\ L3 s /\ D1 s /\ D2 s /\ D3 s /\ D4 s /\ D5 s /\ D6 s.

Lemma A_step : forall s m s', InvA s -> step c s m = Some s' -> InvA s'.
Proof.
  intros s m s' (H1 & H2 & H3 & H4 & H5 & H6 & H7 & H8 & H9) H.
  unfold InvA in *; unfold L1, L2, L3, D1, D2, D3, D4, D5, D6, holds in *.
  unstep H; simp.
  all: repeat split; cheap.
  all: prep; fin.
Qed.

(** ** Group B: the callback protocol *)
Definition Jrc s := forall i, rcomp s i = true -> x_out (xp s) = true.
Definition Jcb s := forall i, cb s = Some i -> r_stored (rp s i) = true.
Definition Jmine s := forall i, r_mine (rp s i) = true -> cb s = Some i.
Definition Jmine2 s := forall i, r_mine2 (rp s i) = true -> extra s = Some i.
Definition Jpair s := forall i, cb s = Some i -> extra s = Some i \/ rp s i = R_store_extra.
Definition Jsaved s := forall i, xcb s = Some i -> r_past (rp s i) = true /\ rcomp s i = false.
Definition Jxsync s := xp s = X_read_extra -> xcb s = cb s.
Definition Jxpair s := x_ge_rex (xp s) = true -> forall i, xcb s = Some i -> xextra s = Some i.
Definition Jnotify s := forall i, rp s i = R_notify -> rcomp s i = true.
Definition InvB s := Jrc s /\ Jcb s /\ Jmine s /\ Jmine2 s /\ Jpair s /\ Jsaved s /\ Jxsync s /\ Jxpair s /\ Jnotify s.

Lemma B_step : forall s m s', InvA s -> InvB s -> step c s m = Some s' -> InvB s'.
Proof.
  intros s m s' (H1 & H2 & H3 & H4 & H5 & H6 & H7 & H8 & H9) (B1 & B2 & B3 & B4 & B5 & B6 & B7 & B8 & B9) H.
  unfold InvB in *; unfold L1, L2, L3, D1, D2, D3, D4, D5, D6, holds in *.
  unfold Jrc, Jcb, Jmine, Jmine2, Jpair, Jsaved, Jxsync, Jxpair, Jnotify in *.
  unstep H; simp.
  all: repeat split; cheap.
  all: prep; fin.
Qed.
End Inv.
