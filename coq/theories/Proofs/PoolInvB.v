(** Preservation: counting invariants I_nb, I_bound, I_unf. *)
From JR Require Import PoolInvDefs PoolInvA.

(** expose every [count g (upd f w x) n] of the goal through count_upd_lt (w < n must be provable by lia) *)
Ltac count_goal :=
  repeat match goal with
  | |- context [count ?g (upd ?f ?w ?x) ?n] =>
      let Hlt := fresh "Hlt" in
      assert (Hlt : (w < n)%nat) by (simp; lia);
      let E := fresh "Ecnt" in
      pose proof (count_upd_lt g f w x n Hlt) as E;
      generalize dependent (count g (upd f w x) n); intros
  end.
Ltac count_hyp :=
  repeat match goal with
  | H : context [count ?g (upd ?f ?w ?x) ?n] |- _ =>
      let Hlt := fresh "Hlt" in
      assert (Hlt : (w < n)%nat) by (simp; lia);
      let E := fresh "Ecnt" in
      pose proof (count_upd_lt g f w x n Hlt) as E;
      generalize dependent (count g (upd f w x) n); intros
  end.

Ltac worker_lt Hcr :=
  try match goal with Ew : ws ?s1 ?w = mkW ?pc _ _ |- _ =>
        assert (w < next_w s1)%nat by (apply (created_lt s1 w pc _ _ Hcr Ew); discriminate) end.

Ltac use_wf Hwf :=
  try match goal with Ew : ws ?s1 ?w = mkW _ _ _ |- _ =>
        let Hm := fresh "Hwfm" in pose proof (Hwf w) as Hm; rewrite Ew in Hm; unfold wf_w, held_task, held_sent in Hm; simp end.

Lemma count_new {A} (g : A -> bool) f n x : count g (upd f n x) (S n) = (count g f n + b2n (g x))%nat.
Proof. cbn [count]. rewrite count_upd_ge by lia. now rewrite upd_same. Qed.

Lemma P_nb s t f s' : I_created s -> I_wf s -> I_nb s -> step s t f = Some s' -> I_nb s'.
Proof.
  intros Hcr Hwf Hnb H. pose proof Hcr as [Hcr1 Hcr2]. unfold I_nb in *.
  open_step2 H; use_lockop; simp; worker_lt Hcr; use_wf Hwf.
  all: try (match goal with Ec : cs ?s1 ?c = mkC (CSTStart ?k ?w) _ _ |- _ =>
              let X := fresh "Hwlt" in let Y := fresh "Hwnew" in destruct (Hcr2 c k w) as [X Y]; [rewrite Ec; reflexivity|] end).
  all: rewrite ?count_new.
  all: try solve [count_goal; rew_recs; try rewrite Hwnew in *; cbn [serving wpc wclean b2n negb] in *;
                  try (destruct clean; cbn [negb b2n andb] in *; try discriminate); lia].
Qed.

Lemma P_bound s t f s' : I_lock s -> I_bound s -> step s t f = Some s' -> I_bound s'.
Proof.
  intros Hlk [Hb1 Hb2] H. unfold I_bound.
  open_step2 H; use_lockop; simp.
  all: split; [ try lia | intros c' k' Hc'; simp; split_upd; rew_recs; simp; try discriminate ].
  all: try solve [pose proof (Hb2 c' k' Hc'); lia].
  all: try solve [subst; discriminate].
  all: try solve [match goal with k : kont |- _ => destruct k; discriminate end].
  - apply orb_false_iff in Eg as [Eg _]. apply Z.leb_gt in Eg. exact Eg.
  - pose proof (Hb2 c k ltac:(rewrite Ec; reflexivity)). lia.
  - exfalso. apply (two_lockers s c' c Hlk n); [rewrite Hc' | rewrite Ec]; cbn; lia.
Qed.

Lemma length_app1 {A} (l : list A) x : length (l ++ [x]) = S (length l).
Proof. rewrite app_length. cbn. lia. Qed.

Lemma P_unf s t f s' : I_ctl s -> I_created s -> I_wf s -> I_unf s -> step s t f = Some s' -> I_unf s'.
Proof.
  intros Hctl Hcr Hwf Hunf H. pose proof Hcr as [Hcr1 Hcr2]. unfold I_unf, clear_pending in *.
  open_step2 H; use_lockop; simp; worker_lt Hcr; use_wf Hwf.
  all: try (match goal with Ec : cs ?s1 ?c = mkC (CSTStart ?k ?w) _ _ |- _ =>
              let X := fresh "Hwlt" in let Y := fresh "Hwnew" in destruct (Hcr2 c k w) as [X Y]; [rewrite Ec; reflexivity|] end).
  all: rewrite ?count_new, ?length_app1.
  all: try match goal with Ec : cs ?s1 ?c = mkC ?l _ _ |- _ =>
         destruct (Nat.eq_dec c 0%nat) as [->|Hc0];
         [ rewrite ?upd_same; rewrite Ec in Hunf; simp
         | rewrite ?upd_other by congruence;
           try (exfalso; pose proof (Hctl c Hc0) as Hl; rewrite Ec in Hl; cbn in Hl; discriminate) ] end.
  all: try solve [count_goal; rew_recs; try rewrite Hwnew in *; cbn [holding wpc wclean b2n negb length] in *;
                  try match goal with E : q _ = _ |- _ => rewrite E in *; cbn [length] in * end;
                  try match goal with He : is_entry ?l = true |- _ => destruct l; try discriminate He end;
                  try match goal with k : kont |- _ => destruct k end; cbn [kret] in *;
                  lia].
Qed.
