(** Lifecycle invariants, part 1: the stop flag, thread creation, the thread list. *)
From JR Require Import PoolInvDefs PoolInvA PoolInvB.

Definition stop_region (l : clabel) : bool :=
  match l with
  | CSPLock | CSPPut _ | CSPCopy | CSPUnlock _ | CSPAlive _ | CSPJoin _ | CSPAlive2 _ | CSPDel
  | CCLLock | CCLGet | CCLDone | CCLUnlock | CJTest _ JClear | CJQJoin JClear => true
  | _ => false
  end.
Definition start_region (l : clabel) : bool :=
  match l with
  | CSTQsize | CSTLoopA _ _ | CSTLoopB _ => true
  | CSLock k | CSTest k | CSNbInc k | CSTStart k _ | CSAppend k _ | CSUnlock k => lifecycle_k k
  | _ => false
  end.
Definition creating (l : clabel) : bool :=
  match l with CSNbInc _ | CSTStart _ _ | CSAppend _ _ => true | _ => false end.

Definition ctl (s : st) : clabel := cpc (cs s 0%nat).

Definition I_flag (s : st) : Prop :=
  (stop_region (ctl s) = true -> stopped s = true /\ start_done s = false /\ stop_done s = false) /\
  (start_region (ctl s) = true -> stopped s = false /\ start_done s = false /\ stop_done s = false) /\
  (stop_done s = true -> stopped s = true /\ start_done s = false) /\
  (start_done s = true -> stopped s = false /\ stop_region (ctl s) = false /\ start_region (ctl s) = false) /\
  (ctl s = CSTClear -> stopped s = true) /\ (ctl s = CSPSet -> stopped s = false).

Definition I_nocreate (s : st) : Prop :=
  forall c, creating (cpc (cs s c)) = true -> stopped s = false \/ ctl s = CSPLock.

(** case analysis on whether the moving client is the controller *)
Ltac ctl_cases Hctl :=
  try match goal with Ec : cs ?s1 ?c = mkC ?l _ _ |- _ =>
    destruct (Nat.eq_dec c 0%nat) as [->|Hc0];
    [ rewrite ?upd_same in *
    | rewrite ?upd_other in * by congruence;
      try (exfalso; pose proof (Hctl c Hc0) as Hl; rewrite Ec in Hl; cbn in Hl; discriminate) ] end.

Lemma P_flag s t f s' : I_ctl s -> I_flag s -> step s t f = Some s' -> I_flag s'.
Proof.
  intros Hctl Hf H. unfold I_flag, ctl in *.
  open_step2 H; use_lockop; simp.
  all: ctl_cases Hctl; rew_recs; simp; cbn [stop_region start_region lifecycle_k] in *.
  all: repeat match goal with E : stopped _ = _ |- _ => rewrite E in *; revert E end; intros.
  all: try exact Hf.
  all: destruct Hf as (F1 & F2 & F3 & F4 & F5 & F6).
  all: try match goal with He : is_entry ?l = true |- _ => destruct l; try discriminate He end.
  all: try match goal with k : jkont |- _ => destruct k end.
  all: try match goal with k : kont |- _ => destruct k end; cbn [kret stop_region start_region lifecycle_k lifecycle] in *.
  all: try solve [repeat split; intros; try discriminate; try congruence; auto;
                  try (destruct (F1 ltac:(reflexivity)) as (? & ? & ?); congruence);
                  try (destruct (F2 ltac:(reflexivity)) as (? & ? & ?); congruence);
                  try (destruct (F3 ltac:(assumption)) as (? & ?); congruence);
                  try (destruct (F4 ltac:(assumption)) as (? & ? & ?); congruence)].
Qed.

Lemma P_nocreate s t f s' : I_ctl s -> I_lock s -> I_nocreate s -> step s t f = Some s' -> I_nocreate s'.
Proof.
  intros Hctl Hlk Hn H. unfold I_nocreate, ctl in *.
  open_step2 H; simp.
  all: intros c' Hc'; pose proof (Hn c') as Hx; simp.
  all: try solve [use_lockop; simp; split_upd; rew_recs; simp; cbn [creating] in *; try discriminate;
                  try (apply orb_false_iff in Eg as [_ Eg]); auto;
                  try match goal with He : is_entry ?l = true |- _ => destruct l; try discriminate He end;
                  try match goal with k : kont |- _ => destruct k; discriminate end;
                  destruct (Hx Hc') as [Hs|Hs]; auto; try congruence;
                  ctl_cases Hctl; rew_recs; simp; try discriminate; auto].
  - (* CSPSet *)
    right. ctl_cases Hctl. simp. reflexivity.
  - (* CSPLock: the controller gets the lock, so nobody is creating a thread *)
    exfalso. use_lockop. simp. split_upd; simp; [discriminate|].
    destruct Hlk as [_ Hlc]. pose proof (Hlc c') as Hd.
    destruct (Hoth (TC c') ltac:(congruence)) as [_ Hz]. rewrite Hz in Hd.
    destruct (cpc (cs s c')); try discriminate Hc'; cbn in Hd; discriminate.
  -
    exfalso. use_lockop. simp. split_upd; simp; [discriminate|].
    destruct Hlk as [_ Hlc]. pose proof (Hlc c') as Hd.
    destruct (Hoth (TC c') ltac:(congruence)) as [_ Hz]. rewrite Hz in Hd.
    destruct (cpc (cs s c')); try discriminate Hc'; cbn in Hd; discriminate.
Qed.
