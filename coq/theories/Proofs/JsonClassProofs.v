(** Proofs about Model/JsonClass.v: the plain-data fragment (property C15). *)
From JR Require Import JsonClass.
From Coq Require Import Lia.

(** ** dump on plain data is [norm] *)

Lemma no_handlers_none cfg : no_handlers cfg = true -> forall t, handler_for cfg t = None.
Proof.
  unfold no_handlers, handler_for. destruct (cf_handlers cfg); [reflexivity | discriminate].
Qed.

Lemma dump_plain_norm hfun V E cfg sm ia ign :
  no_handlers cfg = true ->
  forall v, plain v = true -> jc_dump hfun V E cfg sm ia ign v = Ok (norm v).
Proof.
  intros Hh. pose proof (no_handlers_none cfg Hh) as Hf.
  induction v using val_ind'; intros Hp; try discriminate Hp; simpl; rewrite Hf; try reflexivity.
  1-4: simpl in Hp;
       match goal with |- bind ?X _ = _ => assert (HX : X = Ok (map norm l)) end;
       [ induction H as [|x xs Hx _ IH]; [reflexivity|];
         simpl in Hp; apply andb_true_iff in Hp as [Hp1 Hp2];
         rewrite (Hx Hp1); simpl; rewrite (IH Hp2); reflexivity
       | rewrite HX; reflexivity ].
  simpl in Hp.
  match goal with |- bind ?X _ = _ =>
    assert (HX : X = Ok (map (fun kv => (fst kv, norm (snd kv))) m)) end.
  { induction H as [|[k x] xs [_ Hx] _ IH]; [reflexivity|].
    simpl in Hp. apply andb_true_iff in Hp as [Hp1 Hp2]. simpl in Hx.
    rewrite (Hx Hp1). simpl. rewrite (IH Hp2). reflexivity. }
  rewrite HX. reflexivity.
Qed.

(** ** [norm] of plain data *)

Lemma forallb_map {A B} (f : A -> B) (p : B -> bool) l : forallb p (map f l) = forallb (fun x => p (f x)) l.
Proof. induction l; simpl; congruence. Qed.

Lemma forallb_Forall_impl {A} (P : A -> Prop) (p q : A -> bool) l :
  Forall P l -> (forall x, P x -> p x = true -> q x = true) -> forallb p l = true -> forallb q l = true.
Proof.
  intros H Himp. induction H as [|x xs Hx _ IH]; simpl; [reflexivity|].
  intros Hp. apply andb_true_iff in Hp as [H1 H2]. rewrite (Himp x Hx H1), (IH H2). reflexivity.
Qed.

Lemma norm_json_shape : forall v, plain v = true -> json_shape (norm v) = true.
Proof.
  induction v using val_ind'; intros Hp; try discriminate Hp; try reflexivity; simpl in *.
  1-4: rewrite forallb_map; revert Hp; apply forallb_Forall_impl with (1 := H); auto.
  rewrite forallb_map. revert Hp. apply forallb_Forall_impl with (1 := H).
  intros [k x] [_ Hx]; simpl in *; auto.
Qed.

Lemma norm_is_json : forall v, plain v = true -> str_keys v = true -> is_json (norm v) = true.
Proof.
  induction v using val_ind'; intros Hp Hs; try discriminate Hp; try reflexivity; simpl in *.
  1-4: rewrite forallb_map; induction H as [|x xs Hx _ IH]; simpl in *; [reflexivity|];
       apply andb_true_iff in Hp as [Hp1 Hp2]; apply andb_true_iff in Hs as [Hs1 Hs2];
       rewrite (Hx Hp1 Hs1), (IH Hp2 Hs2); reflexivity.
  rewrite forallb_map. induction H as [|[k x] xs [_ Hx] _ IH]; simpl in *; [reflexivity|].
  apply andb_true_iff in Hp as [Hp1 Hp2]. apply andb_true_iff in Hs as [Hs1 Hs2].
  apply andb_true_iff in Hs1 as [Hk Hs1].
  destruct k; try discriminate Hk. rewrite (Hx Hp1 Hs1), (IH Hp2 Hs2). reflexivity.
Qed.

Lemma assoc_map_values (f : val -> val) k m :
  assoc k (map (fun kv => (fst kv, f (snd kv))) m) = option_map f (assoc k m).
Proof.
  induction m as [|[k' x] r IH]; simpl; [reflexivity|]. destruct (py_eq k k'); [reflexivity | exact IH].
Qed.

Lemma dhas_map_values (f : val -> val) m k :
  dhas (map (fun kv => (fst kv, f (snd kv))) m) k = dhas m k.
Proof. unfold dhas, dget. rewrite assoc_map_values. destruct (assoc (VStr k) m); reflexivity. Qed.

Lemma norm_no_descriptor : forall v, no_descriptor v = true -> no_descriptor (norm v) = true.
Proof.
  induction v using val_ind'; intros Hp; try reflexivity; simpl in *.
  1-4: rewrite forallb_map; revert Hp; apply forallb_Forall_impl with (1 := H); auto.
  apply andb_true_iff in Hp as [Hd Hp]. rewrite dhas_map_values, Hd. simpl.
  rewrite forallb_map. revert Hp. apply forallb_Forall_impl with (1 := H).
  intros [k x] [_ Hx]; simpl in *; auto.
Qed.

(** every primitive keeps its constructor and its value: the leaves of [norm v] are the leaves of [v] *)
Lemma flat_map_map {A B C} (f : A -> B) (g : B -> list C) l : flat_map g (map f l) = flat_map (fun x => g (f x)) l.
Proof. induction l; simpl; congruence. Qed.

Lemma flat_map_ext_Forall {A B} (P : A -> Prop) (f g : A -> list B) l :
  Forall P l -> (forall x, P x -> f x = g x) -> flat_map f l = flat_map g l.
Proof. intros H Hfg. induction H as [|x xs Hx _ IH]; simpl; [reflexivity|]. now rewrite (Hfg x Hx), IH. Qed.

Lemma norm_leaves : forall v, leaves (norm v) = leaves v.
Proof.
  induction v using val_ind'; try reflexivity; simpl.
  1-4: rewrite flat_map_map; apply flat_map_ext_Forall with (1 := H); auto.
  rewrite flat_map_map. apply flat_map_ext_Forall with (1 := H). intros [k x] [_ Hx]; simpl in *; auto.
Qed.

(** [leaves] lists primitives only, so "constructor-exact" is literal equality of the lists *)
Definition is_prim (v : val) : bool :=
  match v with VNone | VBool _ | VInt _ | VFlt _ | VStr _ => true | _ => false end.

Lemma plain_leaves_prim : forall v, plain v = true -> forallb is_prim (leaves v) = true.
Proof.
  induction v using val_ind'; intros Hp; try discriminate Hp; try reflexivity; simpl in *.
  1-4: induction H as [|x xs Hx _ IH]; simpl in *; [reflexivity|];
       apply andb_true_iff in Hp as [Hp1 Hp2]; rewrite forallb_app, (Hx Hp1), (IH Hp2); reflexivity.
  induction H as [|[k x] xs [_ Hx] _ IH]; simpl in *; [reflexivity|].
  apply andb_true_iff in Hp as [Hp1 Hp2]. rewrite forallb_app, (Hx Hp1), (IH Hp2). reflexivity.
Qed.
