(** Proofs about Model/JsonClass.v: the plain-data fragment (property C15). *)
From JR Require Import JsonClass.
From Coq Require Import Lia.

(** ** dump on plain data is [norm] *)

Lemma no_handlers_none cfg : no_handlers cfg = true -> forall t, handler_for cfg t = None.
Proof.
  unfold no_handlers, handler_for. destruct (cf_handlers cfg); [reflexivity | discriminate].
Qed.

(** generic facts about the traversal combinators *)
Lemma mapM_ok_Forall {A B} (P : A -> Prop) (f : A -> res B) (g : A -> B) l :
  Forall P l -> (forall x, P x -> f x = Ok (g x)) -> mapM f l = Ok (map g l).
Proof.
  intros H Hf. induction H as [|x xs Hx _ IH]; [reflexivity|].
  simpl. rewrite (Hf x Hx). simpl. fold (mapM f). rewrite IH. reflexivity.
Qed.

Lemma Forall_forallb_conj {A} (P : A -> Prop) (p : A -> bool) l :
  Forall P l -> forallb p l = true -> Forall (fun x => P x /\ p x = true) l.
Proof.
  intros H. induction H as [|x xs Hx _ IH]; simpl; intros Hp; constructor.
  - apply andb_true_iff in Hp as [H1 _]. auto.
  - apply andb_true_iff in Hp as [_ H2]. auto.
Qed.

Lemma dump_plain_norm hfun V E cfg sm ia ign :
  no_handlers cfg = true ->
  forall v, plain v = true -> jc_dump hfun V E cfg sm ia ign v = Ok (norm v).
Proof.
  intros Hh. pose proof (no_handlers_none cfg Hh) as Hf.
  induction v using val_ind'; intros Hp; try discriminate Hp; simpl; rewrite Hf; try reflexivity.
  1-4: simpl in Hp;
       rewrite (mapM_ok_Forall _ _ norm l (Forall_forallb_conj _ _ _ H Hp)); [reflexivity|];
       intros x [Hx Hpx]; auto.
  simpl in Hp. unfold mapM_values.
  rewrite (mapM_ok_Forall _ _ (fun kv => (fst kv, norm (snd kv))) m
             (Forall_forallb_conj _ (fun kv => plain (snd kv)) _ H Hp)); [reflexivity|].
  intros [k x] [[_ Hx] Hpx]. simpl in *. rewrite (Hx Hpx). reflexivity.
Qed.

(** ** [norm] of plain data *)

Lemma forallb_map {A B} (f : A -> B) (p : B -> bool) l : forallb p (map f l) = forallb (fun x => p (f x)) l.
Proof. induction l; simpl; congruence. Qed.

Lemma forallb_Forall_impl {A} (P : A -> Prop) (p q : A -> bool) l :
  Forall P l -> (forall x, P x -> p x = true -> q x = true) -> forallb p l = true -> forallb q l = true.
Proof.
  intros H Himp. induction H as [|x xs Hx _ IH]; simpl; [reflexivity|].
  intros Hp. apply andb_true_iff in Hp as [H1 H2]. rewrite (Himp x Hx H1), (IH H2). reflexivity.
Qed.

Lemma norm_json_shape : forall v, plain v = true -> json_shape (norm v) = true.
Proof.
  induction v using val_ind'; intros Hp; try discriminate Hp; try reflexivity; simpl in *.
  1-4: rewrite forallb_map; revert Hp; apply forallb_Forall_impl with (1 := H); auto.
  rewrite forallb_map. revert Hp. apply forallb_Forall_impl with (1 := H).
  intros [k x] [_ Hx]; simpl in *; auto.
Qed.

Lemma norm_is_json : forall v, plain v = true -> str_keys v = true -> is_json (norm v) = true.
Proof.
  induction v using val_ind'; intros Hp Hs; try discriminate Hp; try reflexivity; simpl in *.
  1-4: rewrite forallb_map; induction H as [|x xs Hx _ IH]; simpl in *; [reflexivity|];
       apply andb_true_iff in Hp as [Hp1 Hp2]; apply andb_true_iff in Hs as [Hs1 Hs2];
       rewrite (Hx Hp1 Hs1), (IH Hp2 Hs2); reflexivity.
  rewrite forallb_map. induction H as [|[k x] xs [_ Hx] _ IH]; simpl in *; [reflexivity|].
  apply andb_true_iff in Hp as [Hp1 Hp2]. apply andb_true_iff in Hs as [Hs1 Hs2].
  apply andb_true_iff in Hs1 as [Hk Hs1].
  destruct k; try discriminate Hk. rewrite (Hx Hp1 Hs1), (IH Hp2 Hs2). reflexivity.
Qed.

Lemma assoc_map_values (f : val -> val) k m :
  assoc k (map (fun kv => (fst kv, f (snd kv))) m) = option_map f (assoc k m).
Proof.
  induction m as [|[k' x] r IH]; simpl; [reflexivity|]. destruct (py_eq k k'); [reflexivity | exact IH].
Qed.

Lemma dhas_map_values (f : val -> val) m k :
  dhas (map (fun kv => (fst kv, f (snd kv))) m) k = dhas m k.
Proof. unfold dhas, dget. rewrite assoc_map_values. destruct (assoc (VStr k) m); reflexivity. Qed.

Lemma norm_no_descriptor : forall v, no_descriptor v = true -> no_descriptor (norm v) = true.
Proof.
  induction v using val_ind'; intros Hp; try reflexivity; simpl in *.
  1-4: rewrite forallb_map; revert Hp; apply forallb_Forall_impl with (1 := H); auto.
  apply andb_true_iff in Hp as [Hd Hp]. rewrite dhas_map_values, Hd. simpl.
  rewrite forallb_map. revert Hp. apply forallb_Forall_impl with (1 := H).
  intros [k x] [_ Hx]; simpl in *; auto.
Qed.

(** every primitive keeps its constructor and its value: the leaves of [norm v] are the leaves of [v] *)
Lemma flat_map_map {A B C} (f : A -> B) (g : B -> list C) l : flat_map g (map f l) = flat_map (fun x => g (f x)) l.
Proof. induction l; simpl; congruence. Qed.

Lemma flat_map_ext_Forall {A B} (P : A -> Prop) (f g : A -> list B) l :
  Forall P l -> (forall x, P x -> f x = g x) -> flat_map f l = flat_map g l.
Proof. intros H Hfg. induction H as [|x xs Hx _ IH]; simpl; [reflexivity|]. now rewrite (Hfg x Hx), IH. Qed.

Lemma norm_leaves : forall v, leaves (norm v) = leaves v.
Proof.
  induction v using val_ind'; try reflexivity; simpl.
  1-4: rewrite flat_map_map; apply flat_map_ext_Forall with (1 := H); auto.
  rewrite flat_map_map. apply flat_map_ext_Forall with (1 := H). intros [k x] [_ Hx]; simpl in *; auto.
Qed.

(** [leaves] lists primitives only, so "constructor-exact" is literal equality of the lists *)
Lemma plain_leaves_prim : forall v, plain v = true -> forallb is_prim (leaves v) = true.
Proof.
  induction v using val_ind'; intros Hp; try discriminate Hp; try reflexivity; simpl in *.
  1-4: induction H as [|x xs Hx _ IH]; simpl in *; [reflexivity|];
       apply andb_true_iff in Hp as [Hp1 Hp2]; rewrite forallb_app, (Hx Hp1), (IH Hp2); reflexivity.
  induction H as [|[k x] xs [_ Hx] _ IH]; simpl in *; [reflexivity|].
  apply andb_true_iff in Hp as [Hp1 Hp2]. rewrite forallb_app, (Hx Hp1), (IH Hp2). reflexivity.
Qed.

(** ** load on descriptor-free JSON shapes is the identity, writes nothing, imports nothing *)

Lemma load_seq_id (f : val -> lres) l :
  Forall (fun x => f x = (Ok x, x, [])) l -> load_seq f l = (Ok l, l, []).
Proof.
  intros H. induction H as [|x xs Hx _ IH]; [reflexivity|].
  simpl. rewrite Hx. fold (load_seq f). rewrite IH. reflexivity.
Qed.

Lemma load_items_id (f : val -> lres) m :
  Forall (fun kx => f (snd kx) = (Ok (snd kx), snd kx, [])) m -> load_items f m = (Ok m, m, []).
Proof.
  intros H. induction H as [|[k x] xs Hx _ IH]; [reflexivity|].
  simpl in *. rewrite Hx. fold (load_items f). rewrite IH. reflexivity.
Qed.

Lemma load_json_id V E :
  forall w, json_shape w = true -> no_descriptor w = true ->
  forall cl, jc_load_m V E cl w = (Ok w, w, []).
Proof.
  induction w using val_ind'; intros Hj Hn cl; try discriminate Hj; try reflexivity; simpl in *.
  - rewrite load_seq_id; [reflexivity|].
    pose proof (Forall_forallb_conj _ _ _ (Forall_forallb_conj _ _ _ H Hj) Hn) as HF.
    eapply Forall_impl; [|exact HF]. intros x [[Hx Hjx] Hnx]. auto.
  - apply andb_true_iff in Hn as [Hd Hn]. rewrite Hd. simpl.
    rewrite load_items_id; [reflexivity|].
    pose proof (Forall_forallb_conj _ (fun kv => no_descriptor (snd kv)) _
                  (Forall_forallb_conj _ (fun kv => json_shape (snd kv)) _ H Hj) Hn) as HF.
    eapply Forall_impl; [|exact HF]. intros [k x] [[[_ Hx] Hjx] Hnx]. simpl in *. auto.
Qed.

(** ** load leaves its argument as it found it, up to the position of "__jsonclass__" *)

Definition cv (kv : val * val) : val * val := (fst kv, canon (snd kv)).

Lemma load_seq_arg (f : val -> lres) l :
  Forall (fun x => canon (lres_arg (f x)) = canon x) l ->
  map canon (snd (fst (load_seq f l))) = map canon l.
Proof.
  intros H. induction H as [|x xs Hx _ IH]; [reflexivity|].
  simpl. fold (load_seq f). unfold lres_arg in Hx.
  destruct (f x) as [[r x'] ev]. simpl in Hx.
  destruct r as [y|e]; simpl.
  - destruct (load_seq f xs) as [[rs xs'] evs]. simpl in *. now rewrite Hx, IH.
  - now rewrite Hx.
Qed.

Lemma load_items_arg (f : val -> lres) m :
  Forall (fun kx => canon (lres_arg (f (snd kx))) = canon (snd kx)) m ->
  map cv (snd (fst (load_items f m))) = map cv m.
Proof.
  intros H. induction H as [|[k x] xs Hx _ IH]; [reflexivity|].
  simpl in *. fold (load_items f). unfold lres_arg in Hx.
  destruct (f x) as [[r x'] ev]. simpl in Hx.
  destruct r as [y|e]; simpl.
  - destruct (load_items f xs) as [[rs xs'] evs]. simpl in *. unfold cv at 1 3. simpl. now rewrite Hx, IH.
  - unfold cv at 1 3. simpl. now rewrite Hx.
Qed.

Lemma drop_jc_cons k x r :
  drop_jc ((k, x) :: r) = if py_eq jsonclass_key k then drop_jc r else (k, x) :: drop_jc r.
Proof. unfold drop_jc. cbn [filter fst]. destruct (py_eq jsonclass_key k); reflexivity. Qed.

Lemma drop_jc_map_cv m : drop_jc (map cv m) = map cv (drop_jc m).
Proof.
  induction m as [|[k x] r IH]; [reflexivity|]. cbn [map]. unfold cv at 1. cbn [fst snd].
  rewrite !drop_jc_cons. destruct (py_eq jsonclass_key k); cbn [map]; now rewrite IH.
Qed.

Lemma drop_jc_idem m : drop_jc (drop_jc m) = drop_jc m.
Proof.
  induction m as [|[k x] r IH]; [reflexivity|]. rewrite drop_jc_cons.
  destruct (py_eq jsonclass_key k) eqn:Hk; [exact IH|]. rewrite drop_jc_cons, Hk. now rewrite IH.
Qed.

Lemma drop_jc_app a b : drop_jc (a ++ b) = (drop_jc a ++ drop_jc b)%list.
Proof. unfold drop_jc. apply filter_app. Qed.

Lemma py_eq_jc_refl : py_eq jsonclass_key jsonclass_key = true.
Proof. reflexivity. Qed.

Lemma dget_drop_jc_app m x :
  dget (drop_jc m ++ [(jsonclass_key, x)]) "__jsonclass__" = Some x.
Proof.
  unfold dget. fold jsonclass_key. induction m as [|[k y] r IH]; [reflexivity|]. rewrite drop_jc_cons.
  destruct (py_eq jsonclass_key k) eqn:Hk; [exact IH|].
  cbn [app assoc]. rewrite Hk. exact IH.
Qed.

Lemma setattr_loop_arg E (f : val -> lres) m :
  Forall (fun kx => canon (lres_arg (f (snd kx))) = canon (snd kx)) m ->
  forall obj, map cv (snd (fst (setattr_loop E f m obj))) = map cv (drop_jc m).
Proof.
  intros H. induction H as [|[k x] xs Hx _ IH]; intros obj; [reflexivity|].
  cbn [setattr_loop fst snd] in *. fold (setattr_loop E f). rewrite drop_jc_cons.
  destruct (py_eq jsonclass_key k) eqn:Hk; [apply IH|].
  unfold lres_arg in Hx. destruct (f x) as [[r x'] ev]. simpl in Hx.
  destruct r as [y|e]; simpl.
  - destruct (py_setattr E obj k y) as [obj'|e]; simpl.
    + specialize (IH obj'). destruct (setattr_loop E f xs obj') as [[r2 more'] ev2]. simpl in *.
      unfold cv at 1 3. simpl. now rewrite Hx, IH.
    + unfold cv at 1 3. simpl. now rewrite Hx.
  - unfold cv at 1 3. simpl. now rewrite Hx.
Qed.

Lemma canon_dict_unfold m :
  canon (VDict m) =
  VDict (drop_jc (map cv m) ++ match dget (map cv m) "__jsonclass__" with
                               | Some x => [(jsonclass_key, x)] | None => [] end).
Proof. reflexivity. Qed.

Lemma canon_restored m rest' raw :
  dget m "__jsonclass__" = Some raw ->
  map cv rest' = map cv (drop_jc m) ->
  canon (VDict (rest' ++ [(jsonclass_key, raw)])) = canon (VDict m).
Proof.
  intros Hraw Hrest. rewrite !canon_dict_unfold.
  assert (Hget : dget (map cv m) "__jsonclass__" = Some (canon raw)).
  { unfold dget, cv. rewrite assoc_map_values. unfold dget in Hraw. now rewrite Hraw. }
  rewrite Hget.
  assert (Hm : map cv (rest' ++ [(jsonclass_key, raw)]) = (drop_jc (map cv m) ++ [(jsonclass_key, canon raw)])%list).
  { rewrite map_app, Hrest, drop_jc_map_cv. reflexivity. }
  rewrite Hm, dget_drop_jc_app, drop_jc_app, drop_jc_idem.
  rewrite drop_jc_cons. cbn [py_eq_jc_refl]. rewrite py_eq_jc_refl.
  change (drop_jc []) with (@nil (val * val)). rewrite app_nil_r. reflexivity.
Qed.

Theorem load_pure E :
  forall v cl, canon (lres_arg (jc_load_m fixed E cl v)) = canon v.
Proof.
  induction v using val_ind'; intros cl; try reflexivity; simpl.
  1-4: pose proof (load_seq_arg (jc_load_m fixed E cl) l) as HL;
       destruct (load_seq (jc_load_m fixed E cl) l) as [[r l'] ev]; unfold lres_arg; simpl in *;
       f_equal; apply HL; eapply Forall_impl; [|exact H]; intros x Hx; apply Hx.
  destruct (dhas m "__jsonclass__") eqn:Hd; simpl.
  - destruct (descriptor_head E cl m) as [[new_obj|e] ev]; [|reflexivity].
    unfold dhas in Hd. destruct (dget m "__jsonclass__") as [raw|] eqn:Hraw; [|discriminate].
    pose proof (setattr_loop_arg E (jc_load_m fixed E cl) m) as HL.
    assert (HF : Forall (fun kx => canon (lres_arg (jc_load_m fixed E cl (snd kx))) = canon (snd kx)) m).
    { eapply Forall_impl; [|exact H]. intros [k x] [_ Hx]. apply Hx. }
    specialize (HL HF new_obj).
    destruct (setattr_loop E (jc_load_m fixed E cl) m new_obj) as [[r rest'] ev2].
    unfold lres_arg. simpl in HL |- *.
    assert (HR := canon_restored m rest' raw Hraw HL). simpl in HR.
    destruct r; exact HR.
  - pose proof (load_items_arg (jc_load_m fixed E cl) m) as HL.
    assert (HF : Forall (fun kx => canon (lres_arg (jc_load_m fixed E cl (snd kx))) = canon (snd kx)) m).
    { eapply Forall_impl; [|exact H]. intros [k x] [_ Hx]. apply Hx. }
    specialize (HL HF).
    destruct (load_items (jc_load_m fixed E cl) m) as [[r m'] ev]. unfold lres_arg. simpl in HL |- *.
    fold cv. rewrite HL. reflexivity.
Qed.

(** ** The C15 statements *)

Theorem dump_plain hfun E cfg sm ia ign v :
  no_handlers cfg = true -> plain v = true ->
  exists d, jc_dump hfun fixed E cfg sm ia ign v = Ok d /\ json_shape d = true.
Proof.
  intros Hh Hp. exists (norm v). split; [now apply dump_plain_norm | now apply norm_json_shape].
Qed.

Theorem dump_serialisable hfun E cfg sm ia ign v :
  no_handlers cfg = true -> plain v = true -> str_keys v = true ->
  exists d, jc_dump hfun fixed E cfg sm ia ign v = Ok d /\ is_json d = true.
Proof.
  intros Hh Hp Hs. exists (norm v). split; [now apply dump_plain_norm | now apply norm_is_json].
Qed.

Theorem backend_accepts (enc : val -> res str) hfun E cfg sm ia ign v :
  (forall w, is_json w = true -> exists t, enc w = Ok t) ->
  no_handlers cfg = true -> plain v = true -> str_keys v = true ->
  exists d t, jc_dump hfun fixed E cfg sm ia ign v = Ok d /\ enc d = Ok t.
Proof.
  intros Henc Hh Hp Hs. destruct (dump_serialisable hfun E cfg sm ia ign v Hh Hp Hs) as [d [Hd Hj]].
  destruct (Henc d Hj) as [t Ht]. eauto.
Qed.

Theorem roundtrip hfun E cfg sm ia ign v d cl :
  no_handlers cfg = true -> plain v = true -> no_descriptor v = true ->
  jc_dump hfun fixed E cfg sm ia ign v = Ok d ->
  jc_load_m fixed E cl d = (Ok (norm v), d, []).
Proof.
  intros Hh Hp Hn Hd. rewrite (dump_plain_norm hfun fixed E cfg sm ia ign Hh v Hp) in Hd.
  injection Hd as <-. apply load_json_id; [now apply norm_json_shape | now apply norm_no_descriptor].
Qed.

Theorem primitive_exact hfun E cfg sm ia ign v cl :
  no_handlers cfg = true -> plain v = true -> no_descriptor v = true ->
  exists d l, jc_dump hfun fixed E cfg sm ia ign v = Ok d /\ lres_val (jc_load_m fixed E cl d) = Ok l /\
              leaves l = leaves v /\ forallb is_prim (leaves v) = true.
Proof.
  intros Hh Hp Hn. exists (norm v), (norm v).
  pose proof (dump_plain_norm hfun fixed E cfg sm ia ign Hh v Hp) as Hd.
  split; [exact Hd|]. rewrite (roundtrip hfun E cfg sm ia ign v (norm v) cl Hh Hp Hn Hd).
  split; [reflexivity|]. split; [apply norm_leaves | now apply plain_leaves_prim].
Qed.
