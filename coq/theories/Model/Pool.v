(** * Pool — line-granularity interleaving model of jsonrpclib.threadpool.ThreadPool
    (threadpool.py, class ThreadPool), REPAIRED code (findings F5, F6).

    One model step = one executed source line that touches shared state or
    synchronises.  Lines that only touch locals, or only read variables that
    are written exclusively under the pool lock while the reader holds that
    lock, are merged into the following step (they commute with every step
    of every other thread).  Library objects are atomic operations:
    queue.Queue (put/get/get_nowait/task_done/qsize/join, the all_tasks_done
    condition with the queue mutex), threading.Event, RLock, Thread.

    Scope: unbounded queue (queue_size = 0); thread creation succeeds; task
    bodies are two steps (begin, complete) and may stay un-scheduled for any
    length of time (= blocking bodies); start()/stop() are issued by client 0
    only (the controlling thread), enqueue()/join() by any client.
    Definitions only; proofs in Proofs/Pool*.v. *)

From Coq Require Export ZArith List Bool Arith.
Export ListNotations.
Open Scope Z_scope.

Inductive item := ITask (t : nat) | ISent.
Definition item_eqb (a b : item) : bool :=
  match a, b with
  | ITask x, ITask y => Nat.eqb x y
  | ISent, ISent => true
  | _, _ => false
  end.
Definition is_task (i : item) : bool := match i with ITask _ => true | ISent => false end.

Inductive thr := TW (w : nat) | TC (c : nat).
Definition thr_eqb (a b : thr) : bool :=
  match a, b with
  | TW x, TW y | TC x, TC y => Nat.eqb x y
  | _, _ => false
  end.

(** worker labels: ThreadPool.__run *)
Inductive wlabel :=
| WNone          (* thread not created yet *)
| WNew           (* Thread object built (name taken from self._thread_id), not started yet *)
| WLoop          (* while not self._done_event.is_set(): *)
| WGet           (* task = self._queue.get(True, self._timeout)   [blocking; fire = queue.Empty] *)
| WSentDone      (* self._queue.task_done(); return               [task is the stop sentinel] *)
| WLock1         (* with self.__lock:                              [acquire] *)
| WActInc        (*     self.__nb_active_threads += 1 *)
| WUnlock1       (*                                                [release] *)
| WBegin         (* future.execute(method, args, kwargs): the task body starts *)
| WBody          (* the body completes; the future stores the outcome and is done *)
| WTaskDone      (* finally: self._queue.task_done() *)
| WLock2         (* with self.__lock: *)
| WPendDec       (*     self.__nb_pending_task -= 1 *)
| WActDec        (*     self.__nb_active_threads -= 1 *)
| WUnlock2
| WLock3         (* with self.__lock:                              [clean up thread if necessary] *)
| WTest          (*     if nb_threads > min_threads and nb_threads > queue.unfinished_tasks: *)
| WNbDec         (*         self.__nb_threads -= 1; already_cleaned = True; return *)
| WUnlock3R      (*                                                [release, retiring] *)
| WUnlock3       (*                                                [release, looping] *)
| WFLock         (* finally: with self.__lock: *)
| WFRemove       (*     self._threads.remove(threading.current_thread()) *)
| WFNbDec        (*     if not already_cleaned: self.__nb_threads -= 1 *)
| WFUnlock
| WDead.

Inductive kont := KEnq | KStartA (a b : nat) | KStartB (b : nat).   (* who called __start_thread *)
Inductive jkont := JOp | JClear.                                    (* who called join *)

(** client labels: enqueue, __start_thread, start, stop, clear, join *)
Inductive clabel :=
| CDone
(* enqueue *)
| CELock         (* with self.__lock: *)
| CEPut          (*     self._queue.put((method, args, kwargs, future), True, self._timeout) *)
| CEPend         (*     self.__nb_pending_task += 1 *)
| CETest         (*     if self.__nb_pending_task > self.__nb_threads: self.__start_thread() *)
| CEUnlock
(* __start_thread *)
| CSLock (k : kont)
| CSTest (k : kont)              (* if nb_threads >= max: return False / if self._done_event.is_set(): return False *)
| CSNbInc (k : kont)             (* name = ...; self._thread_id += 1; thread = Thread(...); self.__nb_threads += 1 *)
| CSTStart (k : kont) (w : nat)  (* thread.start() *)
| CSAppend (k : kont) (w : nat)  (* self._threads.append(thread) *)
| CSUnlock (k : kont)
(* start *)
| CSTTest        (* if not self._done_event.is_set(): return *)
| CSTClear       (* self._done_event.clear() *)
| CSTQsize       (* nb_pending_tasks = self._queue.qsize() ... *)
| CSTLoopA (a b : nat)   (* for _ in range(nb_pending_tasks): self.__nb_pending_task += 1; self.__start_thread() *)
| CSTLoopB (b : nat)     (* for _ in range(nb_threads - nb_pending_tasks): self.__start_thread() *)
(* stop *)
| CSPTest        (* if self._done_event.is_set(): return *)
| CSPSet         (* self._done_event.set() *)
| CSPLock
| CSPPut (n : nat)       (* for _ in self._threads: self._queue.put(self._done_event, True, self._timeout) *)
| CSPCopy                (* threads = self._threads[:] *)
| CSPUnlock (ths : list nat)
| CSPAlive (ths : list nat)  (* for thread in threads: while thread.is_alive(): *)
| CSPJoin (ths : list nat)   (*     thread.join(3) *)
| CSPAlive2 (ths : list nat) (*     if thread.is_alive(): (warning) *)
| CSPDel                 (* del self._threads[:] *)
(* clear (called by stop) *)
| CCLLock
| CCLGet                 (* self._queue.get_nowait() / except queue.Empty *)
| CCLDone                (* self._queue.task_done() *)
| CCLUnlock
(* join *)
| CJTest (timed : bool) (k : jkont)   (* if not self._queue.unfinished_tasks: return True *)
| CJQJoin (k : jkont)                 (* self._queue.join() *)
| CJEnter                             (* with self._queue.all_tasks_done: *)
| CJWait                              (*     self._queue.all_tasks_done.wait(timeout)  [releases the mutex, parks] *)
| CJParked (e : nat)                  (*     ... parked until notify_all or timeout *)
| CJReacq                             (*     ... re-acquires the mutex *)
| CJRet                               (*     return not bool(self._queue.unfinished_tasks) *)
| CJExit (r : bool).                  (*                                                  [release the mutex] *)

Inductive op := OStart | OStop | OEnqueue | OJoin (timed : bool).

Record wst := mkW { wpc : wlabel; wheld : option item; wclean : bool }.
Record cst := mkC { cpc : clabel; cprog : list op; cjcall : nat }.

Definition w0 : wst := mkW WNone None false.

Record st := mkSt {
  maxT : Z; minT : Z;                       (* validated configuration: 1 <= maxT, 0 <= minT <= maxT *)
  stopped : bool;                           (* self._done_event *)
  q : list item;                            (* self._queue *)
  unfinished : Z;                           (* self._queue.unfinished_tasks *)
  qmutex : option nat;                      (* client holding the queue mutex through all_tasks_done *)
  epoch : nat;                              (* number of notify_all calls on all_tasks_done so far *)
  lock : option (thr * nat);                (* self.__lock : owner, depth *)
  threads : list nat;                       (* self._threads *)
  next_w : nat;                             (* number of worker threads ever created *)
  nb_threads : Z; nb_active : Z; nb_pending : Z;
  next_task : nat;                          (* tasks are numbered in put order *)
  ws : nat -> wst;                          (* workers *)
  cs : nat -> cst;                          (* clients *)
  (* history / monitors (ghost: never read by the transitions' control flow) *)
  tstarts : nat -> nat;                     (* how many times task t's body began *)
  tdone : nat -> bool;                      (* the future of task t is done (outcome = body's outcome) *)
  tdropped : nat -> bool;                   (* task t was removed from the queue by clear() *)
  start_log : list nat;                     (* tasks in the order their bodies began (most recent first) *)
  stop_done : bool;                         (* stop() has returned and start() has not been called since *)
  start_done : bool;                        (* start() has returned and stop() has not been called since *)
  join_bad : bool;                          (* MONITOR: a join returned True with an earlier task unsettled *)
  joinf_bad : bool;                         (* MONITOR: a join returned False although untimed or nothing unfinished *)
  late_start : bool                         (* MONITOR: a task body began while stop_done *)
}.

Definition upd {A} (f : nat -> A) (i : nat) (a : A) : nat -> A :=
  fun j => if Nat.eqb j i then a else f j.

(** ** small setters (explicit, so that proofs see exactly which fields move) *)

Definition set_w (s : st) (w : nat) (x : wst) : st :=
  mkSt (maxT s) (minT s) (stopped s) (q s) (unfinished s) (qmutex s) (epoch s) (lock s) (threads s) (next_w s)
       (nb_threads s) (nb_active s) (nb_pending s) (next_task s) (upd (ws s) w x) (cs s)
       (tstarts s) (tdone s) (tdropped s) (start_log s) (stop_done s) (start_done s) (join_bad s) (joinf_bad s) (late_start s).
Definition set_c (s : st) (c : nat) (x : cst) : st :=
  mkSt (maxT s) (minT s) (stopped s) (q s) (unfinished s) (qmutex s) (epoch s) (lock s) (threads s) (next_w s)
       (nb_threads s) (nb_active s) (nb_pending s) (next_task s) (ws s) (upd (cs s) c x)
       (tstarts s) (tdone s) (tdropped s) (start_log s) (stop_done s) (start_done s) (join_bad s) (joinf_bad s) (late_start s).
Definition set_lock (s : st) (l : option (thr * nat)) : st :=
  mkSt (maxT s) (minT s) (stopped s) (q s) (unfinished s) (qmutex s) (epoch s) l (threads s) (next_w s)
       (nb_threads s) (nb_active s) (nb_pending s) (next_task s) (ws s) (cs s)
       (tstarts s) (tdone s) (tdropped s) (start_log s) (stop_done s) (start_done s) (join_bad s) (joinf_bad s) (late_start s).
Definition set_queue (s : st) (q' : list item) (u : Z) (e : nat) : st :=
  mkSt (maxT s) (minT s) (stopped s) q' u (qmutex s) e (lock s) (threads s) (next_w s)
       (nb_threads s) (nb_active s) (nb_pending s) (next_task s) (ws s) (cs s)
       (tstarts s) (tdone s) (tdropped s) (start_log s) (stop_done s) (start_done s) (join_bad s) (joinf_bad s) (late_start s).
Definition set_qmutex (s : st) (m : option nat) : st :=
  mkSt (maxT s) (minT s) (stopped s) (q s) (unfinished s) m (epoch s) (lock s) (threads s) (next_w s)
       (nb_threads s) (nb_active s) (nb_pending s) (next_task s) (ws s) (cs s)
       (tstarts s) (tdone s) (tdropped s) (start_log s) (stop_done s) (start_done s) (join_bad s) (joinf_bad s) (late_start s).
Definition set_counters (s : st) (nt na np : Z) : st :=
  mkSt (maxT s) (minT s) (stopped s) (q s) (unfinished s) (qmutex s) (epoch s) (lock s) (threads s) (next_w s)
       nt na np (next_task s) (ws s) (cs s)
       (tstarts s) (tdone s) (tdropped s) (start_log s) (stop_done s) (start_done s) (join_bad s) (joinf_bad s) (late_start s).
Definition set_threads (s : st) (l : list nat) (n : nat) : st :=
  mkSt (maxT s) (minT s) (stopped s) (q s) (unfinished s) (qmutex s) (epoch s) (lock s) l n
       (nb_threads s) (nb_active s) (nb_pending s) (next_task s) (ws s) (cs s)
       (tstarts s) (tdone s) (tdropped s) (start_log s) (stop_done s) (start_done s) (join_bad s) (joinf_bad s) (late_start s).
Definition set_stopped (s : st) (b sd std : bool) : st :=
  mkSt (maxT s) (minT s) b (q s) (unfinished s) (qmutex s) (epoch s) (lock s) (threads s) (next_w s)
       (nb_threads s) (nb_active s) (nb_pending s) (next_task s) (ws s) (cs s)
       (tstarts s) (tdone s) (tdropped s) (start_log s) sd std (join_bad s) (joinf_bad s) (late_start s).
Definition set_next_task (s : st) (n : nat) : st :=
  mkSt (maxT s) (minT s) (stopped s) (q s) (unfinished s) (qmutex s) (epoch s) (lock s) (threads s) (next_w s)
       (nb_threads s) (nb_active s) (nb_pending s) n (ws s) (cs s)
       (tstarts s) (tdone s) (tdropped s) (start_log s) (stop_done s) (start_done s) (join_bad s) (joinf_bad s) (late_start s).
Definition set_hist (s : st) (ts : nat -> nat) (td tdr : nat -> bool) (sl : list nat) (ls : bool) : st :=
  mkSt (maxT s) (minT s) (stopped s) (q s) (unfinished s) (qmutex s) (epoch s) (lock s) (threads s) (next_w s)
       (nb_threads s) (nb_active s) (nb_pending s) (next_task s) (ws s) (cs s)
       ts td tdr sl (stop_done s) (start_done s) (join_bad s) (joinf_bad s) ls.
Definition set_jmon (s : st) (jb jf : bool) : st :=
  mkSt (maxT s) (minT s) (stopped s) (q s) (unfinished s) (qmutex s) (epoch s) (lock s) (threads s) (next_w s)
       (nb_threads s) (nb_active s) (nb_pending s) (next_task s) (ws s) (cs s)
       (tstarts s) (tdone s) (tdropped s) (start_log s) (stop_done s) (start_done s) jb jf (late_start s).

(** ** RLock *)
Definition acquire (s : st) (t : thr) : option st :=
  match lock s with
  | None => Some (set_lock s (Some (t, 1%nat)))
  | Some (o, d) => if thr_eqb o t then Some (set_lock s (Some (t, S d))) else None
  end.
Definition release (s : st) (t : thr) : option st :=
  match lock s with
  | Some (o, S d) => if thr_eqb o t then Some (set_lock s (match d with O => None | _ => Some (t, d) end)) else None
  | _ => None
  end.

(** queue.task_done(): unfinished -= 1, notify_all when it reaches 0 *)
Definition task_done (s : st) : st :=
  let u := unfinished s - 1 in
  set_queue s (q s) u (if u <=? 0 then S (epoch s) else epoch s).

Definition qfree (s : st) : bool := match qmutex s with None => true | Some _ => false end.

(** ** worker transitions *)
Definition wgo (s : st) (w : nat) (l : wlabel) : st :=
  let x := ws s w in set_w s w (mkW l (wheld x) (wclean x)).

Definition settled (s : st) (t : nat) : bool := tdone s t || tdropped s t.

Definition wstep (s : st) (w : nat) (fire : bool) : option st :=
  let x := ws s w in
  match wpc x with
  | WNone | WNew | WDead => None
  | WLoop => if fire then None else Some (wgo s w (if stopped s then WFLock else WGet))
  | WGet =>
      if fire then match q s with [] => Some (wgo s w WLock3) | _ => None end
      else if qfree s then
        match q s with
        | [] => None
        | it :: r =>
            Some (set_w (set_queue s r (unfinished s) (epoch s)) w
                        (mkW (match it with ISent => WSentDone | ITask _ => WLock1 end) (Some it) (wclean x)))
        end
      else None
  | WSentDone => if fire || negb (qfree s) then None else Some (wgo (task_done s) w WFLock)
  | WLock1 => if fire then None else option_map (fun s' => wgo s' w WActInc) (acquire s (TW w))
  | WActInc => if fire then None else
      Some (wgo (set_counters s (nb_threads s) (nb_active s + 1) (nb_pending s)) w WUnlock1)
  | WUnlock1 => if fire then None else option_map (fun s' => wgo s' w WBegin) (release s (TW w))
  | WBegin => if fire then None else
      match wheld x with
      | Some (ITask t) =>
          Some (wgo (set_hist s (upd (tstarts s) t (S (tstarts s t))) (tdone s) (tdropped s) (t :: start_log s)
                              (late_start s || stop_done s)) w WBody)
      | _ => None
      end
  | WBody => if fire then None else
      match wheld x with
      | Some (ITask t) =>
          Some (wgo (set_hist s (tstarts s) (upd (tdone s) t true) (tdropped s) (start_log s) (late_start s)) w WTaskDone)
      | _ => None
      end
  | WTaskDone => if fire || negb (qfree s) then None else Some (wgo (task_done s) w WLock2)
  | WLock2 => if fire then None else option_map (fun s' => wgo s' w WPendDec) (acquire s (TW w))
  | WPendDec => if fire then None else
      Some (wgo (set_counters s (nb_threads s) (nb_active s) (nb_pending s - 1)) w WActDec)
  | WActDec => if fire then None else
      Some (wgo (set_counters s (nb_threads s) (nb_active s - 1) (nb_pending s)) w WUnlock2)
  | WUnlock2 => if fire then None else option_map (fun s' => wgo s' w WLock3) (release s (TW w))
  | WLock3 => if fire then None else option_map (fun s' => wgo s' w WTest) (acquire s (TW w))
  | WTest => if fire then None else
      Some (wgo s w (if (minT s <? nb_threads s) && (unfinished s <? nb_threads s) then WNbDec else WUnlock3))
  | WNbDec => if fire then None else
      Some (set_w (set_counters s (nb_threads s - 1) (nb_active s) (nb_pending s)) w (mkW WUnlock3R (wheld x) true))
  | WUnlock3R => if fire then None else option_map (fun s' => wgo s' w WFLock) (release s (TW w))
  | WUnlock3 => if fire then None else option_map (fun s' => wgo s' w WLoop) (release s (TW w))
  | WFLock => if fire then None else option_map (fun s' => wgo s' w WFRemove) (acquire s (TW w))
  | WFRemove => if fire then None else
      Some (wgo (set_threads s (remove Nat.eq_dec w (threads s)) (next_w s)) w WFNbDec)
  | WFNbDec => if fire then None else
      Some (wgo (if wclean x then s else set_counters s (nb_threads s - 1) (nb_active s) (nb_pending s)) w WFUnlock)
  | WFUnlock => if fire then None else option_map (fun s' => wgo s' w WDead) (release s (TW w))
  end.

(** ** client transitions *)

Definition first_label (c : nat) (o : op) : option clabel :=
  match o with
  | OEnqueue => Some CELock
  | OJoin timed => Some (CJTest timed JOp)
  | OStart => if Nat.eqb c 0 then Some CSTTest else None     (* lifecycle calls: controlling thread only *)
  | OStop => if Nat.eqb c 0 then Some CSPTest else None
  end.

(** the current call returns: go to the first label of the next call of the program *)
Fixpoint next_call (c : nat) (p : list op) : clabel * list op :=
  match p with
  | [] => (CDone, [])
  | o :: r => match first_label c o with Some l => (l, r) | None => next_call c r end
  end.

Definition cgo (s : st) (c : nat) (l : clabel) : st :=
  let x := cs s c in set_c s c (mkC l (cprog x) (cjcall x)).
Definition cret (s : st) (c : nat) : st :=
  let x := cs s c in
  let '(l, r) := next_call c (cprog x) in
  set_c s c (mkC l r (match l with CJTest _ _ => next_task s | _ => cjcall x end)).

Definition kret (k : kont) : clabel :=
  match k with KEnq => CEUnlock | KStartA a b => CSTLoopA a b | KStartB b => CSTLoopB b end.

(** join returns r to its caller *)
Definition all_settled_below (s : st) (n : nat) : bool := forallb (settled s) (seq 0 n).
Definition jreturn (s : st) (c : nat) (k : jkont) (r : bool) (timed : bool) : st :=
  match k with
  | JClear => cgo s c CCLUnlock
  | JOp =>
      let s1 := set_jmon s (join_bad s || (r && negb (all_settled_below s (cjcall (cs s c)))))
                           (joinf_bad s || (negb r && (negb timed || (unfinished s <=? 0)))) in
      cret s1 c
  end.

(** join with work outstanding: the timed variant exists for client calls only (clear() calls join()) *)
Definition jnext (timed : bool) (k : jkont) : clabel :=
  match k with
  | JClear => CJQJoin JClear
  | JOp => if timed then CJEnter else CJQJoin JOp
  end.

(** loop heads that are not yield points of their own: an exhausted loop falls through *)
Definition spput (n : nat) : clabel := match n with O => CSPCopy | S _ => CSPPut n end.
Definition spalive (ths : list nat) : clabel := match ths with [] => CSPDel | _ => CSPAlive ths end.

Definition cstep (s : st) (c : nat) (fire : bool) : option st :=
  let x := cs s c in
  match cpc x with
  | CDone => None
  (* ---- enqueue *)
  | CELock => if fire then None else option_map (fun s' => cgo s' c CEPut) (acquire s (TC c))
  | CEPut => if fire || negb (qfree s) then None else
      let t := next_task s in
      Some (cgo (set_next_task (set_queue s (q s ++ [ITask t]) (unfinished s + 1) (epoch s)) (S t)) c CEPend)
  | CEPend => if fire then None else
      Some (cgo (set_counters s (nb_threads s) (nb_active s) (nb_pending s + 1)) c CETest)
  | CETest => if fire then None else
      Some (cgo s c (if nb_threads s <? nb_pending s then CSLock KEnq else CEUnlock))
  | CEUnlock => if fire then None else option_map (fun s' => cret s' c) (release s (TC c))
  (* ---- __start_thread *)
  | CSLock k => if fire then None else option_map (fun s' => cgo s' c (CSTest k)) (acquire s (TC c))
  | CSTest k => if fire then None else
      Some (cgo s c (if (maxT s <=? nb_threads s) || stopped s then CSUnlock k else CSNbInc k))
  | CSNbInc k => if fire then None else
      let w := next_w s in
      Some (cgo (set_w (set_threads (set_counters s (nb_threads s + 1) (nb_active s) (nb_pending s)) (threads s) (S w))
                       w (mkW WNew None false)) c (CSTStart k w))
  | CSTStart k w => if fire then None else
      Some (cgo (set_w s w (mkW WLoop None false)) c (CSAppend k w))
  | CSAppend k w => if fire then None else
      Some (cgo (set_threads s (threads s ++ [w]) (next_w s)) c (CSUnlock k))
  | CSUnlock k => if fire then None else option_map (fun s' => cgo s' c (kret k)) (release s (TC c))
  (* ---- start *)
  | CSTTest => if fire then None else Some (if stopped s then cgo s c CSTClear else cret s c)
  | CSTClear => if fire then None else Some (cgo (set_stopped s false false false) c CSTQsize)
  | CSTQsize => if fire || negb (qfree s) then None else
      let n := Z.of_nat (length (q s)) in
      let '(a, b) := if maxT s <? n then (maxT s, 0)
                     else if n <? minT s then (n, minT s - n) else (n, 0) in
      Some (cgo s c (CSTLoopA (Z.to_nat a) (Z.to_nat b)))
  | CSTLoopA a b => if fire then None else
      match a with
      | O => Some (cgo s c (CSTLoopB b))
      | S a' => Some (cgo (set_counters s (nb_threads s) (nb_active s) (nb_pending s + 1)) c (CSLock (KStartA a' b)))
      end
  | CSTLoopB b => if fire then None else
      match b with
      | O => Some (cret (set_stopped s (stopped s) (stop_done s) true) c)
      | S b' => Some (cgo s c (CSLock (KStartB b')))
      end
  (* ---- stop *)
  | CSPTest => if fire then None else Some (if stopped s then cret s c else cgo s c CSPSet)
  | CSPSet => if fire then None else Some (cgo (set_stopped s true false false) c CSPLock)
  | CSPLock => if fire then None else
      option_map (fun s' => cgo s' c (spput (length (threads s)))) (acquire s (TC c))
  | CSPPut n => if fire then None else
      match n with
      | O => Some (cgo s c CSPCopy)
      | S n' => if qfree s then Some (cgo (set_queue s (q s ++ [ISent]) (unfinished s + 1) (epoch s)) c (spput n')) else None
      end
  | CSPCopy => if fire then None else Some (cgo s c (CSPUnlock (threads s)))
  | CSPUnlock ths => if fire then None else option_map (fun s' => cgo s' c (spalive ths)) (release s (TC c))
  | CSPAlive ths => if fire then None else
      match ths with
      | [] => Some (cgo s c CSPDel)
      | w :: r => Some (cgo s c (match wpc (ws s w) with WDead => spalive r | _ => CSPJoin ths end))
      end
  | CSPJoin ths =>
      match ths with
      | [] => if fire then None else Some (cgo s c CSPDel)
      | w :: r =>
          if fire then Some (cgo s c (CSPAlive2 ths))          (* join(3) timed out *)
          else match wpc (ws s w) with WDead => Some (cgo s c (CSPAlive2 ths)) | _ => None end
      end
  | CSPAlive2 ths => if fire then None else Some (cgo s c (CSPAlive ths))
  | CSPDel => if fire then None else Some (cgo (set_threads s [] (next_w s)) c CCLLock)
  (* ---- clear *)
  | CCLLock => if fire then None else option_map (fun s' => cgo s' c CCLGet) (acquire s (TC c))
  | CCLGet => if fire || negb (qfree s) then None else
      match q s with
      | [] => Some (cgo s c (CJTest false JClear))
      | it :: r =>
          let s1 := set_queue s r (unfinished s) (epoch s) in
          let s2 := match it with
                    | ITask t => set_hist s1 (tstarts s1) (tdone s1) (upd (tdropped s1) t true) (start_log s1) (late_start s1)
                    | ISent => s1
                    end in
          Some (cgo s2 c CCLDone)
      end
  | CCLDone => if fire || negb (qfree s) then None else Some (cgo (task_done s) c CCLGet)
  | CCLUnlock => if fire then None else
      option_map (fun s' => cret (set_stopped s' (stopped s') true false) c) (release s (TC c))
  (* ---- join *)
  | CJTest timed k => if fire then None else
      if unfinished s <=? 0 then Some (jreturn s c k true timed)
      else Some (cgo s c (jnext timed k))
  | CJQJoin k => if fire || negb (qfree s) then None else
      if unfinished s <=? 0 then Some (jreturn s c k true false) else None
  | CJEnter => if fire || negb (qfree s) then None else Some (cgo (set_qmutex s (Some c)) c CJWait)
  | CJWait => if fire then None else Some (cgo (set_qmutex s None) c (CJParked (epoch s)))
  | CJParked e =>
      if fire then Some (cgo s c CJReacq)
      else if Nat.eqb e (epoch s) then None else Some (cgo s c CJReacq)
  | CJReacq => if fire || negb (qfree s) then None else Some (cgo (set_qmutex s (Some c)) c CJRet)
  | CJRet => if fire then None else Some (cgo s c (CJExit (unfinished s <=? 0)))
  | CJExit r => if fire then None else Some (jreturn (set_qmutex s None) c JOp r true)
  end.

Definition step (s : st) (t : thr) (fire : bool) : option st :=
  match t with TW w => wstep s w fire | TC c => cstep s c fire end.

(** every list is a schedule: disabled choices are skipped *)
Fixpoint run (sched : list (thr * bool)) (s : st) : st :=
  match sched with
  | [] => s
  | (t, f) :: r => run r (match step s t f with Some s' => s' | None => s end)
  end.

(** ** constructor validation (ThreadPool.__init__): int() of the arguments is the caller's job here *)
Definition pool_ctor (mx mn : Z) : option (Z * Z) :=
  if mx <? 1 then None
  else Some (mx, if mn <? 0 then 0 else if mx <? mn then mx else mn).

Definition init (mx mn : Z) (progs : nat -> list op) : st :=
  mkSt mx mn true [] 0 None 0%nat None [] 0%nat 0 0 0 0%nat (fun _ => w0)
       (fun c => let '(l, r) := next_call c (progs c) in mkC l r 0%nat)
       (fun _ => 0%nat) (fun _ => false) (fun _ => false) [] false false false false false.
