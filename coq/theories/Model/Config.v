(** * Config — configuration objects on a heap, and serving requests over that heap (property C13).

    Mirrors
      jsonrpclib/config.py
        - [cfgrec]                 the attributes of a Config object; [classes] (a LocalClasses dict) and
                                   [serialize_handlers] (a dict) are held BY REFERENCE: the record stores
                                   the locations of the two dict objects, the heap stores their contents
        - [config_copy]            Config.copy()                                   (config.py:133-150)
        - [apply_op]               attribute assignment on a Config / item assignment and pop on its tables
      jsonrpclib/SimpleJSONRPCServer.py (after the repairs of findings F1, F2, F15)
        - [request_config]         _marshaled_single_dispatch, "Prepare a request-specific configuration"
                                   (the copy, and the write [config.version = 1.0] INTO THE COPY)
        - [single_dispatch_h]      _marshaled_single_dispatch: everything after that reads the version and
                                   use_jsonclass THROUGH the location chosen by [request_config]
        - [answer_entry_h] [batch_h] [unmarshaled_h] [serve]   validate_request + Fault.dump,
                                   _unmarshaled_dispatch, _marshaled_dispatch with the heap threaded through
        - [serve_all]              a history of bodies served one after the other on the same heap
        - [tstep] / [run_sched]    k handler threads executing _marshaled_single_dispatch line by line over
                                   the shared heap, under an arbitrary schedule
    The reply construction itself is Dispatch.v's ([single_dispatch_with], [validate_request], [err_obj] …),
    parameterised by the form that this file obtains by READING the heap.

    Every change of the heap goes through [do_write], which also appends the write (location and new
    content) to the heap's log [h_log]; "which objects were written, and when" is therefore part of
    the model's output.  An unallocated location is an error ([dangling]), never a default.

    Definitions only; proofs are in Proofs/ConfigProofs.v. *)

From JR Require Export Dispatch.

(** ** The heap *)

Definition loc := nat.

Record cfgrec := mkCfg {
  c_version : val;
  c_content_type : val;
  c_user_agent : val;
  c_use_jsonclass : val;
  c_serialize_method : val;
  c_ignore_attribute : val;
  c_classes : loc;              (* identity of the LocalClasses object *)
  c_handlers : loc              (* identity of the serialize_handlers dict *)
}.

Definition table := list (val * val).

(** one write: the object at [l] now has this content (an allocation is the first write to a location) *)
Inductive write :=
| WCfg (l : loc) (r : cfgrec)
| WTab (l : loc) (t : table).

Definition wloc (w : write) : loc := match w with WCfg l _ | WTab l _ => l end.

Record heap := mkHeap {
  h_cfgs : list (loc * cfgrec);
  h_tabs : list (loc * table);
  h_next : loc;                 (* next location to allocate *)
  h_log : list write            (* all writes so far, most recent first *)
}.

Fixpoint lookup_loc {A} (l : loc) (m : list (loc * A)) : option A :=
  match m with
  | [] => None
  | (l', a) :: r => if Nat.eqb l l' then Some a else lookup_loc l r
  end.

(** replace in place if present, else add *)
Fixpoint set_loc {A} (l : loc) (a : A) (m : list (loc * A)) : list (loc * A) :=
  match m with
  | [] => [(l, a)]
  | (l', a') :: r => if Nat.eqb l l' then (l', a) :: r else (l', a') :: set_loc l a r
  end.

(** the only function that changes a heap *)
Definition do_write (h : heap) (w : write) : heap :=
  match w with
  | WCfg l r => mkHeap (set_loc l r (h_cfgs h)) (h_tabs h) (Nat.max (h_next h) (S l)) (w :: h_log h)
  | WTab l t => mkHeap (h_cfgs h) (set_loc l t (h_tabs h)) (Nat.max (h_next h) (S l)) (w :: h_log h)
  end.

Definition dangling : exn := EOther "dangling-location".

Definition get_cfg (h : heap) (l : loc) : res cfgrec :=
  match lookup_loc l (h_cfgs h) with Some r => Ok r | None => Raise dangling end.

Definition get_tab (h : heap) (l : loc) : res table :=
  match lookup_loc l (h_tabs h) with Some t => Ok t | None => Raise dangling end.

(** attribute assignment on an existing object *)
Definition put_cfg (h : heap) (l : loc) (r : cfgrec) : res heap :=
  match lookup_loc l (h_cfgs h) with Some _ => Ok (do_write h (WCfg l r)) | None => Raise dangling end.

Definition put_tab (h : heap) (l : loc) (t : table) : res heap :=
  match lookup_loc l (h_tabs h) with Some _ => Ok (do_write h (WTab l t)) | None => Raise dangling end.

(** object creation: a fresh location *)
Definition alloc_cfg (h : heap) (r : cfgrec) : heap * loc := (do_write h (WCfg (h_next h) r), h_next h).
Definition alloc_tab (h : heap) (t : table) : heap * loc := (do_write h (WTab (h_next h) t), h_next h).

(** ** Snapshot of a Config: the six attributes, the identities of both tables, and their contents *)

Record snap := mkSnap { s_rec : cfgrec; s_classes : table; s_handlers : table }.

Definition snapshot (h : heap) (c : loc) : res snap :=
  do r <- get_cfg h c;
  do cl <- get_tab h (c_classes r);
  do hd <- get_tab h (c_handlers r);
  Ok (mkSnap r cl hd).

(** the configuration object at [c] is complete and lies below the allocation pointer *)
Definition cfg_ok (h : heap) (c : loc) : bool :=
  match lookup_loc c (h_cfgs h) with
  | Some r =>
      Nat.ltb c (h_next h) && Nat.ltb (c_classes r) (h_next h) && Nat.ltb (c_handlers r) (h_next h)
      && match lookup_loc (c_classes r) (h_tabs h), lookup_loc (c_handlers r) (h_tabs h) with
         | Some _, Some _ => true
         | _, _ => false
         end
  | None => false
  end.

(** every allocated object lies below the allocation pointer and every Config is complete *)
Definition heap_wf (h : heap) : bool :=
  forallb (fun p => cfg_ok h (fst p)) (h_cfgs h)
  && forallb (fun p => Nat.ltb (fst p) (h_next h)) (h_tabs h).

(** ** Config.copy()  (config.py:133-150)

    [Config(self.version, …, None)] builds a new object; its constructor replaces a user agent that
    [is None] by the generated default and creates an empty LocalClasses and an empty dict, which
    copy() then replaces by [self.classes.copy()] and [self.serialize_handlers.copy()].  The model
    has the net effect: two fresh tables holding the contents of the originals, and a fresh record
    pointing to them (the two discarded empty tables are not allocated). *)

Definition default_user_agent : val := VStr "<generated-user-agent>".

Definition config_copy (h : heap) (c : loc) : res (heap * loc) :=
  do r <- get_cfg h c;
  do cl <- get_tab h (c_classes r);                (* self.classes.copy() *)
  do hd <- get_tab h (c_handlers r);               (* self.serialize_handlers.copy() *)
  let ua := match c_user_agent r with VNone => default_user_agent | u => u end in
  let '(h1, lc) := alloc_tab h cl in
  let '(h2, lh) := alloc_tab h1 hd in
  let '(h3, c') := alloc_cfg h2 (mkCfg (c_version r) (c_content_type r) ua (c_use_jsonclass r)
                                       (c_serialize_method r) (c_ignore_attribute r) lc lh) in
  Ok (h3, c').

(** ** Mutations of a configuration *)

Inductive op :=
| SetVersion (v : val)             (* cfg.version = v *)
| SetUseJsonclass (v : val)        (* cfg.use_jsonclass = v *)
| SetContentType (v : val)
| SetUserAgent (v : val)
| SetSerializeMethod (v : val)
| SetIgnoreAttr (v : val)
| ClassesAdd (k v : val)           (* cfg.classes[k] = v          (LocalClasses.add(cls, name)) *)
| ClassesDel (k : val)             (* cfg.classes.pop(k, None) *)
| HandlersSet (k v : val)          (* cfg.serialize_handlers[k] = v *)
| HandlersDel (k : val).           (* cfg.serialize_handlers.pop(k, None) *)

Definition with_version (r : cfgrec) (v : val) : cfgrec :=
  mkCfg v (c_content_type r) (c_user_agent r) (c_use_jsonclass r) (c_serialize_method r) (c_ignore_attribute r)
        (c_classes r) (c_handlers r).

Definition apply_op (h : heap) (c : loc) (o : op) : res heap :=
  do r <- get_cfg h c;
  match o with
  | SetVersion v => put_cfg h c (with_version r v)
  | SetUseJsonclass v =>
      put_cfg h c (mkCfg (c_version r) (c_content_type r) (c_user_agent r) v (c_serialize_method r)
                         (c_ignore_attribute r) (c_classes r) (c_handlers r))
  | SetContentType v =>
      put_cfg h c (mkCfg (c_version r) v (c_user_agent r) (c_use_jsonclass r) (c_serialize_method r)
                         (c_ignore_attribute r) (c_classes r) (c_handlers r))
  | SetUserAgent v =>
      put_cfg h c (mkCfg (c_version r) (c_content_type r) v (c_use_jsonclass r) (c_serialize_method r)
                         (c_ignore_attribute r) (c_classes r) (c_handlers r))
  | SetSerializeMethod v =>
      put_cfg h c (mkCfg (c_version r) (c_content_type r) (c_user_agent r) (c_use_jsonclass r) v
                         (c_ignore_attribute r) (c_classes r) (c_handlers r))
  | SetIgnoreAttr v =>
      put_cfg h c (mkCfg (c_version r) (c_content_type r) (c_user_agent r) (c_use_jsonclass r)
                         (c_serialize_method r) v (c_classes r) (c_handlers r))
  | ClassesAdd k v => do t <- get_tab h (c_classes r); put_tab h (c_classes r) (dset t k v)
  | ClassesDel k => do t <- get_tab h (c_classes r); put_tab h (c_classes r) (ddel t k)
  | HandlersSet k v => do t <- get_tab h (c_handlers r); put_tab h (c_handlers r) (dset t k v)
  | HandlersDel k => do t <- get_tab h (c_handlers r); put_tab h (c_handlers r) (ddel t k)
  end.

Fixpoint apply_ops (h : heap) (c : loc) (os : list op) : res heap :=
  match os with
  | [] => Ok h
  | o :: r => do h' <- apply_op h c o; apply_ops h' c r
  end.

(** ** Reading a configuration through its location *)

(** [config.version], restricted to the property's domain {1.0, 2.0} *)
Definition read_form (h : heap) (c : loc) : res form :=
  do r <- get_cfg h c;
  match form_of_version (c_version r) with Some f => Ok f | None => Raise EUnmodelled end.

(** [if config.use_jsonclass:] *)
Definition read_jsonclass (h : heap) (c : loc) : res bool :=
  do r <- get_cfg h c; Ok (truthy (c_use_jsonclass r)).

(** ** Serving over the heap *)

Record hserver := mkHS {
  hs_cfg : loc;                 (* self.json_config *)
  hs_reg : registry;
  hs_pool : bool
}.

Definition one_point_zero : val := VFlt (F 1 1).

(** _marshaled_single_dispatch, lines "Prepare a request-specific configuration":
      if "jsonrpc" not in request and self.json_config.version >= 2:
          config = self.json_config.copy()
          config.version = 1.0
      else:
          config = self.json_config                                                      *)
Definition request_config (h : heap) (srv : loc) (m : list (val * val)) : res (heap * loc) :=
  do f <- read_form h srv;
  if negb (dhas m "jsonrpc") && form_eqb f V2
  then
    do hc <- config_copy h srv;
    let '(h1, c) := hc in
    do h2 <- apply_op h1 c (SetVersion one_point_zero);          (* the write goes to the copy's location *)
    Ok (h2, c)
  else Ok (h, srv).

Section HeapDispatcher.
  Variable body : cid -> val -> outcome.
  Variable sigs : cid -> signature.

  (** the rest of _marshaled_single_dispatch: the notification test, the call, dump(…, config=config) and
      the Faults built with config=config read [version] / [use_jsonclass] through [config]'s location *)
  Definition single_dispatch_h (h : heap) (hs : hserver) (dm : option cid)
             (m : list (val * val)) (method : str) (params : val) : res (heap * (option val * list event)) :=
    do hc <- request_config h (hs_cfg hs) m;
    let '(h1, c) := hc in
    do f <- read_form h1 c;
    do jc <- read_jsonclass h1 c;
    Ok (h1, single_dispatch_with body sigs f (mkSrv (hs_reg hs) (hs_pool hs) jc) dm m method params).

  (** one entry: validate_request(entry, self.json_config); a Fault keeps the server configuration's
      location and Fault.dump() — called at once — reads its version *)
  Definition answer_entry_h (h : heap) (hs : hserver) (dm : option cid) (e : val)
    : res (heap * (option val * list event)) :=
    do f <- read_form h (hs_cfg hs);
    match validate_request f e with
    | Invalid ft => Ok (h, (Some (fault_dump ft), []))
    | Valid m method params => single_dispatch_h h hs dm m method params
    end.

  Fixpoint batch_h (h : heap) (hs : hserver) (dm : option cid) (es : list val)
    : res (heap * (list val * list event)) :=
    match es with
    | [] => Ok (h, ([], []))
    | e :: r =>
        do a <- answer_entry_h h hs dm e;
        let '(h1, (o, l)) := a in
        do b <- batch_h h1 hs dm r;
        let '(h2, (os, ls)) := b in
        Ok (h2, ((opt_list o ++ os)%list, (l ++ ls)%list))
    end.

  Definition unmarshaled_h (h : heap) (hs : hserver) (dm : option cid) (req : val)
    : res (heap * (ureply * list event)) :=
    if negb (truthy req)
    then do f <- read_form h (hs_cfg hs);
         Ok (h, (UObj (err_obj f VNone (-32600) "Request invalid -- no request data."), []))
    else match req with
         | VList es =>
             do b <- batch_h h hs dm es;
             let '(h1, (os, l)) := b in
             Ok (h1, (match os with [] => UNoMulticall | _ => UList os end, l))
         | _ =>
             do a <- answer_entry_h h hs dm req;
             let '(h1, (o, l)) := a in
             Ok (h1, (match o with Some x => UObj x | None => UNone end, l))
         end.

  (** _marshaled_dispatch.  Outer [res]: the model's own errors (dangling location, version outside
      {1.0, 2.0}); inner [res]: the exception json.dumps lets escape (the heap survives it) *)
  Definition serve (h : heap) (hs : hserver) (dm : option cid) (p : parse_outcome)
    : res (heap * res (reply * list event)) :=
    match loads_m p with
    | Raise _ =>
        do f <- read_form h (hs_cfg hs);
        Ok (h, Ok (ROne (err_obj f VNone (-32700) "Request invalid."), []))
    | Ok req =>
        do u <- unmarshaled_h h hs dm req;
        let '(h1, (ur, l)) := u in
        Ok (h1, match ur with
                | UNone | UNoMulticall => Ok (REmpty, l)
                | UObj o => if dumpable o then Ok (ROne o, l) else Raise EType
                | UList os => if forallb dumpable os then Ok (RMany os, l) else Raise EType
                end)
    end.

  (** a history: the bodies are served one after the other, each on the heap the previous one left *)
  Fixpoint serve_all (h : heap) (hs : hserver) (dm : option cid) (ps : list parse_outcome)
    : res (heap * list (res (reply * list event))) :=
    match ps with
    | [] => Ok (h, [])
    | p :: r =>
        do a <- serve h hs dm p;
        let '(h1, x) := a in
        do b <- serve_all h1 hs dm r;
        let '(h2, xs) := b in
        Ok (h2, x :: xs)
    end.

  (** the reply to [p] after the history [hist] *)
  Definition reply_after (h : heap) (hs : hserver) (dm : option cid) (hist : list parse_outcome) (p : parse_outcome)
    : res (res (reply * list event)) :=
    do a <- serve_all h hs dm hist;
    do b <- serve (fst a) hs dm p;
    Ok (snd b).

  (** ** Concurrent serving: k handler threads, each executing _marshaled_single_dispatch on its own
      validated request, line by line, over the shared heap.

      One step = one source line that touches the shared heap:
        LTest     [if "jsonrpc" not in request and self.json_config.version >= 2:]   reads the server config
        LCopy     [config = self.json_config.copy()]            reads the server config and its tables; the new
                                                                 objects are reachable from this thread only
        LSetVer   [config.version = 1.0]                        writes through the thread's [config]
        LKeep     [config = self.json_config]
        LCall     the notification test and the call of the dispatch target (no access to a Config)
        LReply    dump(response, …, config=config) / Fault(…, config=config).dump(): reads [version] and
                  [use_jsonclass] through the thread's [config]; the thread's result is set
      The outcome of the call is a function of the request alone ([single_dispatch_with] computes call
      and reply together), so LCall only advances the program counter. *)

  Inductive pc := PTest | PCopy | PSetVer (c : loc) | PKeep | PCall (c : loc) | PReply (c : loc)
                | PDone (out : option val * list event) | PFailed.

  Record treq := mkTReq { tr_dm : option cid; tr_m : list (val * val); tr_method : str; tr_params : val }.

  Record thread := mkThread { t_req : treq; t_pc : pc }.

  Record cstate := mkCS { cs_heap : heap; cs_threads : list thread }.

  (** one step of one thread; [None]: the thread has terminated (the choice is skipped) *)
  Definition tstep (hs : hserver) (h : heap) (t : thread) : option (heap * pc) :=
    let rq := t_req t in
    match t_pc t with
    | PTest =>
        match read_form h (hs_cfg hs) with
        | Ok f => Some (h, if negb (dhas (tr_m rq) "jsonrpc") && form_eqb f V2 then PCopy else PKeep)
        | Raise _ => Some (h, PFailed)
        end
    | PCopy =>
        match config_copy h (hs_cfg hs) with
        | Ok (h1, c) => Some (h1, PSetVer c)
        | Raise _ => Some (h, PFailed)
        end
    | PSetVer c =>
        match apply_op h c (SetVersion one_point_zero) with
        | Ok h1 => Some (h1, PCall c)
        | Raise _ => Some (h, PFailed)
        end
    | PKeep => Some (h, PCall (hs_cfg hs))
    | PCall c => Some (h, PReply c)
    | PReply c =>
        match read_form h c, read_jsonclass h c with
        | Ok f, Ok jc =>
            Some (h, PDone (single_dispatch_with body sigs f (mkSrv (hs_reg hs) (hs_pool hs) jc)
                                                 (tr_dm rq) (tr_m rq) (tr_method rq) (tr_params rq)))
        | _, _ => Some (h, PFailed)
        end
    | PDone _ | PFailed => None
    end.

  Fixpoint set_nth {A} (n : nat) (a : A) (l : list A) : list A :=
    match l, n with
    | [], _ => []
    | _ :: r, O => a :: r
    | x :: r, S k => x :: set_nth k a r
    end.

  (** the scheduler picks thread [i]; a choice that is not enabled is skipped *)
  Definition cstep (hs : hserver) (s : cstate) (i : nat) : cstate :=
    match nth_error (cs_threads s) i with
    | Some t =>
        match tstep hs (cs_heap s) t with
        | Some (h', p') => mkCS h' (set_nth i (mkThread (t_req t) p') (cs_threads s))
        | None => s
        end
    | None => s
    end.

  Definition run_sched (hs : hserver) (sched : list nat) (s : cstate) : cstate :=
    fold_left (cstep hs) sched s.

  Definition init_threads (reqs : list treq) : list thread := map (fun r => mkThread r PTest) reqs.

End HeapDispatcher.

(** ** Observation interface for the correspondence stage *)

Definition cfgrec_eqb (a b : cfgrec) : bool :=
  val_eqb (c_version a) (c_version b) && val_eqb (c_content_type a) (c_content_type b)
  && val_eqb (c_user_agent a) (c_user_agent b) && val_eqb (c_use_jsonclass a) (c_use_jsonclass b)
  && val_eqb (c_serialize_method a) (c_serialize_method b) && val_eqb (c_ignore_attribute a) (c_ignore_attribute b)
  && Nat.eqb (c_classes a) (c_classes b) && Nat.eqb (c_handlers a) (c_handlers b).

Definition table_eqb (a b : table) : bool :=
  list_eqb (fun p q => val_eqb (fst p) (fst q) && val_eqb (snd p) (snd q)) a b.

Definition snap_eqb (a b : res snap) : bool :=
  match a, b with
  | Ok x, Ok y => cfgrec_eqb (s_rec x) (s_rec y) && table_eqb (s_classes x) (s_classes y)
                  && table_eqb (s_handlers x) (s_handlers y)
  | _, _ => false
  end.

(** the initial heap of a check case: DEFAULT = Config() at location 2 (tables at 0, 1); unless the
    dispatcher was built without a config argument (then DEFAULT is the server's configuration), the
    server's own Config at location 5 (tables at 3, 4) *)
Definition default_loc : loc := 2%nat.

Definition mk_default (ua : val) : cfgrec :=
  mkCfg (VFlt (F 2 1)) (VStr "application/json-rpc") ua (VBool true) (VStr "_serialize") (VStr "_ignore") 0%nat 1%nat.

Definition heap0 (dcl dhd : table) : heap :=
  mkHeap [(2%nat, mk_default (VStr "ua"))] [(0%nat, dcl); (1%nat, dhd)] 3%nat [].

Definition heap_with_server (dcl dhd : table) (ver jc : val) (cl hd : table) : heap :=
  mkHeap [(5%nat, mkCfg ver (VStr "application/json-rpc") (VStr "ua") jc (VStr "_serialize") (VStr "_ignore") 3%nat 4%nat);
          (2%nat, mk_default (VStr "ua"))]
         [(0%nat, dcl); (1%nat, dhd); (3%nat, cl); (4%nat, hd)] 6%nat [].

Record hcase := mkHCase {
  hc_own_config : bool;            (* the dispatcher was given its own Config (else it uses DEFAULT) *)
  hc_ver : val;                    (* the server Config's version (own config only) *)
  hc_jsonclass : val;              (* … and use_jsonclass *)
  hc_classes : table;              (* contents of the server config's tables before serving *)
  hc_handlers : table;
  hc_table : list cdesc;
  hc_reg : registry;
  hc_dm : option cid;
  hc_inputs : list parse_outcome;                  (* the history: outcome of jsonrpclib.loads on each body *)
  hc_obs : list (oreply * bool * bool)             (* implementation, after each body: the reply, "server
                                                      Config snapshot equals the initial one", same for DEFAULT *)
}.

Definition hcase_heap (c : hcase) : heap * loc :=
  if hc_own_config c
  then (heap_with_server [] [] (hc_ver c) (hc_jsonclass c) (hc_classes c) (hc_handlers c), 5%nat)
  else (heap0 (hc_classes c) (hc_handlers c), default_loc).

(** the model's run of a history, observing after each body what the implementation's run observes *)
Fixpoint run_history (body : cid -> val -> outcome) (sigs : cid -> signature) (rs : list (str * str))
         (h0 h : heap) (hs : hserver) (dm : option cid) (ps : list parse_outcome)
  : option (list (oreply * bool * bool)) :=
  match ps with
  | [] => Some []
  | p :: r =>
      match serve body sigs h hs dm p with
      | Ok (h1, x) =>
          match run_history body sigs rs h0 h1 hs dm r with
          | Some xs =>
              Some ((obs_reply rs x,
                     snap_eqb (snapshot h1 (hs_cfg hs)) (snapshot h0 (hs_cfg hs)),
                     snap_eqb (snapshot h1 default_loc) (snapshot h0 default_loc)) :: xs)
          | None => None
          end
      | Raise _ => None
      end
  end.

Definition obs3_eqb (a b : oreply * bool * bool) : bool :=
  oreply_eqb (fst (fst a)) (fst (fst b)) && Bool.eqb (snd (fst a)) (snd (fst b)) && Bool.eqb (snd a) (snd b).

Definition c13_check (c : hcase) : bool :=
  let '(h0, srv) := hcase_heap c in
  match run_history (body_of (hc_table c)) (sigs_of (hc_table c)) (raisers (hc_table c))
                    h0 h0 (mkHS srv (hc_reg c) false) (hc_dm c) (hc_inputs c) with
  | Some obs => list_eqb obs3_eqb obs (hc_obs c)
  | None => false
  end.

(** *** Config stream: operations applied to the original / to a copy of a Config *)

(** observation of one object: its attributes, "classes is the object it was at the start",
    the same for serialize_handlers, and the contents of both *)
Record cobs := mkCObs {
  co_fields : list val;            (* version, content_type, user_agent, use_jsonclass, serialize_method, ignore_attribute *)
  co_same_classes : bool;
  co_same_handlers : bool;
  co_classes : table;
  co_handlers : table
}.

Definition cobs_of (h : heap) (c : loc) (lc lh : loc) : option cobs :=
  match snapshot h c with
  | Ok s =>
      let r := s_rec s in
      Some (mkCObs [c_version r; c_content_type r; c_user_agent r; c_use_jsonclass r; c_serialize_method r;
                    c_ignore_attribute r]
                   (Nat.eqb (c_classes r) lc) (Nat.eqb (c_handlers r) lh) (s_classes s) (s_handlers s))
  | Raise _ => None
  end.

Definition val_list_sim (a b : list val) : bool := list_eqb val_sim a b.

Definition table_sim (a b : table) : bool := val_sim (VDict a) (VDict b).

Definition cobs_eqb (a b : cobs) : bool :=
  val_list_sim (co_fields a) (co_fields b)
  && Bool.eqb (co_same_classes a) (co_same_classes b) && Bool.eqb (co_same_handlers a) (co_same_handlers b)
  && table_sim (co_classes a) (co_classes b) && table_sim (co_handlers a) (co_handlers b).

Record ccase := mkCCase {
  cc_fields : list val;            (* the six attributes of the original, in the order of [co_fields] *)
  cc_classes : table;
  cc_handlers : table;
  cc_depth : nat;                  (* the "original" is itself the result of this many copy() calls *)
  cc_pre : list op;                (* applied to the original before copy() *)
  cc_ops : list (bool * op);       (* after copy(): true = applied to the copy, false = to the original *)
  cc_obs : list (cobs * cobs)      (* implementation: (original, copy) right after copy() and after each op *)
}.

Definition ccase_heap (c : ccase) : option heap :=
  match cc_fields c with
  | [v; ct; ua; jc; sm; ia] =>
      Some (mkHeap [(2%nat, mkCfg v ct ua jc sm ia 0%nat 1%nat)] [(0%nat, cc_classes c); (1%nat, cc_handlers c)] 3%nat [])
  | _ => None
  end.

Fixpoint run_cops (h : heap) (a b : loc) (la1 la2 lb1 lb2 : loc) (os : list (bool * op)) : option (list (cobs * cobs)) :=
  match cobs_of h a la1 la2, cobs_of h b lb1 lb2 with
  | Some oa, Some ob =>
      match os with
      | [] => Some [(oa, ob)]
      | (onb, o) :: r =>
          match apply_op h (if onb then b else a) o with
          | Ok h' => match run_cops h' a b la1 la2 lb1 lb2 r with
                     | Some xs => Some ((oa, ob) :: xs)
                     | None => None
                     end
          | Raise _ => None
          end
      end
  | _, _ => None
  end.

Fixpoint copy_chain (n : nat) (h : heap) (a : loc) : res (heap * loc) :=
  match n with
  | O => Ok (h, a)
  | S k => do x <- config_copy h a; copy_chain k (fst x) (snd x)
  end.

Definition c13_cfg_check (c : ccase) : bool :=
  match ccase_heap c with
  | None => false
  | Some h0 =>
      match copy_chain (cc_depth c) h0 2%nat with
      | Raise _ => false
      | Ok (h0', a) =>
          match apply_ops h0' a (cc_pre c) with
          | Raise _ => false
          | Ok h1 =>
              match config_copy h1 a, get_cfg h1 a with
              | Ok (h2, b), Ok ra =>
                  match get_cfg h2 b with
                  | Ok rb =>
                      match run_cops h2 a b (c_classes ra) (c_handlers ra) (c_classes rb) (c_handlers rb) (cc_ops c) with
                      | Some obs =>
                          list_eqb (fun x y => cobs_eqb (fst x) (fst y) && cobs_eqb (snd x) (snd y)) obs (cc_obs c)
                      | None => false
                      end
                  | Raise _ => false
                  end
              | _, _ => false
              end
          end
      end
  end.

(** *** Schedule stream: k handler threads, one validated single request each, driven by an explicit
    schedule over the line-level interleaving model above (harness/props/c13.py, stream "linesched").
    [hc_inputs]: the k request objects; [hc_obs]: per thread, the reply the implementation gave, and
    (in every entry alike) the two "snapshot unchanged" flags taken after all threads finished. *)
Record scase := mkSCase { sc_case : hcase; sc_sched : list nat }.

Definition treq_of (f : form) (dm : option cid) (p : parse_outcome) : option treq :=
  match p with
  | PValue v => match validate_request f v with
                | Valid m method params => Some (mkTReq dm m method params)
                | Invalid _ => None
                end
  | _ => None
  end.

Fixpoint all_some {A} (l : list (option A)) : option (list A) :=
  match l with
  | [] => Some []
  | Some a :: r => match all_some r with Some r' => Some (a :: r') | None => None end
  | None :: _ => None
  end.

Definition thread_reply (rs : list (str * str)) (t : thread) : option oreply :=
  match t_pc t with
  | PDone (o, log) =>
      Some (obs_reply rs (match o with
                          | None => Ok (REmpty, log)
                          | Some x => if dumpable x then Ok (ROne x, log) else Raise EType
                          end))
  | _ => None
  end.

Definition c13_sched_check (sc : scase) : bool :=
  let c := sc_case sc in
  let '(h0, srv) := hcase_heap c in
  match read_form h0 srv with
  | Raise _ => false
  | Ok f =>
      match all_some (map (treq_of f (hc_dm c)) (hc_inputs c)) with
      | None => false
      | Some reqs =>
          let hs := mkHS srv (hc_reg c) false in
          let k := length reqs in
          (* the executed schedule, then enough round-robin turns for every thread to finish (6 labels) *)
          let tail := concat (repeat (seq 0 k) 6) in
          let s := run_sched (body_of (hc_table c)) (sigs_of (hc_table c)) hs (sc_sched sc ++ tail)
                             (mkCS h0 (init_threads reqs)) in
          let fs := snap_eqb (snapshot (cs_heap s) srv) (snapshot h0 srv) in
          let fd := snap_eqb (snapshot (cs_heap s) default_loc) (snapshot h0 default_loc) in
          match all_some (map (thread_reply (raisers (hc_table c))) (cs_threads s)) with
          | Some rs => list_eqb obs3_eqb (map (fun r => (r, fs, fd)) rs) (hc_obs c)
          | None => false
          end
      end
  end.
