(** * EndToEnd — one remote call from ServerProxy to the registered callable and back (property C01).

    Composes, at the level of JSON VALUES, the models of the pieces:
      - [call_params]     _Method.__call__ (jsonrpc.py: `if args: send(name, args) else: send(name, kwargs)`)
                          MultiCallMethod.__call__ (`if kwargs: params = kwargs else: params = args`)
      - [Payload.dump]    jsonrpc.dump / Payload.request / Payload.notify            (Model/Payload.v, C14)
      - [wire]            json.dumps on one side, json.loads on the other: a JSON-serialisable value arrives
                          normalised (tuples become lists), anything else makes json.dumps raise TypeError
      - [marshaled_dispatch]  SimpleJSONRPCDispatcher._marshaled_dispatch            (Model/Dispatch.v, C02-C05)
      - [proxy_result]    check_for_errors + response["result"]                      (Model/Client.v, C06)
      - the History object: ServerProxy._run_request appends the request text before the exchange and
        the response text after it (nothing when the transport raised)
      - MultiCall._request: "[ " + ",".join(job.request() ...) + " ]", one _run_request, MultiCallIterator

    Not in this model (each is another property's model, tied to the code by that property's check):
    the HTTP framing and the three transports / server classes (C17, C12: a byte-faithful transport is the
    identity on texts), the class translator on beans (C07; here payloads are plain data free of
    "__jsonclass__", on which jsonclass.dump is [convert] and jsonclass.load the identity, C15), the thread
    pool of the pooled server (C09-C12).  Definitions only; proofs in Proofs/EndToEndProofs.v. *)
From Coq Require Import List ZArith String Bool.
From JR Require Import Val PyOps Payload Client Dispatch.
Import ListNotations.
Open Scope string_scope.

(** ** The client *)
Record client := mkClient {
  cl_cfg : pcfg;           (* the proxy's Config: version, use_jsonclass *)
  cl_version : val         (* ServerProxy(version=...): `self.__version = version or config.version` is done
                              by dump (`if not version: version = config.version`): None when not given *)
}.

Inductive call_args := Positional (l : list val) | Keyword (m : list (val * val)).

(** _Method.__call__: `if args: send(name, args) else: send(name, kwargs)` *)
Definition call_params (a : call_args) : val :=
  match a with
  | Positional [] => VDict []
  | Positional l => VTuple l
  | Keyword m => VDict m
  end.

(** MultiCallMethod.__call__: `if kwargs: params = kwargs else: params = args` *)
Definition job_params (a : call_args) : val :=
  match a with
  | Positional l => VTuple l
  | Keyword [] => VTuple []
  | Keyword m => VDict m
  end.

(** what the callable is entered with: f( *args ) / f( **kwargs ) after the trip through JSON *)
Definition received (p : val) : val := norm p.

(** json.dumps then json.loads *)
Definition wire (v : val) : res val := if dumpable v then Ok (norm v) else Raise EType.

(** History: texts of the requests sent and of the responses received, oldest first; a text is
    represented by the value it parses to, the empty text by [None] *)
Record history := mkHist { h_requests : list val; h_responses : list (option val) }.
Definition add_request (h : history) (r : val) : history := mkHist (h_requests h ++ [r]) (h_responses h).
Definition add_response (h : history) (r : option val) : history := mkHist (h_requests h) (h_responses h ++ [r]).

Definition transport_error : exn := ETransport "HOST/handler" 500.

Section E2E.
  Variable body : cid -> val -> outcome.
  Variable sigs : cid -> signature.
  Variable fresh : nat -> str.          (* str(uuid.uuid4()) *)
  Variable dv : val.                    (* jsonrpclib.config.DEFAULT.version *)

  (** the server: its configuration's form, registry, notification pool, use_jsonclass, custom dispatch function *)
  Variable srvf : form.
  Variable srv : server.
  Variable dm : option cid.

  (** jsonclass.dump / jsonclass.load on descriptor-free plain data *)
  Definition jc (v : val) : res val := convert v.
  Definition jl (v : val) : res val := Ok v.

  (** the reply text as the client parses it: [None] = empty body *)
  Definition reply_value (r : reply) : option val :=
    match r with
    | REmpty => None
    | ROne o => Some (norm o)
    | RMany os => Some (VList (map norm os))
    end.

  (** ServerProxy._run_request over a byte-faithful transport and the dispatcher: the parsed response
      (None for an empty body), the server-side log, the history afterwards.  An exception escaping the
      dispatcher is answered 500 by do_POST and raised as TransportError by the transport: the response
      is then not recorded. *)
  Definition run_request (c : client) (w : val) (h : history) : res val * list event * history :=
    let h1 := add_request h w in
    match marshaled_dispatch body sigs srvf srv dm (PValue w) with
    | Raise _ => (Raise transport_error, snd (unmarshaled_dispatch body sigs srvf srv dm w), h1)   (* the calls did happen *)
    | Ok (r, log) =>
        let h2 := add_response h1 (reply_value r) in
        match reply_value r with
        | None => (Ok VNone, log, h2)                                            (* `if not response: return None` *)
        | Some v => (Payload.load jl (cl_cfg c) v, log, h2)                      (* loads(response, self._config) *)
        end
    end.

  (** ServerProxy._request(methodname, params): dumps, _run_request, check_for_errors, ["result"] *)
  Definition proxy_request (c : client) (notify : bool) (m : str) (params : val) (n : nat) (h : history)
    : res val * list event * history * nat :=
    match Payload.dump jc fresh dv (cl_cfg c) (PVal params) (VStr m) VNone (cl_version c) VNone
                       (if notify then VBool true else VNone) n with
    | Raise e => (Raise e, [], h, n)
    | Ok (req, n') =>
        match wire req with
        | Raise e => (Raise e, [], h, n')                                        (* jdumps raises: nothing was sent *)
        | Ok w =>
            let '(r, log, h') := run_request c w h in
            (match r with
             | Raise e => Raise e
             | Ok resp => if notify then (do _ <- check_for_errors resp; Ok VNone) else proxy_result resp
             end, log, h', n')
        end
    end.

  (** proxy.<m>( *args ) / proxy.<m>( **kwargs );  proxy._notify.<m>(...) *)
  Definition proxy_call (c : client) (m : str) (a : call_args) (n : nat) (h : history) :=
    proxy_request c false m (call_params a) n h.
  Definition proxy_notify (c : client) (m : str) (a : call_args) (n : nat) (h : history) :=
    proxy_request c true m (call_params a) n h.

  (** ** MultiCall *)
  Record job := mkJob { j_method : str; j_args : call_args; j_notify : bool }.

  (** MultiCallMethod.request(): dumps(self.params, self.method, version=2.0, notify=self.notify, config=self._config) *)
  Definition two_point_zero : val := VFlt (F 2 1).
  Definition job_request (mcfg : pcfg) (j : job) (n : nat) : res (val * nat) :=
    do (req, n') <- Payload.dump jc fresh dv mcfg (PVal (job_params (j_args j))) (VStr (j_method j)) VNone
                                  two_point_zero VNone (if j_notify j then VBool true else VNone) n;
    do w <- wire req;
    Ok (w, n').

  Fixpoint jobs_requests (mcfg : pcfg) (js : list job) (n : nat) : res (list val * nat) :=
    match js with
    | [] => Ok ([], n)
    | j :: r =>
        do (w, n1) <- job_request mcfg j n;
        do (ws, n2) <- jobs_requests mcfg r n1;
        Ok (w :: ws, n2)
    end.

  (** MultiCall.__call__: [None] when there is no job; otherwise what iterating over the
      MultiCallIterator gives (the results before the first failing one, then the failure) *)
  Definition multicall (c : client) (mcfg : pcfg) (js : list job) (n : nat) (h : history)
    : option (res (list (res val))) * list event * history * nat :=
    match js with
    | [] => (None, [], h, n)
    | _ =>
        match jobs_requests mcfg js n with
        | Raise e => (Some (Raise e), [], h, n)
        | Ok (ws, n') =>
            let '(r, log, h') := run_request c (VList ws) h in
            (Some (match r with
                   | Raise e => Raise e
                   | Ok VNone => Ok []                                            (* `if not responses: responses = []` *)
                   | Ok (VList items) => Ok (multicall_iter items)
                   | Ok _ => Raise EUnmodelled                                    (* a batch answered by one object *)
                   end), log, h', n')
        end
    end.
End E2E.

(** ** Observation interface for the correspondence stage (harness/props/c01.py) *)

Inductive e2e_op :=
| OpCall (m : str) (a : call_args)
| OpNotify (m : str) (a : call_args)
| OpBatch (js : list job).

(** what one operation gave: the value / exception class, for a batch the list of per-position outcomes *)
Inductive e2e_out :=
| OutVal (v : val)
| OutExn (cls : str)
| OutNone
| OutBatch (rs : list e2e_out).

Definition exn_class (e : exn) : str :=
  match e with
  | EProtocol _ => "ProtocolError" | EApp _ => "AppError" | ETransport _ _ => "TransportError"
  | ETranslation => "TranslationError" | EType => "TypeError" | EValue => "ValueError" | EKey => "KeyError"
  | EIndex => "IndexError" | EAttr => "AttributeError" | ENotImpl => "NotImplementedError"
  | EAssert => "AssertionError" | EOS => "OSError" | EImport => "ImportError" | EOther c => c
  | EUnmodelled => "<unmodelled>"
  end.

Definition out_of_res (r : res val) : e2e_out :=
  match r with Ok v => OutVal v | Raise e => OutExn (exn_class e) end.

Fixpoint out_eqb (a b : e2e_out) {struct a} : bool :=
  match a, b with
  | OutVal x, OutVal y => val_eqb x y
  | OutExn x, OutExn y => String.eqb x y
  | OutNone, OutNone => true
  | OutBatch xs, OutBatch ys =>
      (fix go (xs ys : list e2e_out) : bool :=
         match xs, ys with
         | [], [] => true
         | x :: xs', y :: ys' => out_eqb x y && go xs' ys'
         | _, _ => false
         end) xs ys
  | _, _ => false
  end.

(** a generated id is replaced by a marker before comparing texts *)
Fixpoint mask_ids (ids : list str) (v : val) {struct v} : val :=
  match v with
  | VDict m =>
      VDict ((fix go (m : list (val * val)) : list (val * val) :=
                match m with
                | [] => []
                | (k, x) :: r =>
                    (k, match k, x with
                        | VStr "id", VStr s => if existsb (String.eqb s) ids then VStr "<generated>" else VStr s
                        | _, _ => mask_ids ids x
                        end) :: go r
                end) m)
  | VList l => VList ((fix go (l : list val) : list val :=
                         match l with [] => [] | x :: r => mask_ids ids x :: go r end) l)
  | _ => v
  end.

Record e2e_case := mkE2E {
  ec_table : list cdesc;
  ec_reg : registry;
  ec_srv_form : form;
  ec_srv_jsonclass : bool;
  ec_client : client;
  ec_mcfg : pcfg;
  ec_ops : list e2e_op;
  (* implementation: per operation its outcome; the server-side call log; History requests / responses
     (generated ids masked) *)
  ec_outs : list e2e_out;
  ec_log : list event;
  ec_requests : list val;
  ec_responses : list (option val)
}.

Definition fresh_marker (n : nat) : str := "<generated>".

Section Run.
  Variable c : e2e_case.
  Let body := body_of (ec_table c).
  Let sigs := sigs_of (ec_table c).
  Let srv := mkSrv (ec_reg c) false (ec_srv_jsonclass c).
  Let dflt : val := VFlt (F 2 1).

  Definition run_op (o : e2e_op) (n : nat) (h : history) : e2e_out * list event * history * nat :=
    match o with
    | OpCall m a =>
        let '(r, log, h', n') := proxy_call body sigs fresh_marker dflt (ec_srv_form c) srv None (ec_client c) m a n h in
        (out_of_res r, log, h', n')
    | OpNotify m a =>
        let '(r, log, h', n') := proxy_notify body sigs fresh_marker dflt (ec_srv_form c) srv None (ec_client c) m a n h in
        (match r with Ok _ => OutNone | Raise e => OutExn (exn_class e) end, log, h', n')
    | OpBatch js =>
        let '(r, log, h', n') := multicall body sigs fresh_marker dflt (ec_srv_form c) srv None (ec_client c) (ec_mcfg c) js n h in
        (match r with
         | None => OutNone
         | Some (Raise e) => OutExn (exn_class e)
         | Some (Ok rs) => OutBatch (map out_of_res rs)
         end, log, h', n')
    end.

  Fixpoint run_ops (os : list e2e_op) (n : nat) (h : history) : list e2e_out * list event * history :=
    match os with
    | [] => ([], [], h)
    | o :: r =>
        let '(x, log, h1, n1) := run_op o n h in
        let '(xs, logs, h2) := run_ops r n1 h1 in
        (x :: xs, (log ++ logs)%list, h2)
    end.
End Run.

Definition opt_val_eqb (a b : option val) : bool :=
  match a, b with
  | None, None => true
  | Some x, Some y => val_eqb x y
  | _, _ => false
  end.

(** response texts are compared modulo the wording of error messages (Dispatch.obs_obj) *)
Definition obs_resp (rs : list (str * str)) (r : option val) : option val :=
  match r with
  | None => None
  | Some (VList os) => Some (VList (map (obs_obj rs) os))
  | Some o => Some (obs_obj rs o)
  end.

Definition c01_check (c : e2e_case) : bool :=
  let '(outs, log, h) := run_ops c (ec_ops c) 0%nat (mkHist [] []) in
  let rs := raisers (ec_table c) in
  list_eqb out_eqb outs (ec_outs c) && list_eqb event_eqb (map obs_event log) (ec_log c)
  && list_eqb val_eqb (h_requests h) (ec_requests c)
  && list_eqb opt_val_eqb (map (obs_resp rs) (h_responses h)) (ec_responses c).

(** ** registrations that change over the life of a server: the dispatcher keeps no memory of earlier
    resolutions, so every call is one dispatch case under the registry in force at its moment *)
Definition registry_check (cs : list dcase) : bool := forallb dispatch_check cs.
