(** * HeadersObs — observation interface of property C18 for the correspondence stage.

    A case is a program: the URL's user-info layer, the configuration's content type and user agent, the
    constructor headers and a sequence of enter / leave / request events.  The observation is, per request,
    the multiset of header lines put on the connection (names lower-cased) and, per block exit and at the
    end, the contents of the transport's stack.  Definitions only. *)

From JR Require Export Headers.
From Coq Require Import Ascii.

(** str() of the few floats the generator uses (everything else is not generated) *)
Definition ostr_tbl (v : val) : str :=
  match v with
  | VFlt FNegZero => "-0.0"
  | VFlt (F n d) =>
      if rat_eqb (n, d) (0, 1%positive) then "0.0"
      else if rat_eqb (n, d) (3, 2%positive) then "1.5"
      else if rat_eqb (n, d) (2, 1%positive) then "2.0"
      else if rat_eqb (n, d) (1, 4%positive) then "0.25"
      else if rat_eqb (n, d) (-5, 2%positive) then "-2.5"
      else "?"
  | _ => "?"
  end.

Inductive event :=
| EvLines (r : res lines)          (* the header lines of one request, or the exception it raised *)
| EvStack (st : list hdict).       (* transport.additional_headers after a block exit / at the end *)

Section Trace.
  Variables (extra : lines) (ct ua : str).

  Fixpoint trace (ops : list op) (s : hstate) : list event :=
    match ops with
    | [] => [EvStack (h_stack s)]
    | ORequest body :: rest => EvLines (request_headers ostr_tbl ct ua body extra (h_stack s)) :: trace rest s
    | o :: rest =>
        match step s o with
        | Ok s' => (match o with OLeave _ => [EvStack (h_stack s')] | _ => [] end ++ trace rest s')%list
        | Raise e => [EvLines (Raise e)]
        end
    end.
End Trace.

Definition c18_run (extra : lines) (ct ua : str) (ctor : option hdict) (ops : list op) : list event :=
  trace extra ct ua ops (mkH (proxy_init ctor) []).

(** multiset equality of header lines, names lower-cased *)
Definition line_eqb (a b : str * str) : bool :=
  String.eqb (ascii_lower (fst a)) (ascii_lower (fst b)) && String.eqb (snd a) (snd b).

Fixpoint remove1 (x : str * str) (l : lines) : option lines :=
  match l with
  | [] => None
  | y :: r => if line_eqb x y then Some r else match remove1 x r with Some r' => Some (y :: r') | None => None end
  end.

Fixpoint lines_sim (a b : lines) : bool :=
  match a with
  | [] => match b with [] => true | _ => false end
  | x :: r => match remove1 x b with Some b' => lines_sim r b' | None => false end
  end.

Definition exn_class_eqb (a b : exn) : bool :=
  match a, b with
  | EType, EType | EValue, EValue | EKey, EKey | EIndex, EIndex | EAttr, EAttr | EAssert, EAssert => true
  | EOther c, EOther c' => String.eqb c c'
  | _, _ => false
  end.

Definition event_eqb (a b : event) : bool :=
  match a, b with
  | EvLines (Ok x), EvLines (Ok y) => lines_sim x y
  | EvLines (Raise x), EvLines (Raise y) => exn_class_eqb x y
  | EvStack x, EvStack y => list_eqb (fun p q => val_sim (to_vdict p) (to_vdict q)) x y
  | _, _ => false
  end.

Definition c18_check (c : lines * str * str * option hdict * list op * list event) : bool :=
  let '(extra, ct, ua, ctor, ops, obs) := c in
  list_eqb event_eqb (c18_run extra ct ua ctor ops) obs.
