(** * Future — model of [EventData] and [FutureResult] (jsonrpclib/threadpool.py, after the repair
    of finding F10) at source-line granularity.  Definitions only; proofs are in
    Proofs/FutureProofs.v, the model of the pre-fix code and its refutation in Examples/C16_examples.v.

    One FutureResult, three kinds of threads (DESIGN.md 4/C16):
      - [TX]      the executor: one call of [execute(method, None, None)];
      - [TR i]    registrar [i]: one call of [set_callback(cb_i, extra_i)] (unboundedly many
                  registrars; re-registration before/after completion = several registrars, every
                  sequential order of them being one of the schedules; the code has no
                  thread-local state, so which thread calls does not matter);
      - [TO j]    observer [j]: one call of [done()], [result(timeout)] or [result()].
    One step = one executed source line that reads or writes a shared field, or one operation on
    the [threading.Event] / [threading.Lock] (atomic, trusted).  Lines that touch only locals are
    merged into the following step.  The pc constructors are the labels of the statement-text
    table in harness/props/c16.py. *)
From Coq Require Import List Bool Arith Lia.
From RecordUpdate Require Import RecordSet.
From JR Require Import Sched.
Import ListNotations RecordSetNotations.

(** ** The program: what the task does, what the callbacks do, what the observers call *)

(** objects are identified by numbers; [None] is Python's [None] *)
Inductive outcome := BRet (v : option nat) | BRaise (e : nat).     (* the task returns v / raises e *)
Inductive cbkind := KRet | KRaise | KArity.     (* callback returns / raises an Exception / takes no argument (TypeError) *)
Inductive okind := ODone | OResultT | OResult.   (* done() / result(timeout > 0) / result() *)

Record cfg := mkCfg { body : outcome; rkind : nat -> cbkind; obsk : nat -> okind }.

Definition out_data (o : outcome) : option nat := match o with BRet v => v | BRaise _ => None end.
Definition out_exc (o : outcome) : option nat := match o with BRet _ => None | BRaise e => Some e end.

Inductive thread := TX | TR (i : nat) | TO (j : nat).
Inductive move := Go (t : thread) | Fire (t : thread).   (* Fire t: the timed wait t is blocked in expires *)

(** ** Program counters = labels *)

(** execute (threadpool.py, FutureResult.execute; EventData.set / raise_exception inlined) *)
Inductive xpc :=
| X_body            (* result = method(..args, ..kwargs) *)
| X_store_data      (* EventData.set: self.__data = data       | raise_exception: self.__data = None *)
| X_store_exc       (* EventData.set: self.__exception = None  | raise_exception: self.__exception = exception *)
| X_event_set       (* self.__event.set() *)
| X_lock            (* finally: with self.__lock:  (acquire) *)
| X_set_completed   (* self.__completed = True *)
| X_read_cb         (* callback = self.__callback *)
| X_read_extra      (* extra = self.__extra *)
| X_unlock          (* end of the with block (release) *)
| X_notify          (* self.__notify(callback, extra): if callback is not None: try: callback(data, exception, extra) except Exception: log *)
| X_end.            (* execute returned, or re-raised the task's exception *)

(** set_callback *)
Inductive rpc :=
| R_lock            (* with self.__lock:  (acquire) *)
| R_store_cb        (* self.__callback = method *)
| R_store_extra     (* self.__extra = extra *)
| R_read_completed  (* completed = self.__completed *)
| R_unlock          (* end of the with block (release); then `if completed:` on the local *)
| R_notify          (* self.__notify(method, extra) *)
| R_end.

(** done / result (EventData.is_set / wait inlined) *)
Inductive opc :=
| O_start           (* done: self.__event.is_set()   | result: self.__event.wait(timeout)  (blocking; Fire = timeout) *)
| O_read_exc        (* EventData.wait: if self.__exception is None: *)
| O_reraise         (* raise self.__exception *)
| O_read_data       (* FutureResult.result: return self._done_event.data *)
| O_end.

(** ** Observables *)
Inductive obs :=
| ObsDone (b : bool)          (* done() returned b *)
| ObsRet (v : option nat)     (* result() returned v *)
| ObsRaise (e : nat)          (* result() raised the exception object e *)
| ObsTimeout                  (* result(timeout) raised OSError *)
| ObsTypeErr.                 (* `raise None` (never happens: theorem) *)

(** one notification attempt: callback [c_cb] called by thread [c_by] with (c_res, c_exc, c_extra);
    callbacks and extras are identified by the registrar that passed them *)
Record call := mkCall { c_cb : nat; c_by : thread; c_res : option nat; c_exc : option nat; c_extra : option nat }.

Inductive xresult := XReturned | XRaised (e : nat).

(** ** State *)
Record st := mkSt {
  (* EventData *)
  ev : bool; data : option nat; exc : option nat;
  (* FutureResult *)
  lock : option thread; completed : bool; cb : option nat; extra : option nat;
  (* executor: pc, locals `callback`, `extra`, how execute() ended *)
  xp : xpc; xcb : option nat; xextra : option nat; xout : option xresult;
  (* registrars: pc, local `completed` *)
  rp : nat -> rpc; rcomp : nat -> bool;
  (* observers: pc, local `result` of EventData.wait, what the call gave *)
  op : nat -> opc; owaited : nat -> bool; oobs : nat -> option obs;
  (* observable history: notification attempts (newest first), number of logged callback errors *)
  calls : list call; logged : nat;
  (* ghost: linearisation of registrations against completion, by order of lock acquisition.
     hdone: the executor has taken the lock; hpre / hpost: registrars that took the lock before /
     after the executor did, newest first *)
  hdone : bool; hpre : list nat; hpost : list nat
}.

#[export] Instance eta_st : Settable _ :=
  settable! mkSt <ev; data; exc; lock; completed; cb; extra; xp; xcb; xextra; xout; rp; rcomp;
                  op; owaited; oobs; calls; logged; hdone; hpre; hpost>.

Definition init : st :=
  mkSt false None None None false None None X_body None None None
       (fun _ => R_lock) (fun _ => false) (fun _ => O_start) (fun _ => false) (fun _ => None)
       [] 0 false [] [].

(** ** __notify(callback, extra): the call is attempted; an Exception raised by the callback (or the
    TypeError of a call with the wrong number of arguments) is caught and logged, nothing else changes *)
Definition raises (k : cbkind) : bool := match k with KRet => false | KRaise | KArity => true end.

Definition notify (c : cfg) (by_ : thread) (who : option nat) (x : option nat) (s : st) : st :=
  match who with
  | None => s
  | Some i => s <| calls := mkCall i by_ (data s) (exc s) x :: calls s |>
                <| logged := (if raises (rkind c i) then S (logged s) else logged s) |>
  end.

(** ** Transitions: one named function per label *)

(* executor *)
Definition x_body (c : cfg) (s : st) : option st := Some (s <| xp := X_store_data |>).
Definition x_store_data (c : cfg) (s : st) : option st := Some (s <| data := out_data (body c) |> <| xp := X_store_exc |>).
Definition x_store_exc (c : cfg) (s : st) : option st := Some (s <| exc := out_exc (body c) |> <| xp := X_event_set |>).
Definition x_event_set (c : cfg) (s : st) : option st := Some (s <| ev := true |> <| xp := X_lock |>).
Definition x_lock (c : cfg) (s : st) : option st :=
  match lock s with
  | None => Some (s <| lock := Some TX |> <| hdone := true |> <| xp := X_set_completed |>)
  | Some _ => None
  end.
Definition x_set_completed (c : cfg) (s : st) : option st := Some (s <| completed := true |> <| xp := X_read_cb |>).
Definition x_read_cb (c : cfg) (s : st) : option st := Some (s <| xcb := cb s |> <| xp := X_read_extra |>).
Definition x_read_extra (c : cfg) (s : st) : option st := Some (s <| xextra := extra s |> <| xp := X_unlock |>).
Definition x_unlock (c : cfg) (s : st) : option st := Some (s <| lock := None |> <| xp := X_notify |>).
(** how execute() ends: returns, or re-raises the task's exception (whatever the callback did) *)
Definition xcont (o : outcome) : xresult := match o with BRet _ => XReturned | BRaise e => XRaised e end.
Definition x_notify (c : cfg) (s : st) : option st :=
  Some (notify c TX (xcb s) (xextra s) s <| xout := Some (xcont (body c)) |> <| xp := X_end |>).

(* registrar i *)
Definition r_lock (c : cfg) (i : nat) (s : st) : option st :=
  match lock s with
  | None => Some (s <| lock := Some (TR i) |>
                    <| hpre := (if hdone s then hpre s else i :: hpre s) |>
                    <| hpost := (if hdone s then i :: hpost s else hpost s) |>
                    <| rp := upd (rp s) i R_store_cb |>)
  | Some _ => None
  end.
Definition r_store_cb (c : cfg) (i : nat) (s : st) : option st :=
  Some (s <| cb := Some i |> <| rp := upd (rp s) i R_store_extra |>).
Definition r_store_extra (c : cfg) (i : nat) (s : st) : option st :=
  Some (s <| extra := Some i |> <| rp := upd (rp s) i R_read_completed |>).
Definition r_read_completed (c : cfg) (i : nat) (s : st) : option st :=
  Some (s <| rcomp := upd (rcomp s) i (completed s) |> <| rp := upd (rp s) i R_unlock |>).
Definition r_unlock (c : cfg) (i : nat) (s : st) : option st :=
  Some (s <| lock := None |> <| rp := upd (rp s) i (if rcomp s i then R_notify else R_end) |>).
Definition r_notify (c : cfg) (i : nat) (s : st) : option st :=
  Some (notify c (TR i) (Some i) (Some i) s <| rp := upd (rp s) i R_end |>).

(* observer j *)
Definition o_start (c : cfg) (j : nat) (s : st) : option st :=
  match obsk c j with
  | ODone => Some (s <| oobs := upd (oobs s) j (Some (ObsDone (ev s))) |> <| op := upd (op s) j O_end |>)
  | OResultT | OResult =>
      if ev s then Some (s <| owaited := upd (owaited s) j true |> <| op := upd (op s) j O_read_exc |>)
      else None                                                     (* blocked in Event.wait *)
  end.
Definition o_fire (c : cfg) (j : nat) (s : st) : option st :=       (* the timeout of Event.wait expires *)
  match obsk c j, op s j with
  | OResultT, O_start =>
      if ev s then None
      else Some (s <| owaited := upd (owaited s) j false |> <| op := upd (op s) j O_read_exc |>)
  | _, _ => None
  end.
Definition o_read_exc (c : cfg) (j : nat) (s : st) : option st :=
  match exc s with
  | Some _ => Some (s <| op := upd (op s) j O_reraise |>)
  | None => if owaited s j then Some (s <| op := upd (op s) j O_read_data |>)
            else Some (s <| oobs := upd (oobs s) j (Some ObsTimeout) |> <| op := upd (op s) j O_end |>)
  end.
Definition o_reraise (c : cfg) (j : nat) (s : st) : option st :=
  Some (s <| oobs := upd (oobs s) j (Some (match exc s with Some e => ObsRaise e | None => ObsTypeErr end)) |>
          <| op := upd (op s) j O_end |>).
Definition o_read_data (c : cfg) (j : nat) (s : st) : option st :=
  Some (s <| oobs := upd (oobs s) j (Some (ObsRet (data s))) |> <| op := upd (op s) j O_end |>).

(** ** step only dispatches on the program counter of the chosen thread *)
Definition step_x (c : cfg) (s : st) : option st :=
  match xp s with
  | X_body => x_body c s | X_store_data => x_store_data c s | X_store_exc => x_store_exc c s
  | X_event_set => x_event_set c s | X_lock => x_lock c s | X_set_completed => x_set_completed c s
  | X_read_cb => x_read_cb c s | X_read_extra => x_read_extra c s | X_unlock => x_unlock c s
  | X_notify => x_notify c s | X_end => None
  end.

Definition step_r (c : cfg) (i : nat) (s : st) : option st :=
  match rp s i with
  | R_lock => r_lock c i s | R_store_cb => r_store_cb c i s | R_store_extra => r_store_extra c i s
  | R_read_completed => r_read_completed c i s | R_unlock => r_unlock c i s | R_notify => r_notify c i s
  | R_end => None
  end.

Definition step_o (c : cfg) (j : nat) (s : st) : option st :=
  match op s j with
  | O_start => o_start c j s | O_read_exc => o_read_exc c j s | O_reraise => o_reraise c j s
  | O_read_data => o_read_data c j s | O_end => None
  end.

Definition step (c : cfg) (s : st) (m : move) : option st :=
  match m with
  | Go TX => step_x c s
  | Go (TR i) => step_r c i s
  | Go (TO j) => step_o c j s
  | Fire (TO j) => o_fire c j s
  | Fire _ => None
  end.

(** all interleavings: [run (step c) sched init] for an arbitrary [sched : list move]
    (a timeout may expire at any moment; the quiescent reading is a special case, Sched.run_q_is_run) *)
Definition run_future (c : cfg) (sched : list move) : st := run (step c) sched init.

(** ** What the property speaks about *)
Definition body_finished (s : st) : bool := match xp s with X_body => false | _ => true end.
Definition done (s : st) : bool := ev s.                                       (* FutureResult.done() *)
Definition ncalls (s : st) (i : nat) : nat := length (filter (fun k => Nat.eqb (c_cb k) i) (calls s)).
(** a registration is owed a call iff it is the last one that took effect before completion, or it
    took effect after completion (order of the lock acquisitions) *)
Definition owed (s : st) (i : nat) : bool :=
  (match hpre s with j :: _ => Nat.eqb j i | [] => false end) || existsb (Nat.eqb i) (hpost s).
(** what a call made once the future is done must give *)
Definition expected_obs (c : cfg) (k : okind) : obs :=
  match k with
  | ODone => ObsDone true
  | _ => match body c with BRet v => ObsRet v | BRaise e => ObsRaise e end
  end.

(** ** Observation interface for the correspondence stage (harness/props/c16.py)
    everything is projected to numbers so that the generated case files stay small *)
Definition code_thread (t : thread) : nat := match t with TX => 0 | TR i => 1 + 2 * i | TO j => 2 + 2 * j end.
Definition code_opt (o : option nat) : nat := match o with None => 0 | Some n => S n end.
Definition code_x (p : xpc) : nat :=
  match p with X_body => 0 | X_store_data => 1 | X_store_exc => 2 | X_event_set => 3 | X_lock => 4 | X_set_completed => 5
          | X_read_cb => 6 | X_read_extra => 7 | X_unlock => 8 | X_notify => 9 | X_end => 10 end.
Definition code_r (p : rpc) : nat :=
  match p with R_lock => 20 | R_store_cb => 21 | R_store_extra => 22 | R_read_completed => 23 | R_unlock => 24
          | R_notify => 25 | R_end => 26 end.
Definition code_o (k : okind) (p : opc) : nat :=
  match p with O_start => (match k with ODone => 30 | _ => 31 end) | O_read_exc => 32 | O_reraise => 33
          | O_read_data => 34 | O_end => 35 end.
(** the label the thread of a move is about to execute (fired waits: 36) *)
Definition label_of (c : cfg) (s : st) (m : move) : nat :=
  match m with
  | Go TX => code_x (xp s) | Go (TR i) => code_r (rp s i) | Go (TO j) => code_o (obsk c j) (op s j)
  | Fire _ => 36
  end.
Definition code_obs (o : option obs) : list nat :=
  match o with
  | None => [0] | Some (ObsDone b) => [1; if b then 1 else 0] | Some (ObsRet v) => [2; code_opt v]
  | Some (ObsRaise e) => [3; e] | Some ObsTimeout => [4] | Some ObsTypeErr => [5]
  end.
(** the shared fields as one list: event, data, exception, lock owner, completed, callback, extra *)
Definition snap (s : st) : list nat :=
  [ (if ev s then 1 else 0); code_opt (data s); code_opt (exc s);
    (match lock s with None => 0 | Some t => S (code_thread t) end);
    (if completed s then 1 else 0); code_opt (cb s); code_opt (extra s) ].
Definition code_call (c : cfg) (k : call) : list nat :=
  match rkind c (c_cb k) with
  | KArity => [c_cb k; code_thread (c_by k)]            (* the attempt is visible only through the log *)
  | _ => [c_cb k; code_thread (c_by k); code_opt (c_res k); code_opt (c_exc k); code_opt (c_extra k)]
  end.
Definition code_xout (o : option xresult) : nat :=
  match o with None => 0 | Some XReturned => 1 | Some (XRaised e) => 2 + e end.

(** observation of a run of [sched] for [nr] registrars and [no] observers:
    (labels executed, shared state after every executed step),
    (final next label of every thread, notification attempts oldest first, logged errors),
    (executor result, what each observer got) *)
Definition observation : Type := (list nat * list (list nat)) * (list nat * list (list nat) * nat) * (nat * list (list nat)).

Definition c16_run (c : cfg) (nr no : nat) (sched : list move) : observation :=
  let s := run (step c) sched init in
  ((observed (step c) (label_of c) sched init, map snap (states (step c) sched init)),
   (code_x (xp s) :: map (fun i => code_r (rp s i)) (seq 0 nr) ++ map (fun j => code_o (obsk c j) (op s j)) (seq 0 no),
    map (code_call c) (rev (calls s)), logged s),
   (code_xout (xout s), map (fun j => code_obs (oobs s j)) (seq 0 no))).

Fixpoint leqb {A} (eq : A -> A -> bool) (a b : list A) : bool :=
  match a, b with
  | [], [] => true
  | x :: a', y :: b' => eq x y && leqb eq a' b'
  | _, _ => false
  end.
Definition ln_eqb := leqb Nat.eqb.
Definition lln_eqb := leqb ln_eqb.

Definition obs_eqb (a b : observation) : bool :=
  let '((l1, s1), (p1, k1, g1), (x1, o1)) := a in
  let '((l2, s2), (p2, k2, g2), (x2, o2)) := b in
  ln_eqb l1 l2 && lln_eqb s1 s2 && ln_eqb p1 p2 && lln_eqb k1 k2 && Nat.eqb g1 g2 && Nat.eqb x1 x2 && lln_eqb o1 o2.

Definition mk_cfg (b : outcome) (rk : list cbkind) (ok : list okind) : cfg :=
  mkCfg b (fun i => nth i rk KRet) (fun j => nth j ok ODone).

(** a generated case: program, schedule, and the observation of the implementation run *)
Definition c16_case : Type := (outcome * list cbkind * list okind) * list move * observation.

Definition c16_check (x : c16_case) : bool :=
  let '((b, rk, ok), sched, o) := x in
  obs_eqb (c16_run (mk_cfg b rk ok) (length rk) (length ok) sched) o.
