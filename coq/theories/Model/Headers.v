(** * Headers — model of the custom-header machinery of jsonrpclib/jsonrpc.py.

    Mirrors:
      - [push_headers] [pop_headers]        TransportMixIn.push_headers / pop_headers (with the top-of-stack assertion)
      - [merged] [emit_pure] [emit]         TransportMixIn.emit_additional_headers (merge in push order, normalise,
                                            drop the read-only names, emit)
      - [send_request_headers] [send_content_headers] [request_headers]
                                            TransportMixIn.send_request / send_content (fixed headers first, User-Agent fallback)
      - [proxy_init]                        ServerProxy.__init__: [self.__transport.push_headers(headers or {})], once
      - [step] [run]                        ServerProxy._additional_headers (a contextlib context manager) driven by
                                            enter / leave events, leaving normally or through an exception

    The model follows the REPAIRED code (finding F12a: names are lower-cased while merging, so the most
    recent definition wins whatever its letter case; F12b: try/finally around the yield, so the pushed
    dictionary is popped on every exit).  The pinned variants and their refutations are in
    Examples/C18_examples.v.

    A pushed dictionary is an insertion-ordered association list from names (str) to values; the
    transport's stack is a list in push order (last = most recent).  [extra] is xmlrpc's
    [_extra_headers]: the Authorization line derived from the URL's user-info, or nothing.

    Definitions only. *)

From JR Require Export PyOps Payload.
From Coq Require Import Ascii.

Definition hdict := list (str * val).        (* a dictionary of headers as pushed by the user *)
Definition lines := list (str * str).         (* header lines: (name, value) *)

(** ** str(value) *)
Section Str.
  Variable ostr : val -> str.      (* str(v) for floats and every other object: external, arbitrary *)

  Definition pystr (v : val) : str :=
    match v with
    | VStr s => s
    | VInt z => z_to_str z
    | VBool true => "True"
    | VBool false => "False"
    | VNone => "None"
    | _ => ostr v
    end.

  (** ** string-keyed dictionaries of strings: [d[k] = v], [k in d] *)
  Fixpoint sset (m : lines) (k v : str) : lines :=
    match m with
    | [] => [(k, v)]
    | (k', v') :: r => if String.eqb k k' then (k', v) :: r else (k', v') :: sset r k v
    end.

  Fixpoint slookup (m : lines) (k : str) : option str :=
    match m with
    | [] => None
    | (k', v) :: r => if String.eqb k k' then Some v else slookup r k
    end.

  Definition has_key (m : lines) (k : str) : bool := match slookup m k with Some _ => true | None => false end.

  (** ** emit_additional_headers *)

  (** readonly_headers = ("content-length", "content-type") *)
  Definition readonly_headers : list str := ["content-length"; "content-type"].
  Definition is_readonly (k : str) : bool := existsb (String.eqb k) readonly_headers.

  (** additional_headers[str(key).lower()] = str(value) *)
  Definition put (acc : lines) (kv : str * val) : lines :=
    sset acc (ascii_lower (fst kv)) (pystr (snd kv)).

  (** for key, value in headers.items(): ... *)
  Definition merge_layer (acc : lines) (h : hdict) : lines := fold_left put h acc.

  (** xmlrpc's _extra_headers as the base layer *)
  Definition base_layer (extra : lines) : hdict := map (fun kv => (fst kv, VStr (snd kv))) extra.

  (** the base layer, then every pushed dictionary in push order *)
  Definition layers (extra : lines) (st : list hdict) : list hdict := base_layer extra :: st.

  Definition merged (extra : lines) (st : list hdict) : lines := fold_left merge_layer (layers extra st) [].

  (** for forbidden in self.readonly_headers: additional_headers.pop(forbidden, None) *)
  Definition emit_pure (extra : lines) (st : list hdict) : lines :=
    filter (fun kv => negb (is_readonly (fst kv))) (merged extra st).

  (** names are ASCII (str.lower() = ASCII lower-casing there); other names are outside the model *)
  Fixpoint is_ascii (s : string) : bool :=
    match s with
    | EmptyString => true
    | String a r => (N_of_ascii a <? 128)%N && is_ascii r
    end.
  Definition names_ascii (ls : list hdict) : bool := forallb (fun h => forallb (fun kv => is_ascii (fst kv)) h) ls.

  (** emit_additional_headers: the lines put on the connection (= the dictionary returned) *)
  Definition emit (extra : lines) (st : list hdict) : res lines :=
    if names_ascii (layers extra st) then Ok (emit_pure extra st) else Raise EUnmodelled.

  (** ** send_request / send_content *)

  (** send_request: connection.putheader("Accept-Encoding", "gzip")  (gzip is available) *)
  Definition send_request_headers : lines := [("Accept-Encoding", "gzip")].

  (** send_content: Content-Type, Content-Length, the additional headers, User-Agent unless overridden *)
  Definition send_content_headers (content_type user_agent body : str) (extra : lines) (st : list hdict) : res lines :=
    do add <- emit extra st;
    Ok ([("Content-Type", content_type); ("Content-Length", z_to_str (Z.of_nat (String.length body)))]
        ++ add
        ++ (if has_key add "user-agent" then [] else [("User-Agent", user_agent)]))%list.

  Definition request_headers (content_type user_agent body : str) (extra : lines) (st : list hdict) : res lines :=
    do l <- send_content_headers content_type user_agent body extra st;
    Ok (send_request_headers ++ l)%list.
End Str.

(** ** The stack *)

(** self.additional_headers.append(headers) *)
Definition push_headers (st : list hdict) (h : hdict) : list hdict := (st ++ [h])%list.

Definition to_vdict (h : hdict) : val := VDict (map (fun kv => (VStr (fst kv), snd kv)) h).

(** [self.additional_headers[-1] == headers]: the same object compares equal (CPython's identity
    shortcut); otherwise dictionary equality *)
Definition hdict_eq (a b : hdict) : bool := val_eqb (to_vdict a) (to_vdict b) || py_eq (to_vdict a) (to_vdict b).

(** assert self.additional_headers[-1] == headers ; self.additional_headers.pop() *)
Definition pop_headers (st : list hdict) (h : hdict) : res (list hdict) :=
  match rev st with
  | [] => Raise EIndex
  | top :: rest => if hdict_eq top h then Ok (rev rest) else Raise EAssert
  end.

(** ServerProxy.__init__ : push_headers(headers or {}) on the fresh transport *)
Definition proxy_init (headers : option hdict) : list hdict :=
  push_headers [] (match headers with Some h => h | None => [] end).

(** ** _additional_headers blocks *)

Inductive exit_kind := Normal | Exceptional.

Inductive op :=
| OEnter (h : hdict)          (* with proxy._additional_headers(h): ...   — push_headers(h); yield *)
| OLeave (o : exit_kind)      (* the innermost open block is left: finally: pop_headers(h) *)
| ORequest (body : str).      (* a request is sent while these headers are in force *)

Record hstate := mkH {
  h_stack : list hdict;       (* transport.additional_headers *)
  h_open : list hdict         (* the dictionaries of the open blocks, innermost first (held by their generators) *)
}.

Definition step (s : hstate) (o : op) : res hstate :=
  match o with
  | OEnter h => Ok (mkH (push_headers (h_stack s) h) (h :: h_open s))
  | OLeave _ =>
      match h_open s with
      | [] => Ok s                                  (* no block is open: nothing to leave *)
      | h :: rest => do st <- pop_headers (h_stack s) h; Ok (mkH st rest)
      end
  | ORequest _ => Ok s
  end.

Fixpoint run (ops : list op) (s : hstate) : res hstate :=
  match ops with
  | [] => Ok s
  | o :: rest => do s' <- step s o; run rest s'
  end.

(** the blocks still open after [ops], computed from the events alone *)
Fixpoint open_after (ops : list op) (open : list hdict) : list hdict :=
  match ops with
  | [] => open
  | OEnter h :: rest => open_after rest (h :: open)
  | OLeave _ :: rest => open_after rest (match open with [] => [] | _ :: r => r end)
  | ORequest _ :: rest => open_after rest open
  end.
