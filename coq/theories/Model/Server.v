(** * Server — model for property C12 (servers isolate concurrent clients and always shut down cleanly).

    Mirrors jsonrpclib/SimpleJSONRPCServer.py (repaired tree, finding F7):
      - part 1, handler level: [SimpleJSONRPCRequestHandler.do_POST] run by one handler per accepted
        connection ([BaseServer.process_request] inline for SimpleJSONRPCServer,
        [PooledJSONRPCServer.process_request] = enqueue of [process_request_thread] on the request pool),
        interleaved under an arbitrary schedule; the dispatcher ([server._marshaled_dispatch]) is shared
        and read-only: a Section variable [dispatch], a pure function of the request text;
      - part 2, lifecycle: [PooledJSONRPCServer.__init__ / serve_forever / server_close],
        [TCPServer.server_close], and, as a modelled component, socketserver's shutdown protocol
        ([BaseServer.serve_forever / shutdown], the [__shutdown_request] flag and the [__is_shut_down]
        event, which is initially NOT set) and [ThreadPool.stop] (joins every worker).

    Definitions only; proofs are in Proofs/ServerProofs.v. *)

From JR Require Export PyOps.
From Coq Require Import Arith.
Local Open Scope nat_scope.

(* ================================================================================================ *)
(** * Part 1 — handler level *)

(** what one client sent on its connection (the parsed request line and headers, and the body bytes) *)
Record request := mkReq {
  rq_path_ok : bool;            (* self.is_rpc_path_valid() *)
  rq_clen : option nat;         (* int(self.headers["content-length"]); None: missing or not an integer -> exception *)
  rq_body : string              (* the bytes available on rfile *)
}.

(** outcome of [self.server._marshaled_dispatch(data, ...)]: a reply text ("" for notifications), or an exception *)
Inductive dres := DReply (text : string) | DFail.

(** program counter of one handler: one label per group of do_POST statements that touches something
    other than locals (reading rfile, calling the shared dispatcher, writing wfile) *)
Inductive hpc :=
| HQueued      (* accepted, handed to process_request; the handler has not been entered *)
| HPath        (* if not self.is_rpc_path_valid(): self.report_404(); return *)
| HRead        (* size_remaining = int(headers["content-length"]); the chunk loop; data = "".join(chunks) *)
| HDispatch    (* response = self.server._marshaled_dispatch(data, ...); self.send_response(200) *)
| HFault       (* except: self.send_response(500); ... response = fault.response() *)
| HSend        (* send_header x2; end_headers(); self.wfile.write(response) *)
| HDone.

Section Handler.
  (** an effect = one invocation of a registered callable, as the outside world records it *)
  Variable eff : Type.
  (** the shared dispatcher: reply and invocations depend on the request text only (this is what C13 says
      of the real dispatcher; here it is the interface the handler model is parametric in) *)
  Variable dispatch : string -> dres * list eff.
  (** the body of the -32603 "Server error" reply and of the 404 page (wording is irrelevant) *)
  Variable fault500 : string.
  Variable page404 : string.

  (** everything a handler may touch: the state of ITS connection *)
  Record conn := mkConn {
    c_req : request;                    (* what the client sent; never written *)
    c_pc : hpc;
    c_data : string;                    (* local [data] *)
    c_status : nat;                     (* status of send_response (0: none yet) *)
    c_response : string;                (* local [response] *)
    c_wfile : option (nat * string);    (* what was written back on this connection: status, body *)
    c_calls : nat;                      (* times the dispatcher was entered on behalf of this connection *)
    c_effects : list eff                (* invocations of callables caused by this connection, in order *)
  }.

  Definition init_conn (r : request) : conn := mkConn r HQueued "" 0 "" None 0 [].

  Definition set_pc (c : conn) (p : hpc) : conn :=
    mkConn (c_req c) p (c_data c) (c_status c) (c_response c) (c_wfile c) (c_calls c) (c_effects c).

  (** one step of the handler of a connection: a function of that connection's state and of the
      read-only dispatcher, nothing else *)
  Definition hstep (c : conn) : option conn :=
    match c_pc c with
    | HQueued => Some (set_pc c HPath)
    | HPath =>
        if rq_path_ok (c_req c) then Some (set_pc c HRead)
        else Some (mkConn (c_req c) HDone (c_data c) 404 (c_response c) (Some (404%nat, page404)) (c_calls c) (c_effects c))
    | HRead =>
        match rq_clen (c_req c) with
        | None => Some (mkConn (c_req c) HFault (c_data c) 500 (c_response c) (c_wfile c) (c_calls c) (c_effects c))
        | Some n => Some (mkConn (c_req c) HDispatch (substring 0 n (rq_body (c_req c))) (c_status c) (c_response c)
                                 (c_wfile c) (c_calls c) (c_effects c))
        end
    | HDispatch =>
        let '(r, e) := dispatch (c_data c) in
        match r with
        | DReply t => Some (mkConn (c_req c) HSend (c_data c) 200 t (c_wfile c) (S (c_calls c)) (c_effects c ++ e)%list)
        | DFail => Some (mkConn (c_req c) HFault (c_data c) 500 (c_response c) (c_wfile c) (S (c_calls c)) (c_effects c ++ e)%list)
        end
    | HFault => Some (mkConn (c_req c) HSend (c_data c) (c_status c) fault500 (c_wfile c) (c_calls c) (c_effects c))
    | HSend => Some (mkConn (c_req c) HDone (c_data c) (c_status c) (c_response c) (Some (c_status c, c_response c))
                            (c_calls c) (c_effects c))
    | HDone => None
    end.

  Definition rank (p : hpc) : nat :=
    match p with HQueued => 6 | HPath => 5 | HRead => 4 | HDispatch => 3 | HFault => 2 | HSend => 1 | HDone => 0 end.

  Fixpoint hrun (fuel : nat) (c : conn) : conn :=
    match fuel with
    | O => c
    | S f => match hstep c with Some c' => hrun f c' | None => c end
    end.

  (** the handler run to completion on its own *)
  Definition complete (c : conn) : conn := hrun (rank (c_pc c)) c.
  Definition hfinal (r : request) : conn := complete (init_conn r).

  (** closed forms: what a request, by itself, determines *)
  Definition dispatched (r : request) : bool :=
    rq_path_ok r && match rq_clen r with Some _ => true | None => false end.
  Definition data_of (r : request) : string :=
    match rq_clen r with Some n => substring 0 n (rq_body r) | None => "" end.
  Definition reply_of (r : request) : nat * string :=
    if negb (rq_path_ok r) then (404%nat, page404)
    else match rq_clen r with
         | None => (500%nat, fault500)
         | Some _ => match fst (dispatch (data_of r)) with
                     | DReply t => (200%nat, t)
                     | DFail => (500%nat, fault500)
                     end
         end.
  Definition effects_of (r : request) : list eff :=
    if dispatched r then snd (dispatch (data_of r)) else [].

  (** ** the system: connections [0 .. length s), a request pool of [pool] workers *)
  Definition hstate := list conn.

  Definition is_active (c : conn) : bool :=
    match c_pc c with HQueued | HDone => false | _ => true end.
  Definition active (s : hstate) : nat := length (filter is_active s).

  Fixpoint set_nth {A} (n : nat) (x : A) (l : list A) : list A :=
    match l, n with
    | [], _ => []
    | _ :: r, O => x :: r
    | y :: r, S m => y :: set_nth m x r
    end.

  (** a step of the handler of connection [c].  A queued connection is entered only when a worker of the
      request pool is free (the pool is abstracted as: each enqueued handler is run by one worker, once —
      this is what C09 establishes for ThreadPool; a plain server is the case pool = 1). *)
  Definition step (pool : nat) (s : hstate) (c : nat) : option hstate :=
    match nth_error s c with
    | None => None
    | Some cn =>
        if match c_pc cn with HQueued => Nat.ltb (active s) pool | _ => true end
        then match hstep cn with Some cn' => Some (set_nth c cn' s) | None => None end
        else None
    end.

  (** schedules: every list of connection numbers; a disabled choice is skipped *)
  Definition run (pool : nat) (sched : list nat) (s : hstate) : hstate :=
    fold_left (fun s c => match step pool s c with Some s' => s' | None => s end) sched s.

  Definition init (reqs : list request) : hstate := map init_conn reqs.

End Handler.

Arguments c_req {eff}. Arguments c_pc {eff}. Arguments c_data {eff}. Arguments c_status {eff}.
Arguments c_response {eff}. Arguments c_wfile {eff}. Arguments c_calls {eff}. Arguments c_effects {eff}.
Arguments mkConn {eff}. Arguments init_conn {eff}. Arguments init {eff}. Arguments is_active {eff}.
Arguments active {eff}. Arguments complete {eff}. Arguments hfinal {eff}. Arguments hstep {eff}. Arguments step {eff}.
Arguments run {eff}. Arguments reply_of {eff}. Arguments effects_of {eff}. Arguments set_pc {eff}.
Arguments hrun {eff}. Arguments set_nth {A}.

(* ================================================================================================ *)
(** * Part 2 — lifecycle *)

Inductive kind := Plain (* SimpleJSONRPCServer *) | Pooled (* PooledJSONRPCServer *).

(** the calls of a lifecycle history.  [Request slow]: a client sends a request and the call returns when
    the reply has arrived ([slow = false]) or when the method has been entered and waits for its gate
    ([slow = true]: the request stays in flight). *)
Inductive op := Construct | ServeInThread | Request (slow : bool) | Shutdown | ServerClose.

(** API discipline (which call is legal when): the stop sequences of the property are
    Shutdown-while-serving then ServerClose, and ServerClose alone; the pooled server also supports
    ServerClose while serving (it shuts the loop down itself). *)
Inductive phase := PFresh | PReady | PServing | PClosed.

Definition next_phase (k : kind) (p : phase) (o : op) : option phase :=
  match p, o with
  | PFresh, Construct => Some PReady
  | PReady, ServeInThread => Some PServing
  | PReady, ServerClose => Some PClosed
  | PServing, Request _ => Some PServing
  | PServing, Shutdown => Some PReady
  | PServing, ServerClose => match k with Pooled => Some PClosed | Plain => None end
  | _, _ => None
  end.

Fixpoint legal_from (k : kind) (p : phase) (h : list op) : bool :=
  match h with
  | [] => true
  | o :: r => match next_phase k p o with Some p' => legal_from k p' r | None => false end
  end.

Definition legal (k : kind) (h : list op) : bool := legal_from k PFresh h.

(** where the calling thread is inside a blocking call *)
Inductive mpc :=
| MIdle          (* between two calls *)
| MWaitSD        (* shutdown(): self.__is_shut_down.wait() *)
| MCloseWait     (* server_close(): inside SimpleJSONRPCServer.shutdown(self), waiting *)
| MCloseSock     (* SimpleJSONRPCServer.server_close(self): self.socket.close() *)
| MCloseStop     (* self.__request_pool.stop(): test + _done_event.set() + sentinels *)
| MCloseJoin.    (* ... for thread in threads: thread.join() *)

(** the thread running serve_forever *)
Inductive lpc :=
| LNone          (* not running *)
| LRun           (* inside BaseServer.serve_forever's loop *)
| LExit.         (* BaseServer's finally done (event set); PooledJSONRPCServer.serve_forever's finally not yet *)

Inductive actor := AMain | ALoop | AHandler | AWorker.

Record lst := mkL {
  phase_ : phase;             (* API phase after the call in progress *)
  todo : list op;             (* calls still to be made *)
  returned : nat;             (* calls that have returned *)
  mpc_ : mpc;
  loop : lpc;
  shutdown_request : bool;    (* BaseServer.__shutdown_request *)
  is_shut_down : bool;        (* BaseServer.__is_shut_down (threading.Event), initially clear *)
  serving_flag : bool;        (* PooledJSONRPCServer.__serving (the F7 repair) *)
  socket_open : bool;         (* self.socket.fileno() != -1 *)
  pool_running : bool;        (* not self.__request_pool._done_event.is_set() *)
  idle : nat;                 (* alive workers of the request pool not inside a handler *)
  in_flight : nat             (* handlers entered and not finished (pool workers; for Plain: inline in the loop) *)
}.

Definition linit (h : list op) : lst := mkL PFresh h 0 MIdle LNone false false false false false 0 0.

Definition is_pooled (k : kind) : bool := match k with Pooled => true | Plain => false end.

(** the calling thread.  [waits s]: does server_close() of the pooled server call shutdown()?
    repaired code: [if self.__serving]; pinned code: always. *)
Definition main_step (waits : lst -> bool) (k : kind) (s : lst) : option lst :=
  match mpc_ s with
  | MIdle =>
      match todo s with
      | [] => None
      | o :: r =>
          match next_phase k (phase_ s) o with
          | None => None                                   (* not a legal call: outside the model *)
          | Some p =>
              match o with
              | Construct =>
                  (* TCPServer.__init__: socket(), bind, listen; PooledJSONRPCServer.__init__: the pool is started *)
                  Some (mkL p r (S (returned s)) MIdle (loop s) (shutdown_request s) (is_shut_down s) false
                            true (is_pooled k) (idle s) (in_flight s))
              | ServeInThread =>
                  (* Thread(target=server.serve_forever).start(), after joining the previous serving thread;
                     serve_forever: self.__serving = True; self.__is_shut_down.clear() *)
                  match loop s with
                  | LNone => Some (mkL p r (S (returned s)) MIdle LRun (shutdown_request s) false (is_pooled k)
                                       (socket_open s) (pool_running s) (idle s) (in_flight s))
                  | _ => None
                  end
              | Request true =>
                  (* accepted by the loop; Plain: handled inline; Pooled: enqueue -> a free or new worker enters it *)
                  Some (mkL p r (S (returned s)) MIdle (loop s) (shutdown_request s) (is_shut_down s) (serving_flag s)
                            (socket_open s) (pool_running s) (Nat.pred (idle s)) (S (in_flight s)))
              | Request false =>
                  (* handled and answered; Pooled: the worker that ran it is idle again *)
                  Some (mkL p r (S (returned s)) MIdle (loop s) (shutdown_request s) (is_shut_down s) (serving_flag s)
                            (socket_open s) (pool_running s)
                            (if is_pooled k then Nat.max 1 (idle s) else idle s) (in_flight s))
              | Shutdown =>
                  (* self.__shutdown_request = True *)
                  Some (mkL p r (returned s) MWaitSD (loop s) true (is_shut_down s) (serving_flag s)
                            (socket_open s) (pool_running s) (idle s) (in_flight s))
              | ServerClose =>
                  match k with
                  | Plain =>      (* TCPServer.server_close: self.socket.close() *)
                      Some (mkL p r (S (returned s)) MIdle (loop s) (shutdown_request s) (is_shut_down s) (serving_flag s)
                                false (pool_running s) (idle s) (in_flight s))
                  | Pooled =>
                      if waits s
                      then Some (mkL p r (returned s) MCloseWait (loop s) true (is_shut_down s) (serving_flag s)
                                     (socket_open s) (pool_running s) (idle s) (in_flight s))
                      else Some (mkL p r (returned s) MCloseSock (loop s) (shutdown_request s) (is_shut_down s) (serving_flag s)
                                     (socket_open s) (pool_running s) (idle s) (in_flight s))
                  end
              end
          end
      end
  | MWaitSD =>      (* self.__is_shut_down.wait(): disabled until the event is set *)
      if is_shut_down s
      then Some (mkL (phase_ s) (todo s) (S (returned s)) MIdle (loop s) (shutdown_request s) (is_shut_down s) (serving_flag s)
                     (socket_open s) (pool_running s) (idle s) (in_flight s))
      else None
  | MCloseWait =>
      if is_shut_down s
      then Some (mkL (phase_ s) (todo s) (returned s) MCloseSock (loop s) (shutdown_request s) (is_shut_down s) (serving_flag s)
                     (socket_open s) (pool_running s) (idle s) (in_flight s))
      else None
  | MCloseSock =>
      Some (mkL (phase_ s) (todo s) (returned s) MCloseStop (loop s) (shutdown_request s) (is_shut_down s) (serving_flag s)
                false (pool_running s) (idle s) (in_flight s))
  | MCloseStop =>   (* ThreadPool.stop: if self._done_event.is_set(): return *)
      if pool_running s
      then Some (mkL (phase_ s) (todo s) (returned s) MCloseJoin (loop s) (shutdown_request s) (is_shut_down s) (serving_flag s)
                     (socket_open s) false (idle s) (in_flight s))
      else Some (mkL (phase_ s) (todo s) (S (returned s)) MIdle (loop s) (shutdown_request s) (is_shut_down s) (serving_flag s)
                     (socket_open s) (pool_running s) (idle s) (in_flight s))
  | MCloseJoin =>   (* joins every worker: disabled until all of them have terminated *)
      match idle s + in_flight s with
      | O => Some (mkL (phase_ s) (todo s) (S (returned s)) MIdle (loop s) (shutdown_request s) (is_shut_down s) (serving_flag s)
                       (socket_open s) (pool_running s) (idle s) (in_flight s))
      | S _ => None
      end
  end.

(** the serving thread: leaves the loop when it sees the request (Plain: not while a handler runs inline) *)
Definition loop_step (k : kind) (s : lst) : option lst :=
  match loop s with
  | LNone => None
  | LRun =>
      if shutdown_request s && (is_pooled k || Nat.eqb (in_flight s) 0)
      then (* finally: self.__shutdown_request = False; self.__is_shut_down.set() *)
        Some (mkL (phase_ s) (todo s) (returned s) (mpc_ s) (if is_pooled k then LExit else LNone) false true (serving_flag s)
                  (socket_open s) (pool_running s) (idle s) (in_flight s))
      else None
  | LExit => (* PooledJSONRPCServer.serve_forever, finally: self.__serving = False *)
      Some (mkL (phase_ s) (todo s) (returned s) (mpc_ s) LNone (shutdown_request s) (is_shut_down s) false
                (socket_open s) (pool_running s) (idle s) (in_flight s))
  end.

(** an in-flight handler finishes (its worker becomes idle) *)
Definition handler_step (k : kind) (s : lst) : option lst :=
  match in_flight s with
  | O => None
  | S n => Some (mkL (phase_ s) (todo s) (returned s) (mpc_ s) (loop s) (shutdown_request s) (is_shut_down s) (serving_flag s)
                     (socket_open s) (pool_running s) (if is_pooled k then S (idle s) else idle s) n)
  end.

(** an idle worker terminates (sentinel / stop event, or the pool's own retirement rule) *)
Definition worker_step (s : lst) : option lst :=
  match idle s with
  | O => None
  | S n => Some (mkL (phase_ s) (todo s) (returned s) (mpc_ s) (loop s) (shutdown_request s) (is_shut_down s) (serving_flag s)
                     (socket_open s) (pool_running s) n (in_flight s))
  end.

Definition lstep_gen (waits : lst -> bool) (k : kind) (s : lst) (a : actor) : option lst :=
  match a with
  | AMain => main_step waits k s
  | ALoop => loop_step k s
  | AHandler => handler_step k s
  | AWorker => worker_step s
  end.

(** the repaired code *)
Definition lstep := lstep_gen serving_flag.

Definition lrun_gen (waits : lst -> bool) (k : kind) (sched : list actor) (s : lst) : lst :=
  fold_left (fun s a => match lstep_gen waits k s a with Some s' => s' | None => s end) sched s.
Definition lrun := lrun_gen serving_flag.

Definition main_finished (s : lst) : bool :=
  match todo s, mpc_ s with [], MIdle => true | _, _ => false end.

Definition close_returned (s : lst) : bool :=
  match phase_ s, mpc_ s with PClosed, MIdle => true | _, _ => false end.

(** ranking function: every step of every actor decreases it *)
Definition opcost (o : op) : nat :=
  match o with Construct => 1 | ServeInThread => 3 | Request _ => 3 | Shutdown => 2 | ServerClose => 5 end.
Definition mcost (m : mpc) : nat :=
  match m with MIdle => 0 | MWaitSD => 1 | MCloseWait => 4 | MCloseSock => 3 | MCloseStop => 2 | MCloseJoin => 1 end.
Definition lcost (l : lpc) : nat := match l with LNone => 0 | LRun => 2 | LExit => 1 end.
Definition lmeasure (s : lst) : nat :=
  list_sum (map opcost (todo s)) + mcost (mpc_ s) + lcost (loop s) + 2 * in_flight s + idle s.

(** ** deterministic executor used by the correspondence stage: the calling thread runs whenever it can;
    the serving thread, then an in-flight handler, then an idle worker move only when it is blocked
    (the harness opens the gates of slow methods only when a call is blocked, or at the end) *)
Definition pick_step (waits : lst -> bool) (k : kind) (s : lst) : option lst :=
  match lstep_gen waits k s AMain with
  | Some s' => Some s'
  | None =>
      match lstep_gen waits k s ALoop with
      | Some s' => Some s'
      | None =>
          match lstep_gen waits k s AHandler with
          | Some s' => Some s'
          | None => lstep_gen waits k s AWorker
          end
      end
  end.

Fixpoint lexec (waits : lst -> bool) (fuel : nat) (k : kind) (s : lst) : lst :=
  match fuel with
  | O => s
  | S f => match pick_step waits k s with Some s' => lexec waits f k s' | None => s end
  end.

Definition loop_running (s : lst) : bool := match loop s with LRun => true | _ => false end.

(** observation: how many calls returned; is the listening socket open; after a returned ServerClose,
    have all workers of the pool terminated; is the serving thread still inside its loop *)
Definition lobs_gen (waits : lst -> bool) (k : kind) (h : list op) : nat * bool * option bool * bool :=
  let s := lexec waits (S (lmeasure (linit h))) k (linit h) in
  (returned s, socket_open s,
   if close_returned s then Some (Nat.eqb (idle s + in_flight s) 0 && negb (pool_running s)) else None,
   loop_running s).
Definition lobs := lobs_gen serving_flag.

(* ================================================================================================ *)
(** * Observation interface for the correspondence stage *)

Definition option_eqb {A} (e : A -> A -> bool) (a b : option A) : bool :=
  match a, b with Some x, Some y => e x y | None, None => true | _, _ => false end.

(** lifecycle: (kind, history, (calls returned, socket open, workers dead, serving thread still in its loop)) *)
Definition c12_life_check (c : kind * list op * (nat * bool * option bool * bool)) : bool :=
  let '(k, h, (n, so, wd, lr)) := c in
  let '(n', so', wd', lr') := lobs k h in
  Nat.eqb n n' && Bool.eqb so so' && option_eqb Bool.eqb wd wd' && Bool.eqb lr lr'.

(** handler level: the dispatcher is the table of the single-threaded replies of the implementation
    (request text -> reply text or failure, tokens of the callables invoked) *)
Fixpoint lookup {A} (d : string) (t : list (string * A)) (dflt : A) : A :=
  match t with
  | [] => dflt
  | (k, v) :: r => if String.eqb k d then v else lookup d r dflt
  end.

Definition table_dispatch (t : list (string * (dres * list string))) (d : string) : dres * list string :=
  lookup d t (DFail, []).

(** observation of one connection: status, body ([None]: masked, for 404/500 pages whose wording is
    irrelevant), tokens executed on its behalf *)
Definition conn_obs := (nat * option string * list string)%type.

Definition obs_of_conn (c : conn string) : option conn_obs :=
  match c_pc c, c_wfile c with
  | HDone, Some (st, body) => Some (st, if Nat.eqb st 200 then Some body else None, c_effects c)
  | _, _ => None
  end.

Definition conn_obs_eqb (a b : conn_obs) : bool :=
  let '(s1, b1, e1) := a in let '(s2, b2, e2) := b in
  Nat.eqb s1 s2 && option_eqb String.eqb b1 b2 && list_eqb String.eqb e1 e2.

(** (pool size, dispatcher table, requests, schedule, observed per-connection outcome).
    The schedule given is followed, then every connection is run to completion round-robin. *)
Definition c12_handler_check
  (c : nat * list (string * (dres * list string)) * list request * list nat * list conn_obs) : bool :=
  let '(pool, tbl, reqs, sched, obs) := c in
  let n := length reqs in
  let tail := concat (repeat (seq 0 n) (7 * n)) in
  let s := run (table_dispatch tbl) "" "" pool (sched ++ tail)%list (init reqs) in
  list_eqb (option_eqb conn_obs_eqb) (map obs_of_conn s) (map Some obs).
