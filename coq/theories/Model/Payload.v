(** * Payload — model of the message-construction API of jsonrpclib/jsonrpc.py.

    Mirrors, function by function:
      - [payload_init]                      Payload.__init__          (version default, float(version))
      - [payload_request] [payload_notify]  Payload.request / notify
      - [payload_response] [payload_error]  Payload.response / error
      - [dump_plan] [dump_finish] [dump]    dump (argument validation, dispatch to Payload)
      - [dumps] [load] [loads]              dumps / load / loads over an abstract JSON codec
      - [fault_error] [fault_dump] [fault_response]   Fault.error / dump / response

    The request-id rule of [payload_request] is the one of the REPAIRED code
    (finding F8: ids 0 and 0.0 are numbers and are kept); the pinned variant
    and its refutation are in Examples/C14_examples.v.

    External components are explicit function arguments (Section variables):
      [fresh : nat -> str]      str(uuid.uuid4()), the k-th generated id; a counter is threaded
      [jc    : val -> res val]  jsonclass.dump(params, config=config)   (only called when use_jsonclass)
      [jl    : val -> res val]  jsonclass.load(data, config.classes)    (only called when use_jsonclass)
      [enc], [dec]              jdumps / jloads (the JSON backend) over an abstract type [text] of
                                JSON texts with the test [is_empty] for [data == ""]
    Hypotheses about them live in Proofs/PayloadProofs.v.

    Definitions only. *)

From JR Require Export PyOps.
From Coq Require Import DecimalString.

(** ** Small Python operations not in PyOps *)

(** [str(i)] for an int *)
Definition z_to_str (z : Z) : str := NilZero.string_of_int (Z.to_int z).

(** the float literal [1.1] of [self.version < 1.1], exactly (float.as_integer_ratio) *)
Definition f_1_1 : rat := (2476979795053773, 2251799813685248%positive).

(** a rational that is a binary64 value for sure: k / 2^j with j <= 40, |k| < 2^53.
    [float("1.1")] is not the rational 11/10, so such strings are outside the model. *)
Definition exact_binary (r : rat) : bool :=
  let '(n, d) := r in
  ((n * 2 ^ 40) mod (Zpos d) =? 0) && (Z.abs n <? 2 ^ 53 * Zpos d).

(** [float(version)]: PyOps.py_float, with decimal strings restricted to exactly representable ones *)
Definition version_float (v : val) : res rat :=
  match v with
  | VStr _ => do r <- py_float v; if exact_binary r then Ok r else Raise EUnmodelled
  | _ => py_float v
  end.

(** [str(self.version)] for a float: integral values below 10^16 print as "<int>.0",
    halves as "<int>.5"; every other float is outside the model *)
Definition float_str (r : rat) : res str :=
  let '(n, d) := r in
  if (n mod Zpos d =? 0) && (Z.abs (n / Zpos d) <? 10 ^ 16)
  then Ok (z_to_str (n / Zpos d) ++ ".0")
  else if ((2 * n) mod Zpos d =? 0) && (Z.abs (n / Zpos d) <? 10 ^ 15)
       then Ok ((if n <? 0 then "-" else "") ++ z_to_str (Z.abs n / Zpos d) ++ ".5")
       else Raise EUnmodelled.

Definition ge2 (r : rat) : bool := rat_leb (rat_of_Z 2) r.          (* self.version >= 2 *)
Definition lt11 (r : rat) : bool := rat_ltb r f_1_1.                (* self.version < 1.1 *)

(** [isinstance(x, (int, float))] excluding bool: the "number" of property C14 *)
Definition is_number (v : val) : bool :=
  match v with VInt _ | VFlt _ => true | _ => false end.

(** JSON-serialisable by the stdlib backend (tuples are written as arrays) *)
Fixpoint json_ok (v : val) : bool :=
  match v with
  | VNone | VBool _ | VInt _ | VFlt _ | VStr _ => true
  | VList l | VTuple l => forallb json_ok l
  | VDict m => forallb (fun kv => match fst kv with VStr _ => json_ok (snd kv) | _ => false end) m
  | _ => false
  end.

(** ** Configuration (the two fields this code reads) and the Payload object *)

Record pcfg := mkPcfg {
  pc_version : val;          (* config.version *)
  pc_jsonclass : bool        (* bool(config.use_jsonclass) *)
}.

Record payload := mkPayload {
  p_id : val;                (* self.id *)
  p_version : rat            (* self.version, a float *)
}.

(** Payload.__init__(rpcid, version)  — note: called by [dump] WITHOUT its config, so the
    fallback is the module-global DEFAULT configuration's version [dv]:
      if not version: version = config.version ; self.id = rpcid ; self.version = float(version) *)
Definition payload_init (dv : val) (rpcid version : val) : res payload :=
  let version := if truthy version then version else dv in
  do f <- version_float version;
  Ok (mkPayload rpcid f).

(** the id rule of Payload.request (repaired):
      if not self.id and not <self.id is an int/float other than a bool>: self.id = str(uuid.uuid4()) *)
Definition needs_fresh_id (i : val) : bool := negb (truthy i) && negb (is_number i).

(** [params or []] *)
Definition params_or_empty (params : val) : val := if truthy params then params else VList [].

Section Fresh.
  Variable fresh : nat -> str.

  (** Payload.request(method, params): returns the dictionary, the Payload afterwards
      (self.id may have been assigned) and the id counter *)
  Definition payload_request (p : payload) (method params : val) (n : nat) : res (val * payload * nat) :=
    if negb (is_string method) then Raise EValue
    else
      let '(p, n) := if needs_fresh_id (p_id p)
                     then (mkPayload (VStr (fresh n)) (p_version p), S n)
                     else (p, n) in
      let request := [(VStr "id", p_id p); (VStr "method", method)] in
      let request := if truthy params || lt11 (p_version p)
                     then dset request (VStr "params") (params_or_empty params)
                     else request in
      do request <- (if ge2 (p_version p)
                     then do s <- float_str (p_version p); Ok (dset request (VStr "jsonrpc") (VStr s))
                     else Ok request);
      Ok (VDict request, p, n).

  (** Payload.notify(method, params) *)
  Definition payload_notify (p : payload) (method params : val) (n : nat) : res (val * payload * nat) :=
    do (request, p, n) <- payload_request p method params n;
    match request with
    | VDict m =>
        if ge2 (p_version p) then Ok (VDict (ddel m (VStr "id")), p, n)
        else Ok (VDict (dset m (VStr "id") VNone), p, n)
    | _ => Raise EUnmodelled      (* unreachable: payload_request returns a dict *)
    end.
End Fresh.

(** Payload.response(result) *)
Definition payload_response (p : payload) (result : val) : res val :=
  let response := [(VStr "result", result); (VStr "id", p_id p)] in
  if ge2 (p_version p)
  then do s <- float_str (p_version p); Ok (VDict (dset response (VStr "jsonrpc") (VStr s)))
  else Ok (VDict (dset response (VStr "error") VNone)).

(** the inner error object of Payload.error *)
Definition error_object (code message data : val) : val :=
  let e := [(VStr "code", code); (VStr "message", message)] in
  VDict (match data with VNone => e | _ => dset e (VStr "data") data end).

(** Payload.error(code, message, data) *)
Definition payload_error (p : payload) (code message data : val) : res val :=
  do error <- payload_response p VNone;
  match error with
  | VDict m =>
      let m := if ge2 (p_version p) then ddel m (VStr "result") else dset m (VStr "result") VNone in
      Ok (VDict (dset m (VStr "error") (error_object code message data)))
  | _ => Raise EUnmodelled        (* unreachable: payload_response returns a dict *)
  end.

(** ** dump *)

(** the [params] argument of dump: a value, or a Fault instance (only faultCode, faultString, data are read) *)
Inductive dparams := PVal (v : val) | PFault (code msg data : val).

(** isinstance(params, (tuple, list, dict, Fault [, NoneType if is_response])) *)
Definition valid_params (is_response : bool) (p : dparams) : bool :=
  match p with
  | PFault _ _ _ => true
  | PVal (VTuple _) | PVal (VList _) | PVal (VDict _) => true
  | PVal VNone => is_response
  | PVal _ => false
  end.

(** what remains to be done once dump has validated its arguments *)
Inductive dump_plan_t :=
| DoneMsg (d : val)                                  (* an error or response dictionary: finished *)
| DoRequest (p : payload) (method params : val)      (* return payload.request(methodname, params) *)
| DoNotify (p : payload) (method params : val).      (* return payload.notify(methodname, params) *)

Section Dump.
  Variable jc : val -> res val.          (* jsonclass.dump(params, config=config) *)

  (** dump(params, methodname, rpcid, version, is_response, is_notify, config) up to the
      final call of Payload.request / notify (the only part that generates ids).
      [dv] is jsonrpclib.config.DEFAULT.version (see [payload_init]). *)
  Definition dump_plan (dv : val) (cfg : pcfg) (params : dparams)
             (methodname rpcid version is_response is_notify : val) : res dump_plan_t :=
    (* if not version: version = config.version *)
    let version := if truthy version then version else pc_version cfg in
    (* if not is_response and params is None: params = [] *)
    let params := match params with
                  | PVal VNone => if truthy is_response then params else PVal (VList [])
                  | _ => params
                  end in
    (* string method name with params that are no container / Fault *)
    if is_string methodname && negb (valid_params (truthy is_response) params) then Raise EType
    else
      do p <- payload_init dv rpcid version;
      match params with
      | PFault code msg data =>
          do d <- payload_error p code msg data; Ok (DoneMsg d)
      | PVal pv =>
          if negb (is_string methodname) && negb (truthy is_response) then Raise EValue
          else
            do pv <- (if pc_jsonclass cfg then jc pv else Ok pv);
            if truthy is_response then
              match rpcid with
              | VNone => Raise EValue                       (* a response must have an rpcid *)
              | _ => do d <- payload_response p pv; Ok (DoneMsg d)
              end
            else if truthy is_notify then Ok (DoNotify p methodname pv)
            else Ok (DoRequest p methodname pv)
      end.

  Variable fresh : nat -> str.

  Definition dump_finish (k : dump_plan_t) (n : nat) : res (val * nat) :=
    match k with
    | DoneMsg d => Ok (d, n)
    | DoRequest p m pv => do (d, _, n) <- payload_request fresh p m pv n; Ok (d, n)
    | DoNotify p m pv => do (d, _, n) <- payload_notify fresh p m pv n; Ok (d, n)
    end.

  (** dump: the dictionary and the id counter afterwards *)
  Definition dump (dv : val) (cfg : pcfg) (params : dparams)
             (methodname rpcid version is_response is_notify : val) (n : nat) : res (val * nat) :=
    do k <- dump_plan dv cfg params methodname rpcid version is_response is_notify;
    dump_finish k n.

  (** ** dumps / load / loads over the JSON backend *)
  Context {text : Type}.                 (* JSON texts (Python str); abstract so that the codec hypotheses
                                            have both the real backend and a trivial instance as models *)
  Variable is_empty : text -> bool.      (* data == "" *)
  Variable enc : val -> res text.        (* jdumps *)
  Variable dec : text -> res val.        (* jloads *)
  Variable jl : val -> res val.          (* jsonclass.load(data, config.classes) *)

  (** dumps(params, methodname, methodresponse, encoding, rpcid, version, notify, config) *)
  Definition dumps (dv : val) (cfg : pcfg) (params : dparams)
             (methodname methodresponse rpcid version notify : val) (n : nat) : res (text * nat) :=
    do (request, n) <- dump dv cfg params methodname rpcid version methodresponse notify n;
    do t <- enc request;
    Ok (t, n).

  (** load(data, config) *)
  Definition load (cfg : pcfg) (data : val) : res val :=
    match data with
    | VNone => Ok VNone
    | _ => if pc_jsonclass cfg then jl data else Ok data
    end.

  (** loads(data, config) *)
  Definition loads (cfg : pcfg) (data : text) : res val :=
    if is_empty data then Ok VNone
    else do result <- dec data; load cfg result.
End Dump.

(** ** Fault *)

Record fault := mkFault {
  f_code : val;        (* faultCode *)
  f_msg : val;         (* faultString *)
  f_rpcid : val;       (* rpcid *)
  f_cfg : pcfg;        (* config *)
  f_data : val         (* data *)
}.

(** Fault.error(): always the three members *)
Definition fault_error (f : fault) : val :=
  VDict [(VStr "code", f_code f); (VStr "message", f_msg f); (VStr "data", f_data f)].

(** [if rpcid: self.rpcid = rpcid]  — the Fault object afterwards *)
Definition fault_set_rpcid (f : fault) (rpcid : val) : fault :=
  if truthy rpcid then mkFault (f_code f) (f_msg f) rpcid (f_cfg f) (f_data f) else f.

Definition fault_params (f : fault) : dparams := PFault (f_code f) (f_msg f) (f_data f).

(** Fault.dump(rpcid, version): the result and the Fault object afterwards.
    dump(self, is_response=True, rpcid=self.rpcid, version=version, config=self.config)
    never reaches Payload.request (params is a Fault), hence no id supply here. *)
Definition fault_dump (dv : val) (f : fault) (rpcid version : val) : res val * fault :=
  let version := if truthy version then version else pc_version (f_cfg f) in
  let f := fault_set_rpcid f rpcid in
  (match dump_plan (fun v => Ok v) dv (f_cfg f) (fault_params f) VNone (f_rpcid f) version (VBool true) VNone with
   | Ok (DoneMsg d) => Ok d
   | Ok _ => Raise EUnmodelled       (* unreachable: params is a Fault *)
   | Raise e => Raise e
   end, f).

(** Fault.response(rpcid, version): the same through dumps *)
Definition fault_response {text : Type} (enc : val -> res text) (dv : val) (f : fault) (rpcid version : val) : res text * fault :=
  let '(r, f) := fault_dump dv f rpcid version in
  (do d <- r; enc d, f).
