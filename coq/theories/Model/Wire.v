(** * Wire — model of the byte-level framing of JSON-RPC messages (property C17).

    Mirrors, function by function:
      - jsonrpclib/utils.py:79-93            [to_bytes], [from_bytes] (Python 3 branch) over a concrete UTF-8 codec
      - jsonrpclib/jsonrpc.py:201-235        [JSONTarget.__init__/feed/close]   -> [target_init], [target_feed], [target_close]
      - xmlrpc.client.Transport.parse_response (stdlib, modelled)           -> [parse_response]
      - jsonrpclib/jsonrpc.py:285-330,388-412 [emit_additional_headers], [send_content] -> [emit_additional], [send_content]
      - jsonrpclib/jsonrpc.py:562-602        [ServerProxy.__init__] scheme / handler part -> [proxy_init]
      - jsonrpclib/jsonrpc.py:665-673        [ServerProxy._run_request] path + query      -> [request_target]
      - jsonrpclib/SimpleJSONRPCServer.py:476-488  body loop of [do_POST] (REPAIRED code: raw chunks are joined
                                               and decoded once)                         -> [body_loop], [server_body]
      - jsonrpclib/SimpleJSONRPCServer.py:490-532  rest of [do_POST]: dispatch, status, reply headers -> [do_post]
      - jsonrpclib/SimpleJSONRPCServer.py:709-725  [CGIJSONRPCRequestHandler.handle_jsonrpc]         -> [cgi_reply]

    This model has its own data types: a Python [str] is the list of its code points, a [bytes] object the
    list of its byte values.  Definitions only; proofs are in Proofs/WireProofs.v. *)

From JR Require Export PyOps.
From Coq Require Export NArith.
From Coq Require Import DecimalString Decimal.
Local Open Scope N_scope.

Definition text := list N.       (* code points of a Python str *)
Definition bytes := list N.      (* byte values (< 256) of a Python bytes object *)

(** ** UTF-8, as CPython's strict codec *)

(** what [str.encode("UTF-8")] accepts: Unicode scalar values (no surrogates) *)
Definition is_scalar (c : N) : bool :=
  (c <? 55296) || ((57344 <=? c) && (c <=? 1114111)).

Definition enc1 (c : N) : bytes :=
  if c <? 128 then [c]
  else if c <? 2048 then [192 + c / 64; 128 + c mod 64]
  else if c <? 65536 then [224 + c / 64 / 64; 128 + (c / 64) mod 64; 128 + c mod 64]
  else [240 + c / 64 / 64 / 64; 128 + (c / 64 / 64) mod 64; 128 + (c / 64) mod 64; 128 + c mod 64].

Definition utf8_enc (s : text) : bytes := flat_map enc1 s.

Definition enc_err : exn := EOther "UnicodeEncodeError".
Definition dec_err : exn := EOther "UnicodeDecodeError".

(** continuation byte 10xxxxxx *)
Definition contb (b : N) : bool := (128 <=? b) && (b <? 192).

Definition cons_ok (c : N) (r : res text) : res text :=
  match r with Ok s => Ok (c :: s) | Raise e => Raise e end.

(** strict decoder: rejects stray continuation bytes, overlong forms, surrogates, code points above
    U+10FFFF, lead bytes F5..FF and truncated sequences *)
Fixpoint utf8_dec (b : bytes) : res text :=
  match b with
  | [] => Ok []
  | b0 :: r0 =>
      if b0 <? 128 then cons_ok b0 (utf8_dec r0)
      else if b0 <? 194 then Raise dec_err
      else if b0 <? 224 then
        match r0 with
        | b1 :: r1 =>
            if contb b1 then cons_ok ((b0 - 192) * 64 + (b1 - 128)) (utf8_dec r1) else Raise dec_err
        | _ => Raise dec_err
        end
      else if b0 <? 240 then
        match r0 with
        | b1 :: b2 :: r2 =>
            let c := (b0 - 224) * 4096 + (b1 - 128) * 64 + (b2 - 128) in
            if contb b1 && contb b2 && (2048 <=? c) && negb ((55296 <=? c) && (c <=? 57343))
            then cons_ok c (utf8_dec r2) else Raise dec_err
        | _ => Raise dec_err
        end
      else if b0 <? 245 then
        match r0 with
        | b1 :: b2 :: b3 :: r3 =>
            let c := (b0 - 240) * 262144 + (b1 - 128) * 4096 + (b2 - 128) * 64 + (b3 - 128) in
            if contb b1 && contb b2 && contb b3 && (65536 <=? c) && (c <=? 1114111)
            then cons_ok c (utf8_dec r3) else Raise dec_err
        | _ => Raise dec_err
        end
      else Raise dec_err
  end.

(** ** utils.to_bytes / utils.from_bytes (Python 3 branch) *)

Inductive pydata := PStr (s : text) | PBytes (b : bytes).

(** [if type(string) is bytes: return string ; return bytes(string, "UTF-8")] *)
Definition to_bytes (d : pydata) : res bytes :=
  match d with
  | PBytes b => Ok b
  | PStr s => if forallb is_scalar s then Ok (utf8_enc s) else Raise enc_err
  end.

(** [if type(data) is str: return data ; return str(data, "UTF-8")] *)
Definition from_bytes (d : pydata) : res text :=
  match d with
  | PStr s => Ok s
  | PBytes b => utf8_dec b
  end.

Definition blen (b : bytes) : N := N.of_nat (length b).

(** ** decimal rendering of lengths: [str(len(body))] *)
Definition str_of_N (n : N) : string := NilEmpty.string_of_uint (N.to_uint n).
Definition N_of_str (s : string) : option N := option_map N.of_uint (NilEmpty.uint_of_string s).

(** ** Client: JSONTarget (jsonrpc.py:201-235).  [self.data] is the list of raw chunks. *)

Definition target_init : list bytes := [].                                        (* self.data = [] *)
Definition target_feed (data : list bytes) (chunk : bytes) : list bytes := (data ++ [chunk])%list.   (* self.data.append(data) *)

(** [close]: empty buffer -> ""; else join the raw chunks and convert the whole once; when the conversion
    fails (ValueError) the joined bytes are passed through unchanged *)
Definition target_close (data : list bytes) : pydata :=
  match data with
  | [] => PStr []
  | _ => let joined := concat data in
         match from_bytes (PBytes joined) with
         | Ok s => PStr s
         | Raise _ => PBytes joined
         end
  end.

(** the same conversion applied to a whole body received at once *)
Definition decode_whole (b : bytes) : pydata :=
  match from_bytes (PBytes b) with Ok s => PStr s | Raise _ => PBytes b end.

(** splitting a byte string into successive reads: [stream.read(amt)] returns at most [amt] bytes, at most the
    next scripted size (a script entry 0 counts as 1: a read never returns nothing before the end), and
    whatever is left at the end; the loop [while data := stream.read(amt)] stops at the first empty read.
    [fuel] is the stream itself (every read consumes at least one byte). *)
Fixpoint takeN {A} (n : N) (l : list A) : list A :=
  match l with
  | [] => []
  | x :: r => if n =? 0 then [] else x :: takeN (N.pred n) r
  end.
Fixpoint dropN {A} (n : N) (l : list A) : list A :=
  match l with
  | [] => []
  | x :: r => if n =? 0 then l else dropN (N.pred n) r
  end.

Fixpoint read_all (fuel : bytes) (amt : N) (sizes : list N) (s : bytes) : list bytes :=
  match s, fuel with
  | [], _ => []
  | _, [] => []            (* unreachable when [length s <= length fuel] *)
  | _, _ :: fuel' =>
      let want := match sizes with [] => amt | z :: _ => N.min amt (N.max 1 z) end in
      let want := N.max 1 want in
      takeN want s :: read_all fuel' amt (tl sizes) (dropN want s)
  end.

(** xmlrpc.client.Transport.parse_response, with the transport's parser/target:
    [stream] is the body after the optional gzip layer ([GzipDecodedResponse] raises when the data is not gzip);
    [while data := stream.read(1024): p.feed(data)] ; [return u.close()] *)
Definition parse_stream (sizes : list N) (stream : res bytes) : res pydata :=
  do s <- stream;
  Ok (target_close (fold_left target_feed (read_all s 1024 sizes s) target_init)).

Section Gzip.
  Variable gunz : bytes -> res bytes.       (* gzip.GzipFile(...).read: the decompressed body, or an error *)

  Definition parse_response (content_encoding_gzip : bool) (sizes : list N) (wire : bytes) : res pydata :=
    parse_stream sizes (if content_encoding_gzip then gunz wire else Ok wire).
End Gzip.

(** ** Header lists *)

Definition header := (string * string)%type.

Definition hdr_values (name : string) (hs : list header) : list string :=
  map snd (filter (fun h => String.eqb (ascii_lower (fst h)) name) hs).

(** TransportMixIn.emit_additional_headers on the merged custom-header dictionary: keys are lower-cased and
    the read-only names are removed *)
Definition readonly (k : string) : bool := String.eqb k "content-length" || String.eqb k "content-type".
Definition emit_additional (custom : list header) : list header :=
  filter (fun h => negb (readonly (fst h))) (map (fun h => (ascii_lower (fst h), snd h)) custom).

(** TransportMixIn.send_content: the header lines put after the request line and the bytes sent *)
Definition send_content (content_type user_agent : string) (custom : list header) (body : pydata)
  : res (list header * bytes) :=
  do b <- to_bytes body;                                                   (* request_body = utils.to_bytes(request_body) *)
  let add := emit_additional custom in
  Ok (([("Content-Type", content_type); ("Content-Length", str_of_N (blen b))]
         ++ add
         ++ (if existsb (fun h => String.eqb (fst h) "user-agent") add then [] else [("User-Agent", user_agent)]))%list,
      b).

(** ** ServerProxy.__init__ : scheme and handler (jsonrpc.py:562-602) *)

Fixpoint drop_chars (n : nat) (s : string) : string :=
  match n, s with
  | S k, String _ r => drop_chars k r
  | _, _ => s
  end.

Inductive transport_kind := THttp | TSafe | TUnix | TCustom.

Record proxy := { px_transport : transport_kind; px_handler : string; px_query : string }.

(** [scheme], [path], [query] are the components [urlparse] returned; [custom_transport] says whether the
    caller passed [transport=] *)
Definition proxy_init (scheme path query : string) (custom_transport : bool) : res proxy :=
  let use_unix := prefixb "unix+" scheme in
  let schema := if use_unix then drop_chars 5 scheme else scheme in
  if negb (String.eqb schema "http" || String.eqb schema "https") then Raise EOS        (* raise IOError("Unsupported JSON-RPC protocol.") *)
  else
    let handler := if use_unix then "/"%string else if String.eqb path "" then "/"%string else path in
    let mk t := Ok {| px_transport := t; px_handler := handler; px_query := query |} in
    if custom_transport then mk TCustom
    else if use_unix then (if String.eqb schema "http" then mk TUnix else Raise EOS)   (* "Unhandled combination" *)
    else if String.eqb schema "https" then mk TSafe
    else mk THttp.

(** the schemes of the property statement (a domain predicate, not code): http, https, unix+http, and
    unix+https only when the caller supplies the transport *)
Definition accepted (scheme : string) (custom_transport : bool) : bool :=
  String.eqb scheme "http" || String.eqb scheme "https" || String.eqb scheme "unix+http"
  || (String.eqb scheme "unix+https" && custom_transport).

(** ServerProxy._run_request: the request target handed to [transport.request] *)
Definition request_target (p : proxy) : string :=
  if String.eqb (px_query p) "" then px_handler p
  else (px_handler p ++ "?" ++ px_query p)%string.

(** ** Server: the body loop of do_POST (REPAIRED code) *)

(** [rfile]: the bytes still to come and the scripted sizes of the next reads.  [read(k)] returns at most [k]
    bytes, at most the scripted size (short read; a scripted 0 is an empty read, which the loop takes as
    end of file), and at most what is left. *)
Definition rfile := (bytes * list N)%type.

Definition rfile_read (k : N) (f : rfile) : bytes * rfile :=
  let '(s, caps) := f in
  let n := match caps with [] => k | c :: _ => N.min k c end in
  (takeN n s, (dropN n s, tl caps)).

(** [while size_remaining: chunk_size = min(size_remaining, max_chunk_size); raw_chunk = self.rfile.read(chunk_size);
     if not raw_chunk: break; chunks.append(raw_chunk); size_remaining -= len(raw_chunk)]
    [fuel]: any list longer than the stream; running out of it is a distinct error (never happens, see
    [body_loop_fuel]). *)
Fixpoint body_loop (fuel : bytes) (M rem : N) (f : rfile) (chunks : list bytes) : res (list bytes) :=
  if rem =? 0 then Ok chunks
  else match fuel with
       | [] => Raise EUnmodelled
       | _ :: fuel' =>
           let '(raw, f') := rfile_read (N.min rem M) f in
           match raw with
           | [] => Ok chunks
           | _ => body_loop fuel' M (rem - blen raw) f' (chunks ++ [raw])%list
           end
       end.

(** [data = utils.from_bytes(b"".join(chunks))] *)
Definition server_body (M clen : N) (f : rfile) : res text :=
  do chunks <- body_loop (0 :: fst f) M clen f [];
  from_bytes (PBytes (concat chunks)).

(** the chunk size of the code: [max_chunk_size = 10 * 1024 * 1024] *)
Definition max_chunk_size : N := 10 * 1024 * 1024.

(** ** Server: do_POST as a whole (path valid, no request content-encoding).
    [dispatch] stands for [self.server._marshaled_dispatch] (returns the reply text, or None);
    [fault_text] for [Fault(-32603, ...).response()] of the error path. *)
Record http_reply := { rp_status : N; rp_headers : list header; rp_body : bytes }.

Definition reply_of (status : N) (content_type : string) (response : text) : res http_reply :=
  do b <- to_bytes (PStr response);                                  (* response = utils.to_bytes(response) *)
  Ok {| rp_status := status;
        rp_headers := [("Content-type", content_type); ("Content-length", str_of_N (blen b))];
        rp_body := b |}.

Definition do_post (M : N) (content_type : string) (clen : N) (f : rfile)
           (dispatch : text -> res (option text)) (fault_text : text) : option text * res http_reply :=
  match server_body M clen f with
  | Ok data =>
      match dispatch data with
      | Ok (Some r) => (Some data, reply_of 200 content_type r)
      | Ok None => (Some data, reply_of 200 content_type [])             (* if response is None: response = "" *)
      | Raise _ => (Some data, reply_of 500 content_type fault_text)
      end
  | Raise _ => (None, reply_of 500 content_type fault_text)              (* except: send_response(500) *)
  end.

(** ** CGI: handle_jsonrpc (encoding "UTF-8"): the header lines printed and the bytes written *)
Definition cgi_reply (content_type : string) (response : text) : res (list header * bytes) :=
  do b <- to_bytes (PStr response);                                  (* response.encode(self.encoding) *)
  Ok ([("Content-Type", content_type); ("Content-Length", str_of_N (blen b))], b).

(** ** Observation interface for the correspondence stage *)

Definition bytes_eqb (a b : bytes) : bool := list_eqb N.eqb a b.
Definition exn_same (a b : exn) : bool :=
  match a, b with
  | EOther x, EOther y => String.eqb x y
  | EOS, EOS | EValue, EValue | EType, EType => true
  | _, _ => false
  end.
Definition rbytes_eqb (a b : res bytes) : bool :=
  match a, b with Ok x, Ok y => bytes_eqb x y | Raise x, Raise y => exn_same x y | _, _ => false end.
Definition pydata_eqb (a b : pydata) : bool :=
  match a, b with PStr x, PStr y | PBytes x, PBytes y => bytes_eqb x y | _, _ => false end.
Definition rpydata_eqb (a b : res pydata) : bool :=
  match a, b with Ok x, Ok y => pydata_eqb x y | Raise _, Raise _ => true | _, _ => false end.
Definition strs_eqb (a b : list string) : bool := list_eqb String.eqb a b.

(** the two framing headers of a header list: values of Content-Type, values of Content-Length *)
Definition framing (hs : list header) : list string * list string :=
  (hdr_values "content-type" hs, hdr_values "content-length" hs).
Definition framing_eqb (a b : list string * list string) : bool :=
  strs_eqb (fst a) (fst b) && strs_eqb (snd a) (snd b).

(** codec stream: [CEnc s o] : to_bytes(s) observed as [o];  [CDec b o] : from_bytes(b) observed as [o] *)
Inductive codec_case :=
| CEnc (s : text) (o : res bytes) | CDec (b : bytes) (o : res text)
| CEncB (b : bytes) (o : res bytes)        (* to_bytes of a bytes object *)
| CDecS (s : text) (o : res text).         (* from_bytes of a str *)
Definition codec_check (c : codec_case) : bool :=
  match c with
  | CEnc s o => rbytes_eqb (to_bytes (PStr s)) o
  | CDec b o => rbytes_eqb (from_bytes (PBytes b)) o
  | CEncB b o => rbytes_eqb (to_bytes (PBytes b)) o
  | CDecS s o => rbytes_eqb (from_bytes (PStr s)) o
  end.

(** reassembly stream: chunks fed to the parser/target, observed result of close() *)
Definition feed_check (c : list bytes * pydata) : bool :=
  pydata_eqb (target_close (fold_left target_feed (fst c) target_init)) (snd c).

(** parse_response stream: the body after the gzip layer (as the real gzip module produced it, or its
    failure), the scripted read sizes, and the observed result *)
Definition parse_check (c : res bytes * list N * res pydata) : bool :=
  let '(stream, sizes, o) := c in rpydata_eqb (parse_stream sizes stream) o.

(** client request stream: configuration, URL components, custom headers, body; observed outcome:
    rejected at construction, failure while sending (encoding error), or (target, framing headers, bytes) *)
Inductive client_obs :=
| CRejected
| CSendRaise (e : exn)
| CSent (target : string) (fr : list string * list string) (body : bytes).

Definition client_run (ct ua scheme path query : string) (custom_transport : bool) (custom : list header)
           (body : pydata) : client_obs :=
  match proxy_init scheme path query custom_transport with
  | Raise _ => CRejected
  | Ok p =>
      match send_content ct ua custom body with
      | Raise e => CSendRaise e
      | Ok (hs, b) => CSent (request_target p) (framing hs) b
      end
  end.

Definition client_obs_eqb (a b : client_obs) : bool :=
  match a, b with
  | CRejected, CRejected => true
  | CSendRaise x, CSendRaise y => exn_same x y
  | CSent t f b, CSent t' f' b' => String.eqb t t' && framing_eqb f f' && bytes_eqb b b'
  | _, _ => false
  end.

Definition client_check (c : string * string * string * string * string * bool * list header * pydata * client_obs) : bool :=
  let '(ct, ua, scheme, path, query, tr, custom, body, o) := c in
  client_obs_eqb (client_run ct ua scheme path query tr custom body) o.

(** server stream: chunk size, content type, declared length, stream, read script, what the dispatcher
    returns (None | text | raises), the body of the fault reply; observed: text handed to the dispatcher
    (None when it was not called), status, framing headers, reply bytes *)
Inductive disp := DNone | DText (r : text) | DRaise.
Definition server_obs := (option text * N * (list string * list string) * bytes)%type.

Definition server_run (M : N) (ct : string) (clen : N) (s : bytes) (caps : list N) (d : disp) (fault : text)
  : option server_obs :=
  let dispatch := fun _ : text => match d with DNone => Ok None | DText r => Ok (Some r) | DRaise => Raise (EOther "dispatch") end in
  match do_post M ct clen (s, caps) dispatch fault with
  | (seen, Ok r) => Some (seen, rp_status r, framing (rp_headers r), rp_body r)
  | (_, Raise _) => None
  end.

Definition otext_eqb (a b : option text) : bool :=
  match a, b with Some x, Some y => bytes_eqb x y | None, None => true | _, _ => false end.

Definition server_check (c : N * string * N * bytes * list N * disp * text * option server_obs) : bool :=
  let '(M, ct, clen, s, caps, d, fault, o) := c in
  match server_run M ct clen s caps d fault, o with
  | Some (seen, st, fr, b), Some (seen', st', fr', b') =>
      otext_eqb seen seen' && N.eqb st st' && framing_eqb fr fr' && bytes_eqb b b'
  | None, None => true
  | _, _ => false
  end.

(** big-body server cases are described by construction: [pre] bytes 'a', one character, [post] bytes 'b';
    the implementation's observation is whether the dispatcher saw exactly that text *)
Definition built_body (pre : N) (c : N) (post : N) : text :=
  N.iter pre (cons 97) (c :: N.iter post (cons 98) []).

(** run-length literal used by generated case files: [n] copies of [x] *)
Definition rp (x n : N) : list N := N.iter n (cons x) [].

Definition server_big_check (c : N * N * N * N * list N * bool) : bool :=
  let '(M, pre, ch, post, caps, seen_ok) := c in
  let t := built_body pre ch post in
  let b := utf8_enc t in
  match server_body M (blen b) (b, caps) with
  | Ok data => Bool.eqb seen_ok true && bytes_eqb data t
  | Raise _ => Bool.eqb seen_ok false
  end.

(** CGI stream *)
Definition cgi_check (c : string * text * option ((list string * list string) * bytes)) : bool :=
  let '(ct, r, o) := c in
  match cgi_reply ct r, o with
  | Ok (hs, b), Some (fr, b') => framing_eqb (framing hs) fr && bytes_eqb b b'
  | Raise _, None => true
  | _, _ => false
  end.
