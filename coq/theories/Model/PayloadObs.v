(** * PayloadObs — observation interface of property C14 for the correspondence stage.

    A case is a sequence of API calls made one after the other (so that generated ids can be
    compared across calls); the observation is the outcome of each call with every generated
    id replaced by the marker [fr k] (k = number of ids generated before it) and the number of
    ids generated in total.  Definitions only. *)

From JR Require Export Payload.
From Coq Require Import Ascii.

(** the marker the harness substitutes for the k-th generated uuid *)
Definition fr (k : nat) : str := String (ascii_of_N 0) ("FRESH" ++ z_to_str (Z.of_nat k)).

(** jsonclass.dump / jsonclass.load on plain data (no instances): JSON normalisation / identity.
    (modelled here; the jsonclass group proves it of its own model) *)
Definition jc_plain (v : val) : res val := Ok (norm v).
Definition jl_plain (v : val) : res val := Ok v.

(** the codec instance used to compare [loads(dumps(...))]: a text is the normalised value *)
Definition o_enc (v : val) : res (option val) := if json_ok v then Ok (Some (norm v)) else Raise EType.
Definition o_dec (t : option val) : res val := match t with Some v => Ok v | None => Raise EValue end.
Definition o_empty (t : option val) : bool := match t with None => true | Some _ => false end.

Inductive payload_kind := PKRequest | PKNotify | PKResponse | PKError.

Inductive c14_api :=
| ADump                         (* jsonrpc.dump(...) -> the dictionary *)
| ADumpsLoads                   (* jsonrpc.loads(jsonrpc.dumps(...), config) -> the parsed structure *)
| AFaultDump (own_id : val)     (* Fault(code, msg, own_id, config, data).dump(rpcid, version) *)
| AFaultResponse (own_id : val) (* json.loads(Fault(...).response(rpcid, version)) *)
| ALoadsEmpty                   (* jsonrpc.loads("") *)
| ALoadsText (v : val)          (* jsonrpc.loads(json.dumps(v), config) *)
| AFaultError (own_id : val)    (* Fault(code, msg, own_id, config, data).error() *)
| APayload (k : payload_kind).  (* Payload(rpcid, version, config).request(method, params) / notify / response(params) / error(code, msg, data) *)

Inductive c14_call :=
  C14Call (api : c14_api) (dv : val) (cfg : pcfg) (p : dparams) (m rpcid version resp notify : val).

Definition keep {A} (n : nat) (r : res (A * nat)) : res A * nat :=
  match r with Ok (a, n') => (Ok a, n') | Raise e => (Raise e, n) end.

Definition c14_run_one (c : c14_call) (n : nat) : res val * nat :=
  let '(C14Call api dv cfg p m rpcid version resp notify) := c in
  match api with
  | ADump => keep n (dump jc_plain fr dv cfg p m rpcid version resp notify n)
  | ADumpsLoads =>
      match dumps jc_plain fr o_enc dv cfg p m resp rpcid version notify n with
      | Ok (t, n') => (loads o_empty o_dec jl_plain cfg t, n')
      | Raise e => (Raise e, n)
      end
  | AFaultDump own =>
      match p with
      | PFault c ms d => (fst (fault_dump dv (mkFault c ms own cfg d) rpcid version), n)
      | PVal _ => (Raise EUnmodelled, n)
      end
  | AFaultResponse own =>
      match p with
      | PFault c ms d => (do t <- fst (fault_response o_enc dv (mkFault c ms own cfg d) rpcid version); o_dec t, n)
      | PVal _ => (Raise EUnmodelled, n)
      end
  | ALoadsEmpty => (loads o_empty o_dec jl_plain cfg None, n)
  | ALoadsText v => (do t <- o_enc v; loads o_empty o_dec jl_plain cfg t, n)
  | AFaultError own =>
      match p with
      | PFault c ms d => (Ok (fault_error (mkFault c ms own cfg d)), n)
      | PVal _ => (Raise EUnmodelled, n)
      end
  | APayload k =>
      (* Payload.__init__ is given the configuration here: its fallback version is the configuration's *)
      match payload_init (pc_version cfg) rpcid version with
      | Raise e => (Raise e, n)
      | Ok pl =>
          match k, p with
          | PKRequest, PVal pv => keep n (do (d, _, n') <- payload_request fr pl m pv n; Ok (d, n'))
          | PKNotify, PVal pv => keep n (do (d, _, n') <- payload_notify fr pl m pv n; Ok (d, n'))
          | PKResponse, PVal pv => (payload_response pl pv, n)
          | PKError, PFault c ms d => (payload_error pl c ms d, n)
          | _, _ => (Raise EUnmodelled, n)
          end
      end
  end.

Fixpoint c14_run (cs : list c14_call) (n : nat) : list (res val) * nat :=
  match cs with
  | [] => ([], n)
  | c :: rest =>
      let '(o, n1) := c14_run_one c n in
      let '(os, nf) := c14_run rest n1 in
      (o :: os, nf)
  end.

(** exceptions are compared by class only *)
Definition exn_class_eqb (a b : exn) : bool :=
  match a, b with
  | EType, EType | EValue, EValue | EKey, EKey | EIndex, EIndex | EAttr, EAttr
  | ENotImpl, ENotImpl | EAssert, EAssert | EOS, EOS | EImport, EImport | ETranslation, ETranslation => true
  | EProtocol _, EProtocol _ | EApp _, EApp _ => true
  | EOther c, EOther c' => String.eqb c c'
  | _, _ => false                      (* EUnmodelled never equals an observation *)
  end.

Definition res_sim (a b : res val) : bool :=
  match a, b with
  | Ok x, Ok y => val_sim x y
  | Raise x, Raise y => exn_class_eqb x y
  | _, _ => false
  end.

Definition c14_check (c : list c14_call * list (res val) * nat) : bool :=
  let '(cs, obs, nf) := c in
  let '(os, n) := c14_run cs 0 in
  list_eqb res_sim os obs && Nat.eqb n nf.
