(** * Transport — model of the client's connection layer under transport faults (property C19).

    Definitions only; proofs are in Proofs/TransportProofs.v.

    Layers, bottom up:

    - the scripted peer of the harness (harness/peers/scripted_peer.py): [fault], [peer_act],
      [peer_deliver] — one fault symbol is consumed per connection attempt / request exchange;
      an exhausted script means "healthy keep-alive" for ever;
    - http.client.HTTPConnection / HTTPResponse — a MODELLED COMPONENT (not jsonrpclib code,
      DESIGN.md 6.6): its behaviour relevant here is written down as the explicit transition
      table [h_request] / [h_getresponse] / [h_read] over the connection state [hconn]
      (socket with the peer's end state and the unread input, the attached unfinished response);
      the correspondence stage validates this table against the real stdlib on every run;
    - jsonrpclib/jsonrpc.py TransportMixIn.single_request  -> [single_request]
      xmlrpc.client.Transport.request (inherited one-retry loop, modelled) -> [transport_request]
      xmlrpc.client.Transport.make_connection / close, UnixTransport.make_connection -> [make_connection], [transport_close]
      ServerProxy._run_request ("" => None, else loads) -> [run_request]
      ServerProxy._request (check_for_errors; response["result"]) -> [proxy_call] (reuses Model/Client.v)
      TransportError(url, errcode, ...) -> [ETransport url status]. *)

From JR Require Export Client.
From Coq Require Import Ascii.

(** ** The fault alphabet of the property (statuses are parameters of the three status symbols) *)

Inductive fault :=
| FHealthy                    (* H: 200, Content-Length, JSON-RPC reply echoing the token; connection kept *)
| FHealthyClose               (* C: same reply, then the peer closes silently *)
| FRefuse                     (* R: connection refused *)
| FCloseNoReply               (* X: request read, FIN, no reply *)
| FReset                      (* T: request read, RST *)
| FStatusLen (s : Z)          (* L: status s with Content-Length and a body; connection kept *)
| FStatusNoLenClose (s : Z)   (* N: status s, body without length, then close *)
| FBodiless (s : Z)           (* B: status line and headers only, no length; connection kept by the peer *)
| FTruncated                  (* U: 200, Content-Length n, half of the body, then close *)
| FEmpty200                   (* Z: 200, Content-Length 0; connection kept *)
| FNonJson.                   (* J: 200, Content-Length, an HTML body; connection kept *)

Definition is_healthy (f : fault) : bool :=
  match f with FHealthy | FHealthyClose => true | _ => false end.

(** what the body text is, as far as [loads] can tell *)
Inductive body :=
| BReply (tok : val)          (* the JSON text of {"jsonrpc": "2.0", "result": tok, "id": ...} *)
| BPartial                    (* a strict prefix of such a text (never valid JSON: it is an unclosed object) *)
| BEmpty                      (* no bytes *)
| BHtml                       (* not JSON *)
| BErrText.                   (* the text sent with an error status *)

Record response := mkResp { r_status : Z; r_has_len : bool; r_body : body }.

Inductive peer_action :=
| PReply (r : response) (then_close : bool)
| PDrop                        (* FIN without a reply *)
| PReset.                      (* RST *)

(** the peer's reaction to a completely received request carrying [tok] *)
Definition peer_act (f : fault) (tok : val) : peer_action :=
  match f with
  | FHealthy => PReply (mkResp 200 true (BReply tok)) false
  | FHealthyClose => PReply (mkResp 200 true (BReply tok)) true
  | FRefuse => PDrop                       (* on a kept connection: dropped, symbol not consumed (see [h_request]) *)
  | FCloseNoReply => PDrop
  | FReset => PReset
  | FStatusLen s => PReply (mkResp s true BErrText) false
  | FStatusNoLenClose s => PReply (mkResp s false BErrText) true
  | FBodiless s => PReply (mkResp s false BEmpty) false
  | FTruncated => PReply (mkResp 200 true BPartial) true
  | FEmpty200 => PReply (mkResp 200 true BEmpty) false
  | FNonJson => PReply (mkResp 200 true BHtml) false
  end.

(** ** Connection state *)

Inductive pend := PeerOpen | PeerFin | PeerRst.        (* the peer's end of the socket *)

Inductive item :=
| IResponse (r : response)     (* a complete response (status line, headers, body) not yet looked at *)
| IBodyRest.                   (* body bytes of a response whose headers were already consumed *)

Record sock := mkSock { s_pend : pend; s_inbuf : list item }.

(** an http.client.HTTPConnection object: [h_sock = None] is a closed connection (auto_open
    reconnects on the next request); [h_pending] : a response is attached that has not been
    read to its end ([self.__response] with [isclosed()] false). *)
Record hconn := mkConn { h_sock : option sock; h_pending : bool }.

(** the transport: [t_cached] is [Transport._connection] (None / (None, None) / (host, connection);
    one proxy talks to one host, so the host comparison of make_connection always succeeds);
    [t_script] is what is left of the peer's script. *)
Record state := mkState { t_cached : option hconn; t_script : list fault }.

Definition init (script : list fault) : state := mkState None script.

Definition next_fault (script : list fault) : fault * list fault :=
  match script with [] => (FHealthy, []) | f :: r => (f, r) end.

Definition body_nonempty (r : response) : bool :=
  match r_body r with BEmpty => false | _ => true end.

Definition peer_deliver (f : fault) (tok : val) (s : sock) : sock :=
  match peer_act f tok with
  | PReply r cl => mkSock (if cl then PeerFin else s_pend s) (s_inbuf s ++ [IResponse r])
  | PDrop => mkSock PeerFin (s_inbuf s)
  | PReset => mkSock PeerRst []
  end.

(** ** http.client — modelled transition table *)

Definition ERemoteDisconnected := EOther "RemoteDisconnected".
Definition EConnReset := EOther "ConnectionResetError".
Definition EConnRefused := EOther "ConnectionRefusedError".
Definition ENotReady := EOther "ResponseNotReady".
Definition EBadStatus := EOther "BadStatusLine".

(** HTTPResponse.begin: statuses whose body length is forced to 0 *)
Definition no_body_status (s : Z) : bool :=
  (s =? 204) || (s =? 304) || ((100 <=? s) && (s <? 200)).

(** HTTPResponse.begin: HTTP/1.1, no "Connection: close", not chunked:
    will_close iff no length is known *)
Definition will_close (r : response) : bool :=
  negb (no_body_status (r_status r)) && negb (r_has_len r).

(** putrequest + putheader* + endheaders + send(body)   (send_request, send_content).
    [__state] is always idle here: every path that leaves a request half-made goes through
    HTTPConnection.close() (CannotSendRequest is therefore not in the table).
    - closed connection: connect(); the attempt consumes the next symbol; R refuses it;
    - open socket whose peer is alive: the request is delivered, the peer takes the next symbol
      (R: it drops the connection and leaves the symbol for the connection attempt that follows);
    - open socket whose peer has gone: the bytes are lost (when the kernel reports EPIPE /
      ECONNRESET at this point instead of at the read that follows, single_request and the retry
      loop treat it exactly like the RemoteDisconnected of [h_getresponse]; the model takes the latter).
      The only place where that choice could be seen is a gone peer together with a response
      still attached (the model answers ResponseNotReady; an EPIPE at send time would be retried):
      it needs a 204/304 status line followed by a length-less body and a close
      ([FStatusNoLenClose 204]), which is outside the property's alphabet ("5xx without length")
      and is not generated; the theorems hold for the model's choice. *)
Definition h_request (c : hconn) (script : list fault) (tok : val) : hconn * list fault * res unit :=
  match h_sock c with
  | None =>
      match next_fault script with
      | (FRefuse, rest) => (c, rest, Raise EConnRefused)
      | (f, rest) => (mkConn (Some (peer_deliver f tok (mkSock PeerOpen []))) (h_pending c), rest, Ok tt)
      end
  | Some s =>
      match s_pend s with
      | PeerOpen =>
          match next_fault script with
          | (FRefuse, _) => (mkConn (Some (mkSock PeerFin (s_inbuf s))) (h_pending c), script, Ok tt)
          | (f, rest) => (mkConn (Some (peer_deliver f tok s)) (h_pending c), rest, Ok tt)
          end
      | _ => (c, script, Ok tt)
      end
  end.

Definition closed_conn : hconn := mkConn None false.       (* HTTPConnection.close(): socket and response dropped *)

(** HTTPConnection.getresponse *)
Definition h_getresponse (c : hconn) : hconn * res response :=
  if h_pending c then (c, Raise ENotReady)                 (* a prior response is not finished *)
  else match h_sock c with
       | None => (c, Raise EUnmodelled)                    (* unreachable: a request was just sent *)
       | Some s =>
           match s_inbuf s with
           | IResponse r :: rest =>
               if will_close r then (closed_conn, Ok r)    (* the socket goes with the response *)
               else (mkConn (Some (mkSock (s_pend s) (if body_nonempty r then IBodyRest :: rest else rest))) true, Ok r)
           | IBodyRest :: _ => (c, Raise EBadStatus)       (* left-over body bytes where a status line should be *)
           | [] =>
               match s_pend s with
               | PeerFin => (closed_conn, Raise ERemoteDisconnected)   (* ConnectionError: getresponse closes *)
               | PeerRst => (closed_conn, Raise EConnReset)
               | PeerOpen => (c, Raise EUnmodelled)        (* would block for ever; the peer answers every request *)
               end
           end
       end.

(** reading the body of [r] to its end (parse_response's read loop, or response.read()):
    the response is finished; on a kept connection its body bytes leave the input *)
Definition h_read (c : hconn) (r : response) : hconn :=
  if will_close r then c
  else match h_sock c with
       | Some s => mkConn (Some (mkSock (s_pend s) (match s_inbuf s with IBodyRest :: rest => rest | l => l end))) false
       | None => mkConn None false
       end.

(** ** jsonrpclib / xmlrpc.client *)

(** make_connection: the cached connection, or a new (closed) HTTPConnection which is cached *)
Definition make_connection (st : state) : hconn :=
  match t_cached st with Some c => c | None => closed_conn end.

(** Transport.close() *)
Definition transport_close (script : list fault) : state := mkState None script.

Definition url_of (host handler : str) : str := host ++ handler.

(** TransportMixIn.single_request *)
Definition single_request (host handler : str) (st : state) (tok : val) : state * res body :=
  let c := make_connection st in
  match h_request c (t_script st) tok with
  | (_, script', Raise e) => (transport_close script', Raise e)            (* except: self.close(); raise *)
  | (c1, script', Ok _) =>
      match h_getresponse c1 with
      | (_, Raise e) => (transport_close script', Raise e)                 (* except: self.close(); raise *)
      | (c2, Ok r) =>
          if r_status r =? 200
          then (mkState (Some (h_read c2 r)) script', Ok (r_body r))       (* return self.parse_response(response) *)
          else
            let c3 := if r_has_len r then h_read c2 r else c2 in           (* if response.getheader("content-length", 0): response.read() *)
            (mkState (Some c3) script', Raise (ETransport (url_of host handler) (r_status r)))
      end
  end.

(** xmlrpc.client.Transport.request: retried once on RemoteDisconnected / ECONNRESET / ECONNABORTED / EPIPE *)
Definition retryable (e : exn) : bool :=
  match e with
  | EOther c => String.eqb c "RemoteDisconnected" || String.eqb c "ConnectionResetError"
  | _ => false
  end.

Definition transport_request (host handler : str) (st : state) (tok : val) : state * res body :=
  match single_request host handler st tok with
  | (st1, Raise e) => if retryable e then single_request host handler st1 tok else (st1, Raise e)
  | r => r
  end.

(** the reply object the healthy peer sends for [tok] *)
Definition reply_of (tok : val) : val :=
  VDict [(VStr "jsonrpc", VStr "2.0"); (VStr "result", tok); (VStr "id", VStr "id")].

(** ServerProxy._run_request after the transport returned: [if not response: return None],
    else loads (json, then jsonclass.load which is the identity on replies without __jsonclass__) *)
Definition run_request (b : body) : res val :=
  match b with
  | BEmpty => Ok VNone
  | BReply tok => Ok (reply_of tok)
  | BPartial | BHtml | BErrText => Raise EValue
  end.

(** ServerProxy._request: one call of the proxy with parameter [tok] *)
Definition proxy_call (host handler : str) (st : state) (tok : val) : state * res val :=
  match transport_request host handler st tok with
  | (st1, Raise e) => (st1, Raise e)
  | (st1, Ok b) => (st1, do r <- run_request b; proxy_result r)
  end.

(** a sequence of calls on one proxy *)
Fixpoint run_calls (host handler : str) (st : state) (toks : list val) : state * list (res val) :=
  match toks with
  | [] => (st, [])
  | tok :: rest =>
      let '(st1, o) := proxy_call host handler st tok in
      let '(st2, os) := run_calls host handler st1 rest in
      (st2, o :: os)
  end.

Definition outcomes (host handler : str) (script : list fault) (toks : list val) : list (res val) :=
  snd (run_calls host handler (init script) toks).

(** ** Predicates used by the theorems *)

(** the connection invariant: whatever is cached has no unread input, unless a response is
    still attached (then the next use raises ResponseNotReady and clears the connection:
    [pending_cleared]); a closed connection has no response attached *)
Definition conn_clean (c : hconn) : bool :=
  match h_sock c with
  | None => negb (h_pending c)
  | Some s => h_pending c || match s_inbuf s with [] => true | _ => false end
  end.

Definition inv (st : state) : bool :=
  match t_cached st with None => true | Some c => conn_clean c end.

(** no response is left attached (the next request is not refused by http.client) *)
Definition idle (st : state) : bool :=
  match t_cached st with None => true | Some c => negb (h_pending c) end.

Definition is_raise {A} (r : res A) : bool := match r with Raise _ => true | Ok _ => false end.

Definition failures (os : list (res val)) : nat := length (filter is_raise os).

(** the state in which the last attempt of a call starts (after the transparent retry, if any) *)
Definition last_attempt_state (host handler : str) (st : state) (tok : val) : state :=
  match single_request host handler st tok with
  | (st1, Raise e) => if retryable e then st1 else st
  | _ => st
  end.

(** the response the client reads in an attempt started in [st] (inside the try block) *)
Definition exchange (st : state) (tok : val) : res response :=
  match h_request (make_connection st) (t_script st) tok with
  | (_, _, Raise e) => Raise e
  | (c1, _, Ok _) => snd (h_getresponse c1)
  end.

(** ** Observation interface for the correspondence stage *)

Definition c19_check (c : str * str * list fault * list val * list (res val)) : bool :=
  let '(host, handler, script, toks, obs) := c in
  list_eqb res_eqb (outcomes host handler script toks) obs.
