(** Observation interface of the pool model for the lock-step correspondence:
    the harness drives the real ThreadPool under a controlled schedule, records the shared
    state after every step, and [pool_check] replays the same schedule on the model and
    compares after every step (every step must also be ENABLED in the model). *)
From JR Require Export Pool.

Definition snapshot : Type :=
  (bool * list item * Z * option (thr * nat) * list nat * (Z * Z * Z) * option nat * list nat * list bool)%type.

Definition opt_eqb {A} (e : A -> A -> bool) (a b : option A) : bool :=
  match a, b with Some x, Some y => e x y | None, None => true | _, _ => false end.
Fixpoint leqb {A} (e : A -> A -> bool) (a b : list A) : bool :=
  match a, b with [] , [] => true | x :: r, y :: r' => e x y && leqb e r r' | _, _ => false end.

Definition snap_of (s : st) (ntasks : nat) : snapshot :=
  (stopped s, q s, unfinished s, lock s, threads s, (nb_threads s, nb_active s, nb_pending s), qmutex s,
   map (tstarts s) (seq 0 ntasks), map (tdone s) (seq 0 ntasks)).

Definition snap_eqb (s : st) (x : snapshot) : bool :=
  let '(b, qq, u, l, th, (nt, na, np), qm, sts, dn) := x in
  Bool.eqb (stopped s) b && leqb item_eqb (q s) qq && (unfinished s =? u) &&
  opt_eqb (fun a c => thr_eqb (fst a) (fst c) && Nat.eqb (snd a) (snd c)) (lock s) l &&
  leqb Nat.eqb (threads s) th && (nb_threads s =? nt) && (nb_active s =? na) && (nb_pending s =? np) &&
  opt_eqb Nat.eqb (qmutex s) qm &&
  leqb Nat.eqb (map (tstarts s) (seq 0 (length sts))) sts &&
  leqb Bool.eqb (map (tdone s) (seq 0 (length dn))) dn.

(** index of the first step that is disabled in the model or after which the states differ *)
Fixpoint first_bad (s : st) (i : nat) (steps : list (thr * bool * snapshot)) : option nat :=
  match steps with
  | [] => None
  | (t, f, x) :: r =>
      match step s t f with
      | None => Some i
      | Some s' => if snap_eqb s' x then first_bad s' (S i) r else Some i
      end
  end.

Definition progs_of (l : list (list op)) : nat -> list op := fun c => nth c l [].

Definition pool_case : Type := (Z * Z * list (list op) * list (thr * bool * snapshot))%type.

Definition pool_first_bad (c : pool_case) : option nat :=
  let '(mx, mn, progs, steps) := c in first_bad (init mx mn (progs_of progs)) 0 steps.

Definition pool_check (c : pool_case) : bool :=
  match pool_first_bad c with None => true | Some _ => false end.

(** the monitors and invariants' observable consequences at the end of a replayed run *)
Definition pool_final (c : pool_case) : st :=
  let '(mx, mn, progs, steps) := c in run (map (fun x => (fst (fst x), snd (fst x))) steps) (init mx mn (progs_of progs)).

(** constructor stream: (max, min) after int() conversion, and what the implementation accepted *)
Definition ctor_check (c : Z * Z * option (Z * Z)) : bool :=
  let '(mx, mn, o) := c in
  match pool_ctor mx mn, o with
  | None, None => true
  | Some (a, b), Some (a', b') => (a =? a') && (b =? b')
  | _, _ => false
  end.
