(** * JsonClassObs — observation interface of the jsonclass model for the
    correspondence stage (properties C15, C08, C07, C20).  Definitions only.
    Nothing here is used by a theorem: these functions compare the model's
    output with what the implementation was observed to do. *)

From JR Require Export JsonClass.

Definition jexn_eqb (a b : exn) : bool :=
  match a, b with
  | ETranslation, ETranslation | EType, EType | EValue, EValue | EKey, EKey
  | EIndex, EIndex | EAttr, EAttr | ENotImpl, ENotImpl | EAssert, EAssert
  | EOS, EOS | EImport, EImport => true
  | EOther c, EOther c' => String.eqb c c'
  | _, _ => false                      (* EUnmodelled never equals an observation *)
  end.

Definition jres_eqb (a b : res val) : bool :=
  match a, b with
  | Ok x, Ok y => val_sim x y
  | Raise x, Raise y => jexn_eqb x y
  | _, _ => false
  end.

(** the handlers the harness installs (hid -> behaviour); the theorems quantify over every [hfun] *)
Definition std_hfun (h : N) (v : val) : res val :=
  match h with
  | 0%N => Ok (VStr "H0")                                   (* constant *)
  | 1%N => Ok (VDict [(VStr "h1", v)])                      (* wraps the object itself, untouched *)
  | 2%N => Ok (VList [VStr "h2"; VTuple [v]])               (* returns a non-JSON shape on purpose *)
  | 3%N => Raise EValue                                     (* a handler that fails *)
  | _ => Ok VNone
  end.

(** C15, round-trip stream: (value, observed dump, observed load of that dump, the dumped structure after load) *)
Definition c15_rt_check (c : val * res val * res val * val) : bool :=
  let '(v, d, l, after) := c in
  jres_eqb (jc_dump_top std_hfun fixed empty_env default_cfg None None None v) d &&
  match d with
  | Ok dv => let r := jc_load_m fixed empty_env [] dv in
             jres_eqb (lres_val r) l && val_sim (lres_arg r) after
  | Raise _ => true
  end.

(** C15 / C08, load stream: (classes argument, argument, observed outcome, argument afterwards) *)
Definition load_check (E : pyenv) (c : list (str * str) * val * res val * val) : bool :=
  let '(classes, v, l, after) := c in
  let r := jc_load_m fixed E classes v in
  jres_eqb (lres_val r) l && val_sim (lres_arg r) after.

(** ** C08: imports are compared as the set of top-level module names whose import was attempted
    (that is what an import hook sees, whichever import API the code uses); modules that are
    already in sys.modules (the synthetic ones of the class world, decimal) are invisible to the
    hook and listed in [hidden].  Constructions are compared in order, for the [watched] classes. *)

Definition first_comp (s : str) : str := match split_dot s with x :: _ => x | [] => "" end.

Definition ev_imports (hidden : list str) (evs : list event) : list str :=
  flat_map (fun e => match e with
                     | EvImport t => let r := first_comp t in
                                     if mem_str r hidden || String.eqb r "" then [] else [r]
                     | _ => []
                     end) evs.

Definition ev_constructs (watched : list str) (evs : list event) : list str :=
  flat_map (fun e => match e with
                     | EvConstruct c => if mem_str c watched then [c] else []
                     | _ => []
                     end) evs.

Definition set_eqb (a b : list str) : bool :=
  forallb (fun x => mem_str x b) a && forallb (fun x => mem_str x a) b.

(** (config, payload, observed outcome, import roots seen, constructions seen) *)
Definition c08_load_check (E : pyenv) (hidden watched : list str)
           (c : config * val * res val * list str * list str) : bool :=
  let '(cfg, v, o, imps, ctors) := c in
  let r := rpc_load fixed E cfg v in
  jres_eqb (lres_val r) o &&
  set_eqb (ev_imports hidden (lres_events r)) imps &&
  list_eqb String.eqb (ev_constructs watched (lres_events r)) ctors.

(** server: (config, version flag, parsed request, reply is the -32700 object, number of invocations,
    import roots, constructions).  The JSON backend is the identity on the pre-parsed value and the
    dispatcher behind the translator is opaque: the model only says whether it is reached. *)
Definition c08_server_check (E : pyenv) (hidden watched : list str)
           (c : config * bool * val * bool * Z * list str * list str) : bool :=
  let '(cfg, v2, request, is32700, ncalls, imps, ctors) := c in
  let '(reply, calls, evs) :=
    marshaled_dispatch (fun _ => Ok request) unit (fun _ => (VNone, [tt])) fixed E cfg v2 "x" in
  (match calls with
   | [] => is32700 && (ncalls =? 0)
   | _ => negb is32700
   end) &&
  set_eqb (ev_imports hidden evs) imps &&
  list_eqb String.eqb (ev_constructs watched evs) ctors.

(** dump gate: (config, params, observed) *)
Definition c08_dump_check (E : pyenv) (c : config * val * res val) : bool :=
  let '(cfg, v, o) := c in jres_eqb (rpc_dump_params std_hfun fixed E cfg v) o.

(** ** C07 / C20: direct dump / load on object graphs over generated class worlds.
    (world index, Config.classes, value, observed dump, observed load of that dump) *)
Definition c07_check (worlds : list pyenv) (c : nat * list (str * str) * val * res val * res val) : bool :=
  let '(i, cl, v, d, l) := c in
  match nth_error worlds i with
  | None => false
  | Some E =>
      let cfg := mkCfg true "_serialize" "_ignore" [] cl in
      jres_eqb (jc_dump_top std_hfun fixed E cfg None None None v) d &&
      match d with
      | Ok dv => jres_eqb (lres_val (jc_load_m fixed E cl dv)) l
      | Raise _ => true
      end
  end.

(** through a remote call: the value the callable receives / the caller gets, after the JSON text
    round trip (the identity on the JSON values dump produces: codec hypothesis of C01) *)
Definition c07_rpc_check (worlds : list pyenv) (c : nat * list (str * str) * val * res val) : bool :=
  let '(i, cl, v, got) := c in
  match nth_error worlds i with
  | None => false
  | Some E =>
      let cfg := mkCfg true "_serialize" "_ignore" [] cl in
      jres_eqb (do d <- rpc_dump_params std_hfun fixed E cfg v; lres_val (rpc_load fixed E cfg d)) got
  end.

(** the same under a configuration with its own serialisation-method name [sm] *)
Definition c07_rpcx_check (worlds : list pyenv) (c : nat * str * list (str * str) * val * res val) : bool :=
  let '(i, sm, cl, v, got) := c in
  match nth_error worlds i with
  | None => false
  | Some E =>
      let cfg := mkCfg true sm "_ignore" [] cl in
      jres_eqb (do d <- rpc_dump_params std_hfun fixed E cfg v; lres_val (rpc_load fixed E cfg d)) got
  end.

(** ** C20: dump with handlers, ignore lists and configured names.
    (world index, config, explicit serialize_method / ignore_attribute / ignore arguments, value, observed dump) *)
Definition c20_check (worlds : list pyenv)
           (c : nat * config * option str * option str * option (list val) * val * res val) : bool :=
  let '(i, cfg, sm_arg, ia_arg, ign_arg, v, d) := c in
  match nth_error worlds i with
  | None => false
  | Some E => jres_eqb (jc_dump_top std_hfun fixed E cfg sm_arg ia_arg ign_arg v) d
  end.
