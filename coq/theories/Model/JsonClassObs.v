(** * JsonClassObs — observation interface of the jsonclass model for the
    correspondence stage (properties C15, C08, C07, C20).  Definitions only.
    Nothing here is used by a theorem: these functions compare the model's
    output with what the implementation was observed to do. *)

From JR Require Export JsonClass.

Definition jexn_eqb (a b : exn) : bool :=
  match a, b with
  | ETranslation, ETranslation | EType, EType | EValue, EValue | EKey, EKey
  | EIndex, EIndex | EAttr, EAttr | ENotImpl, ENotImpl | EAssert, EAssert
  | EOS, EOS | EImport, EImport => true
  | EOther c, EOther c' => String.eqb c c'
  | _, _ => false                      (* EUnmodelled never equals an observation *)
  end.

Definition jres_eqb (a b : res val) : bool :=
  match a, b with
  | Ok x, Ok y => val_sim x y
  | Raise x, Raise y => jexn_eqb x y
  | _, _ => false
  end.

(** the handlers the harness installs (hid -> behaviour); the theorems quantify over every [hfun] *)
Definition std_hfun (h : N) (v : val) : res val :=
  match h with
  | 0%N => Ok (VStr "H0")                                   (* constant *)
  | 1%N => Ok (VDict [(VStr "h1", v)])                      (* wraps the object itself, untouched *)
  | 2%N => Ok (VList [VStr "h2"; VTuple [v]])               (* returns a non-JSON shape on purpose *)
  | 3%N => Raise EValue                                     (* a handler that fails *)
  | _ => Ok VNone
  end.

(** C15, round-trip stream: (value, observed dump, observed load of that dump, the dumped structure after load) *)
Definition c15_rt_check (c : val * res val * res val * val) : bool :=
  let '(v, d, l, after) := c in
  jres_eqb (jc_dump_top std_hfun fixed empty_env default_cfg None None None v) d &&
  match d with
  | Ok dv => let r := jc_load_m fixed empty_env [] dv in
             jres_eqb (lres_val r) l && val_sim (lres_arg r) after
  | Raise _ => true
  end.

(** C15 / C08, load stream: (classes argument, argument, observed outcome, argument afterwards) *)
Definition load_check (E : pyenv) (c : list (str * str) * val * res val * val) : bool :=
  let '(classes, v, l, after) := c in
  let r := jc_load_m fixed E classes v in
  jres_eqb (lres_val r) l && val_sim (lres_arg r) after.
