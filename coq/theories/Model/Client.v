(** * Client — model of the client-side reply classification.

    Mirrors jsonrpclib/jsonrpc.py:
      - [check_for_errors]            (def check_for_errors, "Checks if a result dictionary signals an error")
      - [proxy_result]                (ServerProxy._request: check_for_errors(response); return response["result"])
      - [multicall_get]               (MultiCallIterator.__get_result / __getitem__)
      - [app_error_data]              (AppError.data)

    Definitions only; proofs are in Proofs/ClientProofs.v. *)

From JR Require Export PyOps.

(** the placeholder of [error.get("trace", "<no error message>")] *)
Definition no_message : val := VStr "<no error message>".

(** message = error["message"], else error["trace"], else the placeholder *)
Definition error_message (em : list (val * val)) : val :=
  match dget em "message" with
  | Some x => x
  | None => match dget em "trace" with Some t => t | None => no_message end
  end.

Definition error_data (em : list (val * val)) : val :=
  match dget em "data" with Some d => d | None => VNone end.

(** [-32700 <= code <= -32000] on a numeric code *)
Definition in_reserved_range (code : val) : bool :=
  match num_of code with
  | Some c => rat_leb (rat_of_Z (-32700)) c && rat_leb c (rat_of_Z (-32000))
  | None => false
  end.

(** the body of [if "error" in result and result["error"]:] *)
Definition raise_for_error (e : val) : exn :=
  match e with
  | VDict em =>
      match dget em "code" with
      | Some code =>
          if is_numeric code && in_reserved_range code
          then EProtocol (VTuple [code; error_message em])
          else EApp (VTuple [code; error_message em; error_data em])
      | None =>
          match em with
          | [(_, v)] => EProtocol v         (* single entry: use its content *)
          | _ => EProtocol e
          end
      end
  | _ => EProtocol e                          (* raw error content *)
  end.

Definition check_for_errors (r : val) : res val :=
  if negb (truthy r) then Ok r                                   (* notification *)
  else match r with
       | VDict m =>
           do too_new <- match dget m "jsonrpc" with
                         | Some j => do f <- py_float j; Ok (rat_ltb (rat_of_Z 2) f)
                         | None => Ok false
                         end;
           if too_new then Raise ENotImpl
           else if negb (dhas m "result") && negb (dhas m "error") then Raise EValue
           else match dget m "error" with
                | Some e => if truthy e then Raise (raise_for_error e) else Ok r
                | None => Ok r
                end
       | _ => Raise EType
       end.

(** ServerProxy._request on the parsed reply *)
Definition proxy_result (r : val) : res val :=
  do _ <- check_for_errors r;
  py_getitem r (VStr "result").

(** MultiCallIterator.__getitem__ (non-negative positions) *)
Definition multicall_get (results : list val) (i : nat) : res val :=
  match nth_error results i with
  | Some item => proxy_result item
  | None => Raise EIndex
  end.

(** iteration: the results before the first failing one, then the failure *)
Fixpoint multicall_iter (results : list val) : list (res val) :=
  match results with
  | [] => []
  | item :: rest =>
      match proxy_result item with
      | Ok v => Ok v :: multicall_iter rest
      | Raise e => [Raise e]
      end
  end.

(** AppError.data : args[0][2] *)
Definition app_error_data (e : exn) : option val :=
  match e with
  | EApp (VTuple [_; _; d]) => Some d
  | _ => None
  end.

(** ** Domain predicates of property C06 *)

(** the version marker is absent or float()-able and not above 2.0 *)
Definition envelope_ok (m : list (val * val)) : bool :=
  match dget m "jsonrpc" with
  | None => true
  | Some j => match py_float j with
              | Ok f => negb (rat_ltb (rat_of_Z 2) f)
              | Raise _ => false
              end
  end.

Definition is_protocol_error (e : exn) : bool :=
  match e with EProtocol _ | EApp _ => true | _ => false end.

(** ** Observation interface for the correspondence stage *)

Inductive c06_path := PCheck | PProxy | PNotify | PMulti (pre post : list val) | PIter (pre post : list val).

Definition exn_eqb (a b : exn) : bool :=
  match a, b with
  | EProtocol x, EProtocol y | EApp x, EApp y => val_sim x y
  | ETransport u s, ETransport u' s' => String.eqb u u' && Z.eqb s s'
  | ETranslation, ETranslation | EType, EType | EValue, EValue | EKey, EKey
  | EIndex, EIndex | EAttr, EAttr | ENotImpl, ENotImpl | EAssert, EAssert
  | EOS, EOS | EImport, EImport => true
  | EOther c, EOther c' => String.eqb c c'
  | _, _ => false                      (* EUnmodelled never equals an observation *)
  end.

Definition res_eqb (a b : res val) : bool :=
  match a, b with
  | Ok x, Ok y => val_sim x y
  | Raise x, Raise y => exn_eqb x y
  | _, _ => false
  end.

Definition c06_run (p : c06_path) (r : val) : list (res val) :=
  match p with
  | PCheck => [check_for_errors r]
  | PProxy => [proxy_result r]
  | PNotify => [do _ <- check_for_errors r; Ok VNone]      (* ServerProxy._request_notify: the reply is checked, None returned *)
  | PMulti pre post => [multicall_get (pre ++ r :: post) (length pre)]
  | PIter pre post => multicall_iter (pre ++ r :: post)
  end.

Definition c06_check (c : c06_path * val * list (res val)) : bool :=
  let '(p, r, o) := c in list_eqb res_eqb (c06_run p r) o.
