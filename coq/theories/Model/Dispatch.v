(** * Dispatch — model of the server-side dispatcher.

    Mirrors jsonrpclib/SimpleJSONRPCServer.py (after the repairs of findings F1, F2, F15):
      - [has_version]            get_version(request)                       ("jsonrpc" in request / "id" in request)
      - [validate_request]       validate_request(request, json_config)     (incl. request.setdefault("params", []))
      - [unmarshaled_dispatch]   SimpleJSONRPCDispatcher._unmarshaled_dispatch (falsy request, batch loop, NoMulticallResult)
      - [marshaled_dispatch]     SimpleJSONRPCDispatcher._marshaled_dispatch   (parse guard, jdumps, "")
      - [single_dispatch]        SimpleJSONRPCDispatcher._marshaled_single_dispatch
                                 (per-request version, notification test, pooled / inline, the two exception guards)
      - [dispatch]               SimpleJSONRPCDispatcher._dispatch  (funcs table, instance _dispatch,
                                 resolve_dotted_attribute, call, TypeError / other-exception guards, unknown method)
      - [resolve_segs]           xmlrpc.server.resolve_dotted_attribute(obj, attr, True)
    and of jsonrpclib/jsonrpc.py, for server versions 1.0 and 2.0 only:
      - [resp_obj] [err_obj]     Payload.response / Payload.error as reached through dump(..., is_response=True)
      - [fault_dump]             Fault.dump()  (no forced id: the dispatcher never passes one)
    (Proofs/DispatchBridge.v proves these equal to the general constructions of Model/Payload.v.)

    External components (Section variables; the theorems quantify over them):
      [body : cid -> val -> outcome]   behaviour of registered callables / dispatch functions
      [sigs : cid -> signature]        their signatures (argument binding itself is modelled: [call_binds])
    Modelled components: JSON text parsing + class translation of the body (the model input is the
    outcome of jsonrpclib.loads: [parse_outcome]); jsonclass.dump of results restricted to data
    ([convert]); json.dumps acceptance ([dumpable]); message wording (rendered structurally).

    The invocation log is part of every function's result, so that "nothing ran" and
    "ran exactly once" are statements about the model's output.

    Definitions only; proofs are in Proofs/DispatchProofs.v. *)

From JR Require Export PyOps.

(** ** Protocol form of a reply: config.version restricted to the property's domain {1.0, 2.0} *)

Inductive form := V1 | V2.

Definition form_eqb (a b : form) : bool :=
  match a, b with V1, V1 | V2, V2 => true | _, _ => false end.

(** [config.version] as a form (ints 1, 2 and floats 1.0, 2.0); other versions are outside the model *)
Definition form_of_version (v : val) : option form :=
  match v with
  | VInt _ | VFlt _ =>
      match num_of v with
      | Some r => if rat_eqb r (rat_of_Z 1) then Some V1
                  else if rat_eqb r (rat_of_Z 2) then Some V2 else None
      | None => None
      end
  | _ => None
  end.

(** ** Reply objects (jsonrpc.py: Payload.response, Payload.error; data is never set by the dispatcher) *)

Definition error_obj (code : Z) (msg : str) : val :=
  VDict [(VStr "code", VInt code); (VStr "message", VStr msg)].

(** payload.response(result) with self.id = rpcid *)
Definition resp_obj (f : form) (rpcid result : val) : val :=
  match f with
  | V2 => VDict [(VStr "result", result); (VStr "id", rpcid); (VStr "jsonrpc", VStr "2.0")]
  | V1 => VDict [(VStr "result", result); (VStr "id", rpcid); (VStr "error", VNone)]
  end.

(** payload.error(code, message) with self.id = rpcid *)
Definition err_obj (f : form) (rpcid : val) (code : Z) (msg : str) : val :=
  match f with
  | V2 => VDict [(VStr "id", rpcid); (VStr "jsonrpc", VStr "2.0"); (VStr "error", error_obj code msg)]
  | V1 => VDict [(VStr "result", VNone); (VStr "id", rpcid); (VStr "error", error_obj code msg)]
  end.

(** Fault(code, message, rpcid=…, config=…): the config is only read for its version *)
Record fault := mkFault { ft_code : Z; ft_msg : str; ft_rpcid : val; ft_form : form }.

(** Fault.dump(): dump(self, is_response=True, rpcid=self.rpcid, version=self.config.version, config=self.config) *)
Definition fault_dump (ft : fault) : val := err_obj (ft_form ft) (ft_rpcid ft) (ft_code ft) (ft_msg ft).

(** ** What json.dumps accepts (dict keys: strings only — the keys the library and the parser produce) *)

Fixpoint dumpable (v : val) : bool :=
  match v with
  | VNone | VBool _ | VInt _ | VFlt _ | VStr _ => true
  | VList l | VTuple l => forallb dumpable l
  | VDict m => forallb (fun kv => match fst kv with VStr _ => dumpable (snd kv) | _ => false end) m
  | _ => false
  end.

(** ** jsonclass.dump(result, config=config) restricted to data: primitives are returned as they
    are, list/tuple/set/frozenset become lists, dict values are converted; an unsupported object
    ([VOpaque], in the harness: an object whose serialisation method raises) makes the conversion
    raise; beans are the business of the JsonClass model (C07) and outside this one. *)
Fixpoint convert (v : val) : res val :=
  match v with
  | VNone | VBool _ | VInt _ | VFlt _ | VStr _ => Ok v
  | VList l | VTuple l | VSet l | VFrozen l =>
      do l' <- (fix go (l : list val) : res (list val) :=
                  match l with
                  | [] => Ok []
                  | x :: r => do x' <- convert x; do r' <- go r; Ok (x' :: r')
                  end) l;
      Ok (VList l')
  | VDict m =>
      do m' <- (fix go (m : list (val * val)) : res (list (val * val)) :=
                  match m with
                  | [] => Ok []
                  | kv :: r => do x' <- convert (snd kv); do r' <- go r; Ok ((fst kv, x') :: r')
                  end) m;
      Ok (VDict m')
  | VOpaque _ => Raise (EOther "ConversionError")
  | VInst _ _ | VDec _ | VEnum _ _ => Raise EUnmodelled
  end.

(** ** Callables *)

Definition cid := nat.

Inductive outcome :=
| Return (v : val)
| RaiseExn (cls msg : str)            (* raise cls(msg) from the body *)
| RaiseTypeErrorInBody (msg : str)    (* raise TypeError(msg) from the body (finding F13) *)
| ReturnFault (code : Z) (msg : str). (* return Fault(code, msg): a Fault object built by user code (with whatever config) *)

(** def f(p1, …, pn [last sg_ndef of them with defaults], *args?, k1[=d], …, **kw?) *)
Record signature := mkSig {
  sg_pos : list str;
  sg_ndef : nat;
  sg_varargs : bool;
  sg_kwonly : list (str * bool);      (* name, has a default *)
  sg_varkw : bool
}.

Definition str_mem (s : str) (l : list str) : bool := existsb (String.eqb s) l.

Definition required_pos (s : signature) : list str :=
  firstn (length (sg_pos s) - sg_ndef s) (sg_pos s).

(** f( *args ) with n arguments *)
Definition binds_pos (s : signature) (n : nat) : bool :=
  (Nat.leb n (length (sg_pos s)) || sg_varargs s)
  && Nat.leb (length (required_pos s)) n
  && forallb (fun kw => snd kw) (sg_kwonly s).

(** f( **kwargs ) with the given keyword names *)
Definition binds_kw (s : signature) (keys : list str) : bool :=
  forallb (fun k => str_mem k (sg_pos s) || str_mem k (map fst (sg_kwonly s)) || sg_varkw s) keys
  && forallb (fun p => str_mem p keys) (required_pos s)
  && forallb (fun kw => snd kw || str_mem (fst kw) keys) (sg_kwonly s).

Fixpoint str_keys (m : list (val * val)) : option (list str) :=
  match m with
  | [] => Some []
  | (VStr k, _) :: r => match str_keys r with Some ks => Some (k :: ks) | None => None end
  | _ => None
  end.

(** [func( *params )] if params is a list, else [func( **params )]: does CPython's argument
    binding succeed?  (a tuple or a mapping with non-string keys after ** is a TypeError) *)
Definition call_binds (s : signature) (params : val) : bool :=
  match params with
  | VList l => binds_pos s (length l)
  | VDict m => match str_keys m with Some ks => binds_kw s ks | None => false end
  | _ => false
  end.

(** ** Registry: the funcs table and the registered instance *)

Inductive attr :=
| ACallable (c : cid)
| AObj (children : list (str * attr))   (* an object with public / private attributes *)
| AData.                                 (* a non-callable attribute without public attributes *)

Record instance := mkInst {
  i_dispatch : option cid;               (* the instance's own _dispatch(method, params), if any *)
  i_attrs : list (str * attr)
}.

Record registry := mkReg {
  r_funcs : list (str * cid);            (* self.funcs *)
  r_instance : option instance           (* self.instance *)
}.

Fixpoint lookup {A} (k : str) (l : list (str * A)) : option A :=
  match l with
  | [] => None
  | (k', a) :: r => if String.eqb k k' then Some a else lookup k r
  end.

(** resolve_dotted_attribute: None stands for AttributeError *)
Fixpoint resolve_segs (a : attr) (segs : list str) : option attr :=
  match segs with
  | [] => Some a
  | s :: r =>
      if starts_with_underscore s then None            (* attempt to access private attribute *)
      else match a with
           | AObj ch => match lookup s ch with Some a' => resolve_segs a' r | None => None end
           | _ => None                                 (* getattr fails *)
           end
  end.

(** ** Events: the invocation log *)

Inductive event :=
| EvCall (c : cid) (args : val)                           (* callable c entered with these arguments *)
| EvEnqueue (dm : option cid) (method : str) (params : val) (cfg : option form).
      (* pool.enqueue(dispatch_method, method, params)  |  pool.enqueue(self._dispatch, method, params, config) *)

(** result of a dispatch: a value, a Fault object (returned, not raised), or a propagating exception *)
Inductive dres :=
| DVal (v : val)
| DFault (code : Z) (msg : str)
| DExn (cls msg : str).

(** the arguments a dispatch function sees: (method, params) *)
Definition dispatch_args (method : str) (params : val) : val := VTuple [VStr method; params].

(** ** Types of the dispatcher's interfaces *)

Inductive validated :=
| Invalid (ft : fault)
| Valid (m : list (val * val)) (method : str) (params : val).

Record server := mkSrv {
  sv_reg : registry;
  sv_pool : bool;              (* a notification pool has been set *)
  sv_jsonclass : bool          (* json_config.use_jsonclass *)
}.

Inductive ureply :=
| UNone                         (* None: a notification *)
| UObj (o : val)
| UList (os : list val)
| UNoMulticall.                 (* raise NoMulticallResult *)

(** outcome of jsonrpclib.loads(data, config) on the body text — a modelled component *)
Inductive parse_outcome :=
| PEmpty               (* data == "": loads returns None without parsing *)
| PError               (* the JSON backend or the class translator raised *)
| PValue (v : val).    (* the parsed (and translated) value *)

Inductive reply :=
| REmpty                        (* "" *)
| ROne (o : val)                (* JSON text of one object *)
| RMany (os : list val).        (* JSON text of an array *)

Section Dispatcher.
  Variable body : cid -> val -> outcome.
  Variable sigs : cid -> signature.

  (** _dispatch, "if func is not None:" — the call and its two guards *)
  Definition call_func (c : cid) (params : val) : dres * list event :=
    if call_binds (sigs c) params then
      match body c params with
      | Return v => (DVal v, [EvCall c params])
      | RaiseTypeErrorInBody m => (DFault (-32602) ("Invalid parameters: " ++ m), [EvCall c params])
      | ReturnFault code m => (DFault code m, [EvCall c params])     (* dumped with the REQUEST's config (jsonrpc.dump) *)
      | RaiseExn cls m =>
          if String.eqb cls "TypeError"
          then (DFault (-32602) ("Invalid parameters: " ++ m), [EvCall c params])
          else (DFault (-32603) ("Server error: raise | " ++ cls ++ ": " ++ m), [EvCall c params])
      end
    else (DFault (-32602) "Invalid parameters: argument mismatch", []).

  Definition unknown_method (method : str) : dres * list event :=
    (DFault (-32601) ("Method " ++ method ++ " not supported."), []).

  (** resolve_dotted_attribute(self.instance, method, True) and what follows *)
  Definition dispatch_resolved (inst : instance) (method : str) (params : val) : dres * list event :=
    match resolve_segs (AObj (i_attrs inst)) (split_dot method) with
    | Some (ACallable c) => call_func c params
    | Some _ => (DFault (-32602) "Invalid parameters: object is not callable", [])
    | None => unknown_method method
    end.

  (** a dispatch function (custom dispatch_method, or the instance's _dispatch) called with (method, params) *)
  Definition call_dispatcher (d : cid) (method : str) (params : val) : dres * list event :=
    let ev := [EvCall d (dispatch_args method params)] in
    match body d (dispatch_args method params) with
    | Return v => (DVal v, ev)
    | RaiseExn cls m => (DExn cls m, ev)
    | RaiseTypeErrorInBody m => (DExn "TypeError" m, ev)
    | ReturnFault code m => (DFault code m, ev)
    end.

  (** SimpleJSONRPCDispatcher._dispatch(method, params, config) *)
  Definition dispatch (reg : registry) (method : str) (params : val) : dres * list event :=
    match lookup method (r_funcs reg) with
    | Some c => call_func c params                                   (* func = self.funcs[method] *)
    | None =>
        match r_instance reg with
        | None => unknown_method method
        | Some inst =>
            match i_dispatch inst with
            | Some d =>
                match call_dispatcher d method params with
                | (DExn cls m, ev) =>
                    if String.eqb cls "AttributeError"               (* except AttributeError: resolve *)
                    then let '(r, ev') := dispatch_resolved inst method params in (r, ev ++ ev')%list
                    else (DExn cls m, ev)
                | other => other                                      (* return getattr(instance, "_dispatch")(method, params) *)
                end
            | None => dispatch_resolved inst method params
            end
        end
    end.

  (** ** validate_request *)


  (** get_version(request) is truthy *)
  Definition has_version (m : list (val * val)) : bool := dhas m "jsonrpc" || dhas m "id".

  Definition request_id (m : list (val * val)) : val :=
    match dget m "id" with Some i => i | None => VNone end.     (* request.get("id", None) *)

  Definition is_param_container (p : val) : bool := is_list p || is_dict p || is_tuple p.

  (** [srvf]: the form of the server's own configuration (Faults of this function carry json_config) *)
  Definition validate_request (srvf : form) (e : val) : validated :=
    match e with
    | VDict m =>
        let rpcid := request_id m in
        if negb (dumpable rpcid)                                   (* repaired (F15): the id must be a JSON value *)
        then Invalid (mkFault (-32600) "Request id invalid." VNone srvf)
        else if negb (has_version m)
        then Invalid (mkFault (-32600) "Request invalid." rpcid srvf)
        else
          let params := match dget m "params" with Some p => p | None => VList [] end in   (* setdefault *)
          match dget m "method" with
          | Some (VStr s) =>
              if negb (String.eqb s "") && is_param_container params
              then Valid m s params
              else Invalid (mkFault (-32600) "Invalid request parameters or method." rpcid srvf)
          | _ => Invalid (mkFault (-32600) "Invalid request parameters or method." rpcid srvf)
          end
    | _ => Invalid (mkFault (-32600) "Request must be a dict" VNone srvf)
    end.

  (** ** _marshaled_single_dispatch *)


  (** "id" not in request or request["id"] in (None, "") *)
  Definition is_notification (m : list (val * val)) : bool :=
    match dget m "id" with
    | None => true
    | Some VNone => true
    | Some (VStr s) => String.eqb s ""
    | Some _ => false
    end.

  (** the request-specific configuration: 1.0 form for a request without "jsonrpc" on a >= 2.0 server *)
  Definition request_form (srvf : form) (m : list (val * val)) : form :=
    if negb (dhas m "jsonrpc") && form_eqb srvf V2 then V1 else srvf.

  (** one execution of the dispatch target: dispatch_method(method, params) or self._dispatch(method, params, config) *)
  Definition run_target (reg : registry) (dm : option cid) (method : str) (params : val) : dres * list event :=
    match dm with
    | Some d => call_dispatcher d method params
    | None => dispatch reg method params
    end.

  (** the body of _marshaled_single_dispatch once the request-specific configuration is chosen;
      [f]: the form (version) of that configuration *)
  Definition single_dispatch_with (f : form) (srv : server) (dm : option cid)
             (m : list (val * val)) (method : str) (params : val) : option val * list event :=
    let notif := is_notification m in
    if notif && sv_pool srv
    then (None, [EvEnqueue dm method params (match dm with Some _ => None | None => Some f end)])
    else
      let '(r, log) := run_target (sv_reg srv) dm method params in
      let rpcid := request_id m in
      match r with
      | DExn cls msg =>
          if notif then (None, log)                                         (* repaired (F2) *)
          else (Some (err_obj f rpcid (-32603) (cls ++ ":" ++ msg)), log)    (* repaired (F1): rpcid kept *)
      | DFault code msg =>
          if notif then (None, log) else (Some (err_obj f rpcid code msg), log)
      | DVal v =>
          if notif then (None, log)
          else match (if sv_jsonclass srv then convert v else Ok v) with
               | Ok v' => (Some (resp_obj f rpcid v'), log)
               | Raise _ => (Some (err_obj f rpcid (-32603) "ConversionError:"), log)   (* repaired (F1) *)
               end
      end.

  Definition single_dispatch (srvf : form) (srv : server) (dm : option cid)
             (m : list (val * val)) (method : str) (params : val) : option val * list event :=
    single_dispatch_with (request_form srvf m) srv dm m method params.

  (** ** _unmarshaled_dispatch *)

  (** one entry: validation, single dispatch, Fault.dump() *)
  Definition answer_entry (srvf : form) (srv : server) (dm : option cid) (e : val) : option val * list event :=
    match validate_request srvf e with
    | Invalid ft => (Some (fault_dump ft), [])
    | Valid m method params => single_dispatch srvf srv dm m method params
    end.

  Definition opt_list {A} (o : option A) : list A := match o with Some x => [x] | None => [] end.

  (** the batch loop: responses appended in entry order, None results skipped *)
  Fixpoint batch (srvf : form) (srv : server) (dm : option cid) (es : list val) : list val * list event :=
    match es with
    | [] => ([], [])
    | e :: r =>
        let '(o, l) := answer_entry srvf srv dm e in
        let '(os, ls) := batch srvf srv dm r in
        ((opt_list o ++ os)%list, (l ++ ls)%list)
    end.


  Definition unmarshaled_dispatch (srvf : form) (srv : server) (dm : option cid) (req : val) : ureply * list event :=
    if negb (truthy req) then (UObj (err_obj srvf VNone (-32600) "Request invalid -- no request data."), [])
    else match req with
         | VList es =>
             let '(os, l) := batch srvf srv dm es in
             (match os with [] => UNoMulticall | _ => UList os end, l)
         | _ =>
             let '(o, l) := answer_entry srvf srv dm req in
             (match o with Some x => UObj x | None => UNone end, l)
         end.

  (** ** _marshaled_dispatch *)


  Definition loads_m (p : parse_outcome) : res val :=
    match p with PEmpty => Ok VNone | PError => Raise EValue | PValue v => Ok v end.


  (** Raise = the exception json.dumps lets escape from _marshaled_dispatch *)
  Definition marshaled_dispatch (srvf : form) (srv : server) (dm : option cid) (p : parse_outcome)
    : res (reply * list event) :=
    match loads_m p with
    | Raise _ => Ok (ROne (err_obj srvf VNone (-32700) "Request invalid."), [])     (* fault.response() *)
    | Ok req =>
        let '(u, l) := unmarshaled_dispatch srvf srv dm req in
        match u with
        | UNone | UNoMulticall => Ok (REmpty, l)
        | UObj o => if dumpable o then Ok (ROne o, l) else Raise EType
        | UList os => if forallb dumpable os then Ok (RMany os, l) else Raise EType
        end
    end.

  (** ** SimpleJSONRPCRequestHandler.do_POST: status and body of the HTTP answer.
      (Reading and decoding the body is the Wire model's business, C17; here the handler is
      entered with the decoded text's parse outcome.)  An exception escaping _marshaled_dispatch
      is answered 500 with a -32603 error object built from the server configuration. *)
  Definition do_post (srvf : form) (srv : server) (dm : option cid) (p : parse_outcome) : Z * reply :=
    match marshaled_dispatch srvf srv dm p with
    | Ok (r, _) => (200, r)
    | Raise _ => (500, ROne (err_obj srvf VNone (-32603) "Server error: exception in the dispatcher"))
    end.

  (** ** Draining the notification pool: every enqueued task executed once, in queue order *)
  Definition drain_event (reg : registry) (ev : event) : list event :=
    match ev with
    | EvEnqueue dm method params _ => snd (run_target reg dm method params)
    | EvCall _ _ => []
    end.

  Definition drain (reg : registry) (log : list event) : list event := flat_map (drain_event reg) log.

End Dispatcher.

(** ** Well-formedness of replies (property C02) — a computable predicate over the reply value *)

Definition keys_within (allowed : list str) (m : list (val * val)) : bool :=
  forallb (fun kv => match fst kv with VStr k => str_mem k allowed | _ => false end) m.

Fixpoint keys_distinct (m : list (val * val)) : bool :=
  match m with
  | [] => true
  | (k, _) :: r => negb (existsb (fun kv => val_eqb (fst kv) k) r) && keys_distinct r
  end.

(** every error is an object with an integer "code" and a string "message" *)
Definition wf_error (e : val) : bool :=
  match e with
  | VDict em =>
      match dget em "code", dget em "message" with
      | Some (VInt _), Some (VStr _) => keys_within ["code"; "message"; "data"] em && keys_distinct em
      | _, _ => false
      end
  | _ => false
  end.

Definition wf_obj (o : val) : bool :=
  match o with
  | VDict m =>
      keys_distinct m &&
      match dget m "jsonrpc" with
      | Some j =>                     (* 2.0: "jsonrpc":"2.0", an "id", exactly one of "result"/"error" *)
          val_eqb j (VStr "2.0") && dhas m "id" && keys_within ["jsonrpc"; "id"; "result"; "error"] m
          && match dget m "result", dget m "error" with
             | Some _, None => true
             | None, Some e => wf_error e
             | _, _ => false
             end
      | None =>                       (* 1.0: "result", "error" and "id"; error null on success, result null on failure *)
          dhas m "id" && keys_within ["id"; "result"; "error"] m
          && match dget m "error", dget m "result" with
             | Some VNone, Some _ => true
             | Some e, Some VNone => wf_error e
             | _, _ => false
             end
      end
  | _ => false
  end.

Definition wf_reply (r : reply) : bool :=
  match r with
  | REmpty => true
  | ROne o => wf_obj o
  | RMany os => match os with [] => false | _ => forallb wf_obj os end
  end.

(** ** Specification vocabulary shared by C03 / C04 / C05 / C13 (independent of the functions above) *)

(** a well-formed request: an object with a version marker, a non-empty string method,
    params absent or a list / object, and an id that is a JSON value *)
Definition wellformed_entry (e : val) : bool :=
  match e with
  | VDict m =>
      (dhas m "jsonrpc" || dhas m "id")
      && match dget m "id" with Some i => dumpable i | None => true end
      && match dget m "method" with Some (VStr s) => negb (String.eqb s "") | _ => false end
      && match dget m "params" with Some p => is_list p || is_dict p || is_tuple p | None => true end
  | _ => false
  end.

(** id absent, null or "" *)
Definition no_id (e : val) : bool :=
  match e with
  | VDict m => match dget m "id" with
               | None | Some VNone => true
               | Some (VStr s) => String.eqb s ""
               | Some _ => false
               end
  | _ => true
  end.

Definition is_notification_entry (e : val) : bool := wellformed_entry e && no_id e.

(** entries that must be answered: everything but well-formed notifications *)
Definition expects_answer (e : val) : bool := negb (is_notification_entry e).

(** the id a response to entry [e] must carry: the entry's id, or null when it has no usable one *)
Definition usable_id (e : val) : val :=
  match e with
  | VDict m => match dget m "id" with Some i => if dumpable i then i else VNone | None => VNone end
  | _ => VNone
  end.

Definition reply_id (o : val) : option val :=
  match o with VDict m => dget m "id" | _ => None end.

Definition reply_code (o : val) : option val :=
  match o with
  | VDict m => match dget m "error" with
               | Some (VDict em) => dget em "code"
               | _ => None
               end
  | _ => None
  end.

Definition reply_message (o : val) : option val :=
  match o with
  | VDict m => match dget m "error" with
               | Some (VDict em) => dget em "message"
               | _ => None
               end
  | _ => None
  end.

(** form of a reply object: it has a "jsonrpc" member or not *)
Definition reply_form (o : val) : option form :=
  match o with
  | VDict m => Some (if dhas m "jsonrpc" then V2 else V1)
  | _ => None
  end.

Definition method_of (e : val) : option str :=
  match e with VDict m => match dget m "method" with Some (VStr s) => Some s | _ => None end | _ => None end.

Definition params_of (e : val) : val :=
  match e with VDict m => match dget m "params" with Some p => p | None => VList [] end | _ => VList [] end.

Definition has_underscore_segment (method : str) : bool :=
  existsb starts_with_underscore (split_dot method).

(** number of entries of callable [c] in a log *)
Definition calls_of (c : cid) (log : list event) : nat :=
  length (filter (fun ev => match ev with EvCall c' _ => Nat.eqb c c' | _ => false end) log).

Definition is_call (ev : event) : bool := match ev with EvCall _ _ => true | _ => false end.

(** ** Observation interface for the correspondence stage *)

(** behaviours of generated callables (the [body] table of a case) *)
Inductive behaviour :=
| BReturn (v : val)
| BEcho                         (* returns its arguments *)
| BRaise (cls msg : str)
| BTypeErr (msg : str)
| BFault (code : Z) (msg : str).  (* returns jsonrpclib.Fault(code, msg) built with the default config *)

Record cdesc := mkC { cd_sig : signature; cd_beh : behaviour }.

(** how the generated callables see (and log) their arguments: f( *l ) as [l, {}], f( **m ) as [[], m],
    a dispatch function's (method, params) as [method, params] *)
Definition echo_val (args : val) : val :=
  match args with
  | VList l => VList [VList l; VDict []]
  | VDict m => VList [VList []; VDict m]
  | VTuple l => VList l
  | _ => args
  end.

Definition body_of (t : list cdesc) (c : cid) (args : val) : outcome :=
  match nth_error t c with
  | Some d => match cd_beh d with
              | BReturn v => Return v
              | BEcho => Return (echo_val args)
              | BRaise cls m => RaiseExn cls m
              | BTypeErr m => RaiseTypeErrorInBody m
              | BFault code m => ReturnFault code m
              end
  | None => RaiseExn "NoSuchCallable" ""
  end.

Definition default_sig : signature := mkSig [] 0 true [] true.

Definition sigs_of (t : list cdesc) (c : cid) : signature :=
  match nth_error t c with Some d => cd_sig d | None => default_sig end.

(** the (class, text) pairs the generated callables raise: a message is observed as the list of
    booleans "mentions class_i and text_i" — no wording enters the observation *)
Definition raisers (t : list cdesc) : list (str * str) :=
  flat_map (fun d => match cd_beh d with BRaise c m => [(c, m)] | BTypeErr m => [("TypeError", m)] | _ => [] end) t.

Definition msg_flags (rs : list (str * str)) (msg : val) : val :=
  match msg with
  | VStr s => VList (map (fun cm => VBool (substrb (fst cm) s && substrb (snd cm) s)) rs)
  | _ => VStr "message is not a string"
  end.

(** a reply object with the wording of error.message replaced by its flags *)
Definition obs_obj (rs : list (str * str)) (o : val) : val :=
  match o with
  | VDict m =>
      match dget m "error" with
      | Some (VDict em) =>
          match dget em "message" with
          | Some msg => VDict (dset m (VStr "error") (VDict (dset em (VStr "message") (msg_flags rs msg))))
          | None => o
          end
      | _ => o
      end
  | _ => o
  end.

Inductive oreply := OEmpty | OOne (o : val) | OMany (os : list val) | ORaised.

Definition obs_reply (rs : list (str * str)) (r : res (reply * list event)) : oreply :=
  match r with
  | Ok (REmpty, _) => OEmpty
  | Ok (ROne o, _) => OOne (norm (obs_obj rs o))
  | Ok (RMany os, _) => OMany (map (fun o => norm (obs_obj rs o)) os)
  | Raise _ => ORaised
  end.

Definition oreply_eqb (a b : oreply) : bool :=
  match a, b with
  | OEmpty, OEmpty | ORaised, ORaised => true
  | OOne x, OOne y => val_sim x y
  | OMany x, OMany y => list_eqb val_sim x y
  | _, _ => false
  end.

Definition option_eqb {A} (eqb : A -> A -> bool) (a b : option A) : bool :=
  match a, b with Some x, Some y => eqb x y | None, None => true | _, _ => false end.

Definition event_eqb (a b : event) : bool :=
  match a, b with
  | EvCall c x, EvCall c' y => Nat.eqb c c' && val_sim x y
  | EvEnqueue d m p f, EvEnqueue d' m' p' f' =>
      option_eqb Nat.eqb d d' && String.eqb m m' && val_sim p p' && option_eqb form_eqb f f'
  | _, _ => false
  end.

Definition obs_event (ev : event) : event :=
  match ev with EvCall c a => EvCall c (echo_val a) | _ => ev end.

(** multiset equality of logs (pool workers may run drained tasks in any order) *)
Fixpoint remove_first (ev : event) (l : list event) : option (list event) :=
  match l with
  | [] => None
  | x :: r => if event_eqb ev x then Some r
              else match remove_first ev r with Some r' => Some (x :: r') | None => None end
  end.

Fixpoint log_perm (a b : list event) : bool :=
  match a with
  | [] => match b with [] => true | _ => false end
  | x :: r => match remove_first x b with Some b' => log_perm r b' | None => false end
  end.

Record dcase := mkCase {
  dc_form : form;                    (* server version *)
  dc_jsonclass : bool;
  dc_table : list cdesc;
  dc_reg : registry;
  dc_pool : bool;
  dc_dm : option cid;
  dc_input : parse_outcome;
  dc_reply : oreply;                 (* implementation: the reply, canonicalised *)
  dc_log : list event;               (* implementation: events during the dispatch, in order *)
  dc_drained : list event            (* implementation: invocations observed while draining the pool *)
}.

Definition model_run (c : dcase) : res (reply * list event) :=
  marshaled_dispatch (body_of (dc_table c)) (sigs_of (dc_table c)) (dc_form c)
                     (mkSrv (dc_reg c) (dc_pool c) (dc_jsonclass c)) (dc_dm c) (dc_input c).

(** the log of a run that raised is not observable through the result; the harness only
    produces such cases outside the property domain and then checks the reply alone *)
Definition dispatch_check (c : dcase) : bool :=
  let r := model_run c in
  oreply_eqb (obs_reply (raisers (dc_table c)) r) (dc_reply c)
  && match r with
     | Ok (_, log) =>
         list_eqb event_eqb (map obs_event log) (dc_log c)
         && log_perm (map obs_event (drain (body_of (dc_table c)) (sigs_of (dc_table c)) (dc_reg c) log)) (dc_drained c)
     | Raise _ => true
     end.

(** do_POST: the same case plus the HTTP status the implementation answered with *)
Definition http_check (cs : dcase * Z) : bool :=
  let '(c, status) := cs in
  let '(st, r) := do_post (body_of (dc_table c)) (sigs_of (dc_table c)) (dc_form c)
                          (mkSrv (dc_reg c) (dc_pool c) (dc_jsonclass c)) (dc_dm c) (dc_input c) in
  Z.eqb st status
  && oreply_eqb (obs_reply (raisers (dc_table c)) (Ok (r, []))) (dc_reply c)
  && match model_run c with
     | Ok (_, log) => list_eqb event_eqb (map obs_event log) (dc_log c)
     | Raise _ => true
     end.
